(* Traversal (qtreetbl_getnext) and nearest-key search (qtreetbl_find_nearest) of the concrete tree table:
   lemmas for properties C03 and C04.
   Part 1: the loop machine `mstep` of QTree.v.  Visiting the subtree below the cursor yields, in order, the
   nodes reachable through nodes that do not carry the current stamp (`vis`), stamps exactly them, leaves the
   parent links outside the subtree alone, comes back to the parent link of the subtree's root and needs fewer
   than 3*size iterations (port and generalisation of notes/proto_Walk.v: the prototype's `walk_all` is the
   case "nothing is stamped", where `vis u = ids u`). *)
From Coq Require Import NArith PArith List Bool Lia Arith FMapPositive Permutation.
From QV.Base Require Import Res.
From QV.Tree Require Import TreeModel TreeLlrb QTree TreeSpec QTreeProofs TreeIds.
Import ListNotations.

Definition ids (t : tree node) : list positive := map nid (elements t).
Lemma ids_node c l x r : ids (T c l x r) = ids l ++ nid x :: ids r.
Proof. unfold ids. cbn [elements]. rewrite map_app. reflexivity. Qed.
Lemma ids_length t : length (ids t) = size t.
Proof. unfold ids. rewrite map_length. symmetry. apply size_elements. Qed.

Definition inb (j : positive) (l : list positive) : bool := existsb (Pos.eqb j) l.
Lemma inb_true j l : inb j l = true <-> In j l.
Proof. unfold inb. rewrite existsb_exists. split.
  - intros (x & H & E). apply Pos.eqb_eq in E. subst. exact H.
  - intros H. exists j. split; [exact H|apply Pos.eqb_refl]. Qed.
Lemma inb_false j l : inb j l = false <-> ~ In j l.
Proof. rewrite <- inb_true. destruct (inb j l); split; congruence. Qed.
Lemma inb_app j a b : inb j (a ++ b) = inb j a || inb j b.
Proof. unfold inb. apply existsb_app. Qed.

Lemma tid_of_add tm c v j : tid_of (PM.add c v tm) j = if Pos.eqb j c then v else tid_of tm j.
Proof. unfold tid_of. destruct (Pos.eqb_spec j c) as [->|Hn].
  - rewrite PM.gss. reflexivity.
  - rewrite PM.gso by exact Hn. reflexivity. Qed.

Lemma nodup_node c l x r : NoDup (ids (T c l x r)) ->
  NoDup (ids l) /\ NoDup (ids r) /\ ~ In (nid x) (ids l) /\ ~ In (nid x) (ids r) /\ (forall j, In j (ids l) -> ~ In j (ids r)).
Proof. rewrite ids_node. intros H. pose proof (NoDup_remove_1 _ _ _ H) as H1. pose proof (NoDup_remove_2 _ _ _ H) as H2.
  assert (H0 : NoDup (ids l) /\ NoDup (ids r) /\ forall j, In j (ids l) -> ~ In j (ids r)).
  { clear H H2. induction (ids l) as [|a t IH]; cbn in *; [repeat split; auto; constructor|].
    inversion H1 as [|? ? H2 H3]; subst. destruct (IH H3) as (A & B & C). repeat split; auto.
    - constructor; auto. intros Hin; apply H2; apply in_or_app; auto.
    - intros j [<-|Hj]; [intros Hin; apply H2; apply in_or_app; auto | auto]. }
  destruct H0 as (A & B & C). repeat split; auto; intros Hin; apply H2; apply in_or_app; auto. Qed.
Lemma rootid_in v j : rootid v = Some j -> In j (ids v).
Proof. destruct v as [|c l x r]; cbn [rootid]; [discriminate|]. intros H; inversion H; subst. rewrite ids_node. apply in_or_app; right; left; reflexivity. Qed.

(* ------------------------------------------------------------------------------------------------------ *)
Section Machine.
Variable t : tree node.     (* the whole tree: `lookup t` resolves node ids *)
Variable tid : N.           (* the stamp of the traversal in progress *)
Local Notation mstep := (mstep t tid).

(* run n loop iterations, collecting the nodes handed to the caller; successive getnext calls simply continue
   this machine, because the cursor handed back is the node just yielded *)
Fixpoint runm (n : nat) (m : mst) : list positive * mst :=
  match n with
  | O => ([], m)
  | S n' => match mstep m with
            | (Move, m') => runm n' m'
            | (Yield i, m') => let (ys, m'') := runm n' m' in (i :: ys, m'')
            | (Done, m') => ([], m')
            | (Bad, m') => ([], m')
            end
  end.

Lemma mstep_done m m' : mstep m = (Done, m') -> m' = m /\ forall k, runm k m = ([], m).
Proof. intros H. assert (H0 : m' = m /\ mstep m = (Done, m)).
  { unfold QTree.mstep in *. destruct (cur m); [|inversion H; auto]. destruct (lookup t p) as [[[x lo] ro]|]; [|discriminate].
    destruct (unst tid m lo); [discriminate|]. destruct (negb (tid_of (mtids m) p =? tid)%N); [discriminate|].
    destruct (unst tid m ro); discriminate. }
  destruct H0 as [-> H1]. split; auto. intros [|k]; cbn [runm]; [reflexivity|]. rewrite H1. reflexivity. Qed.
Lemma mstep_bad m m' : mstep m = (Bad, m') -> m' = m /\ forall k, runm k m = ([], m).
Proof. intros H. assert (H0 : m' = m /\ mstep m = (Bad, m)).
  { unfold QTree.mstep in *. destruct (cur m); [|discriminate]. destruct (lookup t p) as [[[x lo] ro]|]; [|inversion H; auto].
    destruct (unst tid m lo); [discriminate|]. destruct (negb (tid_of (mtids m) p =? tid)%N); [discriminate|].
    destruct (unst tid m ro); discriminate. }
  destruct H0 as [-> H1]. split; auto. intros [|k]; cbn [runm]; [reflexivity|]. rewrite H1. reflexivity. Qed.

Lemma runm_app n : forall k m, runm (n + k) m =
  let (ys, m') := runm n m in let (zs, m'') := runm k m' in (ys ++ zs, m'').
Proof. induction n as [|n IH]; intros k m; cbn [plus runm].
  - destruct (runm k m); reflexivity.
  - destruct (mstep m) as [[| i | |] m1] eqn:E.
    + apply IH.
    + rewrite IH. destruct (runm n m1) as [ys m']. destruct (runm k m') as [zs m'']. reflexivity.
    + destruct (mstep_done _ _ E) as [-> Hd]. rewrite Hd. reflexivity.
    + destruct (mstep_bad _ _ E) as [-> Hd]. rewrite Hd. reflexivity.
Qed.
Lemma runm_seq n k m ys m1 zs m2 : runm n m = (ys, m1) -> runm k m1 = (zs, m2) -> runm (n + k) m = (ys ++ zs, m2).
Proof. intros H1 H2. rewrite runm_app, H1, H2. reflexivity. Qed.

(* `lookup t` agrees with the shape u on every node of u *)
Fixpoint wfv (u : tree node) : Prop :=
  match u with E => True | T _ l x r => lookup t (nid x) = Some (x, rootid l, rootid r) /\ wfv l /\ wfv r end.

(* stamped with the current epoch / root of a subtree present and not stamped *)
Definition st (tm : PM.t N) (j : positive) : bool := (tid_of tm j =? tid)%N.
Definition ust (tm : PM.t N) (u : tree node) : bool := match u with E => false | T _ _ x _ => negb (st tm (nid x)) end.
Lemma unst_ust m u : unst tid m (rootid u) = ust (mtids m) u.
Proof. destruct u; reflexivity. Qed.

(* the nodes a visit of subtree u hands out, in this order, when the stamps are tm *)
Fixpoint vis (tm : PM.t N) (u : tree node) : list positive :=
  match u with
  | E => []
  | T _ l x r => (if ust tm l then vis tm l else []) ++ (if st tm (nid x) then [] else [nid x]) ++ (if ust tm r then vis tm r else [])
  end.
Definition visc (tm : PM.t N) (u : tree node) : list positive := if ust tm u then vis tm u else [].
Lemma vis_node tm c l x r : vis tm (T c l x r) = visc tm l ++ (if st tm (nid x) then [] else [nid x]) ++ visc tm r.
Proof. reflexivity. Qed.

Lemma vis_in tm u j : In j (vis tm u) -> In j (ids u) /\ st tm j = false.
Proof. induction u as [|c l IHl x r IHr]; [intros []|]. rewrite vis_node, ids_node. unfold visc. intros H.
  apply in_app_or in H as [H|H]; [|apply in_app_or in H as [H|H]].
  - destruct (ust tm l); [|destruct H]. destruct (IHl H). split; auto. apply in_or_app; auto.
  - destruct (st tm (nid x)) eqn:S; [destruct H|]. destruct H as [<-|[]]. split; auto. apply in_or_app; right; left; auto.
  - destruct (ust tm r); [|destruct H]. destruct (IHr H). split; auto. apply in_or_app; right; right; auto. Qed.
Lemma visc_in tm u j : In j (visc tm u) -> In j (ids u) /\ st tm j = false.
Proof. unfold visc. destruct (ust tm u); [apply vis_in|intros []]. Qed.
Lemma vis_root tm c l x r : st tm (nid x) = false -> In (nid x) (vis tm (T c l x r)).
Proof. intros H. rewrite vis_node, H. apply in_or_app; right. left. reflexivity. Qed.
Lemma vis_ext tm tm' u : (forall j, In j (ids u) -> tid_of tm j = tid_of tm' j) -> vis tm u = vis tm' u.
Proof. induction u as [|c l IHl x r IHr]; [reflexivity|]. rewrite ids_node. intros H. cbn [vis].
  assert (Hl : forall j, In j (ids l) -> tid_of tm j = tid_of tm' j) by (intros; apply H; apply in_or_app; auto).
  assert (Hr : forall j, In j (ids r) -> tid_of tm j = tid_of tm' j) by (intros; apply H; apply in_or_app; right; right; auto).
  assert (Hx : st tm (nid x) = st tm' (nid x)) by (unfold st; rewrite H; [reflexivity|apply in_or_app; right; left; auto]).
  assert (Ul : ust tm l = ust tm' l). { destruct l as [|cl ll lx lr]; [reflexivity|]. cbn [ust]. unfold st. rewrite Hl; [reflexivity|]. apply rootid_in. reflexivity. }
  assert (Ur : ust tm r = ust tm' r). { destruct r as [|cr rl rx rr]; [reflexivity|]. cbn [ust]. unfold st. rewrite Hr; [reflexivity|]. apply rootid_in. reflexivity. }
  rewrite Ul, Ur, Hx, (IHl Hl), (IHr Hr). reflexivity. Qed.
Lemma ust_ext tm tm' u : (forall j, In j (ids u) -> tid_of tm j = tid_of tm' j) -> ust tm u = ust tm' u.
Proof. intros H. destruct u as [|c l x r]; [reflexivity|]. cbn [ust]. unfold st. rewrite H; [reflexivity|]. apply rootid_in. reflexivity. Qed.
Lemma visc_ext tm tm' u : (forall j, In j (ids u) -> tid_of tm j = tid_of tm' j) -> visc tm u = visc tm' u.
Proof. intros H. unfold visc. rewrite (ust_ext _ _ _ H), (vis_ext _ _ _ H). reflexivity. Qed.
Lemma vis_all tm u : (forall j, In j (ids u) -> st tm j = false) -> vis tm u = ids u.
Proof. induction u as [|c l IHl x r IHr]; [reflexivity|]. rewrite ids_node. intros H. cbn [vis].
  assert (Hl : forall j, In j (ids l) -> st tm j = false) by (intros; apply H; apply in_or_app; auto).
  assert (Hr : forall j, In j (ids r) -> st tm j = false) by (intros; apply H; apply in_or_app; right; right; auto).
  rewrite (H (nid x)) by (apply in_or_app; right; left; auto). rewrite (IHl Hl), (IHr Hr).
  assert (Ul : (if ust tm l then ids l else []) = ids l).
  { destruct l as [|cl ll lx lr]; [reflexivity|]. cbn [ust]. rewrite Hl; [reflexivity|]. apply rootid_in. reflexivity. }
  assert (Ur : (if ust tm r then ids r else []) = ids r).
  { destruct r as [|cr rl rx rr]; [reflexivity|]. cbn [ust]. rewrite Hr; [reflexivity|]. apply rootid_in. reflexivity. }
  rewrite Ul, Ur. reflexivity. Qed.
Lemma vis_length tm u : length (vis tm u) <= size u.
Proof. induction u as [|c l IHl x r IHr]; [apply Nat.le_refl|]. cbn [vis size]. rewrite !app_length.
  destruct (ust tm l), (st tm (nid x)), (ust tm r); cbn [length]; lia. Qed.
Lemma visc_length tm u : length (visc tm u) <= size u.
Proof. unfold visc. destruct (ust tm u); [apply vis_length|cbn; lia]. Qed.

(* the stamps after a piece of the run: exactly the nodes ys received the current stamp *)
Definition stamps (m m' : mst) (ys : list positive) : Prop :=
  forall j, tid_of (mtids m') j = if inb j ys then tid else tid_of (mtids m) j.
Lemma stamps_nil m : stamps m m [].
Proof. intros j. reflexivity. Qed.
Lemma stamps_app m m1 m2 a b : stamps m m1 a -> stamps m1 m2 b -> stamps m m2 (a ++ b).
Proof. intros H1 H2 j. rewrite H2, H1, inb_app. destruct (inb j a), (inb j b); reflexivity. Qed.
Lemma stamps_out m m' ys j : stamps m m' ys -> ~ In j ys -> tid_of (mtids m') j = tid_of (mtids m) j.
Proof. intros H Hj. rewrite H. apply inb_false in Hj. rewrite Hj. reflexivity. Qed.
Lemma stamps_in m m' ys j : stamps m m' ys -> In j ys -> st (mtids m') j = true.
Proof. intros H Hj. unfold st. rewrite H. apply inb_true in Hj. rewrite Hj. apply N.eqb_refl. Qed.
Lemma stamps_mono m m' ys j : stamps m m' ys -> st (mtids m) j = true -> st (mtids m') j = true.
Proof. unfold st. intros H Hj. rewrite H. destruct (inb j ys); [apply N.eqb_refl|exact Hj]. Qed.
Lemma stamps_ust m m' ys u : stamps m m' ys -> ust (mtids m) u = false -> ust (mtids m') u = false.
Proof. destruct u as [|c l x r]; [reflexivity|]. cbn [ust]. intros H Hu. apply negb_false_iff in Hu. apply negb_false_iff. eapply stamps_mono; eauto. Qed.

(* visiting the subtree u from its root i *)
Definition walk_spec (u : tree node) : Prop :=
  forall m i, rootid u = Some i -> wfv u -> NoDup (ids u) -> cur m = Some i ->
    exists n m', runm n m = (vis (mtids m) u, m') /\ cur m' = PM.find i (mnexts m) /\
      stamps m m' (vis (mtids m) u) /\
      (forall j, j = i \/ ~ In j (ids u) -> PM.find j (mnexts m') = PM.find j (mnexts m)) /\
      n + 1 <= 3 * size u.

(* descent into an unstamped child v of node c, and back at c *)
Lemma via_child v c m :
  (v <> E -> walk_spec v) -> wfv v -> NoDup (ids v) -> ust (mtids m) v = true ->
  exists n m', runm n (go_child m c (rootid v)) = (vis (mtids m) v, m') /\ cur m' = Some c /\
    stamps m m' (vis (mtids m) v) /\
    (forall j, ~ In j (ids v) -> PM.find j (mnexts m') = PM.find j (mnexts m)) /\
    ust (mtids m') v = false /\ n + 1 <= 3 * size v.
Proof.
  intros IH Hwf Hnd Hu. destruct v as [|cv vl vx vr]; [discriminate|]. cbn [rootid go_child].
  set (m1 := mkMst (Some (nid vx)) (mtids m) (PM.add (nid vx) c (mnexts m))).
  destruct (IH ltac:(discriminate) m1 (nid vx) eq_refl Hwf Hnd eq_refl) as (n & m' & Hrun & Hcur & Hst & Hnx & Hn).
  change (mtids m1) with (mtids m) in *.
  exists n, m'. split; [exact Hrun|]. split; [|split; [|split; [|split]]].
  - rewrite Hcur. cbn [mnexts m1]. apply PM.gss.
  - exact Hst.
  - intros j Hj. rewrite Hnx by (right; exact Hj). cbn [mnexts m1]. apply PM.gso. intros ->. apply Hj. apply rootid_in. reflexivity.
  - cbn [ust] in *. apply negb_true_iff in Hu. apply negb_false_iff. apply (stamps_in _ _ _ _ Hst). apply vis_root. exact Hu.
  - exact Hn.
Qed.

(* at node x: the left child, if it is there and not stamped *)
Lemma do_left c l x r m :
  (l <> E -> walk_spec l) -> wfv (T c l x r) -> NoDup (ids (T c l x r)) -> cur m = Some (nid x) ->
  exists n m', runm n m = (visc (mtids m) l, m') /\ cur m' = Some (nid x) /\ stamps m m' (visc (mtids m) l) /\
    (forall j, ~ In j (ids l) -> PM.find j (mnexts m') = PM.find j (mnexts m)) /\
    ust (mtids m') l = false /\ n <= 3 * size l.
Proof.
  intros IH (Hv & Hwl & _) Hnd Hcur. destruct (nodup_node _ _ _ _ Hnd) as (Hndl & _ & _ & _ & _).
  unfold visc. destruct (ust (mtids m) l) eqn:U.
  - destruct (via_child l (nid x) m IH Hwl Hndl U) as (n & m' & Hrun & Hc & Hst & Hnx & Hu & Hn).
    exists (S n), m'. split; [|repeat split; auto; lia].
    cbn [runm]. unfold QTree.mstep. rewrite Hcur, Hv, unst_ust, U. exact Hrun.
  - exists 0, m. repeat split; auto using stamps_nil. lia.
Qed.

(* at node x whose left child needs no visit: x itself, the right child, and up *)
Lemma do_rest c l x r m :
  (r <> E -> walk_spec r) -> wfv (T c l x r) -> NoDup (ids (T c l x r)) -> cur m = Some (nid x) ->
  ust (mtids m) l = false ->
  exists n m', runm n m = ((if st (mtids m) (nid x) then [] else [nid x]) ++ visc (mtids m) r, m') /\
    cur m' = PM.find (nid x) (mnexts m) /\
    stamps m m' ((if st (mtids m) (nid x) then [] else [nid x]) ++ visc (mtids m) r) /\
    (forall j, ~ In j (ids r) -> PM.find j (mnexts m') = PM.find j (mnexts m)) /\
    st (mtids m') (nid x) = true /\
    n <= (if ust (mtids m) r then 3 * size r else 0) + 2.
Proof.
  intros IH (Hv & _ & Hwr) Hnd Hcur Hl. destruct (nodup_node _ _ _ _ Hnd) as (_ & Hndr & _ & Hir & _).
  (* B: x itself *)
  assert (HB : exists nB mB, runm nB m = ((if st (mtids m) (nid x) then [] else [nid x]), mB) /\ cur mB = Some (nid x) /\
             mnexts mB = mnexts m /\ stamps m mB (if st (mtids m) (nid x) then [] else [nid x]) /\
             st (mtids mB) (nid x) = true /\ nB <= 1).
  { destruct (st (mtids m) (nid x)) eqn:S.
    - exists 0, m. repeat split; auto using stamps_nil.
    - exists 1, (mkMst (Some (nid x)) (PM.add (nid x) tid (mtids m)) (mnexts m)). split; [|split; [|split; [|split; [|split]]]]; auto.
      + cbn [runm]. unfold QTree.mstep. rewrite Hcur, Hv, unst_ust, Hl. unfold st in S. rewrite S. reflexivity.
      + intros j. cbn [mtids]. rewrite tid_of_add. unfold inb. cbn [existsb]. rewrite orb_false_r. reflexivity.
      + unfold st. cbn [mtids]. rewrite tid_of_add, Pos.eqb_refl. apply N.eqb_refl. }
  destruct HB as (nB & mB & HrB & HcB & HnB & HsB & HxB & HnB1).
  assert (HlB : ust (mtids mB) l = false) by (eapply stamps_ust; eauto).
  assert (Hsame : forall j, In j (ids r) -> tid_of (mtids mB) j = tid_of (mtids m) j).
  { intros j Hj. apply (stamps_out _ _ _ _ HsB). destruct (st (mtids m) (nid x)); [intros []|]. intros [<-|[]]. contradiction. }
  (* C: the right child *)
  assert (HC : exists nC mC, runm nC mB = (visc (mtids mB) r, mC) /\ cur mC = Some (nid x) /\ stamps mB mC (visc (mtids mB) r) /\
             (forall j, ~ In j (ids r) -> PM.find j (mnexts mC) = PM.find j (mnexts mB)) /\
             ust (mtids mC) r = false /\ nC <= (if ust (mtids mB) r then 3 * size r else 0)).
  { unfold visc. destruct (ust (mtids mB) r) eqn:U.
    - destruct (via_child r (nid x) mB IH Hwr Hndr U) as (n & m' & Hrun & Hc & Hst & Hnx & Hu & Hn).
      exists (S n), m'. split; [|repeat split; auto; lia].
      cbn [runm]. unfold QTree.mstep. rewrite HcB, Hv, !unst_ust, HlB, U. unfold st in HxB. rewrite HxB. exact Hrun.
    - exists 0, mB. repeat split; auto using stamps_nil. }
  destruct HC as (nC & mC & HrC & HcC & HsC & HnC & HuC & HnC1).
  (* D: up *)
  assert (HD : QTree.mstep t tid mC = (Move, mkMst (PM.find (nid x) (mnexts mC)) (mtids mC) (mnexts mC))).
  { unfold QTree.mstep. rewrite HcC, Hv, !unst_ust, HuC. rewrite (stamps_ust _ _ _ _ HsC HlB).
    pose proof (stamps_mono _ _ _ _ HsC HxB) as Hx. unfold st in Hx. rewrite Hx. reflexivity. }
  rewrite <- (visc_ext _ _ _ Hsame). rewrite <- (ust_ext _ _ _ Hsame).
  exists (nB + (nC + 1)), (mkMst (PM.find (nid x) (mnexts mC)) (mtids mC) (mnexts mC)).
  split; [|split; [|split; [|split; [|split]]]].
  - eapply runm_seq; [exact HrB|]. rewrite <- (app_nil_r (visc (mtids mB) r)). eapply runm_seq; [exact HrC|].
    cbn [runm]. rewrite HD. reflexivity.
  - cbn [cur]. rewrite HnC by exact Hir. rewrite HnB. reflexivity.
  - intros j. cbn [mtids]. revert j. apply (stamps_app _ _ _ _ _ HsB HsC).
  - intros j Hj. cbn [mnexts]. rewrite HnC by exact Hj. rewrite HnB. reflexivity.
  - cbn [mtids]. eapply stamps_mono; eauto.
  - lia.
Qed.

Theorem walk_all u : u <> E -> walk_spec u.
Proof.
  induction u as [|c l IHl x r IHr]; [congruence|]. intros _ m i Hrid Hwf Hnd Hcur.
  cbn [rootid] in Hrid. inversion Hrid; subst i; clear Hrid.
  destruct (nodup_node _ _ _ _ Hnd) as (Hndl & Hndr & Hil & Hir & Hdis).
  destruct (do_left c l x r m IHl Hwf Hnd Hcur) as (nA & mA & HrA & HcA & HsA & HnA & HuA & HnA1).
  destruct (do_rest c l x r mA IHr Hwf Hnd HcA HuA) as (nR & mR & HrR & HcR & HsR & HnR & HxR & HnR1).
  assert (Hx : st (mtids mA) (nid x) = st (mtids m) (nid x)).
  { unfold st. rewrite (stamps_out _ _ _ _ HsA); [reflexivity|]. intros Hin. apply visc_in in Hin as [Hin _]. contradiction. }
  assert (Hr : visc (mtids mA) r = visc (mtids m) r).
  { apply visc_ext. intros j Hj. apply (stamps_out _ _ _ _ HsA). intros Hin. apply visc_in in Hin as [Hin _]. exact (Hdis _ Hin Hj). }
  rewrite Hx, Hr in HrR, HsR. rewrite vis_node.
  exists (nA + nR), mR. split; [|split; [|split; [|split]]].
  - eapply runm_seq; eauto.
  - rewrite HcR. apply HnA. exact Hil.
  - eapply stamps_app; eauto.
  - intros j Hj.
    assert (~ In j (ids r)). { destruct Hj as [->|Hj]; [exact Hir|]. intros Hin; apply Hj; rewrite ids_node; apply in_or_app; right; right; exact Hin. }
    assert (~ In j (ids l)). { destruct Hj as [->|Hj]; [exact Hil|]. intros Hin; apply Hj; rewrite ids_node; apply in_or_app; left; exact Hin. }
    rewrite HnR by assumption. apply HnA; assumption.
  - cbn [size]. destruct (ust (mtids mA) r); lia.
Qed.

(* the unconditional forms of the three pieces *)
Lemma walk_sub u m i : rootid u = Some i -> wfv u -> NoDup (ids u) -> cur m = Some i ->
  exists n m', runm n m = (vis (mtids m) u, m') /\ cur m' = PM.find i (mnexts m) /\
    stamps m m' (vis (mtids m) u) /\
    (forall j, j = i \/ ~ In j (ids u) -> PM.find j (mnexts m') = PM.find j (mnexts m)) /\
    n + 1 <= 3 * size u.
Proof. intros H. apply (walk_all u); [destruct u; [discriminate|congruence]|exact H]. Qed.
Definition left_part c l x r m := do_left c l x r m (walk_all l).
Definition rest_part c l x r m := do_rest c l x r m (walk_all r).
End Machine.

(* ------------------------------------------------------------------------------------------------------ *)
(* Part 2: node ids in the tree; the identity / traversal-state invariant *)
Lemma lookup_none u i : ~ In i (ids u) -> lookup u i = None.
Proof. induction u as [|c l IHl x r IHr]; [reflexivity|]. rewrite ids_node. intros H. cbn [lookup].
  destruct (Pos.eqb_spec (nid x) i) as [e|_]; [exfalso; apply H; apply in_or_app; right; left; exact e|].
  rewrite IHl, IHr; auto; intros Hin; apply H; apply in_or_app; [right; right|left]; auto. Qed.
Lemma lookup_some u i : In i (ids u) -> exists y, lookup u i = Some y.
Proof. induction u as [|c l IHl x r IHr]; [intros []|]. rewrite ids_node. intros H. cbn [lookup].
  destruct (Pos.eqb_spec (nid x) i) as [_|Hn]; [eexists; reflexivity|].
  apply in_app_or in H as [H|[H|H]].
  - destruct (IHl H) as [y ->]. eexists; reflexivity.
  - contradiction.
  - destruct (lookup l i); [eexists; reflexivity|]. apply IHr; auto. Qed.
Lemma lookup_in u i y : lookup u i = Some y -> In i (ids u).
Proof. intros H. destruct (in_dec Pos.eq_dec i (ids u)) as [Hi|Hi]; [exact Hi|]. rewrite (lookup_none _ _ Hi) in H. discriminate. Qed.
Lemma lookup_left c l x r i : NoDup (ids (T c l x r)) -> In i (ids l) -> lookup (T c l x r) i = lookup l i.
Proof. intros Hnd Hi. destruct (nodup_node _ _ _ _ Hnd) as (_ & _ & Hxl & _ & _). cbn [lookup].
  destruct (Pos.eqb_spec (nid x) i) as [<-|_]; [contradiction|]. destruct (lookup_some _ _ Hi) as [y ->]. reflexivity. Qed.
Lemma lookup_right c l x r i : NoDup (ids (T c l x r)) -> In i (ids r) -> lookup (T c l x r) i = lookup r i.
Proof. intros Hnd Hi. destruct (nodup_node _ _ _ _ Hnd) as (_ & _ & _ & Hxr & Hd). cbn [lookup].
  destruct (Pos.eqb_spec (nid x) i) as [<-|_]; [contradiction|]. rewrite lookup_none; [reflexivity|]. intros Hl. exact (Hd _ Hl Hi). Qed.
Lemma wfv_lift t t' u : (forall i, In i (ids u) -> lookup t' i = lookup t i) -> wfv t u -> wfv t' u.
Proof. induction u as [|c l IHl x r IHr]; [auto|]. rewrite ids_node. cbn [wfv]. intros H (H1 & H2 & H3). split; [|split].
  - rewrite H; [exact H1|]. apply in_or_app; right; left; auto.
  - apply IHl; auto. intros; apply H; apply in_or_app; auto.
  - apply IHr; auto. intros; apply H; apply in_or_app; right; right; auto. Qed.
(* every node object is found under its id, with the ids of its children *)
Theorem lookup_sub t : NoDup (ids t) -> wfv t t.
Proof. induction t as [|c l IHl x r IHr]; [intros; exact I|]. intros Hnd.
  destruct (nodup_node _ _ _ _ Hnd) as (Hl & Hr & _). cbn [wfv]. split; [|split].
  - cbn [lookup]. rewrite Pos.eqb_refl. reflexivity.
  - apply (wfv_lift l); [|auto]. intros i Hi. apply lookup_left; auto.
  - apply (wfv_lift r); [|auto]. intros i Hi. apply lookup_right; auto. Qed.
Definition getn (t : tree node) (i : positive) : option node := match lookup t i with Some (x, _, _) => Some x | None => None end.
Lemma wfv_getn t u x : wfv t u -> In x (elements u) -> getn t (nid x) = Some x.
Proof. induction u as [|c l IHl y r IHr]; [intros _ []|]. cbn [wfv elements]. intros (H1 & H2 & H3) H.
  apply in_app_or in H as [H|[<-|H]]; auto. unfold getn. rewrite H1. reflexivity. Qed.
Lemma getn_elem t x : NoDup (ids t) -> In x (elements t) -> getn t (nid x) = Some x.
Proof. intros H. apply wfv_getn. apply lookup_sub. exact H. Qed.

Local Open Scope N_scope.
Definition IdInv (s : tbl) : Prop :=
  NoDup (ids (root s)) /\ (forall j, In j (ids (root s)) -> (j < nextid s)%positive) /\
  1 <= ttid s <= 255 /\ (forall j, tid_of (tids s) j <= ttid s) /\
  (forall j, (nextid s <= j)%positive -> tid_of (tids s) j = 0).
(* no node of the table carries the current stamp *)
Definition Clean (s : tbl) : Prop := forall j, In j (ids (root s)) -> tid_of (tids s) j <> ttid s.

Lemma IdInv_init : IdInv init.
Proof. unfold IdInv, init. cbn [root nextid ttid tids ids elements map]. split; [constructor|]. split; [intros j []|]. split; [lia|].
  split; intros j; unfold tid_of; rewrite PM.gempty; [lia|reflexivity]. Qed.
Lemma Clean_init : Clean init.
Proof. intros j []. Qed.

Lemma reset_root s : root (reset_iter s) = root s.
Proof. unfold reset_iter. destruct ((ttid s + 1) mod 256 =? 0); reflexivity. Qed.
Lemma reset_num s : num (reset_iter s) = num s.
Proof. unfold reset_iter. destruct ((ttid s + 1) mod 256 =? 0); reflexivity. Qed.
Lemma reset_nextid s : nextid (reset_iter s) = nextid s.
Proof. unfold reset_iter. destruct ((ttid s + 1) mod 256 =? 0); reflexivity. Qed.
Lemma reset_nexts s : nexts (reset_iter s) = match rootid (root s) with Some r => PM.remove r (nexts s) | None => nexts s end.
Proof. unfold reset_iter. destruct ((ttid s + 1) mod 256 =? 0); reflexivity. Qed.
(* after reset_iterator() every stamp is older than the sequencer *)
Lemma reset_lt s : IdInv s -> forall j, tid_of (tids (reset_iter s)) j < ttid (reset_iter s).
Proof. intros (_ & _ & Ht & Hle & _) j. unfold reset_iter. destruct ((ttid s + 1) mod 256 =? 0) eqn:E; cbn [tids ttid].
  - unfold tid_of. rewrite PM.gempty. lia.
  - apply N.eqb_neq in E. specialize (Hle j). assert (ttid s + 1 < 256) by (destruct (N.eq_dec (ttid s) 255) as [e|]; [rewrite e in E; exfalso; apply E; reflexivity|lia]).
    rewrite N.mod_small by lia. lia. Qed.
Lemma reset_inv s : IdInv s -> IdInv (reset_iter s) /\ Clean (reset_iter s).
Proof. intros HI. pose proof (reset_lt s HI) as Hlt. destruct HI as (Hnd & Hlt' & Ht & Hle & Hf).
  split; [|intros j _; specialize (Hlt j); lia].
  unfold IdInv. rewrite reset_root, reset_nextid. split; [exact Hnd|]. split; [exact Hlt'|]. split; [|split].
  - unfold reset_iter. destruct ((ttid s + 1) mod 256 =? 0) eqn:E; cbn [ttid]; [lia|]. apply N.eqb_neq in E.
    pose proof (N.mod_upper_bound (ttid s + 1) 256 ltac:(lia)) as HH. set (x := (ttid s + 1) mod 256) in *. clearbody x. lia.
  - intros j. specialize (Hlt j). lia.
  - intros j Hj. unfold reset_iter. destruct ((ttid s + 1) mod 256 =? 0); cbn [tids]; [unfold tid_of; rewrite PM.gempty; reflexivity|auto]. Qed.

(* stamps change only on nodes of the tree, and only to the stamp of the traversal *)
Definition tids_step (t : tree node) (tid : N) (tm tm' : PM.t N) : Prop :=
  forall j, tid_of tm' j = tid_of tm j \/ (tid_of tm' j = tid /\ In j (ids t)).
Lemma tids_step_refl t tid tm : tids_step t tid tm tm.
Proof. intros j. left. reflexivity. Qed.
Lemma tids_step_trans t tid a b c : tids_step t tid a b -> tids_step t tid b c -> tids_step t tid a c.
Proof. intros H1 H2 j. destruct (H2 j) as [E|E]; [rewrite E; apply H1|right; exact E]. Qed.
Lemma mstep_tids t tid m a m' : mstep t tid m = (a, m') -> tids_step t tid (mtids m) (mtids m').
Proof. unfold mstep. destruct (cur m) as [c|]; [|intros H; inversion H; apply tids_step_refl].
  destruct (lookup t c) as [[[x lo] ro]|] eqn:L; [|intros H; inversion H; apply tids_step_refl].
  destruct (unst tid m lo). { intros H; inversion H. destruct lo; apply tids_step_refl. }
  destruct (negb (tid_of (mtids m) c =? tid)).
  { intros H; inversion H. cbn [mtids]. intros j. rewrite tid_of_add. destruct (Pos.eqb_spec j c) as [->|]; [right|left; reflexivity].
    split; [reflexivity|]. eapply lookup_in; eauto. }
  destruct (unst tid m ro); intros H; inversion H; [destruct ro|]; apply tids_step_refl. Qed.
Lemma gn_loop_tids t tid : forall f m r m', gn_loop f t tid m = Ok (r, m') -> tids_step t tid (mtids m) (mtids m').
Proof. induction f as [|f IH]; intros m r m' H; [discriminate|]. cbn [gn_loop] in H.
  destruct (mstep t tid m) as [[| i | |] m1] eqn:E; try discriminate.
  - eapply tids_step_trans; [eapply mstep_tids; eauto|eapply IH; eauto].
  - inversion H; subst. eapply mstep_tids; eauto.
  - inversion H; subst. eapply mstep_tids; eauto. Qed.
Lemma idinv_stamp s tm nx : IdInv s -> tids_step (root s) (ttid s) (tids s) tm ->
  IdInv (mkTbl (root s) (num s) (ttid s) (nextid s) tm nx).
Proof. intros (Hnd & Hlt & Ht & Hle & Hf) Hs. unfold IdInv. cbn [root nextid ttid tids]. repeat split; auto; try lia.
  - intros j. destruct (Hs j) as [E|[E _]]; rewrite E; [apply Hle|lia].
  - intros j Hj. destruct (Hs j) as [E|[_ Hin]]; [rewrite E; auto|]. apply Hlt in Hin. lia. Qed.

(* one call of getnext: the first call of a walk is a call on the reset table with the cursor at the root *)
Lemma qgetnext_first s ct : root s <> E ->
  qgetnext s (ct, None) =
  match qgetnext (reset_iter s) (ttid (reset_iter s), rootid (root s)) with
  | Ok (s', c', Some kv) => Ok (s', c', Some kv)
  | Ok (s', c', None) => Ok (s', (fst c', None), None)
  | Crash => Crash | Fuel => Fuel
  end.
Proof. intros HR. unfold qgetnext. cbn [fst snd]. destruct (root s) as [|c l x r] eqn:R; [congruence|].
  cbn [rootid fst snd]. rewrite !reset_root, !R. cbn [rootid fst snd].
  destruct (gn_loop (gn_fuel (reset_iter s)) (T c l x r) (ttid (reset_iter s))
     (mkMst (Some (nid x)) (tids (reset_iter s)) (nexts (reset_iter s)))) as [[[i|] m]| |]; cbn [bind fst snd]; try reflexivity.
  destruct (lookup (T c l x r) i) as [[[y lo] ro]|]; reflexivity. Qed.

Lemma qgetnext_cont_inv s tid i s' c' r : qgetnext s (tid, Some i) = Ok (s', c', r) -> IdInv s -> tid = ttid s ->
  IdInv s' /\ root s' = root s /\ num s' = num s /\ nextid s' = nextid s /\
  match r with Some _ => snd c' <> None /\ fst c' = ttid s' | None => Clean s' end.
Proof. unfold qgetnext. cbn [fst snd]. intros H HI ->. apply bind_ok in H as ([o m] & Hg & H). cbn [fst snd] in H.
  apply gn_loop_tids in Hg. cbn [mtids] in Hg.
  pose proof (idinv_stamp s (mtids m) (mnexts m) HI Hg) as HI2.
  destruct o as [j|].
  - destruct (lookup (root s) j) as [[[y lo] ro]|]; [|discriminate]. inversion H; subst. cbn [root num nextid ttid fst snd].
    split; [exact HI2|]. repeat split; auto; try discriminate.
  - inversion H; subst. destruct (reset_inv _ HI2) as (HI3 & HC). rewrite reset_root, reset_num, reset_nextid.
    split; [exact HI3|]. split; [reflexivity|]. split; [reflexivity|]. split; [reflexivity|exact HC]. Qed.

Lemma qgetnext_inv s c s' c' r : qgetnext s c = Ok (s', c', r) -> IdInv s -> (snd c <> None -> fst c = ttid s) ->
  IdInv s' /\ root s' = root s /\ num s' = num s /\ nextid s' = nextid s /\
  match r with Some _ => snd c' <> None /\ fst c' = ttid s' | None => Clean s' end.
Proof. destruct c as [ct [i|]]; cbn [fst snd]; intros H HI Hc.
  - eapply qgetnext_cont_inv; eauto. apply Hc. discriminate.
  - destruct (root s) as [|cl l x rr] eqn:R.
    + unfold qgetnext in H. cbn [snd] in H. rewrite R in H. inversion H; subst. split; [exact HI|]. split; [auto|]. split; [reflexivity|]. split; [reflexivity|]. intros j. rewrite R. intros [].
    + rewrite qgetnext_first in H by (rewrite R; discriminate).
      destruct (qgetnext (reset_iter s) (ttid (reset_iter s), rootid (root s))) as [[[s1 c1] r1]| |] eqn:Q; try discriminate.
      rewrite R in Q. cbn [rootid] in Q. destruct (reset_inv _ HI) as (HI1 & _).
      destruct (qgetnext_cont_inv _ _ _ _ _ _ Q HI1 eq_refl) as (A & B & C & D & F).
      rewrite reset_root in B. rewrite reset_num in C. rewrite reset_nextid in D.
      destruct r1 as [kv|]; inversion H; subst; (split; [exact A|]; split; [congruence|]; split; [exact C|]; split; [exact D|]; exact F). Qed.

Lemma walk_n_inv : forall n s c acc s' l e, walk_n n s c acc = Ok (s', l, e) -> IdInv s -> (snd c <> None -> fst c = ttid s) ->
  IdInv s' /\ root s' = root s /\ num s' = num s /\ nextid s' = nextid s /\ (e = true -> Clean s').
Proof. induction n as [|n IH]; intros s c acc s' l e H HI Hc; cbn [walk_n] in H.
  - inversion H; subst. split; [exact HI|]. repeat split; auto. discriminate.
  - apply bind_ok in H as ([[s1 c1] r1] & Q & H). destruct (qgetnext_inv _ _ _ _ _ Q HI Hc) as (A & B & C & D & F).
    destruct r1 as [kv|].
    + destruct F as (F1 & F2). destruct (IH _ _ _ _ _ _ H A (fun _ => F2)) as (A' & B' & C' & D' & F').
      split; [exact A'|]. repeat split; auto; congruence.
    + inversion H; subst. split; [exact A|]. repeat split; auto. Qed.

(* ------------------------------------------------------------------------------------------------------ *)
(* Part 3: calls of getnext versus the run of the machine *)
Local Close Scope N_scope.
Lemma gn_loop_mono t tid : forall f f' m r, gn_loop f t tid m = Ok r -> f <= f' -> gn_loop f' t tid m = Ok r.
Proof. induction f as [|f IH]; intros f' m r H Hf; [discriminate|]. destruct f' as [|f']; [lia|]. cbn [gn_loop] in *.
  destruct (mstep t tid m) as [[| | |] m1]; auto. apply IH; auto. lia. Qed.
Lemma mstep_yield_cur t tid m i m1 : mstep t tid m = (Yield i, m1) -> cur m1 = Some i.
Proof. unfold mstep. destruct (cur m) as [c|]; [|discriminate]. destruct (lookup t c) as [[[x lo] ro]|]; [|discriminate].
  destruct (unst tid m lo); [discriminate|]. destruct (negb (tid_of (mtids m) c =? tid)%N); [intros H; inversion H; reflexivity|].
  destruct (unst tid m ro); discriminate. Qed.
(* the call that hands out the first node of the run *)
Lemma runm_first t tid : forall n m i ys m', runm t tid n m = (i :: ys, m') ->
  exists n1 n2 m1, gn_loop n1 t tid m = Ok (Some i, m1) /\ runm t tid n2 m1 = (ys, m') /\ n1 + n2 <= n /\ cur m1 = Some i.
Proof. induction n as [|n IH]; intros m i ys m' H; [discriminate|]. cbn [runm] in H.
  destruct (mstep t tid m) as [[|j| |] m1] eqn:E; try discriminate.
  - destruct (IH _ _ _ _ H) as (n1 & n2 & m2 & A & B & C & D). exists (S n1), n2, m2. cbn [gn_loop]. rewrite E. repeat split; auto. lia.
  - destruct (runm t tid n m1) as [zs m2] eqn:R. inversion H; subst. exists 1, n, m1. cbn [gn_loop]. rewrite E.
    repeat split; auto. eapply mstep_yield_cur; eauto. Qed.
(* the call that reports the end *)
Lemma runm_last t tid : forall n m m', runm t tid n m = ([], m') -> cur m' = None -> gn_loop (S n) t tid m = Ok (None, m').
Proof. induction n as [|n IH]; intros m m' H Hc.
  - cbn in H. inversion H; subst. cbn [gn_loop]. unfold mstep. rewrite Hc. reflexivity.
  - cbn [runm] in H. destruct (mstep t tid m) as [[|j| |] m1] eqn:E.
    + change (gn_loop (S (S n)) t tid m) with (match mstep t tid m with (Move, m2) => gn_loop (S n) t tid m2 | (Yield i, m2) => Ok (Some i, m2) | (Done, m2) => Ok (None, m2) | (Bad, _) => Crash end).
      rewrite E. apply IH; auto.
    + destruct (runm t tid n m1); discriminate.
    + inversion H; subst. change (gn_loop (S (S n)) t tid m) with (match mstep t tid m with (Move, m2) => gn_loop (S n) t tid m2 | (Yield i, m2) => Ok (Some i, m2) | (Done, m2) => Ok (None, m2) | (Bad, _) => Crash end).
      rewrite E. reflexivity.
    + inversion H; subst. destruct (mstep_bad _ _ _ _ E) as [-> _]. unfold mstep in E. rewrite Hc in E. discriminate. Qed.

Lemma walk_n_run : forall xs n s tid i acc m' N,
  runm (root s) tid N (mkMst (Some i) (tids s) (nexts s)) = (map nid xs, m') -> cur m' = None -> N + 1 <= gn_fuel s ->
  Forall (fun x => getn (root s) (nid x) = Some x) xs ->
  exists s', walk_n n s (tid, Some i) acc = Ok (s', rev acc ++ map kv (firstn n xs), Nat.ltb (length xs) n).
Proof. induction xs as [|x xs IH]; intros n s tid i acc m' N Hrun Hc HN Hx.
  - destruct n as [|n]; [eexists; cbn [walk_n firstn map]; rewrite app_nil_r; reflexivity|].
    cbn [walk_n]. unfold qgetnext. cbn [fst snd map] in *.
    rewrite (gn_loop_mono _ _ (S N) (gn_fuel s) _ _ (runm_last _ _ _ _ _ Hrun Hc)) by lia. cbn [bind fst snd].
    eexists. rewrite app_nil_r. reflexivity.
  - destruct n as [|n]; [eexists; cbn [walk_n firstn map]; rewrite app_nil_r; reflexivity|].
    cbn [map] in Hrun. destruct (runm_first _ _ _ _ _ _ _ Hrun) as (n1 & n2 & m1 & Hg & Hr2 & Hn & Hc1).
    inversion Hx as [|? ? Hx1 Hx2]; subst.
    cbn [walk_n]. unfold qgetnext. cbn [fst snd].
    rewrite (gn_loop_mono _ _ n1 (gn_fuel s) _ _ Hg) by lia. cbn [bind fst snd].
    unfold getn in Hx1. destruct (lookup (root s) (nid x)) as [[[y lo] ro]|]; [|discriminate]. inversion Hx1; subst y.
    set (s2 := mkTbl (root s) (num s) (ttid s) (nextid s) (mtids m1) (mnexts m1)).
    assert (Hm1 : mkMst (Some (nid x)) (tids s2) (nexts s2) = m1) by (destruct m1; cbn in *; subst; reflexivity).
    destruct (IH n s2 tid (nid x) (kv x :: acc) m' n2) as (s' & Hw); auto.
    + rewrite Hm1. exact Hr2.
    + unfold gn_fuel in *. cbn [root s2]. lia.
    + exists s'. change (nkey x, nval x) with (kv x). cbn [bind]. rewrite Hw. cbn [rev firstn map length]. rewrite <- app_assoc. reflexivity.
Qed.

(* ------------------------------------------------------------------------------------------------------ *)
Section Iter.
Variable kcmp : list N -> list N -> comparison.
Hypothesis kcmp_trans : forall a b c, kcmp a b = Lt -> kcmp b c = Lt -> kcmp a c = Lt.
Hypothesis kcmp_antisym : forall a b, kcmp a b = CompOpp (kcmp b a).
Hypothesis kcmp_eq_l : forall a b c, kcmp a b = Eq -> kcmp a c = kcmp b c.
Local Notation ncmp := (ncmp kcmp).
Local Notation Inv := (Inv kcmp).
Local Notation nt := (ncmp_trans kcmp kcmp_trans).
Local Notation na := (ncmp_antisym kcmp kcmp_antisym).
Local Notation ne := (ncmp_eq_l kcmp kcmp_eq_l).

Lemma Inv_same s s' : root s' = root s -> num s' = num s -> Inv s -> Inv s'.
Proof. unfold QTreeProofs.Inv. intros -> ->. auto. Qed.

(* ---- the map operations keep the identity invariant ---- *)
Lemma put_idinv s k v s' b : qput kcmp s k v = Ok (s', b) -> Inv s -> IdInv s -> IdInv s' /\ (Clean s -> Clean s').
Proof. unfold qput. destruct k as [|k0 k]. { intros H; inversion H; subst; auto. }
  intros H ((_ & _ & Hs) & _) (Hnd & Hlt & Ht & Hle & Hf). apply bind_ok in H as (t' & Htp & H). inversion H; subst s' b; clear H.
  pose proof (tput_elems_exact node ncmp nrepl nt ne _ _ _ Htp Hs) as He.
  set (n := mkNode (nextid s) (k0 :: k) v) in *.
  assert (Hids : ids t' = ids (root s) \/ exists l1 l2, ids (root s) = l1 ++ l2 /\ ids t' = l1 ++ nextid s :: l2).
  { unfold ids. rewrite He. apply (insr_ids node ncmp nrepl positive nid (fun _ _ => eq_refl) n). }
  assert (Hnew : ~ In (nextid s) (ids (root s))) by (intros Hin; apply Hlt in Hin; lia).
  assert (Hin : forall j, In j (ids t') -> j = nextid s \/ In j (ids (root s))).
  { intros j Hj. destruct Hids as [E|(l1 & l2 & E1 & E2)]; [rewrite E in Hj; auto|]. rewrite E2 in Hj. rewrite E1.
    apply in_app_or in Hj as [Hj|[Hj|Hj]]; auto; right; apply in_or_app; auto. }
  split.
  - unfold IdInv. cbn [root nextid ttid tids]. split; [|split; [|split; [exact Ht|split; [exact Hle|]]]].
    + destruct Hids as [E|(l1 & l2 & E1 & E2)]; [rewrite E; exact Hnd|]. rewrite E2.
      apply (NoDup_Add (Add_app (nextid s) l1 l2)). rewrite <- E1. auto.
    + intros j Hj. apply Hin in Hj as [->|Hj]; [lia|]. apply Hlt in Hj. lia.
    + intros j Hj. apply Hf. lia.
  - intros HC j Hj. cbn [root tids ttid] in *. apply Hin in Hj as [->|Hj]; [|auto]. rewrite Hf by lia. lia.
Qed.

Lemma remove_idinv s k s' b : qremove kcmp s k = Ok (s', b) -> IdInv s -> IdInv s' /\ (Clean s -> Clean s').
Proof. unfold qremove. intros H (Hnd & Hlt & Ht & Hle & Hf). apply bind_ok in H as ([t' b'] & Htr & H). inversion H; subst; clear H. cbn [fst snd].
  pose proof (tremove_ids node ncmp nmerge positive nid (fun _ _ => eq_refl) _ _ _ _ Htr) as Hc.
  fold (ids (root s)) (ids t') in Hc. pose proof (cut_incl _ _ _ Hc) as Hi. split.
  - unfold IdInv. cbn [root nextid ttid tids]. split; [eapply cut_nodup; eauto|]. split; [intros j Hj; apply Hlt; apply Hi; exact Hj|]. auto.
  - intros HC j Hj. cbn [root tids ttid] in *. apply HC. apply Hi. exact Hj.
Qed.

(* ---- C03: a walk started with a zeroed cursor ---- *)
Lemma walk_first n s acc : root s <> E ->
  walk_n (S n) s cursor0 acc = walk_n (S n) (reset_iter s) (ttid (reset_iter s), rootid (root s)) acc.
Proof. intros HR. cbn [walk_n]. unfold cursor0. rewrite (qgetnext_first s 0%N HR).
  destruct (qgetnext (reset_iter s) (ttid (reset_iter s), rootid (root s))) as [[[s1 c1] [kv1|]]| |]; reflexivity. Qed.

Theorem fresh_walk_seq s n : Inv s -> IdInv s ->
  exists s', walk_n n s cursor0 [] = Ok (s', firstn n (abs s), Nat.ltb (length (abs s)) n) /\
    root s' = root s /\ num s' = num s /\ nextid s' = nextid s /\ Inv s' /\ IdInv s' /\
    (Nat.ltb (length (abs s)) n = true -> Clean s') /\ (n = 0 -> s' = s).
Proof. intros HInv HI.
  assert (Hex : exists s', walk_n n s cursor0 [] = Ok (s', firstn n (abs s), Nat.ltb (length (abs s)) n) /\ (n = 0 -> s' = s)).
  { destruct n as [|n]; [exists s; split; reflexivity|].
    destruct (root s) as [|c l x r] eqn:R.
    - exists s. split; [|discriminate]. cbn [walk_n]. unfold qgetnext, cursor0. cbn [snd]. rewrite R. cbn [bind]. unfold abs. rewrite R. reflexivity.
    - rewrite walk_first by (rewrite R; discriminate). set (s1 := reset_iter s).
      assert (R1 : root s1 = T c l x r) by (unfold s1; rewrite reset_root; exact R).
      pose proof HI as (Hnd & _). rewrite R in Hnd.
      set (m := mkMst (Some (nid x)) (tids s1) (nexts s1)).
      destruct (walk_sub (T c l x r) (ttid s1) (T c l x r) m (nid x) eq_refl (lookup_sub _ Hnd) Hnd eq_refl) as (N & m' & Hrun & Hc & _ & _ & HN).
      assert (Hv : vis (ttid s1) (mtids m) (T c l x r) = ids (T c l x r)).
      { apply vis_all. intros j _. unfold st. cbn [mtids m]. apply N.eqb_neq. pose proof (reset_lt s HI j). fold s1 in H. lia. }
      rewrite Hv in Hrun.
      assert (Hc0 : cur m' = None).
      { rewrite Hc. cbn [mnexts m]. unfold s1. rewrite reset_nexts, R. cbn [rootid]. apply PM.grs. }
      destruct (walk_n_run (elements (T c l x r)) (S n) s1 (ttid s1) (nid x) [] m' N) as (s' & Hw).
      + rewrite R1. exact Hrun.
      + exact Hc0.
      + unfold gn_fuel. rewrite R1. lia.
      + rewrite R1. apply Forall_forall. intros y Hy. apply getn_elem; auto.
      + exists s'. split; [|discriminate]. rewrite R. cbn [rootid]. rewrite Hw. unfold abs. rewrite R, firstn_map, map_length. reflexivity. }
  destruct Hex as (s' & Hw & H0). exists s'. split; [exact Hw|].
  destruct (walk_n_inv _ _ _ _ _ _ _ Hw HI ltac:(intros H; exfalso; apply H; reflexivity)) as (A & B & C & D & F).
  split; [exact B|]. split; [exact C|]. split; [exact D|]. split; [eapply Inv_same; eauto|]. split; [exact A|]. split; [exact F|exact H0].
Qed.

(* ---- C04: the nearest-key search ---- *)
(* the floor of k in a sorted node list / along the search path of a tree *)
Fixpoint lfloor (k : node) (l : list node) (best : option node) : option node :=
  match l with [] => best | a :: r => match ncmp k a with Lt => best | Eq => Some a | Gt => lfloor k r (Some a) end end.
Fixpoint tfloor (t : tree node) (k : node) (best : option node) : option node :=
  match t with E => best | T _ l x r => match ncmp k x with Eq => Some x | Lt => tfloor l k best | Gt => tfloor r k (Some x) end end.
Lemma map_lfloor k l : forall best, option_map kv (lfloor (probe k) l best) = sfloor kcmp k (map kv l) (option_map kv best).
Proof. induction l as [|a l IH]; intros best; [reflexivity|]. cbn [lfloor map sfloor]. unfold kv at 2. unfold QTree.ncmp at 1. cbn [probe nkey].
  destruct (kcmp k (nkey a)); [reflexivity|reflexivity|]. rewrite IH. reflexivity. Qed.
Lemma lfloor_app_lt k a A0 B : ncmp k a = Lt -> forall best, lfloor k (A0 ++ a :: B) best = lfloor k A0 best.
Proof. intros H. induction A0 as [|z A0 IH]; intros best; cbn [app lfloor]; [rewrite H; reflexivity|]. destruct (ncmp k z); auto. Qed.
Lemma lfloor_app_ge k a A0 B b2 : Forall (fun z => ncmp k z = Gt) A0 -> ncmp k a <> Lt -> forall b1, lfloor k (A0 ++ a :: B) b1 = lfloor k (a :: B) b2.
Proof. intros HF Ha. induction HF as [|z A0 Hz _ IH]; intros b1.
  - cbn [app lfloor]. destruct (ncmp k a); [reflexivity|congruence|reflexivity].
  - cbn [app lfloor]. rewrite Hz. apply IH. Qed.
Lemma tfloor_spec t k : sorted node ncmp (elements t) -> forall best, tfloor t k best = lfloor k (elements t) best.
Proof. induction t as [|c l IHl x r IHr]; [reflexivity|]. cbn [elements tfloor]. intros Hs best.
  destruct (sorted_app _ _ _ _ _ Hs) as (Sl & Sr & Fl & Fr). destruct (ncmp k x) eqn:Hc.
  - rewrite (lfloor_app_ge k x _ _ best) by (try apply (below_gt node ncmp nt ne k x); auto; congruence). cbn [lfloor]. rewrite Hc. reflexivity.
  - rewrite lfloor_app_lt by auto. auto.
  - rewrite (lfloor_app_ge k x _ _ best) by (try apply (below_gt node ncmp nt ne k x); auto; congruence). cbn [lfloor]. rewrite Hc. auto.
Qed.
Lemma tfloor_best k : forall u b1, tfloor u k b1 = match tfloor u k None with Some y => Some y | None => b1 end.
Proof. induction u as [|c l IHl x r IHr]; intros b1; [reflexivity|]. cbn [tfloor]. destruct (ncmp k x); [reflexivity|apply IHl|].
  rewrite (IHr (Some x)). destruct (tfloor r k None); reflexivity. Qed.

Lemma tfloor_lt k c l x r b : ncmp k x = Lt -> tfloor (T c l x r) k b = tfloor l k b.
Proof. intros H. cbn [tfloor]. rewrite H. reflexivity. Qed.
Lemma tfloor_gt k c l x r b : ncmp k x = Gt -> tfloor (T c l x r) k b = tfloor r k (Some x).
Proof. intros H. cbn [tfloor]. rewrite H. reflexivity. Qed.

(* parent links: the root of v points to p / the links from node i up to the root of the subtree are the true parents *)
Definition linkok (nx : PM.t positive) (v : tree node) (p : positive) : Prop :=
  match v with E => False | T _ _ y _ => PM.find (nid y) nx = Some p end.
Inductive plink (nx : PM.t positive) : tree node -> positive -> Prop :=
| pl_here c l x r : plink nx (T c l x r) (nid x)
| pl_left c l x r i : plink nx l i -> linkok nx l (nid x) -> plink nx (T c l x r) i
| pl_right c l x r i : plink nx r i -> linkok nx r (nid x) -> plink nx (T c l x r) i.

(* the climb from the last node z of an unsuccessful descent in subtree u *)
Definition climbs (t : tree node) (k : node) (nx' : PM.t positive) (z : node) (u : tree node) : Prop :=
  match tfloor u k None with
  | Some y => In y (elements u) /\ plink nx' u (nid y) /\
              exists d, 1 <= d <= size u /\ forall f, fn_climb kcmp (f + d) t k nx' (Some (nid z)) = Ok (Some (nid y))
  | None => hd_error (elements u) = Some z /\
            exists d, 1 <= d <= size u /\ forall f ri, rootid u = Some ri ->
              fn_climb kcmp (f + d) t k nx' (Some (nid z)) = fn_climb kcmp f t k nx' (PM.find ri nx')
  end.

Lemma hd_app_some (A0 B : list node) z : hd_error A0 = Some z -> hd_error (A0 ++ B) = Some z.
Proof. destruct A0; [discriminate|auto]. Qed.

Lemma descend_spec t k : forall u nx last found last' nx',
  fn_descend kcmp u k nx last = (found, last', nx') -> wfv t u -> NoDup (ids u) ->
  (forall j, ~ In j (ids u) \/ rootid u = Some j -> PM.find j nx' = PM.find j nx) /\
  match found with
  | Some i => plink nx' u i /\ exists x, i = nid x /\ In x (elements u) /\ forall best, tfloor u k best = Some x
  | None => match u with
            | E => last' = last
            | _ => exists z, last' = Some (nid z) /\ In z (elements u) /\ plink nx' u (nid z) /\ climbs t k nx' z u
            end
  end.
Proof.
  induction u as [|c l IHl x r IHr]; intros nx last found last' nx' H Hwf Hnd.
  { cbn in H. inversion H; subst. split; [auto|reflexivity]. }
  cbn [fn_descend] in H. destruct Hwf as (Hv & Hwl & Hwr).
  destruct (nodup_node _ _ _ _ Hnd) as (Hndl & Hndr & Hxl & Hxr & Hdis).
  assert (Hxin : In x (elements (T c l x r))) by (cbn [elements]; apply in_or_app; right; left; reflexivity).
  destruct (ncmp k x) eqn:Hc.
  - inversion H; subst. split; [auto|]. split; [constructor|]. exists x. split; [reflexivity|]. split; [exact Hxin|].
    intros best. cbn [tfloor]. rewrite Hc. reflexivity.
  - destruct (IHl _ _ _ _ _ H Hwl Hndl) as (L1 & L2). clear IHl IHr.
    assert (L1u : forall j, ~ In j (ids (T c l x r)) \/ rootid (T c l x r) = Some j -> PM.find j nx' = PM.find j nx).
    { intros j Hj. assert (Hjl : ~ In j (ids l)).
      { destruct Hj as [Hj|Hj]; [intros Hin; apply Hj; rewrite ids_node; apply in_or_app; auto|]. cbn in Hj. inversion Hj; subst. exact Hxl. }
      rewrite L1 by (left; exact Hjl). destruct l as [|cl ll lx lr]; [reflexivity|]. cbn [rootid]. apply PM.gso. intros ->. apply Hjl. apply rootid_in. reflexivity. }
    assert (Hlk : l <> E -> linkok nx' l (nid x)).
    { destruct l as [|cl ll lx lr]; [congruence|]. intros _. cbn [linkok]. rewrite L1 by (right; reflexivity). cbn [rootid]. apply PM.gss. }
    split; [exact L1u|]. destruct found as [i|].
    + destruct L2 as (P & y & -> & Hy & Hb). split; [apply pl_left; auto; apply Hlk; intros ->; inversion P|].
      exists y. split; [reflexivity|]. split; [cbn [elements]; apply in_or_app; auto|]. intros best. cbn [tfloor]. rewrite Hc. apply Hb.
    + destruct l as [|cl ll lx lr].
      * subst last'. exists x. split; [reflexivity|]. split; [exact Hxin|]. split; [constructor|]. unfold climbs. cbn [tfloor]. rewrite Hc. cbn [tfloor].
        split; [reflexivity|]. exists 1. split; [cbn [size]; lia|]. intros f ri Hri. inversion Hri; subst ri. rewrite Nat.add_1_r. cbn [fn_climb]. rewrite Hv, Hc. reflexivity.
      * destruct L2 as (z & -> & Hz & Pz & Cl). specialize (Hlk ltac:(discriminate)).
        exists z. split; [reflexivity|]. split; [cbn [elements]; apply in_or_app; auto|]. split; [apply pl_left; auto|].
        unfold climbs in *. rewrite (tfloor_lt _ _ _ _ _ _ Hc). destruct (tfloor (T cl ll lx lr) k None) as [y|].
        -- destruct Cl as (Hy & Py & d & Hd & Hf). split; [cbn [elements]; apply in_or_app; auto|]. split; [apply pl_left; auto|].
           exists d. split; [cbn [size] in *; lia|exact Hf].
        -- destruct Cl as (Hhd & d & Hd & Hf). split; [cbn [elements]; apply hd_app_some; exact Hhd|].
           exists (S d). split; [cbn [size] in *; lia|]. intros f ri Hri. inversion Hri; subst ri.
           replace (f + S d) with (S f + d) by lia. rewrite (Hf (S f) (nid lx) eq_refl). cbn [linkok] in Hlk. rewrite Hlk.
           cbn [fn_climb]. rewrite Hv, Hc. reflexivity.
  - destruct (IHr _ _ _ _ _ H Hwr Hndr) as (L1 & L2). clear IHl IHr.
    assert (L1u : forall j, ~ In j (ids (T c l x r)) \/ rootid (T c l x r) = Some j -> PM.find j nx' = PM.find j nx).
    { intros j Hj. assert (Hjr : ~ In j (ids r)).
      { destruct Hj as [Hj|Hj]; [intros Hin; apply Hj; rewrite ids_node; apply in_or_app; right; right; auto|]. cbn in Hj. inversion Hj; subst. exact Hxr. }
      rewrite L1 by (left; exact Hjr). destruct r as [|cr rl rx rr]; [reflexivity|]. cbn [rootid]. apply PM.gso. intros ->. apply Hjr. apply rootid_in. reflexivity. }
    assert (Hlk : r <> E -> linkok nx' r (nid x)).
    { destruct r as [|cr rl rx rr]; [congruence|]. intros _. cbn [linkok]. rewrite L1 by (right; reflexivity). cbn [rootid]. apply PM.gss. }
    split; [exact L1u|]. destruct found as [i|].
    + destruct L2 as (P & y & -> & Hy & Hb). split; [apply pl_right; auto; apply Hlk; intros ->; inversion P|].
      exists y. split; [reflexivity|]. split; [cbn [elements]; apply in_or_app; right; right; auto|]. intros best. cbn [tfloor]. rewrite Hc. apply Hb.
    + destruct r as [|cr rl rx rr].
      * subst last'. exists x. split; [reflexivity|]. split; [exact Hxin|]. split; [constructor|]. unfold climbs. cbn [tfloor]. rewrite Hc. cbn [tfloor].
        split; [exact Hxin|]. split; [constructor|]. exists 1. split; [cbn [size]; lia|]. intros f. rewrite Nat.add_1_r. cbn [fn_climb]. rewrite Hv, Hc. reflexivity.
      * destruct L2 as (z & -> & Hz & Pz & Cl). specialize (Hlk ltac:(discriminate)).
        exists z. split; [reflexivity|]. split; [cbn [elements]; apply in_or_app; right; right; auto|]. split; [apply pl_right; auto|].
        unfold climbs in *. rewrite (tfloor_gt _ _ _ _ _ _ Hc). rewrite tfloor_best. destruct (tfloor (T cr rl rx rr) k None) as [y|].
        -- destruct Cl as (Hy & Py & d & Hd & Hf). split; [cbn [elements]; apply in_or_app; right; right; auto|]. split; [apply pl_right; auto|].
           exists d. split; [cbn [size] in *; lia|exact Hf].
        -- destruct Cl as (Hhd & d & Hd & Hf). split; [exact Hxin|]. split; [constructor|].
           exists (S d). split; [cbn [size] in *; lia|]. intros f.
           replace (f + S d) with (S f + d) by lia. rewrite (Hf (S f) (nid rx) eq_refl). cbn [linkok] in Hlk. rewrite Hlk.
           cbn [fn_climb]. rewrite Hv, Hc. reflexivity.
Qed.

Lemma lookup_elem t y : NoDup (ids t) -> In y (elements t) -> exists lo ro, lookup t (nid y) = Some (y, lo, ro).
Proof. intros Hnd Hy. pose proof (getn_elem t y Hnd Hy) as H. unfold getn in H.
  destruct (lookup t (nid y)) as [[[y' lo] ro]|]; [|discriminate]. inversion H; subst. eauto. Qed.

Theorem nearest_empty_key s : qnearest kcmp s [] = Ok (s, cursor0, None).
Proof. reflexivity. Qed.

(* C04: the search returns the equal key, else the greatest smaller key, else the smallest key; the cursor it hands
   out names that node, and the parent links from that node up to the root are in place (none at the root) *)
Theorem nearest_floor s k : Inv s -> IdInv s -> k <> [] ->
  exists s1 c, qnearest kcmp s k = Ok (s1, c, snearest kcmp k (abs s)) /\
    root s1 = root s /\ num s1 = num s /\ ttid s1 = ttid s /\ nextid s1 = nextid s /\ tids s1 = tids s /\
    match snearest kcmp k (abs s) with
    | None => c = cursor0 /\ root s = E
    | Some e => exists x, In x (elements (root s)) /\ e = kv x /\ c = (ttid s, Some (nid x)) /\
                 plink (nexts s1) (root s) (nid x) /\ (forall ri, rootid (root s) = Some ri -> PM.find ri (nexts s1) = None)
    end.
Proof.
  intros ((_ & _ & Hs) & _) (Hnd & _) Hk. unfold qnearest. destruct k as [|k0 k]; [congruence|]. set (key := k0 :: k).
  unfold abs. destruct (root s) as [|c l x r] eqn:R.
  - cbn. eexists. eexists. split; [reflexivity|]. cbn. repeat split; auto.
  - cbn [rootid].
    match goal with |- context[fn_descend ?a ?b ?c ?d ?e] => destruct (fn_descend a b c d e) as [[found last] nx] eqn:D end.
    destruct (descend_spec (T c l x r) (probe key) _ _ _ _ _ _ D (lookup_sub _ Hnd) Hnd) as (L1 & L2).
    assert (Hroot : PM.find (nid x) nx = None) by (rewrite L1 by (right; reflexivity); apply PM.grs).
    assert (Hfl : forall y, tfloor (T c l x r) (probe key) None = Some y -> snearest kcmp key (map kv (elements (T c l x r))) = Some (kv y)).
    { intros y Hy. unfold snearest. change (@None (list N * list N)) with (option_map kv None). rewrite <- map_lfloor, <- tfloor_spec by exact Hs.
      rewrite Hy. reflexivity. }
    assert (Hfin : forall y, In y (elements (T c l x r)) -> plink nx (T c l x r) (nid y) ->
              snearest kcmp key (map kv (elements (T c l x r))) = Some (kv y) ->
       exists s1 c0, match lookup (T c l x r) (nid y) with
                   | Some (x0, _, _) => Ok (mkTbl (T c l x r) (num s) (ttid s) (nextid s) (tids s) nx, (ttid s, Some (nid y)), Some (nkey x0, nval x0))
                   | None => Crash end = Ok (s1, c0, snearest kcmp key (map kv (elements (T c l x r)))) /\
         root s1 = T c l x r /\ num s1 = num s /\ ttid s1 = ttid s /\ nextid s1 = nextid s /\ tids s1 = tids s /\
         match snearest kcmp key (map kv (elements (T c l x r))) with
         | None => c0 = cursor0 /\ T c l x r = E
         | Some e => exists x1, In x1 (elements (T c l x r)) /\ e = kv x1 /\ c0 = (ttid s, Some (nid x1)) /\
                 plink (nexts s1) (T c l x r) (nid x1) /\ (forall ri, Some (nid x) = Some ri -> PM.find ri (nexts s1) = None)
         end).
    { intros y Hy Py Hsn. destruct (lookup_elem _ y Hnd Hy) as (lo & ro & ->). rewrite Hsn. eexists. eexists. split; [reflexivity|].
      cbn [root num ttid nextid tids nexts]. repeat split; auto. exists y. repeat split; auto. intros ri Hri. inversion Hri; subst. exact Hroot. }
    destruct found as [i|].
    + destruct L2 as (P & y & -> & Hy & Hb). cbn [bind]. apply Hfin; auto.
    + destruct L2 as (z & -> & Hz & Pz & Cl). unfold climbs in Cl. destruct (tfloor (T c l x r) (probe key) None) as [y|] eqn:TF.
      * destruct Cl as (Hy & Py & d & Hd & Hf).
        replace (S (size (T c l x r))) with ((S (size (T c l x r)) - d) + d) by lia. rewrite Hf. cbn [bind]. apply Hfin; auto.
      * destruct Cl as (Hhd & d & Hd & Hf).
        replace (S (size (T c l x r))) with ((S (size (T c l x r) - d)) + d) by lia. rewrite (Hf _ (nid x) eq_refl), Hroot. cbn [fn_climb bind].
        apply Hfin; auto. unfold snearest. change (@None (list N * list N)) with (option_map kv None). rewrite <- map_lfloor, <- tfloor_spec by exact Hs.
        rewrite TF. cbn [option_map]. destruct (elements (T c l x r)); [discriminate|]. cbn in Hhd. inversion Hhd; subst. reflexivity.
Qed.

(* ---- the continuation of a walk from a node inside the tree whose parent links up to the root are in place ---- *)
Section Climb.
Variable t : tree node.
Variable tid : N.
Lemma visc_all tm u : (forall j, In j (ids u) -> st tid tm j = false) -> visc tid tm u = ids u.
Proof. intros H. unfold visc. destruct u as [|c l x r]; [reflexivity|]. cbn [ust]. rewrite H by (apply rootid_in; reflexivity). cbn [negb]. apply vis_all. exact H. Qed.

Lemma climb_run : forall u m i ri, plink (mnexts m) u i -> rootid u = Some ri -> wfv t u -> NoDup (ids u) -> cur m = Some i ->
  exists n m' ys, runm t tid n m = (ys, m') /\ cur m' = PM.find ri (mnexts m) /\
    stamps tid m m' ys /\ incl ys (ids u) /\ length ys <= size u /\
    ((forall j, In j (ids u) -> st tid (mtids m) j = false) -> Permutation ys (ids u)) /\
    (forall j, j = ri \/ ~ In j (ids u) -> PM.find j (mnexts m') = PM.find j (mnexts m)) /\
    st tid (mtids m') ri = true /\ n + 1 <= 3 * size u.
Proof.
  induction u as [|c l IHl x r IHr]; intros m i ri P Hri Hwf Hnd Hcur; [inversion P|].
  cbn [rootid] in Hri. inversion Hri; subst ri; clear Hri.
  destruct (nodup_node _ _ _ _ Hnd) as (Hndl & Hndr & Hxl & Hxr & Hdis).
  pose proof Hwf as (Hv & Hwl & Hwr).
  assert (Hout : forall j, j = nid x \/ ~ In j (ids (T c l x r)) -> ~ In j (ids l) /\ ~ In j (ids r)).
  { intros j [->|Hj]; [auto|]. split; intros Hin; apply Hj; rewrite ids_node; apply in_or_app; [left|right; right]; exact Hin. }
  inversion P as [c0 l0 x0 r0 | c0 l0 x0 r0 i0 Pl Lk | c0 l0 x0 r0 i0 Pr Lk]; subst.
  - (* the cursor is the root of u *)
    destruct (walk_sub t tid (T c l x r) m (nid x) eq_refl Hwf Hnd Hcur) as (n & m' & Hrun & Hc & Hst & Hnx & Hn).
    exists n, m', (vis tid (mtids m) (T c l x r)). split; [exact Hrun|]. split; [exact Hc|]. split; [exact Hst|].
    split; [intros j Hj; apply (vis_in _ _ _ _ Hj)|]. split; [apply vis_length|]. split; [intros Hall; rewrite vis_all by exact Hall; apply Permutation_refl|].
    split; [exact Hnx|]. split; [|exact Hn].
    destruct (st tid (mtids m) (nid x)) eqn:S; [eapply stamps_mono; eauto|]. eapply stamps_in; eauto. apply vis_root. exact S.
  - (* the cursor is in the left subtree *)
    destruct l as [|cl ll lx lr]; [inversion Pl|]. cbn [linkok] in Lk.
    destruct (IHl m i (nid lx) Pl eq_refl Hwl Hndl Hcur) as (n1 & m1 & ys1 & Hr1 & Hc1 & Hs1 & Hi1 & Hl1 & Hp1 & Hx1 & Hst1 & Hn1).
    rewrite Lk in Hc1.
    assert (Hul : ust tid (mtids m1) (T cl ll lx lr) = false) by (cbn [ust]; rewrite Hst1; reflexivity).
    destruct (rest_part t tid c (T cl ll lx lr) x r m1 Hwf Hnd Hc1 Hul) as (n2 & m2 & Hr2 & Hc2 & Hs2 & Hx2 & Hst2 & Hn2).
    set (ys2 := (if st tid (mtids m1) (nid x) then [] else [nid x]) ++ visc tid (mtids m1) r) in *.
    exists (n1 + n2), m2, (ys1 ++ ys2). split; [eapply runm_seq; eauto|]. split; [rewrite Hc2; apply Hx1; right; exact Hxl|].
    split; [eapply stamps_app; eauto|].
    assert (Hi2 : incl ys2 (nid x :: ids r)).
    { intros j Hj. unfold ys2 in Hj. apply in_app_or in Hj as [Hj|Hj].
      - destruct (st tid (mtids m1) (nid x)); [destruct Hj|]. destruct Hj as [<-|[]]. left; reflexivity.
      - right. apply (visc_in _ _ _ _ Hj). }
    split; [|split; [|split; [|split; [|split]]]].
    + rewrite ids_node. intros j Hj. apply in_app_or in Hj as [Hj|Hj]; apply in_or_app; [left; apply Hi1; exact Hj|right; apply Hi2; exact Hj].
    + rewrite app_length. unfold ys2. rewrite app_length. pose proof (visc_length tid (mtids m1) r). cbn [size] in *.
      destruct (st tid (mtids m1) (nid x)); cbn [length]; lia.
    + intros Hall. rewrite ids_node.
      assert (Hall1 : forall j, In j (ids (T cl ll lx lr)) -> st tid (mtids m) j = false) by (intros j Hj; apply Hall; rewrite ids_node; apply in_or_app; auto).
      assert (Hsame : forall j, ~ In j (ids (T cl ll lx lr)) -> tid_of (mtids m1) j = tid_of (mtids m) j).
      { intros j Hj. apply (stamps_out _ _ _ _ _ Hs1). intros Hin. apply Hj. apply Hi1. exact Hin. }
      assert (Hstx : st tid (mtids m1) (nid x) = false).
      { unfold st. rewrite Hsame by exact Hxl. apply Hall. rewrite ids_node; apply in_or_app; right; left; reflexivity. }
      assert (E2 : ys2 = nid x :: ids r).
      { unfold ys2. rewrite Hstx.
        rewrite (visc_ext tid (mtids m1) (mtids m) r) by (intros j Hj; apply Hsame; intros Hin; exact (Hdis _ Hin Hj)).
        rewrite visc_all; [reflexivity|]. intros j Hj. apply Hall. rewrite ids_node. apply in_or_app. right; right; exact Hj. }
      rewrite E2. apply Permutation_app_tail. apply Hp1. exact Hall1.
    + intros j Hj. destruct (Hout j Hj) as (A & B). rewrite Hx2 by exact B. apply Hx1. right; exact A.
    + exact Hst2.
    + cbn [size] in *. destruct (ust tid (mtids m1) r); lia.
  - (* the cursor is in the right subtree *)
    destruct r as [|cr rl rx rr]; [inversion Pr|]. cbn [linkok] in Lk.
    destruct (IHr m i (nid rx) Pr eq_refl Hwr Hndr Hcur) as (n1 & m1 & ys1 & Hr1 & Hc1 & Hs1 & Hi1 & Hl1 & Hp1 & Hx1 & Hst1 & Hn1).
    rewrite Lk in Hc1.
    destruct (left_part t tid c l x (T cr rl rx rr) m1 Hwf Hnd Hc1) as (n2 & m2 & Hr2 & Hc2 & Hs2 & Hx2 & Hul & Hn2).
    destruct (rest_part t tid c l x (T cr rl rx rr) m2 Hwf Hnd Hc2 Hul) as (n3 & m3 & Hr3 & Hc3 & Hs3 & Hx3 & Hst3 & Hn3).
    assert (Hur : ust tid (mtids m2) (T cr rl rx rr) = false).
    { cbn [ust]. rewrite (stamps_mono _ _ _ _ _ Hs2 Hst1). reflexivity. }
    assert (Hvr : visc tid (mtids m2) (T cr rl rx rr) = []) by (unfold visc; rewrite Hur; reflexivity).
    rewrite Hvr in Hr3, Hs3. rewrite Hur in Hn3. rewrite app_nil_r in Hr3, Hs3.
    set (ys2 := visc tid (mtids m1) l) in *. set (ys3 := if st tid (mtids m2) (nid x) then [] else [nid x]) in *.
    exists (n1 + (n2 + n3)), m3, (ys1 ++ ys2 ++ ys3). split; [eapply runm_seq; [eauto|eapply runm_seq; eauto]|].
    split; [rewrite Hc3, Hx2 by exact Hxl; apply Hx1; right; exact Hxr|].
    split; [eapply stamps_app; [eauto|eapply stamps_app; eauto]|].
    assert (Hi3 : incl ys3 [nid x]) by (intros j Hj; unfold ys3 in Hj; destruct (st tid (mtids m2) (nid x)); [destruct Hj|exact Hj]).
    split; [|split; [|split; [|split; [|split]]]].
    + rewrite ids_node. intros j Hj. apply in_app_or in Hj as [Hj|Hj]; [apply in_or_app; right; right; apply Hi1; exact Hj|].
      apply in_app_or in Hj as [Hj|Hj]; [apply in_or_app; left; unfold ys2 in Hj; apply (visc_in _ _ _ _ Hj)|]. apply Hi3 in Hj. destruct Hj as [<-|[]]. apply in_or_app; right; left; reflexivity.
    + rewrite !app_length. pose proof (visc_length tid (mtids m1) l) as Hvl. fold ys2 in Hvl. cbn [size] in *.
      unfold ys3. destruct (st tid (mtids m2) (nid x)); cbn [length]; lia.
    + intros Hall. rewrite ids_node.
      assert (Hall1 : forall j, In j (ids (T cr rl rx rr)) -> st tid (mtids m) j = false) by (intros j Hj; apply Hall; rewrite ids_node; apply in_or_app; right; right; auto).
      assert (Hsame : forall j, ~ In j (ids (T cr rl rx rr)) -> tid_of (mtids m1) j = tid_of (mtids m) j).
      { intros j Hj. apply (stamps_out _ _ _ _ _ Hs1). intros Hin. apply Hj. apply Hi1. exact Hin. }
      assert (E2 : ys2 = ids l).
      { unfold ys2. rewrite (visc_ext tid (mtids m1) (mtids m) l) by (intros j Hj; apply Hsame; intros Hin; exact (Hdis _ Hj Hin)).
        apply visc_all. intros j Hj. apply Hall. rewrite ids_node. apply in_or_app. left; exact Hj. }
      assert (E3 : ys3 = [nid x]).
      { assert (Hstx : st tid (mtids m2) (nid x) = false).
        { unfold st. rewrite (stamps_out _ _ _ _ _ Hs2) by (intros Hin; unfold ys2 in Hin; apply visc_in in Hin as [Hin _]; contradiction).
          rewrite Hsame by exact Hxr. apply Hall. rewrite ids_node; apply in_or_app; right; left; reflexivity. }
        unfold ys3. rewrite Hstx. reflexivity. }
      rewrite E2, E3. apply (Permutation_trans (Permutation_app_comm _ _)). rewrite <- app_assoc. cbn [app].
      apply Permutation_app_head. constructor. apply Hp1. exact Hall1.
    + intros j Hj. destruct (Hout j Hj) as (A & B). rewrite Hx3 by exact B. rewrite Hx2 by exact A. apply Hx1. right; exact B.
    + exact Hst3.
    + cbn [size] in *. lia.
Qed.
End Climb.

Lemma ids_nodes t ys : incl ys (ids t) -> exists xs, ys = map nid xs /\ Forall (fun y => In y (elements t)) xs.
Proof. induction ys as [|y ys IH]; intros H; [exists []; split; [reflexivity|constructor]|].
  destruct IH as (xs & -> & Hx); [intros j Hj; apply H; right; exact Hj|].
  assert (Hy : In y (ids t)) by (apply H; left; reflexivity). unfold ids in Hy. apply in_map_iff in Hy as (x & <- & Hxin).
  exists (x :: xs). split; [reflexivity|constructor; auto]. Qed.
Lemma getn_map_inj t : forall xs zs, Forall (fun x => getn t (nid x) = Some x) xs -> Forall (fun x => getn t (nid x) = Some x) zs ->
  map nid xs = map nid zs -> xs = zs.
Proof. induction xs as [|x xs IH]; intros [|z zs] Hx Hz E; try discriminate; [reflexivity|].
  inversion Hx; subst. inversion Hz; subst. cbn [map] in E. inversion E. f_equal; [congruence|auto]. Qed.
Lemma idinv_same s s1 : IdInv s -> root s1 = root s -> nextid s1 = nextid s -> ttid s1 = ttid s -> tids s1 = tids s -> IdInv s1.
Proof. unfold IdInv. intros H -> -> -> ->. exact H. Qed.
Lemma clean_same s s1 : Clean s -> root s1 = root s -> ttid s1 = ttid s -> tids s1 = tids s -> Clean s1.
Proof. unfold Clean. intros H -> -> ->. exact H. Qed.

(* the calls of getnext that continue from a node x of the table whose parent links are in place *)
Lemma cont_run s1 x tid : NoDup (ids (root s1)) -> In x (elements (root s1)) -> plink (nexts s1) (root s1) (nid x) ->
  (forall ri, rootid (root s1) = Some ri -> PM.find ri (nexts s1) = None) ->
  exists xs, Forall (fun y => In y (elements (root s1))) xs /\ length xs <= size (root s1) /\
    ((forall j, In j (ids (root s1)) -> tid_of (tids s1) j <> tid) -> Permutation xs (elements (root s1))) /\
    forall n, exists s', walk_n n s1 (tid, Some (nid x)) [] = Ok (s', map kv (firstn n xs), Nat.ltb (length xs) n).
Proof. intros Hnd Hx P Hroot. destruct (root s1) as [|c l r0 r] eqn:R; [destruct Hx|].
  set (m0 := mkMst (Some (nid x)) (tids s1) (nexts s1)).
  destruct (climb_run (T c l r0 r) tid (T c l r0 r) m0 (nid x) (nid r0) P eq_refl (lookup_sub _ Hnd) Hnd eq_refl)
    as (N & m' & ys & Hrun & Hc & _ & Hincl & Hlen & Hperm & _ & _ & HN).
  cbn [mnexts m0] in Hc. rewrite (Hroot _ eq_refl) in Hc.
  destruct (ids_nodes _ _ Hincl) as (xs & -> & Hxs).
  assert (Hg : Forall (fun y => getn (T c l r0 r) (nid y) = Some y) xs).
  { eapply Forall_impl; [|exact Hxs]. intros y Hy. apply getn_elem; auto. }
  exists xs. split; [exact Hxs|]. rewrite map_length in Hlen. split; [exact Hlen|]. split.
  - intros Hcl. assert (Hp : Permutation (map nid xs) (ids (T c l r0 r))).
    { apply Hperm. intros j Hj. unfold st. cbn [mtids m0]. apply N.eqb_neq. apply Hcl. exact Hj. }
    unfold ids in Hp. apply Permutation_map_inv in Hp as (zs & E & Hp).
    assert (Hz : Forall (fun y => getn (T c l r0 r) (nid y) = Some y) zs).
    { apply Forall_forall. intros y Hy. apply getn_elem; auto. eapply Permutation_in; [apply Permutation_sym; exact Hp|exact Hy]. }
    rewrite (getn_map_inj _ _ _ Hg Hz E). apply Permutation_sym. exact Hp.
  - intros n. destruct (walk_n_run xs n s1 tid (nid x) [] m' N) as (s' & Hw).
    + rewrite R. exact Hrun.
    + exact Hc.
    + unfold gn_fuel. rewrite R. lia.
    + rewrite R. exact Hg.
    + exists s'. exact Hw.
Qed.

(* C04: after a nearest-key search in a table in which no node carries the current stamp, getnext visits every entry exactly once *)
Theorem nearest_continue s k n s1 c e : Inv s -> IdInv s -> Clean s -> qnearest kcmp s k = Ok (s1, c, Some e) ->
  exists xs s', Permutation xs (abs s) /\ walk_n n s1 c [] = Ok (s', firstn n xs, Nat.ltb (length (abs s)) n) /\
    root s' = root s /\ num s' = num s /\ nextid s' = nextid s /\ Inv s' /\ IdInv s' /\ (Nat.ltb (length (abs s)) n = true -> Clean s').
Proof. intros HInv HI HC Hq. destruct k as [|k0 k]; [rewrite nearest_empty_key in Hq; discriminate|].
  destruct (nearest_floor s (k0 :: k) HInv HI ltac:(discriminate)) as (s1' & c' & E & Rr & Rn & Rt & Ri & Rd & Hm).
  rewrite E in Hq. inversion Hq; subst s1' c'. rewrite H2 in Hm. destruct Hm as (x & Hx & -> & -> & P & Hroot).
  pose proof HI as (Hnd & _). rewrite <- Rr in Hnd, Hx, P, Hroot.
  destruct (cont_run s1 x (ttid s) Hnd Hx P Hroot) as (xs & Hxs & Hlen & Hperm & Hw).
  assert (Hp : Permutation xs (elements (root s))).
  { rewrite <- Rr. apply Hperm. intros j Hj. rewrite Rd. apply HC. rewrite <- Rr. exact Hj. }
  destruct (Hw n) as (s' & Hwn). exists (map kv xs), s'. split; [apply Permutation_map; exact Hp|].
  assert (HI1 : IdInv s1) by (eapply idinv_same; eauto).
  destruct (walk_n_inv _ _ _ _ _ _ _ Hwn HI1 ltac:(intros _; cbn [fst]; congruence)) as (A & B & C & D & F).
  rewrite firstn_map. unfold abs at 1 2. rewrite map_length, <- (Permutation_length Hp).
  split; [exact Hwn|]. split; [congruence|]. split; [congruence|]. split; [congruence|]. split; [eapply Inv_same; [| |exact HInv]; congruence|].
  split; [exact A|exact F].
Qed.

(* ---- histories ---- *)
Lemma nearest_step s d k n : Inv s -> IdInv s -> (d = false -> Clean s) ->
  exists s' ob d', step kcmp s (Nearest k n) = Ok (s', ob) /\ Inv s' /\ IdInv s' /\ (d' = false -> Clean s') /\
    fst (sstep kcmp (abs s, d) (Nearest k n)) = (abs s', d') /\ obs_ok ob (snd (sstep kcmp (abs s, d) (Nearest k n))).
Proof. intros HInv HI HC. cbn [step sstep]. destruct k as [|k0 k].
  { rewrite nearest_empty_key. cbn [bind]. exists s, (ONear None [] true), d. split; [reflexivity|]. split; [exact HInv|]. split; [exact HI|]. split; [exact HC|]. split; [reflexivity|]. cbn. auto. }
  set (key := k0 :: k).
  destruct (nearest_floor s key HInv HI ltac:(discriminate)) as (s1 & c & E & Rr & Rn & Rt & Ri & Rd & Hm).
  rewrite E. cbn [bind].
  assert (HI1 : IdInv s1) by (eapply idinv_same; eauto).
  assert (HInv1 : Inv s1) by (eapply Inv_same; eauto).
  assert (Habs : abs s1 = abs s) by (unfold abs; rewrite Rr; reflexivity).
  destruct (snearest kcmp key (abs s)) as [e|] eqn:SN.
  - destruct Hm as (x & Hx & -> & -> & P & Hroot).
    pose proof HI as (Hnd & _). rewrite <- Rr in Hnd, Hx, P, Hroot.
    destruct (cont_run s1 x (ttid s) Hnd Hx P Hroot) as (xs & Hxs & Hlen & Hperm & Hw).
    destruct (Hw n) as (s' & Hwn). rewrite Hwn. cbn [bind].
    destruct (walk_n_inv _ _ _ _ _ _ _ Hwn HI1 ltac:(intros _; cbn [fst]; congruence)) as (A & B & C & D & F).
    assert (Hsz : size (root s1) = length (abs s)) by (unfold abs; rewrite map_length, <- Rr; apply size_elements).
    exists s', (ONear (Some (kv x)) (map kv (firstn n xs)) (Nat.ltb (length xs) n)), (walked (abs s) n d).
    split; [reflexivity|]. split; [eapply Inv_same; [| |exact HInv1]; congruence|]. split; [exact A|]. split; [|split].
    + unfold walked. destruct n as [|n].
      * intros Hd. cbn [walk_n] in Hwn. inversion Hwn; subst s'. eapply clean_same; [apply HC; exact Hd| | |]; auto.
      * destruct (Nat.ltb (length (abs s)) (S n)) eqn:L; [|discriminate]. intros _. apply F. apply Nat.ltb_lt. apply Nat.ltb_lt in L. lia.
    + cbn [fst]. f_equal. unfold abs. rewrite B, Rr. reflexivity.
    + cbn [snd obs_ok]. split; [reflexivity|]. intros Hsp. apply negb_true_iff in Hsp.
      assert (Hp : Permutation xs (elements (root s))).
      { rewrite <- Rr. apply Hperm. intros j Hj. rewrite Rd. apply (HC Hsp). rewrite <- Rr. exact Hj. }
      assert (Hl : length xs = length (abs s)) by (unfold abs; rewrite map_length; apply Permutation_length; exact Hp).
      rewrite map_length, firstn_length, Hl. split; reflexivity.
  - destruct Hm as (-> & Hre). exists s1, (ONear None [] true), d. split; [reflexivity|]. split; [exact HInv1|]. split; [exact HI1|].
    split; [intros Hd; eapply clean_same; [apply HC; exact Hd| | |]; auto|]. split; [cbn [fst]; rewrite Habs; reflexivity|]. cbn. auto.
Qed.

Lemma walk_step s d n : Inv s -> IdInv s -> (d = false -> Clean s) ->
  exists s' ob d', step kcmp s (Walk n) = Ok (s', ob) /\ Inv s' /\ IdInv s' /\ (d' = false -> Clean s') /\
    fst (sstep kcmp (abs s, d) (Walk n)) = (abs s', d') /\ obs_ok ob (snd (sstep kcmp (abs s, d) (Walk n))).
Proof. intros HInv HI HC. cbn [step sstep].
  destruct (fresh_walk_seq s n HInv HI) as (s' & Hw & B & C & D & HInv' & HI' & F & H0). rewrite Hw. cbn [bind].
  assert (Habs : abs s' = abs s) by (unfold abs; rewrite B; reflexivity).
  exists s', (OWalk (firstn n (abs s)) (Nat.ltb (length (abs s)) n)), (match abs s with [] => d | _ => walked (abs s) n d end).
  split; [reflexivity|]. split; [exact HInv'|]. split; [exact HI'|]. split; [|split].
  - destruct (abs s) as [|a m] eqn:Em.
    + intros _ j Hj. exfalso. unfold abs in Em. rewrite <- B in Em. unfold ids in Hj. apply map_eq_nil in Em. rewrite Em in Hj. destruct Hj.
    + unfold walked. destruct n as [|n]; [intros Hd; rewrite (H0 eq_refl); auto|].
      destruct (Nat.ltb (length (a :: m)) (S n)) eqn:L; [|discriminate]. intros _. apply F. reflexivity.
  - cbn [fst]. rewrite Habs. reflexivity.
  - cbn. auto.
Qed.

Lemma map_step_idinv s o s' ob : is_map_op o = true -> step kcmp s o = Ok (s', ob) -> Inv s -> IdInv s ->
  IdInv s' /\ (Clean s -> Clean s') /\ (o = Clear -> Clean s').
Proof. intros Hm H HInv HI. destruct o as [k v|k|k| | | | |n|k n]; try discriminate; cbn [step] in H.
  - apply bind_ok in H as ([s2 b] & Hp & H). inversion H; subst. cbn [fst]. destruct (put_idinv _ _ _ _ _ Hp HInv HI) as (A & B). split; [exact A|split; [exact B|discriminate]].
  - inversion H; subst. split; [exact HI|split; [auto|discriminate]].
  - apply bind_ok in H as ([s2 b] & Hp & H). inversion H; subst. cbn [fst]. destruct (remove_idinv _ _ _ _ Hp HI) as (A & B). split; [exact A|split; [exact B|discriminate]].
  - inversion H; subst. destruct HI as (_ & _ & Ht & Hle & Hf). split; [|split; intros _ j []].
    unfold IdInv, qclear. cbn [root nextid ttid tids ids elements map]. split; [constructor|]. split; [intros j []|]. auto.
  - inversion H; subst. split; [exact HI|split; [auto|discriminate]].
  - inversion H; subst. split; [exact HI|split; [auto|discriminate]].
  - inversion H; subst. split; [exact HI|split; [auto|discriminate]].
Qed.

Lemma step_refines s d o : Inv s -> IdInv s -> (d = false -> Clean s) ->
  exists s' ob d', step kcmp s o = Ok (s', ob) /\ Inv s' /\ IdInv s' /\ (d' = false -> Clean s') /\
    fst (sstep kcmp (abs s, d) o) = (abs s', d') /\ obs_ok ob (snd (sstep kcmp (abs s, d) o)).
Proof. intros HInv HI HC. destruct (is_map_op o) eqn:Hm.
  - destruct (step_map_refines kcmp kcmp_trans kcmp_antisym kcmp_eq_l s d o HInv Hm) as (s' & ob & d' & E & HInv' & Ha & Hob).
    destruct (map_step_idinv _ _ _ _ Hm E HInv HI) as (HI' & HC' & HCl).
    exists s', ob, d'. split; [exact E|]. split; [exact HInv'|]. split; [exact HI'|]. split; [|split; [exact Ha|exact Hob]].
    intros Hd. destruct o as [k v|k|k| | | | |n|k n]; try discriminate; cbn [sstep fst] in Ha; try (inversion Ha; subst d'; auto; fail).
    destruct k; cbn [fst] in Ha; inversion Ha; subst d'; auto.
  - destruct o as [k v|k|k| | | | |n|k n]; try discriminate; [apply walk_step|apply nearest_step]; auto.
Qed.

Theorem run_refines : forall os s d, Inv s -> IdInv s -> (d = false -> Clean s) ->
  exists s' obs d', run kcmp s os = Ok (s', obs) /\ Inv s' /\ IdInv s' /\ (d' = false -> Clean s') /\
    fst (srun kcmp (abs s, d) os) = (abs s', d') /\ Forall2 obs_ok obs (snd (srun kcmp (abs s, d) os)).
Proof. induction os as [|o os IH]; intros s d HInv HI HC.
  - exists s, [], d. split; [reflexivity|]. split; [exact HInv|]. split; [exact HI|]. split; [exact HC|]. split; [reflexivity|]. constructor.
  - destruct (step_refines s d o HInv HI HC) as (s1 & ob & d1 & E1 & HInv1 & HI1 & HC1 & Ha1 & Hob).
    destruct (IH s1 d1 HInv1 HI1 HC1) as (s2 & obs & d2 & E2 & HInv2 & HI2 & HC2 & Ha2 & Hobs).
    cbn [run srun]. rewrite E1. cbn [bind fst snd]. rewrite E2. cbn [bind fst snd].
    destruct (sstep kcmp (abs s, d) o) as [st1 sb] eqn:Es. cbn [fst snd] in Ha1, Hob. subst st1.
    destruct (srun kcmp (abs s1, d1) os) as [st2 sbs] eqn:Er. cbn [fst snd] in *.
    exists s2, (ob :: obs), d2. split; [reflexivity|]. split; [exact HInv2|]. split; [exact HI2|]. split; [exact HC2|]. split; [exact Ha2|]. constructor; assumption.
Qed.

Theorem run_init_refines os : exists s obs d, run kcmp init os = Ok (s, obs) /\ Inv s /\ IdInv s /\ (d = false -> Clean s) /\
  fst (srun kcmp sinit os) = (abs s, d) /\ Forall2 obs_ok obs (snd (srun kcmp sinit os)).
Proof. apply (run_refines os init false (Inv_init kcmp) IdInv_init (fun _ => Clean_init)). Qed.

(* ---- corollaries in the form the property files quote ---- *)
Theorem step_inv s o s' ob : Inv s -> IdInv s -> step kcmp s o = Ok (s', ob) -> Inv s' /\ IdInv s'.
Proof. intros HInv HI H. destruct (step_refines s true o HInv HI ltac:(discriminate)) as (s2 & ob2 & d2 & E & A & B & _).
  rewrite E in H. inversion H; subst. auto. Qed.
Theorem step_total s o : Inv s -> IdInv s -> exists s' ob, step kcmp s o = Ok (s', ob).
Proof. intros HInv HI. destruct (step_refines s true o HInv HI ltac:(discriminate)) as (s2 & ob2 & d2 & E & _). eauto. Qed.

Lemma kcmp_refl a : kcmp a a = Eq.
Proof. pose proof (kcmp_antisym a a) as H. destruct (kcmp a a); [reflexivity|discriminate|discriminate]. Qed.
Lemma sorted_nodup_kv l : sorted node ncmp l -> NoDup (map kv l).
Proof. induction l as [|a l IH]; [constructor|]. cbn [sorted map]. intros (Ha & Hs). constructor; [|auto].
  intros Hin. apply in_map_iff in Hin as (b & Eb & Hb). rewrite Forall_forall in Ha. specialize (Ha b Hb).
  unfold QTree.ncmp in Ha. unfold kv in Eb. inversion Eb as [[Ek Ev]]. rewrite Ek, kcmp_refl in Ha. discriminate. Qed.
Lemma firstn_incl {A} n (l : list A) : incl (firstn n l) l.
Proof. revert l. induction n as [|n IH]; intros l; [intros x []|]. destruct l as [|a l]; [intros x []|]. cbn [firstn].
  intros x [<-|Hx]; [left; reflexivity|right; apply IH; exact Hx]. Qed.
Lemma NoDup_firstn {A} n (l : list A) : NoDup l -> NoDup (firstn n l).
Proof. revert l. induction n as [|n IH]; intros l H; [constructor|]. destruct l as [|a l]; [constructor|]. cbn [firstn].
  inversion H; subst. constructor; [|auto]. intros Hin. apply firstn_incl in Hin. contradiction. Qed.

Corollary nearest_continue_distinct s k n s1 c e : Inv s -> IdInv s -> Clean s -> qnearest kcmp s k = Ok (s1, c, Some e) ->
  exists l s', walk_n n s1 c [] = Ok (s', l, Nat.ltb (length (abs s)) n) /\
    length l = Nat.min n (length (abs s)) /\ NoDup l /\ incl l (abs s) /\ (length (abs s) < n -> Permutation l (abs s)).
Proof. intros HInv HI HC Hq. destruct (nearest_continue s k n s1 c e HInv HI HC Hq) as (xs & s' & Hp & Hw & _).
  exists (firstn n xs), s'. split; [exact Hw|]. split; [rewrite firstn_length, (Permutation_length Hp); reflexivity|].
  assert (Hnd : NoDup xs).
  { apply (Permutation_NoDup (Permutation_sym Hp)). apply sorted_nodup_kv. apply HInv. }
  split; [apply NoDup_firstn; exact Hnd|]. split.
  - intros x Hx. apply firstn_incl in Hx. eapply Permutation_in; eauto.
  - intros Hn. rewrite firstn_all2 by (rewrite (Permutation_length Hp); lia). exact Hp.
Qed.

(* whatever the stamps are, the calls after a nearest-key search return, hand out entries of the table, at most as many as
   there are, report the end when asked more often than that, and leave a table that satisfies the invariants *)
Theorem nearest_walk_total s k n s1 c e : Inv s -> IdInv s -> qnearest kcmp s k = Ok (s1, c, Some e) ->
  exists s' l b, walk_n n s1 c [] = Ok (s', l, b) /\ length l <= Nat.min n (length (abs s)) /\ incl l (abs s) /\
    (length (abs s) < n -> b = true) /\ root s' = root s /\ Inv s' /\ IdInv s' /\ (b = true -> Clean s').
Proof. intros HInv HI Hq. destruct k as [|k0 k]; [rewrite nearest_empty_key in Hq; discriminate|].
  destruct (nearest_floor s (k0 :: k) HInv HI ltac:(discriminate)) as (s1' & c' & E & Rr & Rn & Rt & Ri & Rd & Hm).
  rewrite E in Hq. inversion Hq; subst s1' c'. rewrite H2 in Hm. destruct Hm as (x & Hx & -> & -> & P & Hroot).
  pose proof HI as (Hnd & _). rewrite <- Rr in Hnd, Hx, P, Hroot.
  destruct (cont_run s1 x (ttid s) Hnd Hx P Hroot) as (xs & Hxs & Hlen & _ & Hw).
  destruct (Hw n) as (s' & Hwn). assert (HI1 : IdInv s1) by (eapply idinv_same; eauto).
  destruct (walk_n_inv _ _ _ _ _ _ _ Hwn HI1 ltac:(intros _; cbn [fst]; congruence)) as (A & B & C & D & F).
  assert (Hsz : size (root s1) = length (abs s)) by (unfold abs; rewrite map_length, <- Rr; apply size_elements).
  exists s', (map kv (firstn n xs)), (Nat.ltb (length xs) n). split; [exact Hwn|]. split; [rewrite map_length, firstn_length; lia|]. split; [|split].
  - intros y Hy. apply in_map_iff in Hy as (z & <- & Hz). apply firstn_incl in Hz. rewrite Forall_forall in Hxs. unfold abs. rewrite <- Rr. apply in_map. auto.
  - intros Hn. apply Nat.ltb_lt. lia.
  - split; [congruence|]. split; [eapply Inv_same; [| |exact HInv]; congruence|]. split; [exact A|exact F].
Qed.
End Iter.
