(* move_red_left(): the longest of the translated helpers (two rotations, two colour flips, a third rotation in the 2-3-4
   variant); kept in a file of its own so that it is checked in parallel with the others. *)
From Coq Require Import PArith Bool List Lia.
From QV.Base Require Import Res.
From QV.Tree Require Import TreeModel TreeHeap TreeHeapProofs.
From QV.Gen Require Import TreeOps.
Import ListNotations.

Lemma c_mrl_refines : refines c_move_red_left mrl.
Proof.
  intros h p t t' H Hnd Hg. destruct t as [|c [|cl ll li lr] i [|cr rl ri rr]]; try discriminate Hg.
  destruct rl as [|[] rll rli rlr]; [settle H Hnd Hg| |settle H Hnd Hg].
  destruct rr as [|[] rrl rri rrr]; settle H Hnd Hg.
Qed.

