(* find_obj(): the translated look-up loop (Gen/TreeOps.v; comparator answers kc) returns the node the model's find returns,
   changes nothing, and needs no more fuel than the number of nodes + 1. *)
From Coq Require Import PArith ZArith Bool List Lia.
From QV.Base Require Import Res.
From QV.Tree Require Import TreeModel TreeHeap TreeHeapProofs TreeHeapPut.
From QV.Gen Require Import TreeOps.
Import ListNotations.

Local Notation tr := (tree positive).

Section Find.
Variable kc : positive -> Z.
Variable k : positive.      (* stands for the searched key: the comparator's answers are kc *)
Local Notation mfind := (find (fun (_ x : positive) => zcmp (kc x))).

Lemma c_find_loop_ok : forall fuel (t : tr) h p, rep h p t -> size t < fuel ->
  c_find_obj_loop1 kc fuel p h = Ok (match mfind t k with Some x => inr (Some x) | None => inl None end, h).
Proof.
  induction fuel as [|fuel IH]; intros t h p H Hs; [lia|]. destruct t as [|c l i r].
  - cbn [rep] in H. subst p. reflexivity.
  - pose proof H as H'. open H'. cbn [c_find_obj_loop1 is_null negb find]. unfold bnd at 1, cmp_key. rewrite Hc. cbv beta iota zeta.
    unfold zcmp. destruct (Z.eqb (kc i) 0); [reflexivity|]. cbn [size] in Hs. destruct (Z.ltb (kc i) 0).
    + unfold bnd, ld_left, ld. rewrite Hc. cbn [c_left]. apply IH; [exact Hl | lia].
    + unfold bnd, ld_right, ld. rewrite Hc. cbn [c_right]. apply IH; [exact Hr | lia].
Qed.

Theorem c_find_obj_ok : forall (t : tr) h p, rep h p t ->
  c_find_obj kc (S (size t)) p false h = Ok (mfind t k, h) /\ forall fuel, c_find_obj kc fuel p true h = Ok (None, h).
Proof.
  intros t h p H. split; [|reflexivity]. unfold c_find_obj. cbv zeta. unfold bnd. rewrite (c_find_loop_ok _ t h p H (Nat.lt_succ_diag_r _)).
  destruct (mfind t k); reflexivity.
Qed.
End Find.
