(* qhashtbl.c, statement by statement.  Executable definitions only.

   A table is `hslots` (one hchain per index, head first), `hrange`, `hnum`.  A hchain element is the node object
   {hash; name; data; (size = length data); next}; `next` is implicit in the list order.  Each node object carries a
   unique id `eid` (allocation counter, never reused) so that the pointer the caller's getnext hcursor holds (`obj->next`)
   can be modelled as what it is, a pointer to a node object: `option positive`, resolved by searching the table,
   `Crash` when it designates no live node (dangling).  "Replace" keeps the node object (same id) and swaps name/data,
   "insert" allocates a new node in front of the hchain -- exactly the two branches of qhashtbl_put.

   The hash function is a section variable: nothing below depends on which function it is. *)
From Coq Require Import NArith ZArith PArith List Bool.
From QV.Base Require Import Res.
From QV.Gen Require Import Consts.
Import ListNotations.
Local Open Scope N_scope.

(* ---- C strings ---- *)
(* the string a `const char *` argument designates: the bytes before the first NUL (strlen/strdup/strcmp view) *)
Fixpoint hcstr_of (l : list N) : list N :=
  match l with [] => [] | c :: r => if c =? 0 then [] else c :: hcstr_of r end.
(* strcmp(a, b) == 0 on two such strings *)
Fixpoint hbytes_eqb (a b : list N) : bool :=
  match a, b with
  | [], [] => true
  | x :: a', y :: b' => (x =? y) && hbytes_eqb a' b'
  | _, _ => false
  end.

(* ---- "%" PRId64 and hatoll ---- *)
Definition hto_i64 (z : Z) : Z := ((z + 9223372036854775808) mod 18446744073709551616 - 9223372036854775808)%Z.
(* decimal digits, least significant first; 20 digits cover every 64-bit magnitude *)
Fixpoint hrdigs (f : nat) (n : N) : list N :=
  match f with
  | O => []
  | S f' => (48 + n mod 10) :: (if n / 10 =? 0 then [] else hrdigs f' (n / 10))
  end.
Definition hprint_dec (z : Z) : list N :=
  match z with
  | Z0 => [48]
  | Zpos p => rev (hrdigs 20 (Npos p))
  | Zneg p => 45 :: rev (hrdigs 20 (Npos p))
  end.
Definition HPUTINT_BUF : nat := 21.      (* char str[20 + 1] in qhashtbl_putint *)
(* snprintf(str, sizeof(str), "%" PRId64, hnum): at most sizeof-1 characters, then the terminator *)
Definition hputint_text (z : Z) : list N := firstn (HPUTINT_BUF - 1) (hprint_dec (hto_i64 z)) ++ [0].

Definition hisspace (c : N) : bool := ((9 <=? c) && (c <=? 13)) || (c =? 32).
Definition hisdigit (c : N) : bool := (48 <=? c) && (c <=? 57).
Fixpoint hskip_ws (l : list N) : list N :=
  match l with c :: r => if hisspace c then hskip_ws r else l | [] => [] end.
Definition hstrip_sign (l : list N) : bool * list N :=
  match l with
  | c :: r => if c =? 45 then (true, r) else if c =? 43 then (false, r) else (false, l)
  | [] => (false, [])
  end.
Fixpoint hdval (l : list N) (a : Z) : Z :=
  match l with c :: r => if hisdigit c then hdval r (a * 10 + Z.of_N (c - 48))%Z else a | [] => a end.
(* does the scan meet a byte that stops it inside the block?  (otherwise hatoll reads past the block) *)
Fixpoint hdstops (l : list N) : bool :=
  match l with c :: r => if hisdigit c then hdstops r else true | [] => false end.
Definition hclamp64 (z : Z) : Z := Z.max (-9223372036854775808) (Z.min z 9223372036854775807).
(* hatoll = strtoll(s, NULL, 10): white space, optional sign, digits, saturating *)
Definition hatoll (l : list N) : Z :=
  let (neg, r) := hstrip_sign (hskip_ws l) in hclamp64 (if neg then - hdval r 0 else hdval r 0)%Z.
Definition hatoll_stops (l : list N) : bool := hdstops (snd (hstrip_sign (hskip_ws l))).

(* ---- the table ---- *)
Record hent := mkHEnt { eid : positive; ehash : N; ename : list N; edata : list N }.
Definition hchain := list hent.
Record htbl := mkHT { hslots : list hchain; hrange : N; hnum : N; hnextid : positive }.

Fixpoint hset_nth {A} (i : nat) (x : A) (l : list A) : list A :=
  match l, i with
  | [], _ => []
  | _ :: r, O => x :: r
  | y :: r, S i' => y :: hset_nth i' x r
  end.
Definition hhead_id (ch : hchain) : option positive := match ch with [] => None | e :: _ => Some (eid e) end.

(* the caller's qhashtbl_obj_t as far as getnext reads it: name != NULL, hash, next *)
Record hcursor := mkHCur { cset : bool; chash : N; cnext : option positive }.
Definition hcursor0 : hcursor := mkHCur false 0 None.          (* memset(&obj, 0, sizeof(obj)) *)

Inductive herr := HEINVAL | HENOENT.
Inductive hop :=
| HPut (k v : list N)            (* put(name, data, size) with data != NULL *)
| HPutNullData (k : list N)      (* put(name, NULL, _) *)
| HPutStr (k s : list N)         (* putstr(name, str) *)
| HPutStrNull (k : list N)       (* putstr(name, NULL) *)
| HPutInt (k : list N) (z : Z)
| HGet (k : list N) | HGetStr (k : list N) | HGetInt (k : list N)
| HRemove (k : list N)
| HPutNullName (v : list N) | HGetNullName | HRemoveNullName
| HClear | HSize
| HWalk (n : nat).               (* zeroed hcursor, then up to n calls of getnext on the unmodified table *)
Inductive hobs :=
| HOk | HErr (e : herr) | HVal (v : list N) | HInt (z : Z) | HNum (n : N) | HUnit
| HWalked (l : list (list N * list N)) (ended : bool).

Section Hashtbl.
Variable hash : list N -> N.

(* qhashtbl(hrange, options) *)
Definition hinit (r : N) : htbl :=
  let r' := if r =? 0 then DEFAULT_INDEX_RANGE else r in
  mkHT (repeat [] (N.to_nat r')) r' 0 1.

Definition hslot_idx (s : htbl) (h : N) : nat := N.to_nat (h mod hrange s).      (* int idx = hash % htbl->hrange *)
Definition hchain_at (s : htbl) (i : nat) : res hchain :=
  match nth_error (hslots s) i with Some c => Ok c | None => Crash end.
(* obj->hash == hash && !strcmp(obj->name, name) *)
Definition hematch (h : N) (k : list N) (e : hent) : bool := (ehash e =? h) && hbytes_eqb (ename e) k.
Fixpoint hreplace_first (h : N) (k : list N) (f : hent -> hent) (ch : hchain) : hchain :=
  match ch with
  | [] => []
  | x :: r => if hematch h k x then f x :: r else x :: hreplace_first h k f r
  end.
Fixpoint hunlink (h : N) (k : list N) (ch : hchain) : option hchain :=
  match ch with
  | [] => None
  | x :: r => if hematch h k x then Some r
              else match hunlink h k r with Some r' => Some (x :: r') | None => None end
  end.

Definition hput (s : htbl) (name data : list N) : res (htbl * hobs) :=
  let k := hcstr_of name in
  let h := hash k in
  let i := hslot_idx s h in
  bind (hchain_at s i) (fun ch =>
  match find (hematch h k) ch with
  | None =>       (* insert: new node object at the beginning of the hchain; hnum++ *)
    Ok (mkHT (hset_nth i (mkHEnt (hnextid s) h k data :: ch) (hslots s)) (hrange s) (hnum s + 1) (Pos.succ (hnextid s)), HOk)
  | Some _ =>     (* replace: the node stays where it is, old name/data are freed, the new duplicates stored *)
    Ok (mkHT (hset_nth i (hreplace_first h k (fun x => mkHEnt (eid x) h k data) ch) (hslots s)) (hrange s) (hnum s) (hnextid s), HOk)
  end).
Definition hputstr (s : htbl) (name str : list N) : res (htbl * hobs) := hput s name (hcstr_of str ++ [0]).
Definition hputint (s : htbl) (name : list N) (z : Z) : res (htbl * hobs) := hputstr s name (hputint_text z).

Definition hfind (s : htbl) (name : list N) : res (option hent) :=
  let k := hcstr_of name in
  let h := hash k in
  bind (hchain_at s (hslot_idx s h)) (fun ch => Ok (find (hematch h k) ch)).
Definition hget (s : htbl) (name : list N) : res hobs :=
  bind (hfind s name) (fun o => Ok (match o with Some e => HVal (edata e) | None => HErr HENOENT end)).
(* getint: getstr(newmem = true), then hatoll on the exact-size copy *)
Definition hgetint (s : htbl) (name : list N) : res hobs :=
  bind (hfind s name) (fun o =>
  match o with
  | None => Ok (HErr HENOENT)
  | Some e => if hatoll_stops (edata e) then Ok (HInt (hatoll (edata e))) else Crash
  end).

Definition hremove (s : htbl) (name : list N) : res (htbl * hobs) :=
  let k := hcstr_of name in
  let h := hash k in
  let i := hslot_idx s h in
  bind (hchain_at s i) (fun ch =>
  match hunlink h k ch with
  | Some ch' => Ok (mkHT (hset_nth i ch' (hslots s)) (hrange s) (hnum s - 1) (hnextid s), HOk)
  | None => Ok (s, HErr HENOENT)
  end).

(* for (idx = 0; idx < hrange && hnum > 0; idx++) { free the whole hchain, hnum-- per object } *)
Fixpoint hclear_loop (sl : list hchain) (n : N) : list hchain * N :=
  match sl with
  | [] => ([], n)
  | ch :: r => if n =? 0 then (sl, n)
               else let (r', n') := hclear_loop r (n - N.of_nat (length ch)) in ([] :: r', n')
  end.
Definition hclear (s : htbl) : htbl :=
  let (sl, n) := hclear_loop (hslots s) (hnum s) in mkHT sl (hrange s) n (hnextid s).
Definition hsize (s : htbl) : N := hnum s.

(* ---- getnext ---- *)
(* the node object a pointer designates, with its own next pointer *)
Fixpoint hchain_find (p : positive) (ch : hchain) : option (hent * option positive) :=
  match ch with
  | [] => None
  | e :: r => if Pos.eqb (eid e) p then Some (e, hhead_id r) else hchain_find p r
  end.
Fixpoint hderef (p : positive) (sl : list hchain) : option (hent * option positive) :=
  match sl with
  | [] => None
  | ch :: r => match hchain_find p ch with Some x => Some x | None => hderef p r end
  end.
(* for (; idx < hrange; idx++) if (hslots[idx] != NULL) { hcursor = hslots[idx]; break; } *)
Fixpoint hfirst_nonempty (sl : list hchain) : option (hent * option positive) :=
  match sl with
  | [] => None
  | [] :: r => hfirst_nonempty r
  | (e :: ch) :: _ => Some (e, hhead_id ch)
  end.
Definition hgetnext (s : htbl) (c : hcursor) : res (hcursor * option (list N * list N)) :=
  let idx := if cset c then (N.to_nat (chash c mod hrange s) + 1)%nat else 0%nat in
  let link := if cset c then cnext c else None in
  match link with
  | Some p =>                                                   (* has link *)
    match hderef p (hslots s) with
    | Some (e, nx) => Ok (mkHCur true (ehash e) nx, Some (ename e, edata e))
    | None => Crash
    end
  | None =>                                                     (* search from next index *)
    match hfirst_nonempty (skipn idx (hslots s)) with
    | Some (e, nx) => Ok (mkHCur true (ehash e) nx, Some (ename e, edata e))
    | None => Ok (c, None)                                      (* HENOENT; obj untouched *)
    end
  end.
Fixpoint hwalk_n (n : nat) (s : htbl) (c : hcursor) (acc : list (list N * list N)) : res (list (list N * list N) * bool) :=
  match n with
  | O => Ok (rev acc, false)
  | S n' => bind (hgetnext s c) (fun r =>
            match r with
            | (c', Some hkv) => hwalk_n n' s c' (hkv :: acc)
            | (_, None) => Ok (rev acc, true)
            end)
  end.

(* ---- histories ---- *)
Definition hstep (s : htbl) (o : hop) : res (htbl * hobs) :=
  match o with
  | HPut k v => hput s k v
  | HPutNullData k => Ok (s, HErr HEINVAL)
  | HPutStr k str => hputstr s k str
  | HPutStrNull k => Ok (s, HErr HEINVAL)            (* put(name, NULL, 0) *)
  | HPutInt k z => hputint s k z
  | HGet k => bind (hget s k) (fun ob => Ok (s, ob))
  | HGetStr k => bind (hget s k) (fun ob => Ok (s, ob))
  | HGetInt k => bind (hgetint s k) (fun ob => Ok (s, ob))
  | HRemove k => hremove s k
  | HPutNullName _ | HGetNullName | HRemoveNullName => Ok (s, HErr HEINVAL)
  | HClear => Ok (hclear s, HUnit)
  | HSize => Ok (s, HNum (hsize s))
  | HWalk n => bind (hwalk_n n s hcursor0 []) (fun r => Ok (s, HWalked (fst r) (snd r)))
  end.
Fixpoint hrun (s : htbl) (os : list hop) : res (htbl * list hobs) :=
  match os with
  | [] => Ok (s, [])
  | o :: r => bind (hstep s o) (fun p => bind (hrun (fst p) r) (fun q => Ok (fst q, snd p :: snd q)))
  end.

(* what the table stores, in walk order *)
Definition hflat (s : htbl) : list hent := concat (hslots s).
Definition hkv (e : hent) : list N * list N := (ename e, edata e).
Definition habs (s : htbl) : list (list N * list N) := map hkv (hflat s).
End Hashtbl.
