(* C05: the invariant of qhashtbl, refinement of the association-list map by every history for every range, and the
   getnext walk.  Everything is inside a section over an arbitrary hash function. *)
From Coq Require Import NArith ZArith PArith List Bool Lia Permutation ZifyBool ZifyNat ZifyN.
From QV.Base Require Import Res.
From QV.Gen Require Import Consts.
From QV.Hash Require Import HashtblModel HashtblSpec HashtblText.
Import ListNotations.
Local Open Scope N_scope.
Ltac Zify.zify_post_hook ::= Z.div_mod_to_equations.

(* ------------------------------------------------------------------ lists *)
Lemma hset_nth_length {A} i (x : A) l : length (hset_nth i x l) = length l.
Proof. revert i. induction l as [|y l IH]; intros [|i]; cbn [hset_nth length]; auto. Qed.
Lemma hset_nth_app {A} (a : list A) x y b : hset_nth (length a) y (a ++ x :: b) = a ++ y :: b.
Proof. induction a as [|z a IH]; cbn [length app hset_nth]; [reflexivity | f_equal; exact IH]. Qed.
Lemma nth_error_mid {A} (a : list A) x b : nth_error (a ++ x :: b) (length a) = Some x.
Proof. induction a; cbn; auto. Qed.
(* looking into a list in which one element was exchanged *)
Lemma nth_error_exchange {A} (a : list A) x x' b j c :
  nth_error (a ++ x' :: b) j = Some c -> (j = length a /\ c = x') \/ (j <> length a /\ nth_error (a ++ x :: b) j = Some c).
Proof.
  revert j. induction a as [|z a IH]; intros [|j] H; cbn [app length nth_error] in *.
  - left. split; congruence.
  - right. split; [discriminate | exact H].
  - right. split; [discriminate | exact H].
  - destruct (IH j H) as [[-> ->] | [Hn Hc]]; [left; auto | right; split; [congruence | exact Hc]].
Qed.
Lemma skipn_mid {A} (a : list A) x b : skipn (S (length a)) (a ++ x :: b) = b.
Proof. induction a; cbn [length app skipn]; auto. Qed.
Lemma skipn_length_app {A} (a b : list A) : skipn (length a) (a ++ b) = b.
Proof. induction a; cbn [length app skipn]; auto. Qed.
Lemma concat_repeat_nil {A} n : concat (repeat (@nil A) n) = [].
Proof. induction n; cbn; auto. Qed.
Lemma in_concat_nth {A} (l : list (list A)) e : In e (concat l) -> exists i ch, nth_error l i = Some ch /\ In e ch.
Proof.
  intros H. apply in_concat in H. destruct H as (ch & Hch & He). apply In_nth_error in Hch. destruct Hch as [i Hi]. eauto.
Qed.
Lemma nth_in_concat {A} (l : list (list A)) i ch e : nth_error l i = Some ch -> In e ch -> In e (concat l).
Proof. intros H He. apply in_concat. exists ch. split; [eapply nth_error_In; eauto | exact He]. Qed.
Lemma nodup_app_l {A} (a b : list A) : NoDup (a ++ b) -> NoDup a.
Proof.
  induction a as [|x a IH]; cbn [app]; intros H; [constructor|].
  inversion H; subst. constructor; [|auto]. intros Hi. apply H2. apply in_or_app. auto.
Qed.
Lemma nodup_app_r {A} (a b : list A) : NoDup (a ++ b) -> NoDup b.
Proof. induction a as [|x a IH]; cbn [app]; intros H; [exact H|]. inversion H; subst. auto. Qed.
Lemma nodup_app_disjoint {A} (l1 l2 : list A) p : NoDup (l1 ++ l2) -> In p l1 -> In p l2 -> False.
Proof.
  induction l1 as [|y l1 IH]; cbn [app In]; intros H H1 H2; [tauto|].
  inversion H as [|? ? Hn Hd]; subst. destruct H1 as [-> | H1]; [apply Hn; apply in_or_app; auto | eauto].
Qed.
Lemma NoDup_firstn {A} n (l : list A) : NoDup l -> NoDup (firstn n l).
Proof.
  intros H. rewrite <- (firstn_skipn n l) in H. apply nodup_app_l in H. exact H.
Qed.
Lemma option_ext {A} (a b : option A) : (forall v, a = Some v <-> b = Some v) -> a = b.
Proof.
  intros H. destruct a as [x|], b as [y|]; auto.
  - destruct (H x) as [H1 _]. symmetry. auto.
  - destruct (H x) as [H1 _]. specialize (H1 eq_refl). discriminate.
  - destruct (H y) as [_ H2]. specialize (H2 eq_refl). discriminate.
Qed.

(* ------------------------------------------------------------------ association lists *)
Lemma haget_notin k m : ~ In k (map fst m) -> haget k m = None.
Proof.
  induction m as [|[k' v] m IH]; cbn [haget map fst In]; intros H; [reflexivity|].
  destruct (hbytes_eqb k' k) eqn:E.
  - apply hbytes_eqb_eq in E. tauto.
  - apply IH. tauto.
Qed.
Lemma haget_some_in k v m : haget k m = Some v -> In (k, v) m.
Proof.
  induction m as [|[k' v'] m IH]; cbn [haget In]; [discriminate|].
  destruct (hbytes_eqb k' k) eqn:E.
  - apply hbytes_eqb_eq in E. intros H. injection H as ->. left. congruence.
  - auto.
Qed.
Lemma haget_in k v m : NoDup (map fst m) -> In (k, v) m -> haget k m = Some v.
Proof.
  induction m as [|[k' v'] m IH]; cbn [haget map fst In]; intros Hn Hi; [tauto|].
  inversion Hn as [|? ? Hni Hn']; subst.
  destruct Hi as [Hi | Hi].
  - injection Hi as -> ->. rewrite hbytes_eqb_refl. reflexivity.
  - destruct (hbytes_eqb k' k) eqn:E.
    + apply hbytes_eqb_eq in E. subst. exfalso. apply Hni. apply in_map_iff. exists (k, v). auto.
    + auto.
Qed.
Lemma haget_in_iff k v m : NoDup (map fst m) -> (haget k m = Some v <-> In (k, v) m).
Proof. intros H. split; [apply haget_some_in | apply haget_in; exact H]. Qed.
Lemma haget_perm k a b : NoDup (map fst a) -> Permutation a b -> haget k a = haget k b.
Proof.
  intros Hn Hp. assert (Hn' : NoDup (map fst b)) by (eapply Permutation_NoDup; [apply Permutation_map; exact Hp | exact Hn]).
  apply option_ext. intros v. rewrite !haget_in_iff by assumption.
  split; intros H; [eapply Permutation_in; eauto | eapply Permutation_in; [apply Permutation_sym|]; eauto].
Qed.
Lemma same_lookup_perm a b : NoDup (map fst a) -> NoDup (map fst b) -> (forall k, haget k a = haget k b) -> Permutation a b.
Proof.
  intros Ha Hb H. apply NoDup_Permutation.
  - eapply NoDup_map_inv; eauto.
  - eapply NoDup_map_inv; eauto.
  - intros [k v]. rewrite <- !haget_in_iff by assumption. rewrite H. tauto.
Qed.
Lemma haget_haset k' k v m : haget k' (haset k v m) = if hbytes_eqb k k' then Some v else haget k' m.
Proof.
  induction m as [|[k0 v0] m IH]; cbn [haset haget].
  - reflexivity.
  - destruct (hbytes_eqb k0 k) eqn:E; cbn [haget].
    + apply hbytes_eqb_eq in E. subst k0. destruct (hbytes_eqb k k'); reflexivity.
    + rewrite IH. destruct (hbytes_eqb k0 k') eqn:E2; [|reflexivity].
      apply hbytes_eqb_eq in E2. subst k'. rewrite hbytes_eqb_sym, E. reflexivity.
Qed.
Lemma haset_keys k v m : NoDup (map fst m) -> NoDup (map fst (haset k v m)).
Proof.
  induction m as [|[k0 v0] m IH]; cbn [haset map fst]; intros H.
  - repeat constructor. auto.
  - inversion H as [|? ? Hni Hn]; subst. destruct (hbytes_eqb k0 k) eqn:E; cbn [map fst].
    + constructor; auto.
    + constructor; [|auto]. intros Hi. apply in_map_iff in Hi. destruct Hi as ([k1 v1] & Hk & Hi). cbn in Hk. subst k1.
      apply haget_in in Hi; [|apply IH; exact Hn]. rewrite haget_haset in Hi.
      destruct (hbytes_eqb k k0) eqn:E3; [apply hbytes_eqb_eq in E3; subst; rewrite hbytes_eqb_refl in E; discriminate|].
      apply haget_some_in in Hi. apply Hni. apply in_map_iff. exists (k0, v1). auto.
Qed.
Lemma hadel_incl k m x : In x (hadel k m) -> In x m.
Proof.
  induction m as [|[k0 v0] m IH]; cbn [hadel In]; [tauto|].
  destruct (hbytes_eqb k0 k); cbn [In]; tauto.
Qed.
Lemma hadel_keys k m : NoDup (map fst m) -> NoDup (map fst (hadel k m)).
Proof.
  induction m as [|[k0 v0] m IH]; cbn [hadel map fst]; intros H; [constructor|].
  inversion H as [|? ? Hni Hn]; subst. destruct (hbytes_eqb k0 k); [exact Hn|].
  cbn [map fst]. constructor; [|auto]. intros Hi. apply Hni. apply in_map_iff in Hi. destruct Hi as (x & Hx & Hi).
  apply in_map_iff. exists x. split; [exact Hx | eapply hadel_incl; eauto].
Qed.
Lemma haget_hadel k' k m : NoDup (map fst m) -> haget k' (hadel k m) = if hbytes_eqb k k' then None else haget k' m.
Proof.
  induction m as [|[k0 v0] m IH]; cbn [hadel haget map fst]; intros H.
  - destruct (hbytes_eqb k k'); reflexivity.
  - inversion H as [|? ? Hni Hn]; subst. destruct (hbytes_eqb k0 k) eqn:E.
    + apply hbytes_eqb_eq in E. subst. destruct (hbytes_eqb k k') eqn:E2; [|reflexivity].
      apply hbytes_eqb_eq in E2. subst. apply haget_notin. exact Hni.
    + cbn [haget]. rewrite IH by exact Hn. destruct (hbytes_eqb k0 k') eqn:E2; [|reflexivity].
      apply hbytes_eqb_eq in E2. subst. rewrite (proj2 (hbytes_eqb_neq k k')); [reflexivity|].
      intros ->. rewrite hbytes_eqb_refl in E. discriminate.
Qed.

(* ------------------------------------------------------------------ chains *)
Lemma find_split {A} (f : A -> bool) l x : find f l = Some x -> exists p q, l = p ++ x :: q /\ f x = true.
Proof.
  induction l as [|y l IH]; cbn [find]; [discriminate|].
  destruct (f y) eqn:E.
  - intros H. injection H as ->. exists [], l. auto.
  - intros H. destruct (IH H) as (p & q & -> & Hx). exists (y :: p), q. auto.
Qed.
Lemma hreplace_first_spec h k g ch x : find (hematch h k) ch = Some x ->
  exists p q, ch = p ++ x :: q /\ hreplace_first h k g ch = p ++ g x :: q.
Proof.
  induction ch as [|y ch IH]; cbn [find hreplace_first]; [discriminate|].
  destruct (hematch h k y) eqn:E.
  - intros H. injection H as ->. exists [], ch. auto.
  - intros H. destruct (IH H) as (p & q & Hc & Hr). exists (y :: p), q. rewrite Hr. cbn [app]. split; [f_equal; exact Hc | reflexivity].
Qed.
Lemma hunlink_spec h k ch :
  match find (hematch h k) ch with
  | Some x => exists p q, ch = p ++ x :: q /\ hunlink h k ch = Some (p ++ q)
  | None => hunlink h k ch = None
  end.
Proof.
  induction ch as [|y ch IH]; cbn [find hunlink]; [reflexivity|].
  destruct (hematch h k y) eqn:E.
  - exists [], ch. auto.
  - destruct (find (hematch h k) ch) as [x|].
    + destruct IH as (p & q & Hc & Hu). exists (y :: p), q. rewrite Hu. cbn [app]. split; [f_equal; exact Hc | reflexivity].
    + rewrite IH. reflexivity.
Qed.

Section Proofs.
Variable hash : list N -> N.

(* ------------------------------------------------------------------ the invariant *)
Record inv (s : htbl) : Prop := mkInv {
  inv_len : length (hslots s) = N.to_nat (hrange s);
  inv_range : 0 < hrange s;
  (* chain i holds entries whose stored hash is the hash of their name and whose index is i *)
  inv_place : forall i ch e, nth_error (hslots s) i = Some ch -> In e ch ->
              ehash e = hash (ename e) /\ N.to_nat (ehash e mod hrange s) = i;
  inv_names : NoDup (map ename (hflat s));                      (* no name twice in the table *)
  inv_num : hnum s = N.of_nat (length (hflat s));               (* num = total number of entries *)
  inv_ids : NoDup (map eid (hflat s));                          (* node objects are distinct *)
  inv_fresh : forall e, In e (hflat s) -> (eid e < hnextid s)%positive
}.

(* every stored entry whose index is i is in chain i: with inv_place, "chain i holds exactly the entries of index i" *)
Lemma inv_exact s e : inv s -> In e (hflat s) ->
  exists ch, nth_error (hslots s) (N.to_nat (hash (ename e) mod hrange s)) = Some ch /\ In e ch.
Proof.
  intros I He. apply in_concat_nth in He. destruct He as (i & ch & Hi & He).
  destruct (inv_place s I i ch e Hi He) as [Hh Hx]. rewrite <- Hh, Hx. eauto.
Qed.

Lemma slot_exists s h : inv s -> exists ch, nth_error (hslots s) (hslot_idx s h) = Some ch.
Proof.
  intros I. destruct (nth_error (hslots s) (hslot_idx s h)) eqn:E; [eauto|].
  apply nth_error_None in E. rewrite (inv_len s I) in E. unfold hslot_idx in E.
  pose proof (inv_range s I). assert (h mod hrange s < hrange s) by (apply N.mod_lt; lia). lia.
Qed.

Lemma abs_keys s : map fst (habs s) = map ename (hflat s).
Proof. unfold habs. rewrite map_map. reflexivity. Qed.

(* looking a name up in the whole table = the chain search the code does *)
Lemma lookup_chain s k ch : inv s -> nth_error (hslots s) (hslot_idx s (hash k)) = Some ch ->
  haget k (habs s) = option_map edata (find (hematch (hash k) k) ch).
Proof.
  intros I Hch. destruct (find (hematch (hash k) k) ch) as [e|] eqn:F; cbn [option_map].
  - apply find_some in F. destruct F as [He Hm]. unfold hematch in Hm. apply andb_true_iff in Hm. destruct Hm as [_ Hm].
    apply hbytes_eqb_eq in Hm. apply haget_in.
    + rewrite abs_keys. apply (inv_names s I).
    + unfold habs. apply in_map_iff. exists e. unfold hkv. split; [congruence|]. eapply nth_in_concat; eauto.
  - apply haget_notin. rewrite abs_keys. intros Hi. apply in_map_iff in Hi. destruct Hi as (e & Hn & He).
    destruct (inv_exact s e I He) as (ch' & Hch' & He'). rewrite Hn in Hch'. unfold hslot_idx in Hch. rewrite Hch in Hch'.
    injection Hch' as <-. pose proof (find_none _ _ F e He') as Hm. unfold hematch in Hm.
    apply in_concat_nth in He. destruct He as (j & cj & Hj & Hcj). destruct (inv_place s I j cj e Hj Hcj) as [Hh _].
    rewrite Hh, Hn, N.eqb_refl, hbytes_eqb_refl in Hm. discriminate.
Qed.

(* exchanging one chain *)
Lemma inv_update s a ch b ch' n' id' :
  inv s -> hslots s = a ++ ch :: b ->
  (forall e, In e ch' -> ehash e = hash (ename e) /\ N.to_nat (ehash e mod hrange s) = length a) ->
  NoDup (map ename (concat a ++ ch' ++ concat b)) ->
  NoDup (map eid (concat a ++ ch' ++ concat b)) ->
  n' = N.of_nat (length (concat a ++ ch' ++ concat b)) ->
  (forall e, In e (concat a ++ ch' ++ concat b) -> (eid e < id')%positive) ->
  inv (mkHT (a ++ ch' :: b) (hrange s) n' id').
Proof.
  intros I Hs Hp Hn Hi Hnum Hf.
  assert (Hflat : hflat (mkHT (a ++ ch' :: b) (hrange s) n' id') = concat a ++ ch' ++ concat b).
  { unfold hflat. cbn [hslots]. rewrite concat_app. cbn [concat]. reflexivity. }
  constructor; cbn [hslots hrange hnum hnextid]; try rewrite Hflat; auto.
  - rewrite <- (inv_len s I), Hs, !app_length. reflexivity.
  - apply (inv_range s I).
  - intros i c e Hc He. destruct (nth_error_exchange a ch ch' b i c Hc) as [[-> ->] | [_ Hc']].
    + apply Hp. exact He.
    + rewrite <- Hs in Hc'. eapply (inv_place s I); eauto.
Qed.
Lemma flat_split s a ch b : hslots s = a ++ ch :: b -> hflat s = concat a ++ ch ++ concat b.
Proof. intros H. unfold hflat. rewrite H, concat_app. reflexivity. Qed.

(* ------------------------------------------------------------------ state relation *)
Definition R (s : htbl) (m : hsmap) : Prop :=
  inv s /\ NoDup (map fst m) /\ forall k, haget k m = haget k (habs s).

Lemma R_perm s m : R s m -> Permutation (habs s) m.
Proof.
  intros (I & Hm & Hl). apply same_lookup_perm; auto.
  - rewrite abs_keys. apply (inv_names s I).
Qed.

Lemma init_inv r : inv (hinit r).
Proof.
  unfold hinit. set (r' := if r =? 0 then DEFAULT_INDEX_RANGE else r).
  assert (Hr : 0 < r').
  { unfold r'. destruct (r =? 0) eqn:E; [reflexivity | apply N.eqb_neq in E; lia]. }
  constructor; cbn [hslots hrange hnum hnextid]; unfold hflat; cbn [hslots]; try rewrite concat_repeat_nil; cbn [map length].
  - apply repeat_length.
  - exact Hr.
  - intros i ch e Hc He. apply nth_error_In in Hc. apply repeat_spec in Hc. subst. destruct He.
  - constructor.
  - reflexivity.
  - constructor.
  - intros e [].
Qed.
Lemma init_R r : R (hinit r) [].
Proof.
  split; [apply init_inv|]. split; [constructor|]. intros k. unfold habs, hflat, hinit. cbn [hslots]. rewrite concat_repeat_nil. reflexivity.
Qed.

(* ------------------------------------------------------------------ put *)
Lemma put_refines s m name v : R s m ->
  exists s', hput hash s name v = Ok (s', HOk) /\ R s' (haset (hcstr_of name) v m).
Proof.
  intros (I & Hm & Hl). set (k := hcstr_of name). unfold hput. fold k.
  destruct (slot_exists s (hash k) I) as [ch Hch]. unfold hchain_at. rewrite Hch. cbn [bind].
  pose proof (lookup_chain s k ch I Hch) as Hlook.
  destruct (nth_error_split _ _ Hch) as (a & b & Hs & Ha).
  pose proof (flat_split s a ch b Hs) as Hf.
  assert (Hnth : nth_error (hslots s) (length a) = Some ch) by (rewrite Hs; apply nth_error_mid).
  destruct (find (hematch (hash k) k) ch) as [x|] eqn:F.
  - (* replace in place *)
    destruct (hreplace_first_spec (hash k) k (fun x => mkHEnt (eid x) (hash k) k v) ch x F) as (p & q & Hc & Hr).
    rewrite Hr, Hs, <- Ha, hset_nth_app. eexists. split; [reflexivity|].
    pose proof (find_some _ _ F) as [Hx Hmx]. unfold hematch in Hmx. apply andb_true_iff in Hmx. destruct Hmx as [_ Hnx]. apply hbytes_eqb_eq in Hnx.
    set (x' := mkHEnt (eid x) (hash k) k v).
    assert (Hnames : map ename (concat a ++ (p ++ x' :: q) ++ concat b) = map ename (hflat s)).
    { rewrite Hf, Hc, !map_app. cbn [map ename]. rewrite Hnx. reflexivity. }
    assert (Hids : map eid (concat a ++ (p ++ x' :: q) ++ concat b) = map eid (hflat s)).
    { rewrite Hf, Hc, !map_app. reflexivity. }
    assert (Hlen : length (concat a ++ (p ++ x' :: q) ++ concat b) = length (hflat s)).
    { rewrite <- (map_length eid), Hids, map_length. reflexivity. }
    assert (I' : inv (mkHT (a ++ (p ++ x' :: q) :: b) (hrange s) (hnum s) (hnextid s))).
    { apply (inv_update s a ch b); auto.
      - intros e He. apply in_app_or in He. destruct He as [He | [<- | He]].
        + apply (inv_place s I _ ch e Hnth). rewrite Hc. apply in_or_app. auto.
        + cbn [ehash ename]. split; [reflexivity|]. fold (hslot_idx s (hash k)). rewrite Ha. reflexivity.
        + apply (inv_place s I _ ch e Hnth). rewrite Hc. apply in_or_app. right. right. exact He.
      - rewrite Hnames. apply (inv_names s I).
      - rewrite Hids. apply (inv_ids s I).
      - rewrite Hlen. apply (inv_num s I).
      - intros e He. assert (Hin : In (eid e) (map eid (hflat s))) by (rewrite <- Hids; apply in_map; exact He).
        apply in_map_iff in Hin. destruct Hin as (e0 & He0 & Hin). rewrite <- He0. apply (inv_fresh s I). exact Hin. }
    split; [exact I'|]. split; [apply haset_keys; exact Hm|].
    intros k'. rewrite haget_haset, Hl.
    (* both tables are (k, _) :: the rest, up to order *)
    assert (Hn0 : NoDup (map fst (habs s))) by (rewrite abs_keys; apply (inv_names s I)).
    assert (P1 : Permutation (habs s) ((k, edata x) :: map hkv (concat a ++ p) ++ map hkv (q ++ concat b))).
    { unfold habs. rewrite Hf, Hc. replace (concat a ++ (p ++ x :: q) ++ concat b) with ((concat a ++ p) ++ x :: (q ++ concat b)) by (rewrite <- !app_assoc; reflexivity).
      rewrite map_app. cbn [map]. unfold hkv at 2. rewrite Hnx. apply Permutation_sym, Permutation_middle. }
    assert (P2 : Permutation (habs (mkHT (a ++ (p ++ x' :: q) :: b) (hrange s) (hnum s) (hnextid s))) ((k, v) :: map hkv (concat a ++ p) ++ map hkv (q ++ concat b))).
    { unfold habs, hflat. cbn [hslots]. rewrite concat_app. cbn [concat].
      replace (concat a ++ (p ++ x' :: q) ++ concat b) with ((concat a ++ p) ++ x' :: (q ++ concat b)) by (rewrite <- !app_assoc; reflexivity).
      rewrite map_app. cbn [map]. apply Permutation_sym, Permutation_middle. }
    assert (Hn2 : NoDup (map fst (habs (mkHT (a ++ (p ++ x' :: q) :: b) (hrange s) (hnum s) (hnextid s))))) by (rewrite abs_keys; apply (inv_names _ I')).
    rewrite (haget_perm k' _ _ Hn0 P1).
    etransitivity; [|symmetry; apply (haget_perm k' _ _ Hn2 P2)].
    cbn [haget]. destruct (hbytes_eqb k k'); reflexivity.
  - (* insert at the head of the chain *)
    rewrite Hs, <- Ha, hset_nth_app. eexists. split; [reflexivity|].
    cbn [option_map] in Hlook.
    set (e := mkHEnt (hnextid s) (hash k) k v).
    assert (P : Permutation (concat a ++ (e :: ch) ++ concat b) (e :: hflat s)).
    { rewrite Hf. apply Permutation_sym. apply (Permutation_middle (concat a) (ch ++ concat b) e). }
    assert (Hnk : ~ In k (map ename (hflat s))).
    { rewrite <- abs_keys. intros Hi. apply in_map_iff in Hi. destruct Hi as ([k0 v0] & Hk & Hi). cbn in Hk. subst k0.
      apply haget_in in Hi; [congruence|]. rewrite abs_keys. apply (inv_names s I). }
    assert (I' : inv (mkHT (a ++ (e :: ch) :: b) (hrange s) (hnum s + 1) (Pos.succ (hnextid s)))).
    { apply (inv_update s a ch b); auto.
      - intros e0 [<- | He].
        + cbn [ehash ename]. split; [reflexivity|]. fold (hslot_idx s (hash k)). rewrite Ha. reflexivity.
        + apply (inv_place s I _ ch e0 Hnth He).
      - eapply Permutation_NoDup; [apply Permutation_map, Permutation_sym, P|]. cbn [map ename]. constructor; [exact Hnk | apply (inv_names s I)].
      - eapply Permutation_NoDup; [apply Permutation_map, Permutation_sym, P|]. cbn [map eid]. constructor; [|apply (inv_ids s I)].
        intros Hi. apply in_map_iff in Hi. destruct Hi as (e0 & He0 & Hi). pose proof (inv_fresh s I e0 Hi).
        assert (eid e = hnextid s) by reflexivity. lia.
      - rewrite (Permutation_length P). cbn [length]. rewrite (inv_num s I). lia.
      - intros e0 He0. apply (Permutation_in _ P) in He0. destruct He0 as [<- | He0].
        + change (eid e) with (hnextid s). lia.
        + pose proof (inv_fresh s I e0 He0). lia. }
    split; [exact I'|]. split; [apply haset_keys; exact Hm|].
    intros k'. rewrite haget_haset, Hl.
    assert (P2 : Permutation (habs (mkHT (a ++ (e :: ch) :: b) (hrange s) (hnum s + 1) (Pos.succ (hnextid s)))) ((k, v) :: habs s)).
    { unfold habs at 1. unfold hflat. cbn [hslots]. rewrite concat_app. cbn [concat]. change ((k, v) :: habs s) with (map hkv (e :: hflat s)).
      apply Permutation_map. exact P. }
    assert (Hn2 : NoDup (map fst (habs (mkHT (a ++ (e :: ch) :: b) (hrange s) (hnum s + 1) (Pos.succ (hnextid s)))))) by (rewrite abs_keys; apply (inv_names _ I')).
    etransitivity; [|symmetry; apply (haget_perm k' _ _ Hn2 P2)].
    cbn [haget]. reflexivity.
Qed.

(* ------------------------------------------------------------------ get *)
Lemma find_refines s m name : R s m ->
  exists o, hfind hash s name = Ok o /\ haget (hcstr_of name) m = option_map edata o.
Proof.
  intros (I & Hm & Hl). set (k := hcstr_of name). unfold hfind. fold k.
  destruct (slot_exists s (hash k) I) as [ch Hch]. unfold hchain_at. rewrite Hch. cbn [bind].
  eexists. split; [reflexivity|]. rewrite Hl. apply lookup_chain; assumption.
Qed.

(* ------------------------------------------------------------------ remove *)
Lemma remove_refines s m name : R s m ->
  match haget (hcstr_of name) m with
  | Some _ => exists s', hremove hash s name = Ok (s', HOk) /\ R s' (hadel (hcstr_of name) m)
  | None => hremove hash s name = Ok (s, HErr HENOENT)
  end.
Proof.
  intros (I & Hm & Hl). set (k := hcstr_of name). unfold hremove. fold k.
  destruct (slot_exists s (hash k) I) as [ch Hch]. unfold hchain_at. rewrite Hch. cbn [bind].
  pose proof (lookup_chain s k ch I Hch) as Hlook. rewrite Hl, Hlook.
  pose proof (hunlink_spec (hash k) k ch) as Hu.
  destruct (find (hematch (hash k) k) ch) as [x|] eqn:F; cbn [option_map].
  - destruct Hu as (p & q & Hc & Hu). rewrite Hu.
    destruct (nth_error_split _ _ Hch) as (a & b & Hs & Ha).
    pose proof (flat_split s a ch b Hs) as Hf.
    assert (Hnth : nth_error (hslots s) (length a) = Some ch) by (rewrite Hs; apply nth_error_mid).
    rewrite Hs, <- Ha, hset_nth_app. eexists. split; [reflexivity|].
    pose proof (find_some _ _ F) as [Hx Hmx]. unfold hematch in Hmx. apply andb_true_iff in Hmx. destruct Hmx as [_ Hnx]. apply hbytes_eqb_eq in Hnx.
    assert (E1 : hflat s = (concat a ++ p) ++ x :: (q ++ concat b)) by (rewrite Hf, Hc, <- !app_assoc; reflexivity).
    assert (E2 : concat a ++ (p ++ q) ++ concat b = (concat a ++ p) ++ (q ++ concat b)) by (rewrite <- !app_assoc; reflexivity).
    assert (I' : inv (mkHT (a ++ (p ++ q) :: b) (hrange s) (hnum s - 1) (hnextid s))).
    { apply (inv_update s a ch b); auto.
      - intros e He. apply (inv_place s I _ ch e Hnth). rewrite Hc. apply in_app_or in He. apply in_or_app. cbn [In]. tauto.
      - rewrite E2, map_app. pose proof (inv_names s I) as Hn. rewrite E1, map_app in Hn. cbn [map] in Hn. eapply NoDup_remove_1; eauto.
      - rewrite E2, map_app. pose proof (inv_ids s I) as Hn. rewrite E1, map_app in Hn. cbn [map] in Hn. eapply NoDup_remove_1; eauto.
      - rewrite E2, (inv_num s I), E1, !app_length. cbn [length]. rewrite !app_length. lia.
      - intros e He. apply (inv_fresh s I). rewrite E2 in He. rewrite E1. apply in_app_or in He. apply in_or_app. cbn [In]. tauto. }
    split; [exact I'|]. split; [apply hadel_keys; exact Hm|].
    intros k'. rewrite haget_hadel by exact Hm. rewrite Hl.
    assert (Hn0 : NoDup (map fst (habs s))) by (rewrite abs_keys; apply (inv_names s I)).
    assert (P1 : Permutation (habs s) ((k, edata x) :: habs (mkHT (a ++ (p ++ q) :: b) (hrange s) (hnum s - 1) (hnextid s)))).
    { unfold habs, hflat at 2. cbn [hslots]. rewrite concat_app. cbn [concat]. rewrite E1, E2.
      replace (k, edata x) with (hkv x) by (unfold hkv; rewrite Hnx; reflexivity).
      change (hkv x :: map hkv ((concat a ++ p) ++ q ++ concat b)) with (map hkv (x :: (concat a ++ p) ++ q ++ concat b)).
      apply Permutation_map, Permutation_sym, Permutation_middle. }
    rewrite (haget_perm k' _ _ Hn0 P1). cbn [haget].
    destruct (hbytes_eqb k k') eqn:E; [|reflexivity].
    apply hbytes_eqb_eq in E. subst k'. symmetry. apply haget_notin.
    pose proof (Permutation_NoDup (Permutation_map fst P1) Hn0) as Hn1. cbn [map fst] in Hn1. inversion Hn1. assumption.
  - rewrite Hu. reflexivity.
Qed.

(* ------------------------------------------------------------------ clear *)
Lemma clear_loop_spec sl n : n = N.of_nat (length (concat sl)) ->
  exists sl', hclear_loop sl n = (sl', 0) /\ concat sl' = [] /\ length sl' = length sl.
Proof.
  revert n. induction sl as [|ch sl IH]; intros n Hn; cbn [hclear_loop].
  - cbn in Hn. subst. eexists. split; [reflexivity|]. auto.
  - destruct (n =? 0) eqn:E.
    + apply N.eqb_eq in E. rewrite E in Hn. rewrite E. exists (ch :: sl). split; [reflexivity|]. split; [|reflexivity].
      destruct (concat (ch :: sl)); [reflexivity | cbn [length] in Hn; lia].
    + cbn [concat] in Hn. rewrite app_length in Hn.
      destruct (IH (n - N.of_nat (length ch))) as (sl' & Hc & Hcc & Hl); [lia|].
      rewrite Hc. eexists. split; [reflexivity|]. cbn [concat length app]. split; [exact Hcc | f_equal; exact Hl].
Qed.
Lemma clear_refines s m : R s m -> R (hclear s) [].
Proof.
  intros (I & _ & _). unfold hclear.
  destruct (clear_loop_spec (hslots s) (hnum s) (inv_num s I)) as (sl' & Hc & Hcc & Hl). rewrite Hc.
  split; [|split; [constructor|]].
  - constructor; cbn [hslots hrange hnum hnextid]; unfold hflat; cbn [hslots]; try rewrite Hcc; cbn [map length].
    + rewrite Hl. apply (inv_len s I).
    + apply (inv_range s I).
    + intros i ch e Hi He. exfalso. pose proof (nth_in_concat _ _ _ _ Hi He) as Hin. rewrite Hcc in Hin. destruct Hin.
    + constructor.
    + reflexivity.
    + constructor.
    + intros e [].
  - intros k. unfold habs, hflat. cbn [hslots]. rewrite Hcc. reflexivity.
Qed.

(* ------------------------------------------------------------------ getnext *)
Lemma hchain_find_notin p ch : ~ In p (map eid ch) -> hchain_find p ch = None.
Proof.
  induction ch as [|e ch IH]; cbn [hchain_find map In]; intros H; [reflexivity|].
  destruct (Pos.eqb (eid e) p) eqn:E; [apply Pos.eqb_eq in E; tauto | apply IH; tauto].
Qed.
Lemma hchain_find_at pre x rest : ~ In (eid x) (map eid pre) -> hchain_find (eid x) (pre ++ x :: rest) = Some (x, hhead_id rest).
Proof.
  induction pre as [|e pre IH]; cbn [app hchain_find map In]; intros H.
  - rewrite Pos.eqb_refl. reflexivity.
  - destruct (Pos.eqb (eid e) (eid x)) eqn:E; [apply Pos.eqb_eq in E; tauto | apply IH; tauto].
Qed.
Lemma hderef_at a pre x rest b : NoDup (map eid (concat (a ++ (pre ++ x :: rest) :: b))) ->
  hderef (eid x) (a ++ (pre ++ x :: rest) :: b) = Some (x, hhead_id rest).
Proof.
  induction a as [|c a IH]; cbn [app concat hderef]; intros H.
  - rewrite map_app in H. apply nodup_app_l in H. rewrite hchain_find_at; [reflexivity|].
    rewrite map_app in H. cbn [map] in H. apply NoDup_remove_2 in H. intros Hi. apply H. apply in_or_app. auto.
  - rewrite map_app in H. rewrite hchain_find_notin.
    + apply IH. apply nodup_app_r in H. exact H.
    + intros Hi. rewrite concat_app in H. cbn [concat] in H.
      assert (Hx : In (eid x) (map eid (concat a ++ (pre ++ x :: rest) ++ concat b))).
      { apply in_map. apply in_or_app. right. apply in_or_app. left. apply in_or_app. right. left. reflexivity. }
      exact (nodup_app_disjoint _ _ _ H Hi Hx).
Qed.
Lemma hfirst_nonempty_spec b :
  match hfirst_nonempty b with
  | None => concat b = []
  | Some (e, nx) => exists b1 ch b2, b = b1 ++ (e :: ch) :: b2 /\ concat b1 = [] /\ nx = hhead_id ch
  end.
Proof.
  induction b as [|c b IH]; cbn [hfirst_nonempty]; [reflexivity|].
  destruct c as [|e ch].
  - destruct (hfirst_nonempty b) as [[e nx]|].
    + destruct IH as (b1 & ch & b2 & -> & Hc & Hn). exists ([] :: b1), ch, b2. auto.
    + exact IH.
  - exists [], ch, b. auto.
Qed.

(* where a cursor stands: `rem` is what a walk still has to deliver *)
Definition pos (s : htbl) (c : hcursor) (rem : list hent) : Prop :=
  if cset c then
    exists a pre rest b, hslots s = a ++ (pre ++ rest) :: b /\ N.to_nat (chash c mod hrange s) = length a /\
                         cnext c = hhead_id rest /\ rem = rest ++ concat b
  else rem = hflat s.

Lemma pos_zero s : pos s hcursor0 (hflat s).
Proof. reflexivity. Qed.

(* after a search through the slots from `front` on *)
Lemma getnext_search s front b : inv s -> hslots s = front ++ b ->
  match hfirst_nonempty b with
  | Some (e, nx) => exists rem', concat b = e :: rem' /\ pos s (mkHCur true (ehash e) nx) rem'
  | None => concat b = []
  end.
Proof.
  intros I Hs. pose proof (hfirst_nonempty_spec b) as H. destruct (hfirst_nonempty b) as [[e nx]|]; [|exact H].
  destruct H as (b1 & ch & b2 & -> & Hc & ->). exists (ch ++ concat b2). split.
  - rewrite concat_app, Hc. reflexivity.
  - unfold pos. cbn [cset chash cnext]. exists (front ++ b1), [e], ch, b2. split; [|split; [|split]]; try reflexivity.
    + rewrite Hs, <- app_assoc. reflexivity.
    + assert (Hn : nth_error (hslots s) (length (front ++ b1)) = Some (e :: ch)).
      { rewrite Hs, app_assoc. apply nth_error_mid. }
      destruct (inv_place s I _ _ e Hn (or_introl eq_refl)) as [_ Hx]. exact Hx.
Qed.

Lemma getnext_step s c rem : inv s -> pos s c rem ->
  match rem with
  | [] => hgetnext s c = Ok (c, None)
  | e :: rem' => exists c', hgetnext s c = Ok (c', Some (hkv e)) /\ pos s c' rem'
  end.
Proof.
  intros I P. unfold pos in P. unfold hgetnext. destruct (cset c) eqn:Cs.
  - destruct P as (a & pre & rest & b & Hs & Hi & Hn & ->). rewrite Hn.
    destruct rest as [|x rest]; cbn [hhead_id app].
    + (* end of a chain: search from the next index *)
      rewrite Hi, Hs. replace (length a + 1)%nat with (S (length a)) by lia. rewrite skipn_mid.
      pose proof (getnext_search s (a ++ [pre ++ []]) b I) as G. rewrite <- app_assoc in G. specialize (G Hs).
      destruct (hfirst_nonempty b) as [[e nx]|].
      * destruct G as (rem' & -> & G). eexists. split; [reflexivity | exact G].
      * rewrite G. reflexivity.
    + (* has link *)
      rewrite Hs, hderef_at.
      * eexists. split; [reflexivity|]. unfold pos. cbn [cset chash cnext].
        exists a, (pre ++ [x]), rest, b. rewrite <- app_assoc. split; [exact Hs|]. split; [|split; reflexivity].
        assert (Hnth : nth_error (hslots s) (length a) = Some (pre ++ x :: rest)) by (rewrite Hs; apply nth_error_mid).
        destruct (inv_place s I _ _ x Hnth) as [_ Hx]; [apply in_or_app; right; left; reflexivity | exact Hx].
      * pose proof (inv_ids s I) as Hd. unfold hflat in Hd. rewrite Hs in Hd. exact Hd.
  - subst rem. cbn [skipn].
    pose proof (getnext_search s [] (hslots s) I eq_refl) as G. unfold hflat.
    destruct (hfirst_nonempty (hslots s)) as [[e nx]|].
    + destruct G as (rem' & -> & G). eexists. split; [reflexivity | exact G].
    + rewrite G. reflexivity.
Qed.

Lemma walk_from n s c rem acc : inv s -> pos s c rem ->
  hwalk_n n s c acc = Ok (rev acc ++ map hkv (firstn n rem), Nat.ltb (length rem) n).
Proof.
  intros I. revert c rem acc. induction n as [|n IH]; intros c rem acc P; cbn [hwalk_n].
  - cbn [firstn map]. rewrite app_nil_r. reflexivity.
  - pose proof (getnext_step s c rem I P) as G. destruct rem as [|e rem].
    + rewrite G. cbn [bind firstn map length]. rewrite app_nil_r. reflexivity.
    + destruct G as (c' & -> & P'). cbn [bind]. rewrite (IH c' rem (hkv e :: acc) P').
      cbn [rev firstn map length]. rewrite <- app_assoc. reflexivity.
Qed.

(* a walk from a zeroed cursor over an unmodified table delivers the stored entries in slot order, each once *)
Lemma walk_zero n s : inv s ->
  hwalk_n n s hcursor0 [] = Ok (firstn n (habs s), Nat.ltb (length (habs s)) n).
Proof.
  intros I. rewrite (walk_from n s hcursor0 (hflat s) [] I (pos_zero s)). cbn [rev app].
  unfold habs. rewrite firstn_map, map_length. reflexivity.
Qed.

Lemma walk_refines n s m : R s m ->
  exists l e, hwalk_n n s hcursor0 [] = Ok (l, e) /\ hobs_match (HWalked l e) (HSWalk m n).
Proof.
  intros HR. pose proof (R_perm s m HR) as P. destruct HR as (I & Hm & Hl).
  rewrite (walk_zero n s I). eexists. eexists. split; [reflexivity|]. cbn [hobs_match].
  split; [|split; [|split]].
  - rewrite <- firstn_map. apply NoDup_firstn. rewrite abs_keys. apply (inv_names s I).
  - intros x Hx. eapply Permutation_in; [exact P|]. rewrite <- (firstn_skipn n (habs s)). apply in_or_app. auto.
  - rewrite firstn_length, (Permutation_length P). reflexivity.
  - rewrite (Permutation_length P). reflexivity.
Qed.

(* ------------------------------------------------------------------ one operation, one history *)
(* Either the specification is defined, then the model returns normally, the observation is allowed and the relation
   holds again; or it is not (getint on a value atoll would read past) and then the model reports exactly that. *)
Lemma step_refines s m o : R s m ->
  match hsstep m o with
  | Some (m', so) => exists s' ob, hstep hash s o = Ok (s', ob) /\ hobs_match ob so /\ R s' m'
  | None => hstep hash s o = Crash
  end.
Proof.
  intros HR. destruct o as [k v|k|k str|k|k z|k|k|k|k|v| | | | |n]; cbn [hsstep hstep hsput hsget].
  - destruct (put_refines s m k v HR) as (s' & -> & HR'). exists s', HOk. split; [reflexivity|]. split; [reflexivity | exact HR'].
  - exists s, (HErr HEINVAL). cbn. auto.
  - unfold hputstr. destruct (put_refines s m k (hcstr_of str ++ [0]) HR) as (s' & -> & HR'). exists s', HOk. split; [reflexivity|]. split; [reflexivity | exact HR'].
  - exists s, (HErr HEINVAL). cbn. auto.
  - unfold hputint, hputstr. rewrite putint_text_cstr.
    destruct (put_refines s m k (hputint_text z) HR) as (s' & -> & HR'). exists s', HOk. split; [reflexivity|]. split; [reflexivity | exact HR'].
  - unfold hget, hsget. destruct (find_refines s m k HR) as (o & -> & ->). cbn [bind]. exists s. eexists. split; [reflexivity|].
    split; [|exact HR]. destruct o; reflexivity.
  - unfold hget, hsget. destruct (find_refines s m k HR) as (o & -> & ->). cbn [bind]. exists s. eexists. split; [reflexivity|].
    split; [|exact HR]. destruct o; reflexivity.
  - unfold hgetint. destruct (find_refines s m k HR) as (o & -> & ->). cbn [bind]. destruct o as [e|]; cbn [option_map].
    + destruct (hatoll_stops (edata e)); [|reflexivity]. cbn [bind]. exists s. eexists. split; [reflexivity|]. split; [reflexivity | exact HR].
    + cbn [bind]. exists s. eexists. split; [reflexivity|]. split; [reflexivity | exact HR].
  - pose proof (remove_refines s m k HR) as H. destruct (haget (hcstr_of k) m).
    + destruct H as (s' & -> & HR'). exists s', HOk. split; [reflexivity|]. split; [reflexivity | exact HR'].
    + rewrite H. exists s. eexists. split; [reflexivity|]. split; [reflexivity | exact HR].
  - exists s, (HErr HEINVAL). cbn. auto.
  - exists s, (HErr HEINVAL). cbn. auto.
  - exists s, (HErr HEINVAL). cbn. auto.
  - exists (hclear s), HUnit. split; [reflexivity|]. split; [reflexivity|]. eapply clear_refines; eauto.
  - exists s. eexists. split; [reflexivity|]. split; [|exact HR]. cbn [hobs_match]. unfold hsize.
    destruct HR as (I & Hm & Hl). rewrite (inv_num s I). rewrite <- (Permutation_length (R_perm s m (conj I (conj Hm Hl)))).
    unfold habs. rewrite map_length. reflexivity.
  - destruct (walk_refines n s m HR) as (l & e & -> & Hw). cbn [bind fst snd]. exists s. eexists. split; [reflexivity|]. split; [exact Hw | exact HR].
Qed.

Lemma run_refines s m os : R s m ->
  match hsrun m os with
  | Some (m', sobs) => exists s' obs, hrun hash s os = Ok (s', obs) /\ Forall2 hobs_match obs sobs /\ R s' m'
  | None => hrun hash s os = Crash
  end.
Proof.
  revert s m. induction os as [|o os IH]; intros s m HR; cbn [hsrun hrun].
  - exists s, []. split; [reflexivity|]. split; [constructor | exact HR].
  - pose proof (step_refines s m o HR) as H. destruct (hsstep m o) as [[m1 so]|].
    + destruct H as (s1 & ob & -> & Hm & HR1). cbn [bind fst snd].
      specialize (IH s1 m1 HR1). destruct (hsrun m1 os) as [[m2 sobs]|].
      * destruct IH as (s2 & obs & -> & Hf & HR2). cbn [bind fst snd]. exists s2, (ob :: obs). split; [reflexivity|]. split; [constructor; assumption | exact HR2].
      * rewrite IH. reflexivity.
    + rewrite H. reflexivity.
Qed.

(* ------------------------------------------------------------------ the statements used by Properties_C05 *)
Theorem refines r os m sobs : hsrun [] os = Some (m, sobs) ->
  exists s obs, hrun hash (hinit r) os = Ok (s, obs) /\ Forall2 hobs_match obs sobs /\
                Permutation (habs s) m /\ hsize s = N.of_nat (length m) /\ inv s.
Proof.
  intros H. pose proof (run_refines (hinit r) [] os (init_R r)) as G. rewrite H in G.
  destruct G as (s & obs & Hr & Hf & HR). exists s, obs. split; [exact Hr|]. split; [exact Hf|].
  pose proof (R_perm s m HR) as P. split; [exact P|]. destruct HR as (I & _ & _). split; [|exact I].
  unfold hsize. rewrite (inv_num s I), <- (Permutation_length P). unfold habs. rewrite map_length. reflexivity.
Qed.

(* the model never runs out of fuel (it has none) and stops abnormally only where the specification is undefined *)
Theorem no_crash r os : hrun hash (hinit r) os <> Fuel /\ (hrun hash (hinit r) os = Crash <-> hsrun [] os = None).
Proof.
  pose proof (run_refines (hinit r) [] os (init_R r)) as G. destruct (hsrun [] os) as [[m sobs]|].
  - destruct G as (s & obs & -> & _). split; [discriminate|]. split; discriminate.
  - rewrite G. split; [discriminate|]. tauto.
Qed.

Theorem reachable_inv r os s obs : hrun hash (hinit r) os = Ok (s, obs) -> inv s.
Proof.
  intros H. pose proof (run_refines (hinit r) [] os (init_R r)) as G. destruct (hsrun [] os) as [[m sobs]|].
  - destruct G as (s' & obs' & Hr & _ & (I & _)). rewrite H in Hr. injection Hr as -> _. exact I.
  - rewrite H in G. discriminate.
Qed.

Theorem walk_complete r os s obs n : hrun hash (hinit r) os = Ok (s, obs) ->
  hwalk_n n s hcursor0 [] = Ok (firstn n (habs s), Nat.ltb (length (habs s)) n) /\ NoDup (map fst (habs s)).
Proof.
  intros H. pose proof (reachable_inv r os s obs H) as I. split; [apply walk_zero; exact I|].
  rewrite abs_keys. apply (inv_names s I).
Qed.

(* a complete walk after any history on which the specification is defined lists exactly the specification's entries *)
Theorem walk_spec r os m sobs n : hsrun [] os = Some (m, sobs) -> (length m < n)%nat ->
  exists s obs l, hrun hash (hinit r) os = Ok (s, obs) /\ hwalk_n n s hcursor0 [] = Ok (l, true) /\
                  NoDup (map fst l) /\ Permutation l m.
Proof.
  intros H Hn. destruct (refines r os m sobs H) as (s & obs & Hr & _ & P & _ & I).
  exists s, obs, (habs s). split; [exact Hr|].
  pose proof (Permutation_length P) as Hlen.
  rewrite (walk_zero n s I). rewrite firstn_all2 by lia.
  replace (Nat.ltb (length (habs s)) n) with true by (symmetry; apply Nat.ltb_lt; lia).
  split; [reflexivity|]. split; [|exact P]. rewrite abs_keys. apply (inv_names s I).
Qed.
End Proofs.

(* putint then getint on the ideal map gives the integer back *)
Theorem spec_int_roundtrip m k z : (-9223372036854775808 <= z < 9223372036854775808)%Z ->
  exists m', hsstep m (HPutInt k z) = Some (m', HSObs HOk) /\ hsstep m' (HGetInt k) = Some (m', HSObs (HInt z)).
Proof.
  intros Hz. cbn [hsstep hsput]. eexists. split; [reflexivity|].
  rewrite haget_haset, hbytes_eqb_refl. destruct (int_roundtrip z) as [Ha ->]. rewrite Ha, hto_i64_id by exact Hz. reflexivity.
Qed.

Lemma default_range_pos : 0 < DEFAULT_INDEX_RANGE.
Proof. reflexivity. Qed.
Lemma init_range r : hrange (hinit r) = if r =? 0 then DEFAULT_INDEX_RANGE else r.
Proof. reflexivity. Qed.
