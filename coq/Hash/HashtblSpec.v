(* The ideal map the hash table is compared with: an association list from C-string keys to byte values, no key twice,
   size = length.  Knows nothing of hashes, ranges, chains or node objects.
   It shares with the model only the operation/observation alphabets and the C text conventions (hcstr_of, the decimal
   text of putint and hatoll); that getint returns what putint stored is the separate theorem C05_int_roundtrip.

   hsstep returns None where the CALLER's use is undefined in C: getint on a stored value on which hatoll does not stop
   inside the stored block (a value that is not text).  Theorems quantify over the histories on which the specification
   is defined. *)
From Coq Require Import NArith ZArith List Bool.
From QV.Hash Require Import HashtblModel.
Import ListNotations.
Local Open Scope N_scope.

Definition hsmap := list (list N * list N).
Fixpoint haget (k : list N) (m : hsmap) : option (list N) :=
  match m with [] => None | (k', v) :: r => if hbytes_eqb k' k then Some v else haget k r end.
Fixpoint haset (k v : list N) (m : hsmap) : hsmap :=
  match m with
  | [] => [(k, v)]
  | (k', v') :: r => if hbytes_eqb k' k then (k', v) :: r else (k', v') :: haset k v r
  end.
Fixpoint hadel (k : list N) (m : hsmap) : hsmap :=
  match m with [] => [] | (k', v') :: r => if hbytes_eqb k' k then r else (k', v') :: hadel k r end.

(* a walk of up to n steps over an unmodified map: the specification fixes no order, only which listings are right *)
Inductive hsobs := HSObs (o : hobs) | HSWalk (all : hsmap) (n : nat).

Definition hsput (m : hsmap) (k v : list N) : option (hsmap * hsobs) := Some (haset (hcstr_of k) v m, HSObs HOk).
Definition hsget (m : hsmap) (k : list N) : hsobs :=
  HSObs (match haget (hcstr_of k) m with Some v => HVal v | None => HErr HENOENT end).

Definition hsstep (m : hsmap) (o : hop) : option (hsmap * hsobs) :=
  match o with
  | HPut k v => hsput m k v
  | HPutStr k s => hsput m k (hcstr_of s ++ [0])
  | HPutInt k z => hsput m k (hputint_text z)
  | HPutNullData _ | HPutStrNull _ | HPutNullName _ | HGetNullName | HRemoveNullName => Some (m, HSObs (HErr HEINVAL))
  | HGet k | HGetStr k => Some (m, hsget m k)
  | HGetInt k => match haget (hcstr_of k) m with
                | None => Some (m, HSObs (HErr HENOENT))
                | Some v => if hatoll_stops v then Some (m, HSObs (HInt (hatoll v))) else None
                end
  | HRemove k => match haget (hcstr_of k) m with
                | Some _ => Some (hadel (hcstr_of k) m, HSObs HOk)
                | None => Some (m, HSObs (HErr HENOENT))
                end
  | HClear => Some ([], HSObs HUnit)
  | HSize => Some (m, HSObs (HNum (N.of_nat (length m))))
  | HWalk n => Some (m, HSWalk m n)
  end.
Fixpoint hsrun (m : hsmap) (os : list hop) : option (hsmap * list hsobs) :=
  match os with
  | [] => Some (m, [])
  | o :: r => match hsstep m o with
              | None => None
              | Some (m1, ob) => match hsrun m1 r with Some (m2, obl) => Some (m2, ob :: obl) | None => None end
              end
  end.

(* when an observed result is what the specification allows *)
Definition hobs_match (o : hobs) (so : hsobs) : Prop :=
  match so with
  | HSObs o' => o = o'
  | HSWalk all n =>
    match o with
    | HWalked l ended =>
        NoDup (map fst l) /\ incl l all /\ length l = Nat.min n (length all) /\ ended = Nat.ltb (length all) n
    | _ => False
    end
  end.
