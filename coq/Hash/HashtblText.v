(* The decimal text form used by putint/getint: atoll (snprintf "%PRId64" z) = z for every 64-bit z,
   the text fits the 21-byte buffer, contains no NUL before its terminator, and atoll stops inside it. *)
From Coq Require Import NArith ZArith List Bool Lia ZifyBool ZifyNat ZifyN.
Ltac Zify.zify_post_hook ::= Z.div_mod_to_equations.
From QV.Hash Require Import HashtblModel.
Import ListNotations.
Local Open Scope N_scope.

Lemma hbytes_eqb_eq a b : hbytes_eqb a b = true <-> a = b.
Proof.
  revert b. induction a as [|x a IH]; intros [|y b]; cbn [hbytes_eqb]; try (split; [discriminate|discriminate]); try tauto.
  rewrite andb_true_iff, N.eqb_eq, IH. split.
  - intros [-> ->]. reflexivity.
  - intros H. injection H. auto.
Qed.
Lemma hbytes_eqb_refl a : hbytes_eqb a a = true.
Proof. apply hbytes_eqb_eq. reflexivity. Qed.
Lemma hbytes_eqb_neq a b : hbytes_eqb a b = false <-> a <> b.
Proof. rewrite <- hbytes_eqb_eq. destruct (hbytes_eqb a b); split; congruence. Qed.

Lemma hbytes_eqb_sym a b : hbytes_eqb a b = hbytes_eqb b a.
Proof.
  destruct (hbytes_eqb a b) eqn:E.
  - apply hbytes_eqb_eq in E. subst. symmetry. apply hbytes_eqb_refl.
  - symmetry. apply hbytes_eqb_neq. apply hbytes_eqb_neq in E. congruence.
Qed.

(* ---- digits ---- *)
Definition dstep (a : Z) (c : N) : Z := (a * 10 + Z.of_N (c - 48))%Z.
Definition lval (l : list N) : Z := fold_right (fun c a => dstep a c) 0%Z l.

Lemma digit_of_mod n : hisdigit (48 + n mod 10) = true.
Proof.
  unfold hisdigit. assert (n mod 10 < 10) by (apply N.mod_lt; discriminate).
  apply andb_true_iff. split; apply N.leb_le; lia.
Qed.
Lemma hrdigs_digits f n : Forall (fun c => hisdigit c = true) (hrdigs f n).
Proof.
  revert n. induction f as [|f IH]; intros n; cbn [hrdigs]; constructor.
  - apply digit_of_mod.
  - destruct (n / 10 =? 0); [constructor | apply IH].
Qed.
Lemma hrdigs_nonempty f n : hrdigs (S f) n <> [].
Proof. cbn [hrdigs]. discriminate. Qed.

Lemma pow10_S k : 10 ^ N.of_nat (S k) = 10 * 10 ^ N.of_nat k.
Proof. rewrite Nat2N.inj_succ, N.pow_succ_r'. reflexivity. Qed.

Lemma hrdigs_len f n k : n < 10 ^ N.of_nat (S k) -> (length (hrdigs f n) <= S k)%nat.
Proof.
  revert n k. induction f as [|f IH]; intros n k H; cbn [hrdigs length]; [lia|].
  destruct (n / 10 =? 0) eqn:E; cbn [length]; [lia|].
  apply N.eqb_neq in E.
  destruct k as [|k].
  - exfalso. apply E. apply N.div_small. exact H.
  - apply le_n_S. apply IH. rewrite pow10_S in H. apply N.div_lt_upper_bound; [discriminate | exact H].
Qed.

Lemma hrdigs_val f n : n < 10 ^ N.of_nat f -> lval (hrdigs f n) = Z.of_N n.
Proof.
  revert n. induction f as [|f IH]; intros n H.
  - cbn in H. assert (n = 0) by lia. subst. reflexivity.
  - cbn [hrdigs]. unfold lval. cbn [fold_right]. fold (lval (if n / 10 =? 0 then [] else hrdigs f (n / 10))).
    assert (Hd : n = 10 * (n / 10) + n mod 10) by (apply N.div_mod'; discriminate).
    assert (Hm : n mod 10 < 10) by (apply N.mod_lt; discriminate).
    unfold dstep. replace (48 + n mod 10 - 48) with (n mod 10) by lia.
    destruct (n / 10 =? 0) eqn:E.
    + apply N.eqb_eq in E. unfold lval. cbn [fold_right]. rewrite E in Hd. lia.
    + rewrite IH.
      * set (q := n / 10) in *. set (r := n mod 10) in *. clearbody q r. lia.
      * rewrite pow10_S in H. apply N.div_lt_upper_bound; [discriminate | exact H].
Qed.

Lemma fold_left_rev_lval l : fold_left dstep (rev l) 0%Z = lval l.
Proof. unfold lval. rewrite <- fold_left_rev_right. rewrite rev_involutive. reflexivity. Qed.

Lemma hdval_digits ds r a : Forall (fun c => hisdigit c = true) ds -> hdval (ds ++ 0 :: r) a = fold_left dstep ds a.
Proof.
  revert a. induction ds as [|c ds IH]; intros a H; cbn [app hdval fold_left].
  - reflexivity.
  - inversion H; subst. rewrite H2. apply IH. assumption.
Qed.
Lemma hdstops_digits ds r : Forall (fun c => hisdigit c = true) ds -> hdstops (ds ++ 0 :: r) = true.
Proof.
  induction ds as [|c ds IH]; intros H; cbn [app hdstops]; [reflexivity|].
  inversion H; subst. rewrite H2. auto.
Qed.

Lemma digit_facts c : hisdigit c = true -> hisspace c = false /\ (c =? 45) = false /\ (c =? 43) = false /\ (c =? 0) = false.
Proof.
  unfold hisdigit, hisspace. rewrite andb_true_iff, !N.leb_le. intros [H1 H2].
  repeat split; try (apply N.eqb_neq; lia).
  apply orb_false_iff. split; [apply andb_false_iff; right; apply N.leb_gt; lia | apply N.eqb_neq; lia].
Qed.

Lemma hcstr_of_nonul l r : Forall (fun c => (c =? 0) = false) l -> hcstr_of (l ++ 0 :: r) = l.
Proof.
  induction l as [|c l IH]; intros H; cbn [app hcstr_of]; [reflexivity|].
  inversion H; subst. rewrite H2. f_equal. auto.
Qed.

(* the text of a magnitude *)
Definition mag (n : N) : list N := rev (hrdigs 20 n).
Lemma mag_digits n : Forall (fun c => hisdigit c = true) (mag n).
Proof. unfold mag. apply Forall_rev, hrdigs_digits. Qed.
Lemma mag_cons n : exists c t, mag n = c :: t /\ hisdigit c = true.
Proof.
  pose proof (mag_digits n) as H. destruct (mag n) as [|c t] eqn:E.
  - unfold mag in E. apply (f_equal (@rev N)) in E. rewrite rev_involutive in E. exfalso. exact (hrdigs_nonempty 19 n E).
  - inversion H; subst. eauto.
Qed.
Lemma pow10_19 : 9223372036854775808 < 10 ^ N.of_nat 19.
Proof. apply N.ltb_lt. vm_compute. reflexivity. Qed.
Lemma pow10_19_20 : 10 ^ N.of_nat 19 < 10 ^ N.of_nat 20.
Proof. apply N.ltb_lt. vm_compute. reflexivity. Qed.
Lemma mag_len n : n <= 9223372036854775808 -> (length (mag n) <= 19)%nat.
Proof. intros H. unfold mag. rewrite rev_length. apply hrdigs_len. pose proof pow10_19. lia. Qed.
Lemma mag_val n r : n <= 9223372036854775808 -> hdval (mag n ++ 0 :: r) 0 = Z.of_N n.
Proof.
  intros H. rewrite hdval_digits by apply mag_digits. unfold mag. rewrite fold_left_rev_lval.
  apply hrdigs_val. pose proof pow10_19. pose proof pow10_19_20. lia.
Qed.

Lemma hto_i64_range z : (-9223372036854775808 <= hto_i64 z < 9223372036854775808)%Z.
Proof.
  unfold hto_i64. pose proof (Z.mod_pos_bound (z + 9223372036854775808) 18446744073709551616 eq_refl). lia.
Qed.
Lemma hto_i64_id z : (-9223372036854775808 <= z < 9223372036854775808)%Z -> hto_i64 z = z.
Proof. intros H. unfold hto_i64. rewrite Z.mod_small; lia. Qed.

Lemma hclamp64_id z : (-9223372036854775808 <= z <= 9223372036854775807)%Z -> hclamp64 z = z.
Proof. unfold hclamp64. lia. Qed.

(* the printed text of a 64-bit value: sign, then the digits of the magnitude *)
Lemma hprint_dec_form z : (-9223372036854775808 <= z < 9223372036854775808)%Z ->
  hprint_dec z = (if (z <? 0)%Z then [45] else []) ++ mag (Z.abs_N z) /\ Z.abs_N z <= 9223372036854775808.
Proof.
  intros H. destruct z as [|p|p]; cbn [hprint_dec Z.ltb Z.compare Z.abs_N app].
  - split; [reflexivity | lia].
  - split; [reflexivity | lia].
  - split; [reflexivity | lia].
Qed.

Lemma putint_text_form z : let z' := hto_i64 z in
  hputint_text z = (if (z' <? 0)%Z then [45] else []) ++ mag (Z.abs_N z') ++ [0].
Proof.
  intros z'. unfold hputint_text. fold z'. pose proof (hto_i64_range z) as Hr. fold z' in Hr.
  destruct (hprint_dec_form z' Hr) as [-> Hn].
  rewrite firstn_all2.
  - rewrite <- app_assoc. reflexivity.
  - rewrite app_length. pose proof (mag_len _ Hn). unfold HPUTINT_BUF. destruct (z' <? 0)%Z; cbn [length]; lia.
Qed.

(* putstr(name, str) of that buffer stores the same bytes: there is no NUL before the terminator *)
Lemma putint_text_cstr z : hcstr_of (hputint_text z) ++ [0] = hputint_text z.
Proof.
  rewrite putint_text_form. set (z' := hto_i64 z).
  assert (Hz : Forall (fun c => (c =? 0) = false) ((if (z' <? 0)%Z then [45] else []) ++ mag (Z.abs_N z'))).
  { apply Forall_app. split.
    - destruct (z' <? 0)%Z; repeat constructor.
    - eapply Forall_impl; [|apply mag_digits]. intros c Hc. apply digit_facts in Hc. tauto. }
  rewrite app_assoc. rewrite hcstr_of_nonul by exact Hz. reflexivity.
Qed.

Theorem int_roundtrip z : hatoll (hputint_text z) = hto_i64 z /\ hatoll_stops (hputint_text z) = true.
Proof.
  rewrite putint_text_form. set (z' := hto_i64 z). pose proof (hto_i64_range z) as Hr. fold z' in Hr.
  assert (Hn : Z.abs_N z' <= 9223372036854775808) by lia.
  destruct (mag_cons (Z.abs_N z')) as (c & t & Hm & Hc).
  destruct (digit_facts c Hc) as (Hsp & H45 & H43 & _).
  unfold hatoll, hatoll_stops.
  destruct (z' <? 0)%Z eqn:Hneg; cbn [app].
  - (* "-" digits NUL *)
    cbn [hskip_ws]. replace (hisspace 45) with false by reflexivity. cbn [hstrip_sign]. rewrite N.eqb_refl. cbn [snd].
    rewrite mag_val by exact Hn. rewrite hdstops_digits by apply mag_digits. split; [|reflexivity].
    apply Z.ltb_lt in Hneg. rewrite hclamp64_id; lia.
  - rewrite Hm. cbn [app hskip_ws]. rewrite Hsp. cbn [hstrip_sign]. rewrite H45, H43. cbn [snd].
    change (c :: t ++ [0]) with ((c :: t) ++ [0]). rewrite <- Hm.
    rewrite mag_val by exact Hn. rewrite hdstops_digits by apply mag_digits. split; [|reflexivity].
    apply Z.ltb_ge in Hneg. rewrite hclamp64_id; lia.
Qed.
