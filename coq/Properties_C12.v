(* C12 - containers own private copies; returned copies are independent: the ownership facts a theorem can carry.
   (i)  put / add / push keep only blocks the call allocated itself and filled by a copy from the caller's buffer - never the
        caller's block (caller memory has no block id in the ledger; [Copy b SCaller] is the only trace it leaves);
   (ii) a block handed to the caller (copying get / pop / find_min / find_max / getnext / find_nearest / getmulti / toarray / tostring /
        static-table get) is never freed, written, read or re-used by any later call of any history, nor by the destructor.
   That the bytes come back exactly (any content, any length, embedded / trailing NUL, zero-filled) is the refinement content of
   C01-C10; aliasing itself is a run-time fact: checks/c12.py overwrites and frees every caller buffer right after each call and
   re-inspects every returned copy after later mutations and after the container is released (plain and ASan builds). *)
From Coq Require Import List NArith Bool.
From QV.Alloc Require Import Ledger Scripts LedgerTac ScriptProofs Theorems Instances.
Import ListNotations.
Open Scope N_scope.

(* --- (i) private: every key / value block of every element after the call was already stored before it, or was allocated by this
       call and (unless empty) filled by a copy from the caller --- *)
Theorem C12_tree_fresh_copies : forall Sz g key ns ds k al, out (tree_step Sz g (TPut key ns ds) k al) = Done -> private g (tree_step Sz g (TPut key ns ds) k al).
Proof. exact tree_put_private. Qed.
Theorem C12_hashtbl_fresh_copies : forall Sz g key ns ds k al, out (hash_step Sz g (HPut key ns ds) k al) = Done -> private g (hash_step Sz g (HPut key ns ds) k al).
Proof. exact hash_put_private. Qed.
Theorem C12_listtbl_fresh_copies : forall Sz g uniq top fwd key ns ds k al,
  out (ltbl_step Sz g (LPut uniq top fwd key ns ds) k al) = Done -> private g (ltbl_step Sz g (LPut uniq top fwd key ns ds) k al).
Proof. exact ltbl_put_private. Qed.
(* qlist addat = qqueue/qstack push = qgrow add *)
Theorem C12_list_fresh_copies : forall Sz g pos ds k al, out (list_step Sz g (SAddat pos ds false) k al) = Done -> private g (list_step Sz g (SAddat pos ds false) k al).
Proof. exact list_addat_private. Qed.
Theorem C12_vector_fresh_copies : forall v pos k al, out (vec_step v (VAddat pos) k al) = Done ->
  exists d, vdata (st' (vec_step v (VAddat pos) k al)) = Some d /\ In (Copy d SCaller) (evs (vec_step v (VAddat pos) k al)) /\ In d (vblocks (st' (vec_step v (VAddat pos) k al))).
Proof. exact vec_addat_private. Qed.

(* --- (ii) independent: if a block b is returned somewhere in history h1, then no event of any continuation h2 and no event of the
       destructor run afterwards touches b (free, write, read, re-allocate, re-return) --- *)
Theorem C12_tree_returned_independent : forall Sz h1 h2 s l b, Inv (gblocks s) l -> In (Return b) (hevents (tree_step Sz) s l h1) ->
  let s1 := fst (hrun (tree_step Sz) s l h1) in let l1 := snd (hrun (tree_step Sz) s l h1) in
  (forall e, In e (hevents (tree_step Sz) s1 l1 h2) -> ~ touches b e) /\ (forall e, In e (evs (script_free (fst (hrun (tree_step Sz) s1 l1 h2)))) -> ~ touches b e).
Proof. exact tree_returned. Qed.
Theorem C12_hashtbl_returned_independent : forall Sz h1 h2 s l b, Inv (gblocks s) l -> In (Return b) (hevents (hash_step Sz) s l h1) ->
  let s1 := fst (hrun (hash_step Sz) s l h1) in let l1 := snd (hrun (hash_step Sz) s l h1) in
  (forall e, In e (hevents (hash_step Sz) s1 l1 h2) -> ~ touches b e) /\ (forall e, In e (evs (script_free (fst (hrun (hash_step Sz) s1 l1 h2)))) -> ~ touches b e).
Proof. exact hash_returned. Qed.
Theorem C12_listtbl_returned_independent : forall Sz h1 h2 s l b, Inv (gblocks s) l -> In (Return b) (hevents (ltbl_step Sz) s l h1) ->
  let s1 := fst (hrun (ltbl_step Sz) s l h1) in let l1 := snd (hrun (ltbl_step Sz) s l h1) in
  (forall e, In e (hevents (ltbl_step Sz) s1 l1 h2) -> ~ touches b e) /\ (forall e, In e (evs (script_free (fst (hrun (ltbl_step Sz) s1 l1 h2)))) -> ~ touches b e).
Proof. exact ltbl_returned. Qed.
Theorem C12_list_returned_independent : forall Sz h1 h2 s l b, Inv (gblocks s) l -> In (Return b) (hevents (list_step Sz) s l h1) ->
  let s1 := fst (hrun (list_step Sz) s l h1) in let l1 := snd (hrun (list_step Sz) s l h1) in
  (forall e, In e (hevents (list_step Sz) s1 l1 h2) -> ~ touches b e) /\ (forall e, In e (evs (script_free (fst (hrun (list_step Sz) s1 l1 h2)))) -> ~ touches b e).
Proof. exact list_returned. Qed.
Theorem C12_hasharr_returned_independent : forall h1 h2 s l b, Inv (gblocks s) l -> In (Return b) (hevents harr_step s l h1) ->
  let s1 := fst (hrun harr_step s l h1) in let l1 := snd (hrun harr_step s l h1) in
  (forall e, In e (hevents harr_step s1 l1 h2) -> ~ touches b e) /\ (forall e, In e (evs (script_free (fst (hrun harr_step s1 l1 h2)))) -> ~ touches b e).
Proof. exact harr_returned. Qed.
Theorem C12_vector_returned_independent : forall h1 h2 s l b, Inv (vblocks s) l -> In (Return b) (hevents vec_step s l h1) ->
  let s1 := fst (hrun vec_step s l h1) in let l1 := snd (hrun vec_step s l h1) in
  (forall e, In e (hevents vec_step s1 l1 h2) -> ~ touches b e) /\ (forall e, In e (evs (script_vec_free (fst (hrun vec_step s1 l1 h2)))) -> ~ touches b e).
Proof. exact vec_returned. Qed.
(* the ledger fact underneath: a handed-out block stays handed out and untouched by any legal event list *)
Theorem C12_given_untouched : forall evs l b, wf l -> giv l b = true -> safe l evs -> (forall e, In e evs -> ~ touches b e) /\ giv (run l evs) b = true.
Proof. exact given_untouched. Qed.


(* --- formatted methods: the key is a fresh copy of the caller's name; the value is a fresh block of the call filled from the formatting
       buffer, which this call allocated and released again (private_f, via_tmp in Alloc/Theorems.v) --- *)
Theorem C12_tree_putstrf_fresh_copies : forall Sz g key ns len k al, out (tree_step Sz g (TPutf key ns len) k al) = Done -> private_f g (tree_step Sz g (TPutf key ns len) k al).
Proof. exact tree_putf_private. Qed.
Theorem C12_hashtbl_putstrf_fresh_copies : forall Sz g key ns len k al, out (hash_step Sz g (HPutf key ns len) k al) = Done -> private_f g (hash_step Sz g (HPutf key ns len) k al).
Proof. exact hash_putf_private. Qed.
Theorem C12_listtbl_putstrf_fresh_copies : forall Sz g uniq top fwd key ns len k al,
  out (ltbl_step Sz g (LPutf uniq top fwd key ns len) k al) = Done -> private_f g (ltbl_step Sz g (LPutf uniq top fwd key ns len) k al).
Proof. exact ltbl_putf_private. Qed.
Theorem C12_grow_addstrf_fresh_copies : forall Sz g pos len k al, out (list_step Sz g (SAddf pos len) k al) = Done -> private_f g (list_step Sz g (SAddf pos len) k al).
Proof. exact list_addf_private. Qed.

(* --- non-vacuity --- *)
Example C12_ex_put_copies :
  let r := tree_step sz64 (mkG [1] []) (TPut 7 2 3) 2 allok in
  evs r = [Alloc 2 TNode 72; Alloc 3 TName 2; Copy 3 SCaller; Alloc 4 TData 3; Copy 4 SCaller] /\ els (st' r) = [mkE 7 2 (Some 3) (Some 4) 2 3].
Proof. vm_compute. split; reflexivity. Qed.
Example C12_ex_returned_then_replaced_and_freed :
  let g := mkG [1] [mkE 7 2 (Some 3) (Some 4) 2 3] in
  let l := run ledger0 [Alloc 1 THandle 200; Alloc 2 TNode 72; Alloc 3 TName 2; Alloc 4 TData 3] in
  let h1 := [(TGet 7, allok)] in let h2 := [(TPut 7 2 5, allok); (TRemove 7 None, allok)] in
  hevents (tree_step sz64) g l h1 = [Alloc 5 TRet 3; Copy 5 (SBlk 4); Return 5] /\
  hevents (tree_step sz64) (fst (hrun (tree_step sz64) g l h1)) (snd (hrun (tree_step sz64) g l h1)) h2 = [Alloc 6 TData 5; Copy 6 SCaller; Free 4; Free 3; Free 6; Free 2].
Proof. vm_compute. split; reflexivity. Qed.
Example C12_ex_write_to_returned_rejected : safeb (run ledger0 [Alloc 1 TRet 4]) [Return 1; Copy 1 SCaller] = false. Proof. reflexivity. Qed.

Print Assumptions C12_tree_fresh_copies. Print Assumptions C12_hashtbl_fresh_copies. Print Assumptions C12_listtbl_fresh_copies. Print Assumptions C12_list_fresh_copies.
Print Assumptions C12_vector_fresh_copies.
Print Assumptions C12_tree_returned_independent. Print Assumptions C12_hashtbl_returned_independent. Print Assumptions C12_listtbl_returned_independent.
Print Assumptions C12_list_returned_independent. Print Assumptions C12_hasharr_returned_independent. Print Assumptions C12_vector_returned_independent.
Print Assumptions C12_given_untouched.
Print Assumptions C12_tree_putstrf_fresh_copies. Print Assumptions C12_hashtbl_putstrf_fresh_copies. Print Assumptions C12_listtbl_putstrf_fresh_copies. Print Assumptions C12_grow_addstrf_fresh_copies.
