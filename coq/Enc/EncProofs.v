From Coq Require Import NArith ZArith List Lia Bool Arith.
From QV.Base Require Import Res Bytes.
From QV.Gen Require Import Tables.
From QV.Enc Require Import EncModel EncSpec.
Import ListNotations.
Local Open Scope N_scope.

(* ================= URL ================= *)
Definition url_byte_ok (c : N) : bool :=
  if negb (tb URLCHARTBL c =? 0) then negb (c =? 43) && negb (c =? 37) && negb (c =? 0)
  else (x2c (hexdig (N.shiftr c 4)) (hexdig (N.land c 15)) =? c)
       && negb (hexdig (N.shiftr c 4) =? 0) && negb (hexdig (N.land c 15) =? 0).
Lemma url_table_ok : forallb url_byte_ok (rng 256) = true.
Proof. vm_compute. reflexivity. Qed.
Lemma url_byte c : isbyte c = true -> url_byte_ok c = true.
Proof. intros H. exact (fbyte _ c url_table_ok H). Qed.

Lemma url_decode_lit c r : c <> 43 -> c <> 37 -> url_decode (c :: r) = c :: url_decode r.
Proof. intros O1 O2. cbn [url_decode]. destruct c as [|p]; [reflexivity|].
  repeat (destruct p as [p|p|]; try reflexivity; try (exfalso; apply O1; reflexivity); try (exfalso; apply O2; reflexivity)). Qed.

Theorem url_roundtrip x : bytes x -> url_decode (url_encode x) = x.
Proof. induction x as [|c x IH]; [reflexivity|]. intros H. apply bytes_cons in H as [Hc Hx].
  cbn [url_encode flat_map]. fold (url_encode x). pose proof (url_byte c Hc) as Ok. unfold url_byte_ok in Ok. unfold url_enc1.
  destruct (negb (tb URLCHARTBL c =? 0)).
  - apply andb_prop in Ok as [Ok _]. apply andb_prop in Ok as [O1 O2]. apply negb_true_iff, N.eqb_neq in O1, O2. cbn [app].
    rewrite url_decode_lit, IH; auto.
  - apply andb_prop in Ok as [Ok _]. apply andb_prop in Ok as [Ok _]. apply N.eqb_eq in Ok. cbn [app url_decode]. rewrite Ok, IH; auto.
Qed.

Lemma url_encode_length x : (length (url_encode x) <= 3 * length x)%nat.
Proof. induction x as [|c x IH]; [simpl; lia|]. cbn [url_encode flat_map]. fold (url_encode x). rewrite app_length. unfold url_enc1.
  destruct (negb _); cbn [length]; lia. Qed.

(* the encoder never emits a NUL: its output is a C string *)
Lemma url_encode_cstr x : bytes x -> cstr (url_encode x).
Proof. induction x as [|c x IH]; [reflexivity|]. intros H. apply bytes_cons in H as [Hc Hx].
  cbn [url_encode flat_map]. fold (url_encode x). apply cstr_app. split; [|auto].
  pose proof (url_byte c Hc) as Ok. unfold url_byte_ok in Ok. unfold url_enc1.
  pose proof (fbyte (fun c => isbyte (hexdig (N.shiftr c 4)) && isbyte (hexdig (N.land c 15))) c eq_refl Hc) as Hh. cbn beta in Hh.
  apply andb_prop in Hh as [Hh1 Hh2].
  destruct (negb (tb URLCHARTBL c =? 0)).
  - apply andb_prop in Ok as [_ O3]. apply negb_true_iff, N.eqb_neq in O3. apply cstr_cons. split; [auto|reflexivity].
  - apply andb_prop in Ok as [Ok O3]. apply andb_prop in Ok as [_ O2]. apply negb_true_iff, N.eqb_neq in O2, O3.
    apply cstr_cons. split; [split; [reflexivity|discriminate]|]. apply cstr_cons. split; [auto|]. apply cstr_cons. split; [auto|reflexivity].
Qed.

(* literally emitted characters are URL-safe; everything else is %hh with two lowercase hex digits *)
Definition url_spec1 (c : N) : list N := if negb (tb URLCHARTBL c =? 0) then [c] else [37; lowerhex (c / 16); lowerhex (c mod 16)].
Lemma url_form_tbl : forallb (fun c => (if negb (tb URLCHARTBL c =? 0) then url_safe c else true)
   && (hexdig (N.shiftr c 4) =? lowerhex (c / 16)) && (hexdig (N.land c 15) =? lowerhex (c mod 16))) (rng 256) = true.
Proof. vm_compute. reflexivity. Qed.
Theorem url_literal_safe c : isbyte c = true -> tb URLCHARTBL c <> 0 -> url_safe c = true.
Proof. intros Hc Ht. pose proof (fbyte _ c url_form_tbl Hc) as P. cbn beta in P. apply andb_prop in P as [P _]. apply andb_prop in P as [P _].
  apply N.eqb_neq in Ht. rewrite Ht in P. exact P. Qed.
Theorem url_escaped_form x : bytes x -> url_encode x = flat_map url_spec1 x.
Proof. induction x as [|c x IH]; [reflexivity|]. intros H. apply bytes_cons in H as [Hc Hx]. cbn [url_encode flat_map]. fold (url_encode x).
  rewrite IH by auto. f_equal. unfold url_enc1, url_spec1. pose proof (fbyte _ c url_form_tbl Hc) as P. cbn beta in P.
  apply andb_prop in P as [P P3]. apply andb_prop in P as [_ P2]. apply N.eqb_eq in P2, P3. rewrite P2, P3. reflexivity. Qed.
Theorem url_output_safe x : bytes x -> Forall (fun ch => url_safe ch = true \/ ch = 37) (url_encode x).
Proof. induction x as [|c x IH]; [constructor|]. intros H. apply bytes_cons in H as [Hc Hx]. cbn [url_encode flat_map]. apply Forall_app. split; [|auto].
  unfold url_enc1. destruct (negb (tb URLCHARTBL c =? 0)) eqn:E.
  - constructor; [|constructor]. left. apply url_literal_safe; auto. apply negb_true_iff, N.eqb_neq in E. exact E.
  - pose proof (fbyte (fun c => url_safe (hexdig (N.shiftr c 4)) && url_safe (hexdig (N.land c 15))) c eq_refl Hc) as P. cbn beta in P.
    apply andb_prop in P as [P1 P2]. constructor; [right; reflexivity|]. constructor; [left; exact P1|]. constructor; [left; exact P2|constructor]. Qed.

(* decoder leniency: both hex-digit cases are accepted *)
Lemma x2c_cases_tbl : forallb (fun c => (x2c (lowerhex (c / 16)) (lowerhex (c mod 16)) =? c) && (x2c (upperhex (c / 16)) (upperhex (c mod 16)) =? c)
   && (x2c (lowerhex (c / 16)) (upperhex (c mod 16)) =? c) && (x2c (upperhex (c / 16)) (lowerhex (c mod 16)) =? c)) (rng 256) = true.
Proof. vm_compute. reflexivity. Qed.
Theorem url_decode_both_cases c r : isbyte c = true ->
  url_decode (37 :: lowerhex (c / 16) :: lowerhex (c mod 16) :: r) = c :: url_decode r /\
  url_decode (37 :: upperhex (c / 16) :: upperhex (c mod 16) :: r) = c :: url_decode r.
Proof. intros Hc. pose proof (fbyte _ c x2c_cases_tbl Hc) as P. cbn beta in P. apply andb_prop in P as [P _]. apply andb_prop in P as [P _].
  apply andb_prop in P as [P1 P2]. apply N.eqb_eq in P1, P2. cbn [url_decode]. rewrite P1, P2. auto. Qed.
Theorem url_decode_plus r : url_decode (43 :: r) = 32 :: url_decode r.
Proof. reflexivity. Qed.

(* buffer level = string level; in particular no read beyond the terminator, fuel |s|+1 suffices *)
Lemma rd_at pre c r : rd (pre ++ c :: r) (length pre) = Ok c.
Proof. unfold rd. rewrite nth_error_app2 by lia. rewrite Nat.sub_diag. reflexivity. Qed.
Lemma rd_at1 pre c a r : rd (pre ++ c :: a :: r) (length pre + 1) = Ok a.
Proof. unfold rd. rewrite nth_error_app2 by lia. replace (length pre + 1 - length pre)%nat with 1%nat by lia. reflexivity. Qed.
Lemma rd_at2 pre c a b r : rd (pre ++ c :: a :: b :: r) (length pre + 2) = Ok b.
Proof. unfold rd. rewrite nth_error_app2 by lia. replace (length pre + 2 - length pre)%nat with 2%nat by lia. reflexivity. Qed.
Lemma snoc_len {A} (pre : list A) c : length (pre ++ [c]) = S (length pre).
Proof. rewrite app_length. simpl. lia. Qed.
Lemma app_cons_snoc {A} (pre : list A) c r : pre ++ c :: r = (pre ++ [c]) ++ r.
Proof. rewrite <- app_assoc. reflexivity. Qed.

Lemma url_dec_buf_eq fuel : forall s pre out junk, cstr s -> (length s < fuel)%nat ->
  url_dec_buf fuel (pre ++ s ++ 0 :: junk) (length pre) out = Ok (rev out ++ url_decode s).
Proof. induction fuel as [|f IH]; intros s pre out junk Hs Hf; [lia|]. cbn [url_dec_buf].
  destruct s as [|c s].
  - cbn [app]. rewrite rd_at. cbn [bind]. rewrite N.eqb_refl. rewrite app_nil_r. reflexivity.
  - apply cstr_cons in Hs as [[Hc Hc0] Hs]. cbn [app length] in *. rewrite rd_at. cbn [bind]. apply N.eqb_neq in Hc0. rewrite Hc0.
    assert (Step : forall d, url_dec_buf f (pre ++ c :: s ++ 0 :: junk) (S (length pre)) (d :: out) = Ok (rev out ++ d :: url_decode s)).
    { intros d. rewrite app_cons_snoc, <- snoc_len with (c := c). rewrite IH by (auto; lia). cbn [rev]. rewrite <- app_assoc. reflexivity. }
    destruct (c =? 43) eqn:E43; [apply N.eqb_eq in E43; subst c; rewrite Step; reflexivity|].
    destruct (c =? 37) eqn:E37.
    + apply N.eqb_eq in E37; subst c. destruct s as [|a s].
      * cbn [app]. rewrite rd_at1. cbn [bind]. rewrite N.eqb_refl. apply (Step 37).
      * apply cstr_cons in Hs as [[Ha Ha0] Hs]. cbn [app]. rewrite rd_at1. cbn [bind]. apply N.eqb_neq in Ha0. rewrite Ha0.
        destruct s as [|b s].
        -- cbn [app]. rewrite rd_at2. cbn [bind]. rewrite N.eqb_refl. apply (Step 37).
        -- apply cstr_cons in Hs as [[Hb Hb0] Hs]. cbn [app]. rewrite rd_at2. cbn [bind]. apply N.eqb_neq in Hb0. rewrite Hb0.
           cbn [length] in Hf.
           replace (pre ++ 37 :: a :: b :: s ++ 0 :: junk) with ((pre ++ [37; a; b]) ++ s ++ 0 :: junk) by (rewrite <- app_assoc; reflexivity).
           replace (length pre + 3)%nat with (length (pre ++ [37; a; b])) by (rewrite app_length; simpl; lia).
           rewrite IH by (auto; lia). cbn [rev url_decode]. rewrite <- app_assoc. reflexivity.
    + apply N.eqb_neq in E43, E37. rewrite Step. rewrite url_decode_lit by auto. reflexivity.
Qed.
Lemma url_decode_length s : (length (url_decode s) <= length s)%nat.
Proof. remember (length s) as n eqn:E. revert s E. induction n as [n IH] using lt_wf_ind. intros s E.
  destruct s as [|c s]; [simpl; lia|]. cbn [length] in E.
  assert (L : (length (url_decode s) <= length s)%nat) by (apply (IH (length s)); [lia|reflexivity]).
  destruct (N.eq_dec c 43) as [->|N43]; [cbn [url_decode length]; lia|].
  destruct (N.eq_dec c 37) as [->|N37].
  - destruct s as [|a [|b r]]; cbn [url_decode length] in *; try lia.
    assert (L2 : (length (url_decode r) <= length r)%nat) by (apply (IH (length r)); [lia|reflexivity]). lia.
  - rewrite url_decode_lit by auto. cbn [length]. lia.
Qed.
Theorem url_decode_safe s junk : cstr s ->
  url_dec_buf (S (length s)) (s ++ 0 :: junk) 0 [] = Ok (url_decode s) /\ (length (url_decode s) <= length s)%nat.
Proof. intros Hs. split; [|apply url_decode_length]. apply (url_dec_buf_eq (S (length s)) s [] [] junk Hs). lia. Qed.

(* ================= hex ================= *)
Lemma hex_table_ok : forallb (fun c => hex_byte (tb HEXCHARTBL (N.shiftr c 4)) (tb HEXCHARTBL (N.land c 15)) =? c) (rng 256) = true.
Proof. vm_compute. reflexivity. Qed.
Theorem hex_roundtrip x : bytes x -> hex_decode (hex_encode x) = x.
Proof. induction x as [|c x IH]; [reflexivity|]. intros H. apply bytes_cons in H as [Hc Hx].
  cbn [hex_encode flat_map app hex_decode]. fold (hex_encode x). rewrite IH by auto. f_equal.
  apply N.eqb_eq. exact (fbyte _ c hex_table_ok Hc). Qed.
Lemma hex_form_tbl : forallb (fun c => (tb HEXCHARTBL (N.shiftr c 4) =? lowerhex (c / 16)) && (tb HEXCHARTBL (N.land c 15) =? lowerhex (c mod 16))) (rng 256) = true.
Proof. vm_compute. reflexivity. Qed.
Theorem hex_format x : bytes x -> hex_encode x = hex_spec x.
Proof. induction x as [|c x IH]; [reflexivity|]. intros H. apply bytes_cons in H as [Hc Hx]. cbn [hex_encode hex_spec flat_map].
  fold (hex_encode x). fold (hex_spec x). rewrite IH by auto. pose proof (fbyte _ c hex_form_tbl Hc) as P. cbn beta in P.
  apply andb_prop in P as [P1 P2]. apply N.eqb_eq in P1, P2. rewrite P1, P2. reflexivity. Qed.
Lemma hex_cases_tbl : forallb (fun c => (hex_byte (lowerhex (c / 16)) (lowerhex (c mod 16)) =? c) && (hex_byte (upperhex (c / 16)) (upperhex (c mod 16)) =? c)) (rng 256) = true.
Proof. vm_compute. reflexivity. Qed.
Theorem hex_decode_both_cases c r : isbyte c = true ->
  hex_decode (lowerhex (c / 16) :: lowerhex (c mod 16) :: r) = c :: hex_decode r /\
  hex_decode (upperhex (c / 16) :: upperhex (c mod 16) :: r) = c :: hex_decode r.
Proof. intros Hc. pose proof (fbyte _ c hex_cases_tbl Hc) as P. cbn beta in P. apply andb_prop in P as [P1 P2]. apply N.eqb_eq in P1, P2.
  cbn [hex_decode]. rewrite P1, P2. auto. Qed.
Lemma hex_dec_buf_eq fuel : forall s pre out junk, cstr s -> (length s < 2 * fuel)%nat ->
  hex_dec_buf fuel (pre ++ s ++ 0 :: junk) (length pre) out = Ok (rev out ++ hex_decode s).
Proof. induction fuel as [|f IH]; intros s pre out junk Hs Hf; [lia|]. cbn [hex_dec_buf].
  destruct s as [|a s].
  - cbn [app]. rewrite rd_at. cbn [bind]. rewrite N.eqb_refl, app_nil_r. reflexivity.
  - apply cstr_cons in Hs as [[Ha Ha0] Hs]. cbn [app]. rewrite rd_at. cbn [bind]. apply N.eqb_neq in Ha0. rewrite Ha0.
    destruct s as [|b s].
    + cbn [app]. rewrite rd_at1. cbn [bind]. rewrite N.eqb_refl. cbn [hex_decode]. rewrite app_nil_r. reflexivity.
    + apply cstr_cons in Hs as [[Hb Hb0] Hs]. cbn [app]. rewrite rd_at1. cbn [bind]. apply N.eqb_neq in Hb0. rewrite Hb0.
      cbn [length] in Hf.
      replace (pre ++ a :: b :: s ++ 0 :: junk) with ((pre ++ [a; b]) ++ s ++ 0 :: junk) by (rewrite <- app_assoc; reflexivity).
      replace (length pre + 2)%nat with (length (pre ++ [a; b])) by (rewrite app_length; simpl; lia).
      rewrite IH by (auto; lia). cbn [rev hex_decode]. rewrite <- app_assoc. reflexivity.
Qed.
Lemma hex_decode_length s : (2 * length (hex_decode s) <= length s)%nat.
Proof. remember (length s) as n eqn:E. revert s E. induction n as [n IH] using lt_wf_ind. intros s E.
  destruct s as [|a [|b r]]; cbn [hex_decode length] in *; try lia.
  assert (L2 : (2 * length (hex_decode r) <= length r)%nat) by (apply (IH (length r)); [lia|reflexivity]). lia. Qed.
Theorem hex_decode_safe s junk : cstr s ->
  hex_dec_buf (S (length s)) (s ++ 0 :: junk) 0 [] = Ok (hex_decode s) /\ (length (hex_decode s) <= length s)%nat.
Proof. intros Hs. split; [|pose proof (hex_decode_length s); lia]. apply (hex_dec_buf_eq (S (length s)) s [] [] junk Hs). lia. Qed.
