(* Reference definitions the codecs are compared with: RFC 4648 Base64 (standard alphabet, '=' padding),
   lowercase hex, and the URL "literal or %hh" form.  Written independently of the generated tables. *)
From Coq Require Import NArith List Bool.
Import ListNotations.
Local Open Scope N_scope.

(* RFC 4648 table 1: A-Z a-z 0-9 + / *)
Definition rfc_alphabet : list N :=
  [65;66;67;68;69;70;71;72;73;74;75;76;77;78;79;80;81;82;83;84;85;86;87;88;89;90;
   97;98;99;100;101;102;103;104;105;106;107;108;109;110;111;112;113;114;115;116;117;118;119;120;121;122;
   48;49;50;51;52;53;54;55;56;57;43;47].
Definition alpha (v : N) : N := nth (N.to_nat v) rfc_alphabet 0.
(* a 24-bit group, most significant byte first, cut into four 6-bit values *)
Definition group24 (a b c : N) : N := a * 65536 + b * 256 + c.
Definition sextet (g : N) (i : N) : N := (g / 2 ^ (6 * (3 - i))) mod 64.
Fixpoint rfc4648 (x : list N) : list N :=
  match x with
  | a :: b :: c :: r =>
      let g := group24 a b c in alpha (sextet g 0) :: alpha (sextet g 1) :: alpha (sextet g 2) :: alpha (sextet g 3) :: rfc4648 r
  | [a; b] => let g := group24 a b 0 in [alpha (sextet g 0); alpha (sextet g 1); alpha (sextet g 2); 61]
  | [a] => let g := group24 a 0 0 in [alpha (sextet g 0); alpha (sextet g 1); 61; 61]
  | [] => []
  end.

Definition lowerhex (d : N) : N := if d <? 10 then 48 + d else 87 + d.      (* '0'..'9', 'a'..'f' *)
Definition upperhex (d : N) : N := if d <? 10 then 48 + d else 55 + d.      (* '0'..'9', 'A'..'F' *)
Definition hex_spec (x : list N) : list N := flat_map (fun c => [lowerhex (c / 16); lowerhex (c mod 16)]) x.

(* what may appear literally in URL-encoded output: printable ASCII other than percent, plus, ampersand, equals, question mark, hash, double quote, less-than, greater-than *)
Definition url_forbidden : list N := [37; 43; 38; 61; 63; 35; 34; 60; 62].
Definition url_safe (c : N) : bool := (33 <=? c) && (c <=? 126) && negb (existsb (N.eqb c) url_forbidden).
