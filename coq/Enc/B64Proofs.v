From Coq Require Import NArith ZArith List Lia Bool Arith.
From QV.Base Require Import Res Bytes.
From QV.Gen Require Import Tables.
From QV.Enc Require Import EncModel EncSpec EncProofs.
Import ListNotations.
Local Open Scope N_scope.

(* the alphabet and the reverse map are inverse on sextets, and alphabet characters are never skipped or NUL *)
Lemma map_tbl : forallb (fun v => (M64 (T64 v) =? v) && negb (M64 (T64 v) =? 64) && negb (T64 v =? 0) && isbyte (T64 v)) (rng 64) = true.
Proof. vm_compute. reflexivity. Qed.
Lemma pad_skipped : M64 61 = 64. Proof. reflexivity. Qed.

Lemma sext_ok : forallb (fun a => forallb (fun b => (s1 a <? 64) && (s2 a b <? 64) && (s3 a b <? 64) && (s4 a <? 64)) (rng 256)) (rng 256) = true.
Proof. vm_compute. reflexivity. Qed.
Lemma out1_ok : forallb (fun a => forallb (fun b => (N.lor (N.shiftl (s1 a) 2) (N.shiftr (s2 a b) 4)) mod 256 =? a) (rng 256)) (rng 256) = true.
Proof. vm_compute. reflexivity. Qed.
(* out2 depends on a only through a&3 and on c only through c>>6 *)
Lemma out2_ok : forallb (fun a3 => forallb (fun b => forallb (fun c6 =>
   (N.lor (N.shiftl (N.lor (N.shiftl a3 4) (N.shiftr (N.land b 240) 4)) 4) (N.shiftr (N.lor (N.shiftl (N.land b 15) 2) c6) 2)) mod 256 =? b) (rng 4)) (rng 256)) (rng 4) = true.
Proof. vm_compute. reflexivity. Qed.
Lemma out3_ok : forallb (fun b15 => forallb (fun c =>
   (N.lor (N.shiftl (N.lor (N.shiftl b15 2) (N.shiftr (N.land c 192) 6)) 6) (s4 c)) mod 256 =? c) (rng 256)) (rng 16) = true.
Proof. vm_compute. reflexivity. Qed.
Lemma small_ok : forallb (fun a => (N.land a 3 <? 4) && (N.land a 15 <? 16) && (N.shiftr (N.land a 192) 6 <? 4)) (rng 256) = true.
Proof. vm_compute. reflexivity. Qed.

Lemma MT v : v < 64 -> M64 (T64 v) = v /\ (M64 (T64 v) =? 64) = false /\ T64 v <> 0 /\ isbyte (T64 v) = true.
Proof. intros H. pose proof (fb1 _ 64 v map_tbl H) as P. cbn beta in P. apply andb_prop in P as [P P4]. apply andb_prop in P as [P P3]. apply andb_prop in P as [P1 P2].
  apply N.eqb_eq in P1. apply negb_true_iff in P2. apply negb_true_iff, N.eqb_neq in P3. auto. Qed.

Lemma sext a b : isbyte a = true -> isbyte b = true -> s1 a < 64 /\ s2 a b < 64 /\ s3 a b < 64 /\ s4 a < 64.
Proof. intros Ha Hb. pose proof (fb2 _ 256 256 a b sext_ok (isbyte_lt _ Ha) (isbyte_lt _ Hb)) as P. cbn beta in P.
  apply andb_prop in P as [P P4]. apply andb_prop in P as [P P3]. apply andb_prop in P as [P1 P2].
  apply N.ltb_lt in P1, P2, P3, P4. auto. Qed.
Lemma small a : isbyte a = true -> N.land a 3 < 4 /\ N.land a 15 < 16 /\ N.shiftr (N.land a 192) 6 < 4.
Proof. intros Ha. pose proof (fb1 _ 256 a small_ok (isbyte_lt _ Ha)) as P. cbn beta in P.
  apply andb_prop in P as [P P3]. apply andb_prop in P as [P1 P2]. apply N.ltb_lt in P1, P2, P3. auto. Qed.

Lemma o1 a b : isbyte a = true -> isbyte b = true -> (N.lor (N.shiftl (s1 a) 2) (N.shiftr (s2 a b) 4)) mod 256 = a.
Proof. intros Ha Hb. apply N.eqb_eq. exact (fb2 _ 256 256 a b out1_ok (isbyte_lt _ Ha) (isbyte_lt _ Hb)). Qed.
Lemma o2 a b c : isbyte a = true -> isbyte b = true -> isbyte c = true ->
  (N.lor (N.shiftl (s2 a b) 4) (N.shiftr (s3 b c) 2)) mod 256 = b.
Proof. intros Ha Hb Hc. destruct (small a Ha) as (A3 & _ & _). destruct (small c Hc) as (_ & _ & C6).
  unfold s2, s3. generalize dependent (N.land a 3). generalize dependent (N.shiftr (N.land c 192) 6). intros c6 C6 a3 A3.
  pose proof out2_ok as P. rewrite forallb_forall in P. specialize (P a3 (in_rng 4 a3 A3)). rewrite forallb_forall in P.
  specialize (P b (in_rng 256 b (isbyte_lt _ Hb))). rewrite forallb_forall in P. specialize (P c6 (in_rng 4 c6 C6)). apply N.eqb_eq in P. exact P. Qed.
Lemma o3 b c : isbyte b = true -> isbyte c = true -> (N.lor (N.shiftl (s3 b c) 6) (s4 c)) mod 256 = c.
Proof. intros Hb Hc. destruct (small b Hb) as (_ & B15 & _). unfold s3. generalize dependent (N.land b 15). intros b15 B15.
  apply N.eqb_eq. exact (fb2 _ 16 256 b15 c out3_ok B15 (isbyte_lt _ Hc)). Qed.

Lemma isbyte0 : isbyte 0 = true. Proof. reflexivity. Qed.

Theorem b64_roundtrip x : bytes x -> b64_decode (b64_encode x) = x.
Proof. unfold b64_decode. generalize 0 at 1. remember (length x) as n eqn:En. revert x En.
  induction n as [n IH] using lt_wf_ind. intros x En l Hb.
  unfold bytes in Hb. destruct x as [|a [|b [|c r]]].
  - reflexivity.
  - cbn [forallb] in Hb. apply andb_prop in Hb as [Ha _]. cbn [b64_encode].
    destruct (sext a 0 Ha isbyte0) as (S1 & S2 & _ & _).
    destruct (MT _ S1) as (M1 & N1 & _). destruct (MT _ S2) as (M2 & N2 & _).
    cbn [b64_dec]. rewrite N1, M1, N2, M2. rewrite (o1 a 0 Ha isbyte0). change (M64 61 =? 64) with true. cbn. reflexivity.
  - cbn [forallb] in Hb. apply andb_prop in Hb as [Ha Hb]. apply andb_prop in Hb as [Hb _]. cbn [b64_encode].
    destruct (sext a b Ha Hb) as (S1 & S2 & _ & _). destruct (sext b 0 Hb isbyte0) as (_ & _ & S3 & _).
    destruct (MT _ S1) as (M1 & N1 & _). destruct (MT _ S2) as (M2 & N2 & _). destruct (MT _ S3) as (M3 & N3 & _).
    cbn [b64_dec]. rewrite N1, M1, N2, M2, N3, M3. rewrite (o1 a b Ha Hb), (o2 a b 0 Ha Hb isbyte0). change (M64 61 =? 64) with true. cbn. reflexivity.
  - cbn [forallb] in Hb. apply andb_prop in Hb as [Ha Hb]. apply andb_prop in Hb as [Hb Hc]. apply andb_prop in Hc as [Hc Hr].
    cbn [b64_encode].
    destruct (sext a b Ha Hb) as (S1 & S2 & _ & _). destruct (sext b c Hb Hc) as (_ & _ & S3 & _). destruct (sext c c Hc Hc) as (_ & _ & _ & S4).
    destruct (MT _ S1) as (M1 & N1 & _). destruct (MT _ S2) as (M2 & N2 & _). destruct (MT _ S3) as (M3 & N3 & _). destruct (MT _ S4) as (M4 & N4 & _).
    cbn [b64_dec]. rewrite N1, M1, N2, M2, N3, M3, N4, M4. rewrite (o1 a b Ha Hb), (o2 a b c Ha Hb Hc), (o3 b c Hb Hc).
    f_equal. f_equal. f_equal. apply (IH (length r)); [subst n; cbn; lia | reflexivity | exact Hr].
Qed.

(* --- the encoder's output is exactly RFC 4648 --- *)
Lemma alphabet_is_rfc : B64CHARTBL = rfc_alphabet.
Proof. reflexivity. Qed.
Lemma T64_alpha v : T64 v = alpha v.
Proof. unfold T64, alpha, tb. rewrite alphabet_is_rfc. reflexivity. Qed.
(* bit-slicing = division of the 24-bit group *)
Lemma sextets_of_group a b c : a < 256 -> b < 256 -> c < 256 ->
  sextet (group24 a b c) 0 = a / 4 /\ sextet (group24 a b c) 1 = (a mod 4) * 16 + b / 16 /\
  sextet (group24 a b c) 2 = (b mod 16) * 4 + c / 64 /\ sextet (group24 a b c) 3 = c mod 64.
Proof. intros Ha Hb Hc. unfold sextet, group24.
  change (2 ^ (6 * (3 - 0))) with 262144. change (2 ^ (6 * (3 - 1))) with 4096. change (2 ^ (6 * (3 - 2))) with 64. change (2 ^ (6 * (3 - 3))) with 1.
  rewrite N.div_1_r.
  pose proof (N.div_mod a 4 ltac:(lia)). pose proof (N.mod_upper_bound a 4 ltac:(lia)).
  pose proof (N.div_mod b 16 ltac:(lia)). pose proof (N.mod_upper_bound b 16 ltac:(lia)).
  pose proof (N.div_mod c 64 ltac:(lia)). pose proof (N.mod_upper_bound c 64 ltac:(lia)).
  set (a4 := a / 4) in *. set (a3 := a mod 4) in *. set (b4 := b / 16) in *. set (b15 := b mod 16) in *. set (c6 := c / 64) in *. set (c63 := c mod 64) in *.
  assert (a4 < 64) by lia. assert (b4 < 16) by lia. assert (c6 < 4) by lia.
  repeat split.
  - assert (E : a * 65536 + b * 256 + c = a4 * 262144 + (a3 * 65536 + b * 256 + c)) by lia. rewrite E.
    rewrite N.div_add_l by lia. rewrite (N.div_small (a3 * 65536 + b * 256 + c)) by lia. rewrite N.mod_small by lia. lia.
  - assert (E : a * 65536 + b * 256 + c = (a4 * 64 + (a3 * 16 + b4)) * 4096 + (b15 * 256 + c)) by lia. rewrite E.
    rewrite N.div_add_l by lia. rewrite (N.div_small (b15 * 256 + c)) by lia. rewrite N.add_0_r.
    rewrite N.add_comm, N.mod_add by lia. apply N.mod_small. lia.
  - assert (E : a * 65536 + b * 256 + c = ((a * 16 + b4) * 64 + (b15 * 4 + c6)) * 64 + c63) by lia. rewrite E.
    rewrite N.div_add_l by lia. rewrite (N.div_small c63) by lia. rewrite N.add_0_r.
    rewrite N.add_comm, N.mod_add by lia. apply N.mod_small. lia.
  - assert (E : a * 65536 + b * 256 + c = c63 + (a * 1024 + b * 4 + c6) * 64) by lia. rewrite E.
    rewrite N.mod_add by lia. apply N.mod_small. lia.
Qed.
Lemma slices_tbl : forallb (fun a => forallb (fun b => (s1 a =? a / 4) && (s2 a b =? (a mod 4) * 16 + b / 16) && (s3 a b =? (a mod 16) * 4 + b / 64) && (s4 a =? a mod 64)) (rng 256)) (rng 256) = true.
Proof. vm_compute. reflexivity. Qed.
Lemma slices a b : isbyte a = true -> isbyte b = true -> s1 a = a / 4 /\ s2 a b = (a mod 4) * 16 + b / 16 /\ s3 a b = (a mod 16) * 4 + b / 64 /\ s4 a = a mod 64.
Proof. intros Ha Hb. pose proof (fb2 _ 256 256 a b slices_tbl (isbyte_lt _ Ha) (isbyte_lt _ Hb)) as P. cbn beta in P.
  apply andb_prop in P as [P P4]. apply andb_prop in P as [P P3]. apply andb_prop in P as [P1 P2]. apply N.eqb_eq in P1, P2, P3, P4. auto. Qed.

Theorem b64_is_rfc4648 x : bytes x -> b64_encode x = rfc4648 x.
Proof. remember (length x) as n eqn:En. revert x En. induction n as [n IH] using lt_wf_ind. intros x En Hb.
  destruct x as [|a [|b [|c r]]].
  - reflexivity.
  - apply bytes_cons in Hb as [Ha _]. cbn [b64_encode rfc4648]. cbv zeta.
    destruct (sextets_of_group a 0 0) as (G1 & G2 & _ & _); try (apply N.ltb_lt; auto); try lia.
    destruct (slices a 0 Ha isbyte0) as (E1 & E2 & _ & _). rewrite G1, G2, !T64_alpha, E1, E2. reflexivity.
  - apply bytes_cons in Hb as [Ha Hb]. apply bytes_cons in Hb as [Hb _]. cbn [b64_encode rfc4648]. cbv zeta.
    destruct (sextets_of_group a b 0) as (G1 & G2 & G3 & _); try (apply N.ltb_lt; auto); try lia.
    destruct (slices a b Ha Hb) as (E1 & E2 & _ & _). destruct (slices b 0 Hb isbyte0) as (_ & _ & E3 & _).
    rewrite G1, G2, G3, !T64_alpha, E1, E2, E3. reflexivity.
  - apply bytes_cons in Hb as [Ha Hb]. apply bytes_cons in Hb as [Hb Hc]. apply bytes_cons in Hc as [Hc Hr]. cbn [b64_encode rfc4648]. cbv zeta.
    destruct (sextets_of_group a b c) as (G1 & G2 & G3 & G4); try (apply N.ltb_lt; auto).
    destruct (slices a b Ha Hb) as (E1 & E2 & _ & _). destruct (slices b c Hb Hc) as (_ & _ & E3 & _). destruct (slices c c Hc Hc) as (_ & _ & _ & E4).
    rewrite G1, G2, G3, G4, !T64_alpha, E1, E2, E3, E4. do 4 f_equal. apply (IH (length r)); [subst n; cbn; lia|reflexivity|exact Hr].
Qed.

(* output length: 4 * ceil(n/3), all characters non-NUL bytes *)
Lemma b64_encode_cstr x : bytes x -> cstr (b64_encode x).
Proof. remember (length x) as n eqn:En. revert x En. induction n as [n IH] using lt_wf_ind. intros x En Hb.
  assert (P61 : isbyte 61 = true /\ 61 <> 0) by (split; [reflexivity|discriminate]).
  destruct x as [|a [|b [|c r]]].
  - reflexivity.
  - apply bytes_cons in Hb as [Ha _]. cbn [b64_encode]. destruct (sext a 0 Ha isbyte0) as (S1 & S2 & _ & _).
    destruct (MT _ S1) as (_ & _ & Z1 & B1). destruct (MT _ S2) as (_ & _ & Z2 & B2).
    repeat (apply cstr_cons; split; [auto|]). reflexivity.
  - apply bytes_cons in Hb as [Ha Hb]. apply bytes_cons in Hb as [Hb _]. cbn [b64_encode].
    destruct (sext a b Ha Hb) as (S1 & S2 & _ & _). destruct (sext b 0 Hb isbyte0) as (_ & _ & S3 & _).
    destruct (MT _ S1) as (_ & _ & Z1 & B1). destruct (MT _ S2) as (_ & _ & Z2 & B2). destruct (MT _ S3) as (_ & _ & Z3 & B3).
    repeat (apply cstr_cons; split; [auto|]). reflexivity.
  - apply bytes_cons in Hb as [Ha Hb]. apply bytes_cons in Hb as [Hb Hc]. apply bytes_cons in Hc as [Hc Hr]. cbn [b64_encode].
    destruct (sext a b Ha Hb) as (S1 & S2 & _ & _). destruct (sext b c Hb Hc) as (_ & _ & S3 & _). destruct (sext c c Hc Hc) as (_ & _ & _ & S4).
    destruct (MT _ S1) as (_ & _ & Z1 & B1). destruct (MT _ S2) as (_ & _ & Z2 & B2). destruct (MT _ S3) as (_ & _ & Z3 & B3). destruct (MT _ S4) as (_ & _ & Z4 & B4).
    repeat (apply cstr_cons; split; [auto|]). apply (IH (length r)); [subst n; cbn; lia|reflexivity|exact Hr].
Qed.

(* buffer level = string level for the decoder: one read per step, never past the terminator *)
Lemma b64_dec_buf_eq fuel : forall s pre idx last out junk, cstr s -> (length s < fuel)%nat ->
  b64_dec_buf fuel (pre ++ s ++ 0 :: junk) (length pre) idx last out = Ok (rev out ++ b64_dec s idx last).
Proof. induction fuel as [|f IH]; intros s pre idx last out junk Hs Hf; [lia|]. cbn [b64_dec_buf].
  destruct s as [|c s].
  - cbn [app]. rewrite rd_at. cbn [bind]. rewrite N.eqb_refl, app_nil_r. reflexivity.
  - apply cstr_cons in Hs as [[Hc Hc0] Hs]. cbn [app length] in *. rewrite rd_at. cbn [bind]. apply N.eqb_neq in Hc0. rewrite Hc0.
    cbn [b64_dec]. cbv zeta. rewrite app_cons_snoc, <- snoc_len with (c := c).
    destruct (M64 c =? 64); [apply IH; auto; lia|].
    destruct idx as [|[|[|idx]]]; rewrite IH by (auto; lia); cbn [rev]; rewrite <- ?app_assoc; reflexivity.
Qed.
Lemma b64_dec_length s : forall idx last, (length (b64_dec s idx last) <= length s)%nat.
Proof. induction s as [|c s IH]; intros idx last; [simpl; lia|]. cbn [b64_dec]. cbv zeta.
  destruct (M64 c =? 64); [specialize (IH idx last); cbn [length]; lia|].
  destruct idx as [|[|[|idx]]]; cbn [length]; match goal with |- context[b64_dec s ?i ?l] => specialize (IH i l) end; lia. Qed.
Theorem b64_decode_safe s junk : cstr s ->
  b64_dec_buf (S (length s)) (s ++ 0 :: junk) 0 0 0 [] = Ok (b64_decode s) /\ (length (b64_decode s) <= length s)%nat.
Proof. intros Hs. split; [|apply b64_dec_length]. apply (b64_dec_buf_eq (S (length s)) s [] 0%nat 0 [] junk Hs). lia. Qed.
