From Coq Require Import NArith ZArith List Lia Bool Arith.
From QV.Base Require Import Res Bytes.
From QV.Gen Require Import Tables.
From QV.Enc Require Import EncModel EncSpec EncProofs.
Import ListNotations.
Local Open Scope N_scope.

(* characters the URL encoder can emit: table-literal characters and '%' (hex digits are table-literal) *)
Definition enc_char (ch : N) : bool := negb (tb URLCHARTBL ch =? 0) || (ch =? 37).
Lemma hexdig_lit_tbl : forallb (fun c => enc_char (hexdig (N.shiftr c 4)) && enc_char (hexdig (N.land c 15))) (rng 256) = true.
Proof. vm_compute. reflexivity. Qed.
Lemma url_encode_chars x : bytes x -> Forall (fun ch => enc_char ch = true) (url_encode x).
Proof. induction x as [|c x IH]; [constructor|]. intros H. apply bytes_cons in H as [Hc Hx]. cbn [url_encode flat_map]. apply Forall_app. split; [|auto].
  unfold url_enc1. destruct (negb (tb URLCHARTBL c =? 0)) eqn:E.
  - constructor; [|constructor]. unfold enc_char. rewrite E. reflexivity.
  - pose proof (fbyte _ c hexdig_lit_tbl Hc) as P. cbn beta in P. apply andb_prop in P as [P1 P2].
    constructor; [reflexivity|]. constructor; [exact P1|]. constructor; [exact P2|constructor]. Qed.

(* a separator usable for query strings: one the encoder always escapes *)
Definition sepok (c : N) : Prop := enc_char c = false.
Lemma blank_not_enc ch : isblank ch = true -> enc_char ch = false.
Proof. unfold isblank. rewrite !orb_true_iff, !N.eqb_eq. intros [[[->| ->]| ->]| ->]; reflexivity. Qed.

Lemma makeword_stop w stop r : Forall (fun ch => ch <> stop) w -> makeword (w ++ stop :: r) stop = (w, r).
Proof. induction w as [|c w IH]; intros H.
  - cbn. rewrite N.eqb_refl. reflexivity.
  - inversion H as [|? ? Hc Hw]; subst. cbn [app makeword]. apply N.eqb_neq in Hc. rewrite Hc. rewrite IH by auto. reflexivity. Qed.
Lemma makeword_nostop w stop : Forall (fun ch => ch <> stop) w -> makeword w stop = (w, []).
Proof. induction w as [|c w IH]; intros H; [reflexivity|].
  inversion H as [|? ? Hc Hw]; subst. cbn [makeword]. apply N.eqb_neq in Hc. rewrite Hc. rewrite IH by auto. reflexivity. Qed.

Lemma trim_head_noblank s : Forall (fun ch => isblank ch = false) s -> trim_head s = s.
Proof. destruct s as [|c s]; [reflexivity|]. intros H. inversion H as [|? ? Hc _]; subst. cbn [trim_head]. rewrite Hc. reflexivity. Qed.
Lemma trim_noblank s : Forall (fun ch => isblank ch = false) s -> trim s = s.
Proof. intros H. unfold trim, trim_tail. rewrite (trim_head_noblank s H). rewrite trim_head_noblank; [apply rev_involutive|].
  apply Forall_rev. exact H. Qed.

Lemma enc_no_sep x c : bytes x -> sepok c -> Forall (fun ch => ch <> c) (url_encode x).
Proof. intros Hx Hc. eapply Forall_impl; [|apply url_encode_chars; exact Hx]. cbn beta. intros ch He ->. unfold sepok in Hc. congruence. Qed.
Lemma enc_no_blank x : bytes x -> Forall (fun ch => isblank ch = false) (url_encode x).
Proof. intros Hx. eapply Forall_impl; [|apply url_encode_chars; exact Hx]. cbn beta. intros ch He.
  destruct (isblank ch) eqn:B; [|reflexivity]. apply blank_not_enc in B. congruence. Qed.

Lemma cut0_cstr s : cstr s -> cut0 s = s.
Proof. induction s as [|c s IH]; [reflexivity|]. intros H. apply cstr_cons in H as [[_ Hc] Hs]. cbn [cut0]. apply N.eqb_neq in Hc. rewrite Hc, IH; auto. Qed.
Definition pairs_ok (ps : list (list N * list N)) : Prop := Forall (fun p => cstr (fst p) /\ cstr (snd p)) ps.

Lemma parse_one n v eq sep rest fuel : cstr n -> cstr v -> sepok eq -> sepok sep -> eq <> sep ->
  parse_queries (S fuel) (url_encode n ++ eq :: url_encode v ++ sep :: rest) eq sep = (n, v) :: parse_queries fuel rest eq sep.
Proof. intros Hn Hv He Hs Hne. pose proof (cut0_cstr n Hn) as Cn. pose proof (cut0_cstr v Hv) as Cv. apply cstr_bytes in Hn, Hv. cbn [parse_queries].
  destruct (url_encode n ++ eq :: url_encode v ++ sep :: rest) eqn:Q; [destruct (url_encode n); discriminate|]. rewrite <- Q. clear Q.
  replace (url_encode n ++ eq :: url_encode v ++ sep :: rest) with ((url_encode n ++ eq :: url_encode v) ++ sep :: rest)
    by (rewrite <- app_assoc; reflexivity).
  rewrite makeword_stop.
  2:{ apply Forall_app. split; [apply enc_no_sep; auto|]. constructor; [exact Hne|apply enc_no_sep; auto]. }
  rewrite makeword_stop by (apply enc_no_sep; auto).
  rewrite trim_noblank by (apply enc_no_blank; auto). rewrite !url_roundtrip by auto. rewrite Cn, Cv. reflexivity. Qed.
Lemma parse_last n v eq sep fuel : cstr n -> cstr v -> sepok eq -> sepok sep -> eq <> sep ->
  parse_queries (S (S fuel)) (url_encode n ++ eq :: url_encode v) eq sep = [(n, v)].
Proof. intros Hn Hv He Hs Hne. pose proof (cut0_cstr n Hn) as Cn. pose proof (cut0_cstr v Hv) as Cv. apply cstr_bytes in Hn, Hv. cbn [parse_queries].
  destruct (url_encode n ++ eq :: url_encode v) eqn:Q; [destruct (url_encode n); discriminate|]. rewrite <- Q. clear Q.
  rewrite makeword_nostop.
  2:{ apply Forall_app. split; [apply enc_no_sep; auto|]. constructor; [exact Hne|apply enc_no_sep; auto]. }
  rewrite makeword_stop by (apply enc_no_sep; auto).
  rewrite trim_noblank by (apply enc_no_blank; auto). rewrite !url_roundtrip by auto. rewrite Cn, Cv. reflexivity. Qed.

Theorem query_roundtrip ps eq sep : pairs_ok ps -> sepok eq -> sepok sep -> eq <> sep ->
  forall fuel, (length ps < fuel)%nat -> parse_queries fuel (join_query ps eq sep) eq sep = ps.
Proof. intros Hps He Hs Hne. induction ps as [|[n v] ps IH]; intros fuel Hf.
  - destruct fuel; reflexivity.
  - inversion Hps as [|? ? [Hn Hv] Hr]; subst. cbn [fst snd] in *. destruct ps as [|p ps].
    + cbn [join_query]. destruct fuel as [|[|fuel]]; cbn [length] in Hf; try lia. apply parse_last; auto.
    + destruct fuel as [|fuel]; [lia|]. change (join_query ((n, v) :: p :: ps) eq sep) with (url_encode n ++ eq :: url_encode v ++ sep :: join_query (p :: ps) eq sep).
      rewrite parse_one by auto. f_equal. apply IH; [exact Hr|]. cbn [length] in *. lia.
Qed.
(* fuel actually passed by the driver: one more than the query length, always enough *)
Lemma join_query_length ps eq sep : (length ps <= length (join_query ps eq sep))%nat.
Proof. induction ps as [|[n v] ps IH]; [simpl; lia|]. destruct ps as [|p ps].
  - cbn [join_query length]. rewrite app_length. cbn [length]. lia.
  - change (join_query ((n, v) :: p :: ps) eq sep) with (url_encode n ++ eq :: url_encode v ++ sep :: join_query (p :: ps) eq sep).
    rewrite app_length. cbn [length]. rewrite app_length. cbn [length] in *. lia. Qed.
(* the separators qparse_queries is documented for *)
Example seps_ok : sepok 38 /\ sepok 61 /\ sepok 59 /\ 61 <> 38.
Proof. repeat split; discriminate. Qed.
