(* Executable models of qencode.c (URL, hex, Base64 codecs), _q_x2c, _q_makeword and qparse_queries.
   Tables come from Gen/Tables.v, regenerated from the source on every run.
   Two levels: string level (list of non-NUL bytes, the terminator implicit) used by the round-trip theorems,
   and buffer level (the whole buffer including terminator; a read outside it is Crash) used for C17. *)
From Coq Require Import NArith ZArith List Bool.
From QV.Base Require Import Res Bytes.
From QV.Gen Require Import Tables.
Import ListNotations.
Local Open Scope N_scope.

(* ---------------- URL ---------------- *)
Definition hexdig (v : N) : N := if v <? 10 then v + 48 else (v - 10) + 97.
Definition url_enc1 (c : N) : list N :=
  if negb (tb URLCHARTBL c =? 0) then [c] else [37; hexdig (N.shiftr c 4); hexdig (N.land c 15)].
Definition url_encode (x : list N) : list N := flat_map url_enc1 x.

(* _q_x2c with C char arithmetic: char is signed on the modelled platform (x86-64), so bytes >= 0x80 compare below 'A';
   the result is the low 8 bits *)
Definition hv (c : N) : Z := if (65 <=? c) && (c <? 128) then (Z.of_N (N.land c 223) - 65) + 10 else Z.of_N c - 48.
Definition x2c (a b : N) : N := Z.to_N ((16 * hv a + hv b) mod 256)%Z.

(* qurl_decode on the string body: a '%' followed by fewer than two characters is copied literally *)
Fixpoint url_decode (s : list N) : list N :=
  match s with
  | [] => []
  | 43 :: r => 32 :: url_decode r
  | 37 :: a :: b :: r => x2c a b :: url_decode r
  | c :: r => c :: url_decode r
  end.

(* buffer level *)
Definition rd (buf : list N) (i : nat) : res N := match nth_error buf i with Some c => Ok c | None => Crash end.

Fixpoint url_dec_buf (fuel : nat) (buf : list N) (e : nat) (out : list N) : res (list N) :=
  match fuel with
  | O => Fuel
  | S f =>
    bind (rd buf e) (fun c =>
      if c =? 0 then Ok (rev out) else
      if c =? 43 then url_dec_buf f buf (S e) (32 :: out) else
      if c =? 37 then
        bind (rd buf (e + 1)) (fun a =>
          if a =? 0 then url_dec_buf f buf (S e) (37 :: out) else
          bind (rd buf (e + 2)) (fun b =>
            if b =? 0 then url_dec_buf f buf (S e) (37 :: out) else
            url_dec_buf f buf (e + 3) (x2c a b :: out)))
      else url_dec_buf f buf (S e) (c :: out))
  end.

(* ---------------- hex ---------------- *)
Definition hex_encode (x : list N) : list N :=
  flat_map (fun c => [tb HEXCHARTBL (N.shiftr c 4); tb HEXCHARTBL (N.land c 15)]) x.
Definition hex_byte (a b : N) : N := (N.shiftl (tb HEXMAPTBL a) 4 + tb HEXMAPTBL b) mod 256.
Fixpoint hex_decode (s : list N) : list N :=
  match s with
  | a :: b :: r => hex_byte a b :: hex_decode r
  | _ => []
  end.
Fixpoint hex_dec_buf (fuel : nat) (buf : list N) (e : nat) (out : list N) : res (list N) :=
  match fuel with
  | O => Fuel
  | S f =>
    bind (rd buf e) (fun a =>
      if a =? 0 then Ok (rev out) else
      bind (rd buf (e + 1)) (fun b =>
        if b =? 0 then Ok (rev out) else hex_dec_buf f buf (e + 2) (hex_byte a b :: out)))
  end.

(* ---------------- Base64 ---------------- *)
Definition T64 (v : N) := tb B64CHARTBL v.
Definition M64 (c : N) := tb B64MAPTBL c.
Definition s1 a := N.shiftr (N.land a 252) 2.
Definition s2 a b := N.lor (N.shiftl (N.land a 3) 4) (N.shiftr (N.land b 240) 4).
Definition s3 b c := N.lor (N.shiftl (N.land b 15) 2) (N.shiftr (N.land c 192) 6).
Definition s4 c := N.land c 63.
Fixpoint b64_encode (x : list N) : list N :=
  match x with
  | a :: b :: c :: r => T64 (s1 a) :: T64 (s2 a b) :: T64 (s3 b c) :: T64 (s4 c) :: b64_encode r
  | [a; b] => [T64 (s1 a); T64 (s2 a b); T64 (s3 b 0); 61]
  | [a] => [T64 (s1 a); T64 (s2 a 0); 61; 61]
  | [] => []
  end.
(* qbase64_decode: characters outside the alphabet (map value 64, '=' included) are skipped *)
Fixpoint b64_dec (s : list N) (idx : nat) (last : N) : list N :=
  match s with
  | [] => []
  | ch :: r =>
      let v := M64 ch in
      if v =? 64 then b64_dec r idx last else
      match idx with
      | 0%nat => b64_dec r 1 v
      | 1%nat => (N.lor (N.shiftl last 2) (N.shiftr v 4)) mod 256 :: b64_dec r 2 v
      | 2%nat => (N.lor (N.shiftl last 4) (N.shiftr v 2)) mod 256 :: b64_dec r 3 v
      | _ => (N.lor (N.shiftl last 6) v) mod 256 :: b64_dec r 0 v
      end
  end.
Definition b64_decode s := b64_dec s 0 0.
Fixpoint b64_dec_buf (fuel : nat) (buf : list N) (e : nat) (idx : nat) (last : N) (out : list N) : res (list N) :=
  match fuel with
  | O => Fuel
  | S f =>
    bind (rd buf e) (fun ch =>
      if ch =? 0 then Ok (rev out) else
      let v := M64 ch in
      if v =? 64 then b64_dec_buf f buf (S e) idx last out else
      match idx with
      | 0%nat => b64_dec_buf f buf (S e) 1 v out
      | 1%nat => b64_dec_buf f buf (S e) 2 v ((N.lor (N.shiftl last 2) (N.shiftr v 4)) mod 256 :: out)
      | 2%nat => b64_dec_buf f buf (S e) 3 v ((N.lor (N.shiftl last 4) (N.shiftr v 2)) mod 256 :: out)
      | _ => b64_dec_buf f buf (S e) 0 v ((N.lor (N.shiftl last 6) v) mod 256 :: out)
      end)
  end.

(* ---------------- _q_makeword, qstrtrim, qparse_queries (string level) ---------------- *)
Fixpoint makeword (s : list N) (stop : N) : list N * list N :=   (* (word, what is left in str) *)
  match s with
  | [] => ([], [])
  | c :: r => if c =? stop then ([], r) else let (w, l) := makeword r stop in (c :: w, l)
  end.
Definition isblank (c : N) : bool := (c =? 32) || (c =? 9) || (c =? 13) || (c =? 10).
Fixpoint trim_head (s : list N) : list N :=
  match s with c :: r => if isblank c then trim_head r else s | [] => [] end.
Definition trim_tail (s : list N) : list N := rev (trim_head (rev s)).
Definition trim (s : list N) : list N := trim_tail (trim_head s).

(* a decoded %00 (or any escape evaluating to 0) ends the C string handed to putstr() *)
Fixpoint cut0 (s : list N) : list N := match s with [] => [] | c :: r => if c =? 0 then [] else c :: cut0 r end.
Fixpoint parse_queries (fuel : nat) (q : list N) (eq sep : N) : list (list N * list N) :=
  match fuel with
  | O => []
  | S f =>
    match q with
    | [] => []
    | _ => let (value0, rest) := makeword q sep in
           let (name0, value) := makeword value0 eq in
           (cut0 (url_decode (trim name0)), cut0 (url_decode value)) :: parse_queries f rest eq sep
    end
  end.
Fixpoint join_query (ps : list (list N * list N)) (eq sep : N) : list N :=
  match ps with
  | [] => []
  | [(n, v)] => url_encode n ++ eq :: url_encode v
  | (n, v) :: r => url_encode n ++ eq :: url_encode v ++ sep :: join_query r eq sep
  end.
