(* C07 — the static hash table image is self-contained, relocatable and always well formed. *)
From Coq Require Import List Arith ZArith Bool.
From QV.Harr Require Import HarrModel HarrSpec HarrProofs.
Import ListNotations.
Local Open Scope Z_scope.

Section C07.
Variable K : Type.
Variable keq : K -> K -> bool.
Variable home : K -> nat.
Hypothesis keq_spec : forall a b, keq a b = true <-> a = b.
Local Notation Rep := (HarrProofs.Rep K home).
Local Notation kv := (HarrProofs.kv K).
Local Notation ek := (HarrProofs.ek K).
Local Notation ev := (HarrProofs.ev K).
Local Notation ei := (HarrProofs.ei K).
Local Notation allidx := (HarrProofs.allidx K).
Local Notation srun := (HarrSpec.srun K keq).
Local Notation aused := (HarrSpec.aused K).


(* Well-formedness (Rep lay g for some layout lay of entries): pairwise disjoint slot lists, every index inside the table,
   all other slots free, each entry's key slot and intact, terminated value chain with back links and per-slot sizes,
   collision counts equal to the number of keys sharing the home slot, a leader in every non-empty home slot, distinct
   keys, header counters equal to the slot census.  It holds after every operation of every history of the full
   interface (put/get/remove/remove-by-index/clear/size/walk), for every capacity. *)
Theorem C07_wf : forall (m : nat) (os : list (xop K)), (forall k, home k < m)%nat ->
  exists lay, Rep lay (fst (xrun keq home (init K m) os)) /\ maxs (fst (xrun keq home (init K m) os)) = m.
Proof. exact (xrun_rep K keq home keq_spec). Qed.
Theorem C07_wf_step : forall lay g o, Rep lay g -> (forall k, home k < maxs g)%nat ->
  exists lay', Rep lay' (fst (xstep keq home g o)) /\ maxs (fst (xstep keq home g o)) = maxs g.
Proof. exact (xstep_rep K keq home keq_spec). Qed.
(* occupied slots and links never leave [0, maxslots) *)
Theorem C07_indices_in_table : forall lay g, Rep lay g -> forall i, In i (allidx lay) -> (i < maxs g)%nat.
Proof. intros lay g R. exact (rRange K home lay g R). Qed.

(* Relocatable: an operation's result is a function of the image alone - the handle, its address, the process contribute
   nothing.  (That the C code has this type is what the correspondence check exercises: the region is copied to other
   addresses and alignments, a fresh handle is attached with memsize 0, and the run continues in lockstep with the model.) *)
Theorem C07_relocatable : forall (g1 g2 : img K) (o : xop K), g1 = g2 -> xstep keq home g1 o = xstep keq home g2 o.
Proof. intros g1 g2 o E. rewrite E. reflexivity. Qed.
End C07.

Print Assumptions C07_wf.
Print Assumptions C07_wf_step.
Print Assumptions C07_indices_in_table.
