(* Reference semantics of an Apache-style configuration document, independent of the line-oriented parser model:
   documents are trees, [aconf_render] writes them as text (indentation, gaps, quoting style and escapes per aword are part of
   the document), [aconf_srun] says which callbacks the document must cause, in which order and with which data, whether it
   conforms to the option table, and which line is the first offending one.
   The data types (option record, callback data, events, errors) are shared with the model; everything else is restated:
   number and boolean syntax as grammars, the QAC_* bit layout by bit position as documented in qaconf.h. *)
From Coq Require Import NArith List Bool.
From QV.Base Require Import Bytes.
From QV.Conf Require Import IniModel AconfModel.
Import ListNotations.
Local Open Scope N_scope.

(* ---------------- syntax of numbers and booleans ---------------- *)
Definition sdigit (c : N) : bool := (48 <=? c) && (c <=? 57).
Definition digits1 (s : list N) : bool := negb (match s with [] => true | _ => false end) && forallb sdigit s.
Definition unsign (s : list N) : list N := match s with 45 :: r => r | _ => s end.
Fixpoint split_dot (s : list N) : list N * option (list N) :=          (* at the first '.' *)
  match s with
  | [] => ([], None)
  | c :: r => if c =? 46 then ([], Some r) else let (a, b) := split_dot r in (c :: a, b)
  end.
Definition int_form (s : list N) : bool := digits1 (unsign s).                       (* -?[0-9]+ *)
Definition float_form (s : list N) : bool :=                                        (* -?[0-9]+\.[0-9]+ *)
  match split_dot (unsign s) with (a, Some b) => digits1 a && digits1 b | _ => false end.
Definition lc (c : N) : N := if (65 <=? c) && (c <=? 90) then c + 32 else c.
Definition same_nocase (a b : list N) : bool := list_eqb (map lc a) (map lc b).
Definition true_words := [[116; 114; 117; 101]; [111; 110]; [121; 101; 115]; [49]].          (* true on yes 1 *)
Definition false_words := [[102; 97; 108; 115; 101]; [111; 102; 102]; [110; 111]; [48]].     (* false off no 0 *)
Definition bool_form (s : list N) : option bool :=
  if existsb (same_nocase s) true_words then Some true
  else if existsb (same_nocase s) false_words then Some false else None.

(* ---------------- documents ---------------- *)
Inductive qstyle := Bare | Quoted (q : N) (escape_all : bool).     (* q = 39 (single quote) or 34 (double quote) *)
Record aword := { w_gap : list N; w_style : qstyle; w_text : list N }.
Inductive anode :=
| NComment (indent text : list N)
| NBlank (space : list N)
| NDir (indent : list N) (words : list aword) (trail : list N)
| NSect (indent : list N) (words : list aword) (trail : list N) (body : list anode)
        (cindent : list N) (cname : list N) (ctrail : list N).

Definition esc (q : N) (all : bool) (s : list N) : list N :=
  flat_map (fun c => if all || (c =? q) || (c =? 92) then [92; c] else [c]) s.
Definition render_word (w : aword) : list N :=
  w_gap w ++ match w_style w with Bare => w_text w | Quoted q all => q :: esc q all (w_text w) ++ [q] end.
Definition render_words (ws : list aword) : list N := flat_map render_word ws.
Fixpoint render_node (n : anode) : list N :=
  match n with
  | NComment ind text => ind ++ 35 :: text ++ [10]
  | NBlank sp => sp ++ [10]
  | NDir ind ws tr => ind ++ render_words ws ++ tr ++ [10]
  | NSect ind ws tr body cind cname ctr =>
      ind ++ 60 :: render_words ws ++ 62 :: tr ++ 10 ::
      (fix go (l : list anode) : list N := match l with [] => [] | x :: r => render_node x ++ go r end) body ++
      cind ++ 60 :: 47 :: cname ++ 62 :: ctr ++ [10]
  end.
Definition aconf_render (d : list anode) : list N := flat_map render_node d.

(* ---------------- well-formed words: the documented quoting rules ----------------
   a bare word is non-empty, contains no blank and does not start with a quotation mark; a quoted word may contain
   anything (its quotation mark and backslashes are written escaped; any other character may be written escaped too);
   words are separated by blanks (space, tab), which may be omitted after a quoted word *)
Definition wsc (c : N) : bool := (c =? 32) || (c =? 9).
Definition hdn (l : list N) : N := match l with c :: _ => c | [] => 0 end.
Definition bare_ok (t : list N) : bool :=
  negb (match t with [] => true | _ => false end) && forallb (fun c => negb (wsc c) && negb (c =? 0)) t &&
  negb (hdn t =? 39) && negb (hdn t =? 34).
Definition is_bare (w : aword) : bool := match w_style w with Bare => true | _ => false end.
Definition word_ok (w : aword) : bool :=
  forallb wsc (w_gap w) &&
  match w_style w with
  | Bare => bare_ok (w_text w)
  | Quoted q _ => ((q =? 39) || (q =? 34)) && forallb (fun c => negb (c =? 0)) (w_text w)
  end.
Fixpoint words_ok (prev_bare : bool) (ws : list aword) : bool :=
  match ws with
  | [] => true
  | w :: r => word_ok w && (negb prev_bare || negb (match w_gap w with [] => true | _ => false end)) && words_ok (is_bare w) r
  end.

(* ---------------- well-formed documents ----------------
   indentation and trailing space are blanks (space, tab, CR); no newline or NUL inside a line; bare words contain no CR;
   a directive does not start like a comment or a section, the first word of a section line does not start with '/';
   every line, with its newline, fits into the line buffer ([maxl] = MAX_LINESIZE - 1 characters) *)
Definition ws3 (b : list N) : bool := forallb (fun c => (c =? 32) || (c =? 9) || (c =? 13)) b.
Definition dword_ok (w : aword) : bool :=
  match w_style w with
  | Bare => forallb (fun c => negb (c =? 13) && negb (c =? 10)) (w_text w)
  | Quoted _ _ => forallb (fun c => negb (c =? 10)) (w_text w)
  end.
Definition first_ok (dir : bool) (ws : list aword) : bool :=
  match ws with
  | [] => false
  | w :: _ =>
      match w_style w with
      | Bare => if dir then negb (hdn (w_text w) =? 35) && negb (hdn (w_text w) =? 60)
                else negb (match w_gap w with [] => true | _ => false end) || negb (hdn (w_text w) =? 47)
      | Quoted _ _ => true
      end
  end.
Definition fits (maxl : nat) (line : list N) : bool := Nat.ltb (length line) maxl.
Fixpoint wf_node (maxl : nat) (n : anode) : bool :=
  match n with
  | NComment ind text => ws3 ind && forallb (fun c => negb (c =? 10) && negb (c =? 0)) text && fits maxl (ind ++ 35 :: text)
  | NBlank sp => ws3 sp && fits maxl sp
  | NDir ind ws tr =>
      ws3 ind && ws3 tr && words_ok false ws && forallb dword_ok ws && first_ok true ws && fits maxl (ind ++ render_words ws ++ tr)
  | NSect ind ws tr body cind cname ctr =>
      ws3 ind && ws3 tr && words_ok false ws && forallb dword_ok ws && first_ok false ws && fits maxl (ind ++ 60 :: render_words ws ++ 62 :: tr) &&
      (fix all (l : list anode) : bool := match l with [] => true | x :: r => wf_node maxl x && all r end) body &&
      ws3 cind && ws3 ctr && bare_ok cname && forallb (fun c => negb (c =? 13) && negb (c =? 10)) cname &&
      fits maxl (cind ++ 60 :: 47 :: cname ++ 62 :: ctr)
  end.
Definition wf_nodes (maxl : nat) (d : list anode) : bool := forallb (wf_node maxl) d.
Fixpoint adepth (n : anode) : N :=
  match n with
  | NSect _ _ _ body _ _ _ => 1 + (fix mx (l : list anode) : N := match l with [] => 0 | x :: r => N.max (adepth x) (mx r) end) body
  | _ => 0
  end.
Definition adepths (d : list anode) : N := fold_right (fun n a => N.max (adepth n) a) 0 d.

(* ---------------- what the option table declares ---------------- *)
Definition take_count (take : N) : option N := let k := N.land take 255 in if k =? 255 then None else Some k.   (* None = any *)
(* declared type of argument j >= 1: 1 int, 2 float, 3 bool, 0 string.  Bits 8.., 16.., 24.. for arguments 1..5; bits 13, 21, 29 for the rest *)
Definition decl_type (take j : N) : N :=
  let deft := if N.testbit take 13 then 1 else if N.testbit take 21 then 2 else if N.testbit take 29 then 3 else 0 in
  if 5 <? j then deft
  else if N.testbit take (8 + (j - 1)) then 1 else if N.testbit take (16 + (j - 1)) then 2
  else if N.testbit take (24 + (j - 1)) then 3 else deft.
(* an argument against its declared type: the value handed to the callback, or the error *)
Definition arg_ok (oname : list N) (take j : N) (a : list N) : aerr + list N :=
  match decl_type take j with
  | 1 => if int_form a then inr a else inl (EInt j oname)
  | 2 => if int_form a || float_form a then inr a else inl (EFloat j oname)
  | 3 => match bool_form a with Some true => inr [49] | Some false => inr [48] | None => inl (EBool j oname) end
  | _ => inr a
  end.
Fixpoint args_ok (oname : list N) (take j : N) (args : list (list N)) : aerr + list (list N) :=
  match args with
  | [] => inr []
  | a :: r => match arg_ok oname take j a with
              | inl e => inl e
              | inr a' => match args_ok oname take (j + 1) r with inl e => inl e | inr r' => inr (a' :: r') end
              end
  end.

Section Spec.
Variable cb : bool -> cbd -> list cbd -> option (list N).
Variable T : list opt.
Variable flags : N.
Variable defcb : bool.

Definition name_eq (a b : list N) : bool := if N.testbit flags 0 then same_nocase a b else list_eqb a b.
Definition ignore_unknown : bool := N.testbit flags 1.
Definition olookup (name : list N) : option opt := find (fun o => name_eq name (o_name o)) T.

Inductive sres := SOk (cnt : N) (line : N) (evs : list event) | SErr (line : N) (e : aerr) (evs : list event).   (* evs newest first *)

(* nesting level: the number of enclosing sections (the C field is a uint8_t; the model wraps, the specification does not) *)
Definition level_of (parents : list cbd) : N := match parents with p :: _ => c_level p + 1 | [] => 0 end.
Definition sections_of (parents : list cbd) (sectionid : N) : N :=
  match parents with p :: _ => N.lor (c_sections p) sectionid | [] => sectionid end.
Definition mkcbd (otype sectionid : N) (parents : list cbd) (argv : list (list N)) : cbd :=
  {| c_otype := otype; c_section := sectionid; c_sections := sections_of parents sectionid; c_level := level_of parents; c_argv := argv |}.

(* an option (otype 0) or section-open (otype 1) line: known?, scope, argument count, argument types, then the callback.
   Result: error with the events so far, or (events, callback data of this line, section id of the section it opens) *)
Definition sline (otype : N) (argv : list (list N)) (sectionid : N) (parents : list cbd) : aerr * list event + list event * cbd * N :=
  let name := hd [] argv in
  match olookup name with
  | None =>
      let me := mkcbd otype sectionid parents argv in
      if defcb then inr ([{| ev_def := true; ev_data := me; ev_parents := parents |}], me, 0)
      else if ignore_unknown then inr ([], me, 0) else inl (EUnknown name, [])
  | Some o =>
      if negb (o_sections o =? 0) && (N.land (o_sections o) sectionid =? 0) then inl (EScope (o_name o), []) else
      let count_bad := match take_count (o_take o) with
                       | Some k => negb (k =? N.of_nat (length (tl argv)))
                       | None => false
                       end in
      if count_bad then inl (EArgc (o_name o) (N.land (o_take o) 255), []) else
      match args_ok (o_name o) (o_take o) 1 (tl argv) with
      | inl e => inl (e, [])
      | inr args' =>
          let me := mkcbd otype sectionid parents (name :: args') in
          let nsid := if otype =? 1 then o_sectionid o mod 4294967296 else 0 in
          match (if o_cb o then Some false else if defcb then Some true else None) with
          | None => inr ([], me, nsid)
          | Some d =>
              let ev := {| ev_def := d; ev_data := me; ev_parents := parents |} in
              match cb d me parents with
              | Some msg => inl (ECallback msg, [ev])
              | None => inr ([ev], me, nsid)
              end
          end
      end
  end.

(* the line </cname> closing the section whose callback data is [me]; inside that section the section id is [nsid] *)
Definition sclose (cname : list N) (me : cbd) (nsid : N) (parents : list cbd) : aerr * list event + list event :=
  if negb (name_eq cname (hd [] (c_argv me))) then inl (EBadClose cname, []) else
  match olookup cname with
  | None =>
      if defcb then inr [{| ev_def := true; ev_data := mkcbd 2 nsid (me :: parents) [cname]; ev_parents := me :: parents |}]
      else if ignore_unknown then inr [] else inl (EUnknown cname, [])
  | Some o =>
      match (if o_cb o then Some false else if defcb then Some true else None) with
      | None => inr []
      | Some d =>
          let data := {| c_otype := 2; c_section := c_section me; c_sections := c_sections me; c_level := c_level me; c_argv := c_argv me |} in
          let ev := {| ev_def := d; ev_data := data; ev_parents := parents |} in
          match cb d data parents with
          | Some msg => inl (ECallback msg, [ev])
          | None => inr [ev]
          end
      end
  end.

Fixpoint snode (n : anode) (line sectionid : N) (parents : list cbd) (evs : list event) : sres :=
  match n with
  | NComment _ _ => SOk 0 (line + 1) evs
  | NBlank _ => SOk 0 (line + 1) evs
  | NDir _ ws _ =>
      match sline 0 (map w_text ws) sectionid parents with
      | inl (e, ev) => SErr (line + 1) e (ev ++ evs)
      | inr (ev, _, _) => SOk 1 (line + 1) (ev ++ evs)
      end
  | NSect _ ws _ body _ cname _ =>
      match sline 1 (map w_text ws) sectionid parents with
      | inl (e, ev) => SErr (line + 1) e (ev ++ evs)
      | inr (ev, me, nsid) =>
          match (fix go (l : list anode) (line cnt : N) (evs : list event) : sres :=
                   match l with
                   | [] => SOk cnt line evs
                   | x :: r => match snode x line nsid (me :: parents) evs with
                               | SOk c l' e' => go r l' (cnt + c) e'
                               | SErr l' e e' => SErr l' e e'
                               end
                   end) body (line + 1) 0 (ev ++ evs) with
          | SErr l' e e' => SErr l' e e'
          | SOk c l1 e1 =>
              match sclose cname me nsid parents with
              | inl (e, ev2) => SErr (l1 + 1) e (ev2 ++ e1)
              | inr ev2 => SOk (c + 2) (l1 + 1) (ev2 ++ e1)
              end
          end
      end
  end.
Fixpoint snodes (l : list anode) (line cnt sectionid : N) (parents : list cbd) (evs : list event) : sres :=
  match l with
  | [] => SOk cnt line evs
  | x :: r => match snode x line sectionid parents evs with
              | SOk c l' e' => snodes r l' (cnt + c) sectionid parents e'
              | SErr l' e e' => SErr l' e e'
              end
  end.
(* the whole document: the count of directives processed, or the first offending line; with the callback events *)
Definition aconf_srun (d : list anode) : sres := snodes d 0 0 1 [] [].
End Spec.

(* number of directives of a document: one per directive, two per section (open and close) plus its body *)
Fixpoint count_node (n : anode) : N :=
  match n with
  | NComment _ _ => 0 | NBlank _ => 0 | NDir _ _ _ => 1
  | NSect _ _ _ body _ _ _ => 2 + (fix go (l : list anode) : N := match l with [] => 0 | x :: r => count_node x + go r end) body
  end.
Definition aconf_count (d : list anode) : N := fold_right (fun n a => count_node n + a) 0 d.
