(* Reference semantics of an INI-style configuration text, independent of the parser model.
   A document is a list of laid-out items; [ini_render] writes it as text, [ini_eval] says which entries the text denotes:
   entries in file order, "section." prefixes and the section marker entry, ${name} replaced by the value the name has at
   that line (the last definition so far), ${%NAME} by the environment. *)
From Coq Require Import NArith List Bool.
From QV.Base Require Import Bytes.
Import ListNotations.
Local Open Scope N_scope.

Inductive ini_piece := PLit (s : list N) | PRef (name : list N) | PEnv (name : list N).
Definition ini_template := list ini_piece.
Inductive ini_item :=
| IComment (text : list N)                      (* # text *)
| IBlank                                        (* only white space *)
| ISection (name : list N)                      (* [name]; the empty name leaves the section *)
| IEntry (name : list N) (t : ini_template).        (* name = value *)
(* white space around the parts of a line: before the line, around the separator / inside the brackets, at the end *)
Record lay := { l_pre : list N; l_mid1 : list N; l_mid2 : list N; l_post : list N }.
Definition ini_doc := list (ini_item * lay).

Definition render_piece (p : ini_piece) : list N :=
  match p with
  | PLit s => s
  | PRef n => 36 :: 123 :: n ++ [125]
  | PEnv n => 36 :: 123 :: 37 :: n ++ [125]
  end.
Definition render_template (t : ini_template) : list N := flat_map render_piece t.
Definition render_item (sep : N) (il : ini_item * lay) : list N :=
  let (i, l) := il in
  match i with
  | IComment text => l_pre l ++ 35 :: text
  | IBlank => l_pre l
  | ISection name => l_pre l ++ 91 :: l_mid1 l ++ name ++ l_mid2 l ++ 93 :: l_post l
  | IEntry name t => l_pre l ++ name ++ l_mid1 l ++ sep :: l_mid2 l ++ render_template t ++ l_post l
  end.
(* every line is ended by a newline; the last one only if [final_nl] *)
Fixpoint ini_render (sep : N) (final_nl : bool) (d : ini_doc) : list N :=
  match d with
  | [] => []
  | [il] => render_item sep il ++ (if final_nl then [10] else [])
  | il :: r => render_item sep il ++ 10 :: ini_render sep final_nl r
  end.

Section Eval.
Variable env : list N -> option (list N).
Definition entries := list (list N * list N).
Fixpoint beq (a b : list N) : bool :=
  match a, b with [], [] => true | x :: a', y :: b' => (x =? y) && beq a' b' | _, _ => false end.
(* the value in effect: the last definition *)
Definition value_of (es : entries) (name : list N) : list N :=
  match find (fun e => beq (fst e) name) (rev es) with Some e => snd e | None => [] end.
Definition eval_piece (es : entries) (p : ini_piece) : list N :=
  match p with
  | PLit s => s
  | PRef n => value_of es n
  | PEnv n => match env n with Some v => v | None => [] end
  end.
Definition eval_template (es : entries) (t : ini_template) : list N := flat_map (eval_piece es) t.
Fixpoint eval_go (d : ini_doc) (section : option (list N)) (es : entries) : entries :=
  match d with
  | [] => es
  | (IComment _, _) :: r => eval_go r section es
  | (IBlank, _) :: r => eval_go r section es
  | (ISection [], _) :: r => eval_go r None es
  | (ISection n, _) :: r => eval_go r (Some n) (es ++ [(n ++ [46], n)])
  | (IEntry name t, _) :: r =>
      let full := match section with Some s => s ++ 46 :: name | None => name end in
      eval_go r section (es ++ [(full, eval_template es t)])
  end.
Definition ini_eval (d : ini_doc) : entries := eval_go d None [].
End Eval.
