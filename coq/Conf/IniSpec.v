(* Reference semantics of an INI-style configuration text, independent of the parser model.
   A document is a list of laid-out items; [ini_render] writes it as text, [ini_eval] says which entries the text denotes:
   entries in file order, "section." prefixes and the section marker entry, ${name} replaced by the value the name has at
   that line (the last definition so far), ${%NAME} by the environment. *)
From Coq Require Import NArith List Bool.
From QV.Base Require Import Bytes.
Import ListNotations.
Local Open Scope N_scope.

Inductive ini_piece := PLit (s : list N) | PRef (name : list N) | PEnv (name : list N).
Definition ini_template := list ini_piece.
Inductive ini_item :=
| IComment (text : list N)                      (* # text *)
| IBlank                                        (* only white space *)
| ISection (name : list N)                      (* [name]; the empty name leaves the section *)
| IEntry (name : list N) (t : ini_template).        (* name = value *)
(* white space around the parts of a line: before the line, around the separator / inside the brackets, at the end *)
Record lay := { l_pre : list N; l_mid1 : list N; l_mid2 : list N; l_post : list N }.
Definition ini_doc := list (ini_item * lay).

Definition render_piece (p : ini_piece) : list N :=
  match p with
  | PLit s => s
  | PRef n => 36 :: 123 :: n ++ [125]
  | PEnv n => 36 :: 123 :: 37 :: n ++ [125]
  end.
Definition render_template (t : ini_template) : list N := flat_map render_piece t.
Definition render_item (sep : N) (il : ini_item * lay) : list N :=
  let (i, l) := il in
  match i with
  | IComment text => l_pre l ++ 35 :: text
  | IBlank => l_pre l
  | ISection name => l_pre l ++ 91 :: l_mid1 l ++ name ++ l_mid2 l ++ 93 :: l_post l
  | IEntry name t => l_pre l ++ name ++ l_mid1 l ++ sep :: l_mid2 l ++ render_template t ++ l_post l
  end.
(* every line is ended by a newline; the last one only if [final_nl] *)
Fixpoint ini_render (sep : N) (final_nl : bool) (d : ini_doc) : list N :=
  match d with
  | [] => []
  | [il] => render_item sep il ++ (if final_nl then [10] else [])
  | il :: r => render_item sep il ++ 10 :: ini_render sep final_nl r
  end.

Section Eval.
Variable env : list N -> option (list N).
Definition entries := list (list N * list N).
Fixpoint beq (a b : list N) : bool :=
  match a, b with [], [] => true | x :: a', y :: b' => (x =? y) && beq a' b' | _, _ => false end.
(* the value in effect: the last definition *)
Definition value_of (es : entries) (name : list N) : list N :=
  match find (fun e => beq (fst e) name) (rev es) with Some e => snd e | None => [] end.
Definition eval_piece (es : entries) (p : ini_piece) : list N :=
  match p with
  | PLit s => s
  | PRef n => value_of es n
  | PEnv n => match env n with Some v => v | None => [] end
  end.
Definition eval_template (es : entries) (t : ini_template) : list N := flat_map (eval_piece es) t.
Fixpoint eval_go (d : ini_doc) (section : option (list N)) (es : entries) : entries :=
  match d with
  | [] => es
  | (IComment _, _) :: r => eval_go r section es
  | (IBlank, _) :: r => eval_go r section es
  | (ISection [], _) :: r => eval_go r None es
  | (ISection n, _) :: r => eval_go r (Some n) (es ++ [(n ++ [46], n)])
  | (IEntry name t, _) :: r =>
      let full := match section with Some s => s ++ 46 :: name | None => name end in
      eval_go r section (es ++ [(full, eval_template es t)])
  end.
Definition ini_eval (d : ini_doc) : entries := eval_go d None [].

(* ---- well-formed documents: what may be written where so that the text means the document ----
   white space inside a line is space, tab or CR; names and values are written in trimmed form; a name contains no
   separator and does not start like a comment or a section header; literal text and section names contain no '$';
   a reference names an entry defined above it (or an environment variable whose value contains no '$') with a name free
   of '$', '{', '}' that does not start with '!' or '%'; a value holds at most [maxsub] references. *)
Variable maxsub : N.
Definition blank4 (c : N) : bool := (c =? 32) || (c =? 9) || (c =? 13) || (c =? 10).
Definition wsok (b : list N) : bool := forallb (fun c => (c =? 32) || (c =? 9) || (c =? 13)) b.
Definition linec (c : N) : bool := negb (c =? 10) && negb (c =? 0).
Definition hdz (l : list N) : N := match l with c :: _ => c | [] => 0 end.
Definition tfb (s : list N) : bool := match s with [] => true | c :: _ => negb (blank4 c) && negb (blank4 (last s 0)) end.
Definition isnil (l : list N) : bool := match l with [] => true | _ => false end.
Definition sep_ok (sep : N) : bool := negb (blank4 sep) && negb (sep =? 0) && negb (sep =? 35) && negb (sep =? 91).
Definition name_ok (sep : N) (n : list N) : bool :=
  forallb (fun c => linec c && negb (c =? sep)) n && tfb n && negb (hdz n =? 35) && negb (hdz n =? 91).
Definition nodollar (s : list N) : bool := forallb (fun c => negb (c =? 36) && negb (c =? 0)) s.
Definition lit_ok (s : list N) : bool := forallb linec s && nodollar s.
Definition sect_ok (n : list N) : bool := lit_ok n && tfb n.
Definition refc (c : N) : bool := linec c && negb (c =? 36) && negb (c =? 123) && negb (c =? 125).
Definition piece_ok (es : entries) (p : ini_piece) : bool :=
  match p with
  | PLit s => lit_ok s
  | PRef n => negb (isnil n) && forallb refc n && negb (hdz n =? 33) && negb (hdz n =? 37) && existsb (fun e => beq (fst e) n) es
  | PEnv n => negb (isnil n) && forallb refc n && match env n with Some v => nodollar v | None => true end
  end.
Definition isref (p : ini_piece) : bool := match p with PLit _ => false | _ => true end.
Definition tmpl_ok (es : entries) (t : ini_template) : bool :=
  forallb (piece_ok es) t && tfb (render_template t) && (N.of_nat (length (filter isref t)) <=? maxsub).
Definition lay_ok (l : lay) : bool := wsok (l_pre l) && wsok (l_mid1 l) && wsok (l_mid2 l) && wsok (l_post l).
Fixpoint wf_go (sep : N) (d : ini_doc) (section : option (list N)) (es : entries) : bool :=
  match d with
  | [] => true
  | (IComment text, l) :: r => lay_ok l && forallb linec text && wf_go sep r section es
  | (IBlank, l) :: r => lay_ok l && wf_go sep r section es
  | (ISection [], l) :: r => lay_ok l && wf_go sep r None es
  | (ISection n, l) :: r => lay_ok l && sect_ok n && wf_go sep r (Some n) (es ++ [(n ++ [46], n)])
  | (IEntry name t, l) :: r =>
      let full := match section with Some s => s ++ 46 :: name | None => name end in
      lay_ok l && name_ok sep name && tmpl_ok es t && wf_go sep r section (es ++ [(full, eval_template es t)])
  end.
Definition ini_wf (sep : N) (d : ini_doc) : bool := sep_ok sep && wf_go sep d None [].
End Eval.
