(* Proofs about the Apache-style parser model (AconfModel.v) against its reference semantics (AconfSpec.v). *)
From Coq Require Import NArith List Bool Lia.
From QV.Base Require Import Res Bytes.
From QV.Gen Require Import Consts.
From QV.Enc Require Import EncModel.
From QV.Conf Require Import IniModel AconfModel AconfSpec.
Import ListNotations.
Local Open Scope N_scope.

(* ---------------- _is_str_bool ---------------- *)
Theorem is_bool_spec s : is_str_bool s = bool_form s.
Proof.
  unfold is_str_bool, bool_form, true_words, false_words, existsb, caseeq, same_nocase.
  unfold w_true, w_on, w_yes, w_1, w_false, w_off, w_no, w_0.
  change (map lc) with (map lower).
  repeat match goal with |- context [list_eqb ?a ?b] => destruct (list_eqb a b) end; reflexivity.
Qed.

(* ---------------- _is_str_number ---------------- *)
Lemma num_after_dot : forall y ld, num_go y false true ld =
  if forallb sdigit y then (match y with [] => if ld then 0 else 2 | _ => 2 end) else 0.
Proof. induction y as [|c y IH]; intros ld; [reflexivity|]. cbn [num_go forallb]. change (isdigit c) with (sdigit c).
  destruct (sdigit c) eqn:D; cbn [andb].
  - rewrite IH. destruct (forallb sdigit y); [|reflexivity]. destruct y; reflexivity.
  - destruct (c =? 46); reflexivity. Qed.
Lemma num_before_dot : forall u a, num_go u a false false =
  match split_dot u with
  | (x, None) => if forallb sdigit x then (match x with [] => if a then 0 else 1 | _ => 1 end) else 0
  | (x, Some y) => if forallb sdigit x && negb (a && match x with [] => true | _ => false end) && digits1 y then 2 else 0
  end.
Proof. induction u as [|c u IH]; intros a; [reflexivity|]. cbn [num_go split_dot]. change (isdigit c) with (sdigit c).
  destruct (c =? 46) eqn:E46.
  - apply N.eqb_eq in E46. subst c. change (sdigit 46) with false. cbv iota. cbn [forallb andb]. destruct a; cbn [negb andb]; [reflexivity|].
    rewrite num_after_dot. unfold digits1. destruct u as [|d u']; [reflexivity|]. cbn [negb andb]. destruct (forallb sdigit (d :: u')); reflexivity.
  - destruct (sdigit c) eqn:D.
    + rewrite IH. destruct (split_dot u) as [x [y|]]; cbn [forallb]; rewrite D; cbn [andb].
      * destruct a; cbn [andb negb]; destruct (forallb sdigit x); cbn [andb]; try reflexivity; destruct x; reflexivity.
      * destruct (forallb sdigit x); [|reflexivity]. destruct x; reflexivity.
    + destruct (split_dot u) as [x [y|]]; cbn [forallb]; rewrite D; reflexivity. Qed.
Lemma split_dot_none : forall u x, split_dot u = (x, None) -> u = x.
Proof. induction u as [|c u IH]; intros x; cbn [split_dot]; [intros [= <-]; reflexivity|].
  destruct (c =? 46); [discriminate|]. destruct (split_dot u) as [a b]. intros [= <- ->]. f_equal. apply IH. reflexivity. Qed.
Lemma split_dot_some : forall u x y, split_dot u = (x, Some y) -> forallb sdigit u = false.
Proof. induction u as [|c u IH]; intros x y; cbn [split_dot]; [discriminate|].
  destruct (c =? 46) eqn:E; [apply N.eqb_eq in E; subst c; reflexivity|]. destruct (split_dot u) as [a b]. intros [= <- ->].
  cbn [forallb]. rewrite (IH a y eq_refl). apply andb_false_r. Qed.
(* 1 exactly for -?[0-9]+, 2 exactly for -?[0-9]+\.[0-9]+, 0 otherwise *)
Theorem is_number_spec s : is_str_number s = if int_form s then 1 else if float_form s then 2 else 0.
Proof. assert (E : is_str_number s = num_go (unsign s) true false false).
  { unfold is_str_number, unsign. destruct s as [|c s]; [reflexivity|]. destruct c as [|p]; [reflexivity|].
    repeat (destruct p as [p|p|]; try reflexivity). }
  rewrite E, num_before_dot. unfold int_form, float_form, digits1. destruct (split_dot (unsign s)) as [x [y|]] eqn:S.
  - rewrite (split_dot_some _ _ _ S), andb_false_r. cbn [andb negb]. unfold digits1.
    destruct x; cbn [negb andb]; [rewrite andb_false_r; reflexivity|]. rewrite andb_true_r. reflexivity.
  - rewrite (split_dot_none _ _ S). destruct x; cbn [negb andb forallb]; [reflexivity|]. destruct (sdigit n && forallb sdigit x); reflexivity. Qed.

(* ---------------- the tokenizer on rendered words ---------------- *)
Lemma tk_gap : forall gap x acc, forallb wsc gap = true -> tk (gap ++ x) TSkip acc = tk x TSkip acc.
Proof. induction gap as [|c gap IH]; intros x acc H; [reflexivity|]. cbn [forallb] in H. apply andb_true_iff in H as [Hc H].
  cbn [app tk]. change (ws c) with (wsc c). rewrite Hc. apply IH, H. Qed.

(* inside a bare word: every character is taken literally until a blank or the end *)
Lemma tk_bare_in : forall text w rest acc, forallb (fun c => negb (wsc c) && negb (c =? 0)) text = true ->
  tk (text ++ rest) (TWord 0 w) acc = tk rest (TWord 0 (rev text ++ w)) acc.
Proof. induction text as [|c text IH]; intros w rest acc H; [reflexivity|]. cbn [forallb] in H. rewrite !andb_true_iff, !negb_true_iff in H. destruct H as [[Hw _] H].
  cbn [app tk]. change (ws c) with (wsc c). rewrite Hw. change (0 <? 0) with false. change (0 =? 1) with false. change (0 =? 2) with false.
  destruct (c =? 39), (c =? 34), (c =? 92); (rewrite IH by exact H; cbn [rev]; rewrite <- app_assoc; reflexivity). Qed.
Lemma tk_bare text rest acc : bare_ok text = true ->
  tk (text ++ rest) TSkip acc = tk rest (TWord 0 (rev text)) acc.
Proof. unfold bare_ok. rewrite !andb_true_iff, !negb_true_iff. intros (((Hn & Hc) & H39) & H34). destruct text as [|c text]; [discriminate|].
  cbn [hdn] in H39, H34. pose proof Hc as Hc'. cbn [forallb] in Hc'. rewrite !andb_true_iff, !negb_true_iff in Hc'. destruct Hc' as [[Hw _] Hr].
  pose proof (tk_bare_in (c :: text) [] rest acc Hc) as P. rewrite app_nil_r in P. rewrite <- P. clear P.
  cbn [app tk]. change (ws c) with (wsc c). rewrite Hw, H39, H34. reflexivity. Qed.

(* inside a quoted word *)
Definition qtmark (q : N) : N := if q =? 39 then 1 else 2.
Lemma qcases q : (q =? 39) || (q =? 34) = true -> q = 39 \/ q = 34.
Proof. rewrite orb_true_iff, !N.eqb_eq. tauto. Qed.
Lemma tk_quoted_in q all : (q =? 39) || (q =? 34) = true -> forall text w rest acc, forallb (fun c => negb (c =? 0)) text = true ->
  tk (esc q all text ++ q :: rest) (TWord (qtmark q) w) acc =
  match rest with [] => TokOk (rev (rev (rev text ++ w) :: acc)) | _ => tk rest TSkip (rev (rev text ++ w) :: acc) end.
Proof. intros Hq. induction text as [|c text IH]; intros w rest acc H.
  - cbn [esc flat_map app rev]. destruct (qcases q Hq) as [-> | ->]; reflexivity.
  - cbn [forallb] in H. apply andb_true_iff in H as [_ H]. unfold esc. cbn [flat_map]. fold (esc q all text).
    assert (R : rev (c :: text) ++ w = rev text ++ c :: w) by (cbn [rev]; rewrite <- app_assoc; reflexivity). rewrite R.
    destruct (all || (c =? q) || (c =? 92)) eqn:E.
    + cbn [app tk]. change (92 =? 39) with false. change (92 =? 34) with false. change (92 =? 92) with true. cbv iota.
      assert (0 <? qtmark q = true) as -> by (destruct (qcases q Hq) as [-> | ->]; reflexivity).
      apply IH, H.
    + rewrite !orb_false_iff in E. destruct E as [[_ Eq] E92]. cbn [app tk]. rewrite E92.
      assert (L : (if c =? 39 then if qtmark q =? 1 then (match esc q all text ++ q :: rest with [] => TokOk (rev (rev w :: acc)) | _ => tk (esc q all text ++ q :: rest) TSkip (rev w :: acc) end)
                    else tk (esc q all text ++ q :: rest) (TWord (qtmark q) (c :: w)) acc
                   else if c =? 34 then if qtmark q =? 2 then (match esc q all text ++ q :: rest with [] => TokOk (rev (rev w :: acc)) | _ => tk (esc q all text ++ q :: rest) TSkip (rev w :: acc) end)
                    else tk (esc q all text ++ q :: rest) (TWord (qtmark q) (c :: w)) acc
                   else if ws c then if qtmark q =? 0 then (match esc q all text ++ q :: rest with [] => TokOk (rev (rev w :: acc)) | _ => tk (esc q all text ++ q :: rest) TSkip (rev w :: acc) end)
                    else tk (esc q all text ++ q :: rest) (TWord (qtmark q) (c :: w)) acc
                   else tk (esc q all text ++ q :: rest) (TWord (qtmark q) (c :: w)) acc) = tk (esc q all text ++ q :: rest) (TWord (qtmark q) (c :: w)) acc).
      { destruct (qcases q Hq) as [-> | ->]; cbn [qtmark]; change (39 =? 39) with true; change (34 =? 39) with false; cbv iota;
          change (1 =? 1) with true; change (1 =? 2) with false; change (1 =? 0) with false; change (2 =? 1) with false; change (2 =? 2) with true; change (2 =? 0) with false; cbv iota;
          rewrite ?Eq; destruct (c =? 39), (c =? 34), (ws c); try reflexivity; discriminate. }
      rewrite L. apply IH, H. Qed.
Lemma tk_quoted q all text rest acc : (q =? 39) || (q =? 34) = true -> forallb (fun c => negb (c =? 0)) text = true ->
  tk (q :: esc q all text ++ q :: rest) TSkip acc = match rest with [] => TokOk (rev (text :: acc)) | _ => tk rest TSkip (text :: acc) end.
Proof. intros Hq H. pose proof (tk_quoted_in q all Hq text [] rest acc H) as P. rewrite app_nil_r, rev_involutive in P. rewrite <- P.
  destruct (qcases q Hq) as [-> | ->]; reflexivity. Qed.

Lemma ws_chars g : wsc g = true -> (g =? 39) = false /\ (g =? 34) = false /\ (g =? 92) = false.
Proof. unfold wsc. rewrite orb_true_iff, !N.eqb_eq. intros [-> | ->]; auto. Qed.
Lemma tk_bare_end text g rest acc : bare_ok text = true -> wsc g = true ->
  tk (text ++ g :: rest) TSkip acc = match rest with [] => TokOk (rev (text :: acc)) | _ => tk rest TSkip (text :: acc) end.
Proof. intros Hb Hg. rewrite (tk_bare text _ acc Hb). cbn [tk]. destruct (ws_chars g Hg) as (E1 & E2 & E3). rewrite E1, E2, E3.
  change (ws g) with (wsc g). rewrite Hg. change (0 =? 0) with true. cbv iota. rewrite rev_involutive. reflexivity. Qed.
Lemma tk_bare_last text acc : bare_ok text = true -> tk text TSkip acc = TokOk (rev (text :: acc)).
Proof. intros Hb. pose proof (tk_bare text [] acc Hb) as P. rewrite app_nil_r in P. rewrite P. cbn [tk]. change (0 <? 0) with false. cbv iota. rewrite rev_involutive. reflexivity. Qed.

Definition body (w : aword) : list N := match w_style w with Bare => w_text w | Quoted q all => q :: esc q all (w_text w) ++ [q] end.
Lemma render_word_body w : render_word w = w_gap w ++ body w. Proof. reflexivity. Qed.
Lemma body_nonnil w : word_ok w = true -> body w <> [].
Proof. unfold word_ok, body. destruct (w_style w); [|discriminate]. rewrite andb_true_iff. intros [_ H]. unfold bare_ok in H.
  destruct (w_text w); [discriminate|discriminate]. Qed.

Lemma match_nonnil {A B} (l : list A) (x y : B) : l <> [] -> match l with [] => x | _ :: _ => y end = y.
Proof. destruct l; [congruence|reflexivity]. Qed.
Lemma app_nonnil_r {A} (a b : list A) : b <> [] -> a ++ b <> [].
Proof. destruct a; [auto|discriminate]. Qed.
Lemma app_nonnil_l {A} (a b : list A) : a <> [] -> a ++ b <> [].
Proof. destruct a; [congruence|discriminate]. Qed.

(* tokenize (render words) = the words: gaps, quoting styles and escapes are undone exactly *)
Lemma tk_words : forall r w acc, word_ok w = true -> words_ok (is_bare w) r = true ->
  tk (render_word w ++ render_words r) TSkip acc = TokOk (rev acc ++ w_text w :: map w_text r).
Proof. induction r as [|w' r IH]; intros w acc Hw Hr.
  - unfold render_words. cbn [flat_map map]. rewrite app_nil_r, render_word_body. pose proof Hw as Hw'. unfold word_ok in Hw'. apply andb_true_iff in Hw' as [Hg Hs].
    rewrite tk_gap by exact Hg. unfold body. destruct (w_style w) as [|q all].
    + rewrite tk_bare_last by exact Hs. reflexivity.
    + apply andb_true_iff in Hs as [Hq Hz]. replace (q :: esc q all (w_text w) ++ [q]) with (q :: esc q all (w_text w) ++ q :: []) by reflexivity.
      rewrite tk_quoted by auto. reflexivity.
  - cbn [words_ok] in Hr. rewrite !andb_true_iff in Hr. destruct Hr as [[Hw2 Hgap] Hr].
    unfold render_words. cbn [flat_map map]. fold (render_words r). rewrite (render_word_body w), <- app_assoc.
    pose proof Hw as Hw'. unfold word_ok in Hw'. apply andb_true_iff in Hw' as [Hg Hs]. rewrite tk_gap by exact Hg.
    pose proof (body_nonnil w' Hw2) as Bn.
    unfold body at 1. unfold is_bare in *. destruct (w_style w) as [|q all].
    + (* bare: the next gap is not empty; its first blank ends the word *)
      cbn [negb orb] in Hgap. rewrite render_word_body, <- app_assoc. destruct (w_gap w') as [|g gap'] eqn:Eg; [discriminate|].
      pose proof Hw2 as Hw2'. unfold word_ok in Hw2'. rewrite Eg in Hw2'. cbn [forallb] in Hw2'. rewrite !andb_true_iff in Hw2'. destruct Hw2' as [[Hg1 Hg2] Hs2].
      cbn [app]. rewrite tk_bare_end by auto.
      set (w'' := {| w_gap := gap'; w_style := w_style w'; w_text := w_text w' |}).
      assert (E : gap' ++ body w' ++ render_words r = render_word w'' ++ render_words r) by (rewrite (render_word_body w''), <- app_assoc; reflexivity).
      rewrite match_nonnil by (apply app_nonnil_r, app_nonnil_l, Bn).
      rewrite E. rewrite IH; [cbn [rev]; rewrite <- app_assoc; reflexivity| |exact Hr].
      unfold word_ok. cbn [w_gap w_style w_text w'']. rewrite Hg2. exact Hs2.
    + apply andb_true_iff in Hs as [Hq Hz].
      replace ((q :: esc q all (w_text w) ++ [q]) ++ render_word w' ++ render_words r) with (q :: esc q all (w_text w) ++ q :: (render_word w' ++ render_words r))
        by (cbn [app]; rewrite <- app_assoc; reflexivity).
      rewrite tk_quoted by auto.
      rewrite match_nonnil by (apply app_nonnil_l; rewrite render_word_body; apply app_nonnil_r, Bn).
      rewrite IH by auto. cbn [rev]. rewrite <- app_assoc. reflexivity. Qed.

Theorem aconf_tokenize_render ws : ws <> [] -> words_ok false ws = true -> aconf_tokenize (render_words ws) = TokOk (map w_text ws).
Proof. destruct ws as [|w r]; [congruence|]. intros _ H. cbn [words_ok] in H. rewrite !andb_true_iff in H. destruct H as [[Hw _] Hr].
  unfold aconf_tokenize, render_words. cbn [flat_map]. fold (render_words r). apply (tk_words r w [] Hw Hr). Qed.
