(* Proofs about the Apache-style parser model (AconfModel.v) against its reference semantics (AconfSpec.v). *)
From Coq Require Import NArith List Bool Lia.
From QV.Base Require Import Res Bytes.
From QV.Gen Require Import Consts.
From QV.Enc Require Import EncModel.
From QV.Conf Require Import IniModel AconfModel AconfSpec.
Import ListNotations.
Local Open Scope N_scope.

(* ---------------- _is_str_bool ---------------- *)
Theorem is_bool_spec s : is_str_bool s = bool_form s.
Proof.
  unfold is_str_bool, bool_form, true_words, false_words, existsb, caseeq, same_nocase.
  unfold w_true, w_on, w_yes, w_1, w_false, w_off, w_no, w_0.
  change (map lc) with (map lower).
  repeat match goal with |- context [list_eqb ?a ?b] => destruct (list_eqb a b) end; reflexivity.
Qed.
