(* Executable model of the INI-style parser src/extensions/qconfig.c (qconfig_parse_str and _parsestr), following the
   repaired code: one reference is substituted per round and at most _MAX_SUBSTITUTIONS rounds are made per value.

   Strings are lists of non-NUL bytes.  The search for the next ${...} reference, which is where the C code indexes ahead
   of its cursor ( *(s+1), *(e+1) ), is modelled at buffer level: the value including its terminator is a list, every read
   goes through [rd] and a read where the buffer has ended is [Crash].  Line splitting, qstrtrim, _q_makeword and the table are at
   string level (they work on private copies made with strdup; qstrtrim and _q_makeword are the models of EncModel.v).

   getenv is the section variable [env]; the output of an external command (${!cmd}) is the section variable [cmd]
   ([None] = popen failed).  @INCLUDE processing of qconfig_parse_file is not modelled. *)
From Coq Require Import NArith List Bool.
From QV.Base Require Import Res Bytes.
From QV.Gen Require Import Consts.
From QV.Enc Require Import EncModel.
Import ListNotations.
Local Open Scope N_scope.

Fixpoint list_eqb (a b : list N) : bool :=
  match a, b with
  | [], [] => true
  | x :: a', y :: b' => (x =? y) && list_eqb a' b'
  | _, _ => false
  end.

(* the list table with default options: put appends, getstr returns the LAST entry whose name matches *)
Definition tbl := list (list N * list N).
Fixpoint lookup_last (t : tbl) (name : list N) : option (list N) :=
  match t with
  | [] => None
  | (n, v) :: r => match lookup_last r name with
                   | Some x => Some x
                   | None => if list_eqb n name then Some v else None
                   end
  end.

(* ---- buffer level.  The cursor into the value buffer is a pair (suffix of the buffer from the cursor on, index); the C
   code's reads *p and *(p+1) are [rd suf 0] and [rd suf 1]: reading where the buffer has ended is [Crash].  (Indexing the whole
   buffer by position for every read would make the extracted model quadratic in the value length.)
   scan_e: find the closing bracket; e runs from s+2; opened is the bracket counter (>= 1). ---- *)
Inductive eres := EClose (e : nat) (at_e : list N) | EInner (e : nat) (at_e : list N) | EEnd.
Fixpoint scan_e (fuel : nat) (suf : list N) (e : nat) (opened : nat) : res eres :=
  match fuel with
  | O => Fuel
  | S f =>
    bind (rd suf 0) (fun c =>
      if c =? 0 then Ok EEnd else
      if c =? QCONF_VAR then
        bind (rd suf 1) (fun d =>
          if d =? QCONF_VAR_OPEN then Ok (EInner e suf)       (* internal ${ : s = e - 1; break *)
          else scan_e f (tl suf) (S e) opened)
      else if c =? QCONF_VAR_OPEN then scan_e f (tl suf) (S e) (S opened)
      else if c =? QCONF_VAR_CLOSE then
        match opened with
        | S (S o) => scan_e f (tl suf) (S e) (S o)
        | _ => Ok (EClose e suf)                               (* openedbrakets == 0 *)
        end
      else scan_e f (tl suf) (S e) opened)
  end.

Section Ini.
Variable env : list N -> option (list N).
Variable cmd : list N -> option (list N).

(* the switch on varstr[0]; None = "not found" (s = e; continue) *)
Definition resolve (t : tbl) (v : list N) : option (list N) :=
  match v with
  | [] => Some []
  | c :: r =>
      if c =? QCONF_VAR_CMD then
        Some (match r with [] => [] | _ => match cmd r with Some o => trim (cut0 o) | None => [] end end)
      else if c =? QCONF_VAR_ENV then
        Some (match r with [] => [] | _ => match env r with Some x => x | None => [] end end)
      else lookup_last t v
  end.

(* the for (s = value; *s; s++) loop of one round.  Result: None = nothing (more) to substitute,
   Some (s, e, new) = "${" at s, matching "}" at e, replacement text new *)
Fixpoint find_buf (fuel fuel0 : nat) (t : tbl) (suf : list N) (s : nat) : res (option (nat * nat * list N)) :=
  match fuel with
  | O => Fuel
  | S f =>
    bind (rd suf 0) (fun c =>
      if c =? 0 then Ok None else
      if negb (c =? QCONF_VAR) then find_buf f fuel0 t (tl suf) (S s) else
      bind (rd suf 1) (fun d =>
        if negb (d =? QCONF_VAR_OPEN) then find_buf f fuel0 t (tl suf) (S s) else
        bind (scan_e fuel0 (tl (tl suf)) (S (S s)) 1) (fun r =>
          match r with
          | EEnd => Ok None                                    (* braket mismatch *)
          | EInner e at_e => find_buf f fuel0 t at_e e         (* s = e - 1; continue *)
          | EClose e at_e =>
              match resolve t (firstn (e - s - 2) (tl (tl suf))) with   (* varstr: the text between ${ and } *)
              | Some new => Ok (Some (s, e, new))
              | None => find_buf f fuel0 t (tl at_e) (S e)     (* not found: s = e; continue *)
              end
          end)))
  end.

(* one round of the do/while: value is the string without terminator *)
Definition round (t : tbl) (value : list N) : res (option (list N)) :=
  let n := S (length value) in
  bind (find_buf n n t (value ++ [0]) 0) (fun r =>
    match r with
    | None => Ok None
    | Some (s, e, new) => Ok (Some (firstn s value ++ new ++ skipn (S e) value))
    end).

(* do { ... } while (loop && ++numsubst < _MAX_SUBSTITUTIONS) *)
Fixpoint expand (rounds : nat) (t : tbl) (value : list N) : res (list N) :=
  match rounds with
  | O => Ok value
  | S k => bind (round t value) (fun r => match r with None => Ok value | Some v => expand k t v end)
  end.
Definition parsestr (t : tbl) (value : list N) : res (list N) := expand (N.to_nat QCONF_MAX_SUBSTITUTIONS) t value.

(* ---- qconfig_parse_str ---- *)
Record st := { sect : option (list N); tb_ : tbl }.
Definition hd0 (l : list N) : N := match l with c :: _ => c | [] => 0 end.

(* the body of the line loop for one line *)
Definition process (sep : N) (line : list N) (s : st) : res st :=
  let buf := trim line in
  if (hd0 buf =? 35) || (hd0 buf =? 0) then Ok s else            (* '#' or empty *)
  let go (section : option (list N)) (buf : list N) : res st :=
    let (name0, value0) := makeword buf sep in
    let value := trim value0 in
    let name1 := trim name0 in
    let name := match section with Some sc => sc ++ 46 :: name1 | None => name1 end in
    bind (parsestr (tb_ s) value) (fun nv => Ok {| sect := section; tb_ := tb_ s ++ [(name, nv)] |}) in
  if (hd0 buf =? 91) && (last buf 0 =? 93) then                  (* [ ... ] *)
    let sc := trim (removelast (tl buf)) in
    match sc with
    | [] => Ok {| sect := None; tb_ := tb_ s |}
    | _ => go (Some sc) (sep :: sc)
    end
  else go (sect s) buf.

(* the line loop: lines end at '\n' or at the end of the string *)
Fixpoint parse_go (sep : N) (str : list N) (cur : list N) (s : st) : res st :=
  match str with
  | [] => process sep (rev cur) s
  | c :: r => if c =? 10 then bind (process sep (rev cur) s) (fun s' => parse_go sep r [] s')
              else parse_go sep r (c :: cur) s
  end.
Definition ini_parse_str (sep : N) (str : list N) : res tbl :=
  bind (parse_go sep str [] {| sect := None; tb_ := [] |}) (fun s => Ok (tb_ s)).
End Ini.
