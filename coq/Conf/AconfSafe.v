(* C17 (parser half), Apache-style parser: the tokenizer run on the buffer  data ++ [NUL]  reads no index beyond the
   terminator (no Crash), ends within |data|+1 steps, and computes exactly the string-level tokenizer used by the parser model;
   the parser model itself never runs out of the stated fuel. *)
From Coq Require Import NArith Arith List Bool Lia.
From QV.Base Require Import Res Bytes.
From QV.Gen Require Import Consts.
From QV.Enc Require Import EncModel.
From QV.Conf Require Import IniModel AconfModel.
Import ListNotations.
Local Open Scope N_scope.

Definition nz (l : list N) : bool := forallb (fun c => negb (c =? 0)) l.

Lemma rd_at pre c r : rd (pre ++ c :: r) (length pre) = Ok c.
Proof. unfold rd. rewrite nth_error_app2 by lia. replace (length pre - length pre)%nat with 0%nat by lia. reflexivity. Qed.
Lemma rd_at1 pre c d r : rd (pre ++ c :: d :: r) (S (length pre)) = Ok d.
Proof. unfold rd. rewrite nth_error_app2 by lia. replace (S (length pre) - length pre)%nat with 1%nat by lia. reflexivity. Qed.

Lemma tk_buf_eq : forall fuel l pre st acc, nz l = true -> (length l < fuel)%nat ->
  tk_buf fuel (pre ++ l ++ [0]) (length pre) st acc = Ok (tk l st acc).
Proof. induction fuel as [|f IH]; intros l pre st acc Hz Hf; [lia|].
  destruct l as [|c r].
  - cbn [tk_buf tk app]. rewrite rd_at. cbn [bind]. rewrite N.eqb_refl. reflexivity.
  - cbn [nz forallb] in Hz. apply andb_true_iff in Hz as [Hc Hz]. apply negb_true_iff in Hc. cbn [length] in Hf.
    assert (Hcont : forall st' acc', tk_buf f (pre ++ (c :: r) ++ [0]) (S (length pre)) st' acc' = Ok (tk r st' acc')).
    { intros st' acc'. replace (pre ++ (c :: r) ++ [0]) with ((pre ++ [c]) ++ r ++ [0]) by (rewrite <- app_assoc; reflexivity).
      replace (S (length pre)) with (length (pre ++ [c])) by (rewrite app_length; simpl; lia). apply IH; [exact Hz|lia]. }
    assert (Hend : forall acc', bind (rd (pre ++ (c :: r) ++ [0]) (S (length pre)))
               (fun d => if d =? 0 then Ok (TokOk (rev acc')) else tk_buf f (pre ++ (c :: r) ++ [0]) (S (length pre)) TSkip acc') =
             Ok (match r with [] => TokOk (rev acc') | _ => tk r TSkip acc' end)).
    { intros acc'. destruct r as [|d r']; cbn [app] in *.
      - rewrite rd_at1. reflexivity.
      - rewrite rd_at1. cbn [bind].
        assert (d =? 0 = false) as ->. { cbn [nz forallb] in Hz. apply andb_true_iff in Hz as [Hd _]. apply negb_true_iff in Hd. exact Hd. }
        apply Hcont. }
    assert (Hesc : forall qt w acc', bind (rd (pre ++ (c :: r) ++ [0]) (S (length pre)))
               (fun d => if d =? 0 then tk_buf f (pre ++ (c :: r) ++ [0]) (S (length pre)) (TWord qt (c :: w)) acc'
                         else tk_buf f (pre ++ (c :: r) ++ [0]) (S (S (length pre))) (TWord qt (d :: w)) acc') =
             Ok (match r with d :: r' => tk r' (TWord qt (d :: w)) acc' | [] => tk r (TWord qt (c :: w)) acc' end)).
    { intros qt w acc'. destruct r as [|d r']; cbn [app] in *.
      - rewrite rd_at1. cbn [bind]. change (0 =? 0) with true. cbv iota. apply Hcont.
      - rewrite rd_at1. cbn [bind].
        assert (d =? 0 = false) as ->. { cbn [nz forallb] in Hz. apply andb_true_iff in Hz as [Hd _]. apply negb_true_iff in Hd. exact Hd. }
        replace (pre ++ c :: d :: r' ++ [0]) with ((pre ++ [c; d]) ++ r' ++ [0]) by (rewrite <- app_assoc; reflexivity).
        replace (S (S (length pre))) with (length (pre ++ [c; d])) by (rewrite app_length; simpl; lia).
        apply IH; [|simpl in Hf; lia]. cbn [nz forallb] in Hz. apply andb_true_iff in Hz. tauto. }
    cbn [tk_buf tk]. cbn [app] in Hcont, Hend, Hesc |- *. rewrite rd_at. cbn [bind]. rewrite Hc.
    destruct st as [|qt w]; rewrite ?Hend, ?Hesc, ?Hcont;
      repeat match goal with |- context [if ?b then _ else _] => match type of b with bool => destruct b end end; reflexivity. Qed.

(* the tokenizer on a NUL-terminated line: every read is inside the buffer, |data|+1 steps suffice, and the result is the
   token list (or "quotation not closed") of the string-level tokenizer *)
Theorem aconf_tokenize_safe data : nz data = true ->
  tk_buf (S (length data)) (data ++ [0]) 0 TSkip [] = Ok (aconf_tokenize data).
Proof. intros H. apply (tk_buf_eq (S (length data)) data [] TSkip [] H). lia. Qed.

(* ---------------- the parser: the stated fuel is never exhausted ---------------- *)
Lemma take_line_len : forall n s a b, take_line n s = (a, b) -> length s = (length a + length b)%nat.
Proof. induction n as [|n IH]; intros s a b; cbn [take_line].
  - intros [= <- <-]. reflexivity.
  - destruct s as [|c r]; [intros [= <- <-]; reflexivity|]. destruct (c =? 10); [intros [= <- <-]; reflexivity|].
    destruct (take_line n r) as [a' b'] eqn:E. intros [= <- <-]. cbn [length]. rewrite (IH r a' b' E). lia. Qed.
Lemma take_line_shrinks n c r a b : (1 <= n)%nat -> take_line n (c :: r) = (a, b) -> (length b < length (c :: r))%nat.
Proof. intros Hn E. pose proof (take_line_len _ _ _ _ E) as L. destruct n as [|n]; [lia|]. cbn [take_line] in E.
  destruct (c =? 10); [injection E as <- <-; simpl in *; lia|]. destruct (take_line n r) as [a' b']. injection E as <- <-. simpl in *. lia. Qed.

Definition pres_state (r : pres) : pst := match r with PDone _ s => s | PErr _ _ s => s end.

Section Total.
Variable cb : bool -> cbd -> list cbd -> option (list N).
Variable T : list opt.
Variable flags : N.
Variable defcb : bool.
Variable maxl : nat.
Hypothesis maxl_pos : (1 <= maxl)%nat.

Lemma pinl_total : forall fuel s sid parents oc, (length (p_rest s) < fuel)%nat ->
  exists r, pinl cb T flags defcb maxl fuel s sid parents oc = Ok r /\ (length (p_rest (pres_state r)) <= length (p_rest s))%nat.
Proof. induction fuel as [|f IH]; intros s sid parents oc Hf; [lia|]. cbn [pinl].
  destruct (p_rest s) as [|c r] eqn:ER.
  - destruct parents; eexists; (split; [reflexivity|]); cbn [pres_state]; rewrite ER; simpl; lia.
  - destruct (take_line maxl (c :: r)) as [chunk rest] eqn:TL. pose proof (take_line_shrinks _ _ _ _ _ maxl_pos TL) as Sh.
    assert (Go : forall evs sid' parents' oc', exists r0, pinl cb T flags defcb maxl f (addev s (p_line s + 1) rest evs) sid' parents' oc' = Ok r0 /\
               (length (p_rest (pres_state r0)) <= length rest)%nat).
    { intros evs sid' parents' oc'. destruct (IH (addev s (p_line s + 1) rest evs) sid' parents' oc') as (r0 & R0 & L0); [cbn [addev p_rest]; lia|].
      exists r0. split; [exact R0|]. cbn [addev p_rest] in L0. lia. }
    destruct (line_step cb T flags defcb (trim chunk) sid parents) as [|e evs|evs me nsid|evs|evs].
    + destruct (Go [] sid parents oc) as (r0 & R0 & L0). exists r0. split; [exact R0|lia].
    + eexists. split; [reflexivity|]. cbn [pres_state addev p_rest]. lia.
    + destruct (Go evs nsid (me :: parents) 0) as (r0 & R0 & L0). rewrite R0. cbn [bind]. destruct r0 as [c2 s2|l e s2]; cbn [pres_state] in L0.
      * destruct (IH s2 sid parents (oc + c2 + 1)) as (r1 & R1 & L1); [simpl in *; lia|]. exists r1. split; [exact R1|lia].
      * eexists. split; [reflexivity|cbn [pres_state]; lia].
    + eexists. split; [reflexivity|]. cbn [pres_state addev p_rest]. lia.
    + destruct (Go evs sid parents (oc + 1)) as (r0 & R0 & L0). exists r0. split; [exact R0|lia]. Qed.

(* qaconf->parse(): for every file content, option table, flags and callback behaviour the model delivers a count or an
   error with a line number *)
Theorem aconf_parse_total file : exists r, aconf_parse cb T flags defcb maxl file = Ok r.
Proof. unfold aconf_parse. destruct (pinl_total (S (S (length file))) {| p_rest := file; p_line := 0; p_trace := [] |} QAC_SECTION_ROOT [] 0) as (r & R & _);
  [cbn [p_rest]; lia|eauto]. Qed.
End Total.
