(* C20, Apache-style parser at document level: parsing the rendered text of a well-formed document tree yields exactly the
   count / first offending line / callback trace that the reference semantics [aconf_srun] assigns to the tree. *)
From Coq Require Import NArith Arith List Bool Lia.
From QV.Base Require Import Res Bytes.
From QV.Gen Require Import Consts.
From QV.Enc Require Import EncModel.
From QV.Conf Require Import IniModel IniSpec IniProofs AconfModel AconfSpec AconfProofs AconfSafe.
Import ListNotations.
Local Open Scope N_scope.

(* ---------------- the QAC_* bit layout ---------------- *)
Lemma bit_pow2 x k : bit x (2 ^ k) = N.testbit x k.
Proof. unfold bit. destruct (N.testbit x k) eqn:E.
  - apply negb_true_iff, N.eqb_neq. intros Z. assert (F : N.testbit (N.land x (2 ^ k)) k = true) by (rewrite N.land_spec, E, N.pow2_bits_true; reflexivity).
    rewrite Z, N.bits_0 in F. discriminate.
  - apply negb_false_iff, N.eqb_eq, N.bits_inj. intros i. rewrite N.land_spec, N.bits_0, N.pow2_bits_eqb.
    destruct (k =? i) eqn:K; [apply N.eqb_eq in K; subst i; rewrite E; reflexivity|apply andb_false_r]. Qed.
Lemma shiftl_256 k : N.shiftl 256 k = 2 ^ (8 + k).
Proof. rewrite N.shiftl_mul_pow2, N.pow_add_r. reflexivity. Qed.
Lemma shiftl_65536 k : N.shiftl 65536 k = 2 ^ (16 + k).
Proof. rewrite N.shiftl_mul_pow2, N.pow_add_r. reflexivity. Qed.
Lemma shiftl_16777216 k : N.shiftl 16777216 k = 2 ^ (24 + k).
Proof. rewrite N.shiftl_mul_pow2, N.pow_add_r. reflexivity. Qed.

Lemma deftype_spec take : deftype take = if N.testbit take 13 then 1 else if N.testbit take 21 then 2 else if N.testbit take 29 then 3 else 0.
Proof. unfold deftype, QAC_AA_INT, QAC_AA_FLOAT, QAC_AA_BOOL.
  change 8192 with (2 ^ 13). change 2097152 with (2 ^ 21). change 536870912 with (2 ^ 29). rewrite !bit_pow2. reflexivity. Qed.
Lemma argtype_spec take j : argtype take (deftype take) j = decl_type take j.
Proof. unfold argtype, decl_type, QAC_MAX_TYPECHECK, QAC_A1_INT, QAC_A1_FLOAT, QAC_A1_BOOL.
  rewrite shiftl_256, shiftl_65536, shiftl_16777216, !bit_pow2, deftype_spec. reflexivity. Qed.
Lemma decl_type_range take j : decl_type take j = 0 \/ decl_type take j = 1 \/ decl_type take j = 2 \/ decl_type take j = 3.
Proof. unfold decl_type. destruct (5 <? j), (N.testbit take 13), (N.testbit take 21), (N.testbit take 29),
  (N.testbit take (8 + (j - 1))), (N.testbit take (16 + (j - 1))), (N.testbit take (24 + (j - 1))); auto. Qed.

Lemma num_is_int a : (is_str_number a =? 1) = int_form a.
Proof. rewrite is_number_spec. destruct (int_form a), (float_form a); reflexivity. Qed.
Lemma num_is_none a : (is_str_number a =? 0) = negb (int_form a || float_form a).
Proof. rewrite is_number_spec. destruct (int_form a), (float_form a); reflexivity. Qed.

Lemma check_types_spec o : forall args j, check_types o (deftype (o_take o)) j args = args_ok (o_name o) (o_take o) j args.
Proof. induction args as [|a r IH]; intros j; [reflexivity|]. cbn [check_types args_ok]. rewrite argtype_spec, IH. unfold arg_ok.
  rewrite num_is_int, num_is_none, is_bool_spec.
  destruct (decl_type_range (o_take o) j) as [E|[E|[E|E]]]; rewrite E; cbn [N.eqb Pos.eqb].
  - destruct (args_ok (o_name o) (o_take o) (j + 1) r); reflexivity.
  - destruct (int_form a); [|reflexivity]. destruct (args_ok (o_name o) (o_take o) (j + 1) r); reflexivity.
  - destruct (int_form a || float_form a); cbn [negb]; [|reflexivity]. destruct (args_ok (o_name o) (o_take o) (j + 1) r); reflexivity.
  - destruct (bool_form a) as [[|]|]; try reflexivity; destruct (args_ok (o_name o) (o_take o) (j + 1) r); reflexivity. Qed.

Section Doc.
Variable cb : bool -> cbd -> list cbd -> option (list N).
Variable T : list opt.
Variable flags : N.
Variable defcb : bool.

Lemma cmpf_spec a b : cmpf flags a b = name_eq flags a b.
Proof. unfold cmpf, name_eq, QAC_CASEINSENSITIVE. change 1 with (2 ^ 0). rewrite bit_pow2. reflexivity. Qed.
Lemma find_opt_spec a0 : find_opt T flags a0 = olookup T flags a0.
Proof. unfold find_opt, olookup. induction T as [|o T' IH]; [reflexivity|]. cbn [find]. rewrite cmpf_spec, IH. reflexivity. Qed.
Lemma ignore_spec : bit flags QAC_IGNOREUNKNOWN = ignore_unknown flags.
Proof. unfold ignore_unknown, QAC_IGNOREUNKNOWN. change 2 with (2 ^ 1). apply bit_pow2. Qed.

Lemma of_nat_pred n : N.of_nat (S n) - 1 = N.of_nat n.
Proof. lia. Qed.

(* an option line (otype 0) or a section-open line (otype 1), already tokenized *)
Lemma line_act_open otype name args sid parents : otype = 0 \/ otype = 1 -> level_of parents < 256 ->
  line_act cb T flags defcb otype (name :: args) sid parents =
  match sline cb T flags defcb otype (name :: args) sid parents with
  | inl (e, ev) => LFail e ev
  | inr (ev, me, nsid) => if otype =? 1 then LOpen ev me nsid else LNext ev
  end.
Proof. intros Hot Hlvl.
  assert (LV : (match parents with p :: _ => (c_level p + 1) mod 256 | [] => 0 end) = level_of parents).
  { unfold level_of in *. destruct parents as [|p ps]; [reflexivity|]. apply N.mod_small. exact Hlvl. }
  unfold line_act, sline, mkcbd, sections_of. cbv zeta. rewrite LV, find_opt_spec. cbn [hd tl].
  assert (IC : (otype =? QAC_OTYPE_SECTIONCLOSE) = false) by (destruct Hot as [-> | ->]; reflexivity). rewrite IC. cbn [andb].
  change QAC_OTYPE_SECTIONOPEN with 1.
  destruct (olookup T flags name) as [o|].
  - unfold check_line, QAC_SECTION_ALL, QAC_TAKEALL, take_count. cbv zeta. cbn [length tl]. rewrite of_nat_pred, check_types_spec.
    destruct (negb (o_sections o =? 0) && (N.land (o_sections o) sid =? 0)); [reflexivity|].
    destruct (N.land (o_take o) 255 =? 255); cbn [negb andb];
      [|destruct (N.land (o_take o) 255 =? N.of_nat (length args)); cbn [negb]; [|reflexivity]];
      (destruct (args_ok (o_name o) (o_take o) 1 args) as [e|args']; [reflexivity|]);
      (destruct (o_cb o); [|destruct defcb]);
      try (destruct (cb _ _ _); destruct (otype =? 1); reflexivity);
      destruct (otype =? 1); reflexivity.
  - rewrite ignore_spec. destruct defcb; [destruct (otype =? 1); reflexivity|]. destruct (ignore_unknown flags); cbn [negb]; [|reflexivity].
    destruct (otype =? 1); reflexivity. Qed.

(* the line </cname> inside the section opened with callback data [me] *)
Lemma line_act_close cname me nsid gp : level_of (me :: gp) < 256 ->
  line_act cb T flags defcb 2 [cname] nsid (me :: gp) =
  match sclose cb T flags defcb cname me nsid gp with
  | inl (e, ev) => LFail e ev
  | inr ev => LClose ev
  end.
Proof. intros Hlvl.
  assert (LV : (c_level me + 1) mod 256 = c_level me + 1) by (apply N.mod_small; exact Hlvl).
  unfold line_act, sclose, mkcbd, sections_of, level_of. cbv zeta. rewrite LV, find_opt_spec, cmpf_spec. cbn [hd].
  change (2 =? QAC_OTYPE_SECTIONCLOSE) with true. change (2 =? QAC_OTYPE_SECTIONOPEN) with false. cbn [andb]. unfold argv0.
  destruct (name_eq flags cname (hd [] (c_argv me))); cbn [negb]; [|reflexivity].
  destruct (olookup T flags cname) as [o|].
  - destruct (o_cb o); [|destruct defcb]; try reflexivity; unfold QAC_OTYPE_SECTIONCLOSE; destruct (cb _ _ _); reflexivity.
  - rewrite ignore_spec. destruct defcb; [reflexivity|]. destruct (ignore_unknown flags); reflexivity. Qed.
End Doc.

(* ---------------- rendered lines ---------------- *)
Lemma take_line_full : forall maxl ln rest, n10 ln = true -> (length ln < maxl)%nat -> take_line maxl (ln ++ 10 :: rest) = (ln ++ [10], rest).
Proof. induction maxl as [|m IH]; intros ln rest H L; [lia|]. destruct ln as [|c ln]; cbn [app take_line].
  - reflexivity.
  - cbn [n10 forallb] in H. apply andb_true_iff in H as [Hc H]. apply negb_true_iff in Hc. rewrite Hc. rewrite IH by (auto; simpl in L; lia). reflexivity. Qed.

Lemma ws3_blanks b : ws3 b = true -> blanks b.
Proof. unfold ws3, blanks. apply forallb_imp. intros x. unfold isblank. rewrite !orb_true_iff. tauto. Qed.
Lemma ws3_n10 b : ws3 b = true -> n10 b = true.
Proof. apply forallb_imp. intros x. rewrite !orb_true_iff, !N.eqb_eq. intros [[->| ->]| ->]; reflexivity. Qed.
Lemma wsc_blanks b : forallb wsc b = true -> blanks b.
Proof. unfold blanks. apply forallb_imp. intros x. unfold wsc, isblank. rewrite !orb_true_iff. tauto. Qed.
Lemma wsc_n10 b : forallb wsc b = true -> n10 b = true.
Proof. apply forallb_imp. intros x. unfold wsc. rewrite !orb_true_iff, !N.eqb_eq. intros [->| ->]; reflexivity. Qed.
Lemma blanks_nl b : blanks b -> blanks (b ++ [10]).
Proof. intros H. apply blanks_app; [exact H|reflexivity]. Qed.

(* a laid-out line: indentation, content in trimmed form, trailing space, newline *)
Lemma trim_line a X b : ws3 a = true -> ws3 b = true -> tfb X = true -> trim (a ++ X ++ b ++ [10]) = X.
Proof. intros Ha Hb HX. apply trim_between; auto using ws3_blanks, blanks_nl. Qed.

(* character classes of word bodies *)
Lemma quote_facts q : (q =? 39) || (q =? 34) = true -> isblank q = false /\ (q =? 10) = false /\ (q =? 0) = false /\ (q =? 35) = false /\ (q =? 60) = false /\ (q =? 47) = false.
Proof. intros H. destruct (qcases q H) as [-> | ->]; repeat split; reflexivity. Qed.
Lemma last_app_nonnil {A} (a b : list A) d : b <> [] -> last (a ++ b) d = last b d.
Proof. intros H. induction a as [|x a IH]; [reflexivity|]. cbn [app]. destruct (a ++ b) eqn:E; [destruct a; [cbn in E; congruence|discriminate]|]. cbn [last]. exact IH. Qed.

Definition nbc (c : N) : bool := negb (isblank c).
Lemma bare_chars t : bare_ok t = true -> forallb (fun c => negb (c =? 13) && negb (c =? 10)) t = true -> forallb nbc t = true /\ n10 t = true /\ t <> [] /\ (hdn t =? 0) = false.
Proof. unfold bare_ok. rewrite !andb_true_iff. intros (((Hn & Hc) & _) & _) Hd. repeat split.
  - rewrite forallb_forall in *. intros x I. specialize (Hc x I). specialize (Hd x I). unfold nbc, isblank, wsc in *.
    rewrite ?andb_true_iff, ?negb_true_iff, ?orb_false_iff in *. tauto.
  - revert Hd. apply forallb_imp. intros x. rewrite andb_true_iff. tauto.
  - destruct t; [discriminate|discriminate].
  - destruct t as [|c t]; [discriminate|]. cbn [forallb hdn] in *. rewrite !andb_true_iff, !negb_true_iff in Hc. tauto. Qed.

(* first and last character of a word body are not blank, and it contains no newline *)
Lemma body_facts w : word_ok w = true -> dword_ok w = true ->
  body w <> [] /\ nbc (hdn (body w)) = true /\ nbc (last (body w) 0) = true /\ n10 (body w) = true /\ (hdn (body w) =? 0) = false.
Proof. unfold word_ok, dword_ok, body. rewrite andb_true_iff. intros [_ Hs] Hd. destruct (w_style w) as [|q all].
  - destruct (bare_chars _ Hs Hd) as (Hnb & H10 & Hn & H0). repeat split; auto.
    + destruct (w_text w) as [|c t]; [congruence|]. cbn [hdn forallb] in *. apply andb_true_iff in Hnb. tauto.
    + destruct (@exists_last _ (w_text w) Hn) as (m & l & E). rewrite E, last_last. rewrite E, forallb_app in Hnb. cbn [forallb] in Hnb. rewrite !andb_true_iff in Hnb. tauto.
  - apply andb_true_iff in Hs as [Hq Hz]. destruct (quote_facts q Hq) as (Qb & Q10 & Q0 & _). repeat split.
    + discriminate.
    + cbn [hdn]. unfold nbc. rewrite Qb. reflexivity.
    + change (q :: esc q all (w_text w) ++ [q]) with ((q :: esc q all (w_text w)) ++ [q]). rewrite last_last. unfold nbc. rewrite Qb. reflexivity.
    + cbn [n10 forallb]. rewrite Q10. cbn [negb andb]. change (n10 (esc q all (w_text w) ++ [q]) = true). rewrite n10_app. cbn [n10 forallb]. rewrite Q10. cbn [negb andb]. rewrite andb_true_r.
      clear Hz. unfold esc. induction (w_text w) as [|c t IH]; [reflexivity|]. cbn [forallb] in Hd. apply andb_true_iff in Hd as [Hc Hd]. cbn [flat_map]. rewrite n10_app, (IH Hd), andb_true_r.
      destruct (all || (c =? q) || (c =? 92)); cbn [n10 forallb]; rewrite Hc; reflexivity.
    + cbn [hdn]. exact Q0. Qed.

Lemma words_n10 : forall ws, forallb word_ok ws = true -> forallb dword_ok ws = true -> n10 (render_words ws) = true.
Proof. induction ws as [|w r IH]; [reflexivity|]. cbn [forallb]. rewrite !andb_true_iff. intros [Hw Hr] [Dw Dr].
  unfold render_words. cbn [flat_map]. fold (render_words r). rewrite n10_app, render_word_body, n10_app, (IH Hr Dr).
  destruct (body_facts w Hw Dw) as (_ & _ & _ & B10 & _). rewrite B10. unfold word_ok in Hw. apply andb_true_iff in Hw as [Hg _]. rewrite (wsc_n10 _ Hg). reflexivity. Qed.
Lemma words_ok_all : forall ws prev, words_ok prev ws = true -> forallb word_ok ws = true.
Proof. induction ws as [|w r IH]; intros prev; [reflexivity|]. cbn [words_ok forallb]. rewrite !andb_true_iff. intros [[Hw _] Hr]. split; [exact Hw|eauto]. Qed.

(* the content of a line of words with the first gap removed: in trimmed form *)
Lemma words_last : forall r w, word_ok w = true -> dword_ok w = true -> forallb word_ok r = true -> forallb dword_ok r = true ->
  nbc (last (body w ++ render_words r) 0) = true.
Proof. induction r as [|w' r IH]; intros w Hw Dw Hr Dr.
  - unfold render_words. cbn [flat_map]. rewrite app_nil_r. apply (body_facts w Hw Dw).
  - cbn [forallb] in Hr, Dr. apply andb_true_iff in Hr as [Hw' Hr]. apply andb_true_iff in Dr as [Dw' Dr].
    unfold render_words. cbn [flat_map]. fold (render_words r). rewrite render_word_body, <- app_assoc.
    assert (Z : body w' ++ render_words r <> []) by (apply app_nonnil_l, (body_facts w' Hw' Dw')).
    rewrite last_app_nonnil by (apply app_nonnil_r, Z). rewrite last_app_nonnil by exact Z. apply IH; auto. Qed.
Lemma tfb_of c X : nbc c = true -> nbc (last (c :: X) 0) = true -> tfb (c :: X) = true.
Proof. unfold tfb, nbc. intros H1 H2. change blank4 with isblank. rewrite H1, H2. reflexivity. Qed.

(* ---------------- classify on the shapes of rendered lines ---------------- *)
Lemma classify_other c X : c <> 60 -> classify (c :: X) = Some (QAC_OTYPE_OPTION, c :: X).
Proof. intros H. unfold classify. destruct c as [|p]; [reflexivity|]. do 6 (destruct p as [p|p|]; try reflexivity). congruence. Qed.
Lemma match47 {B} (c : N) (X : list N) (a : list N -> B) (b : B) : c <> 47 -> match c :: X with 47 :: sp' => a sp' | _ => b end = b.
Proof. intros H. destruct c as [|p]; [reflexivity|]. do 6 (destruct p as [p|p|]; try reflexivity). congruence. Qed.
(* the text between the brackets loses its trailing blanks (qstrtrimtail after the bracket is removed); rendered tags have none *)
Lemma trim_tail_lastnb X : X <> [] -> isblank (last X 0) = false -> trim_tail X = X.
Proof. intros N H. destruct (@exists_last _ X N) as (m & l & ->). rewrite last_last in H. rewrite (trim_tail_mid m l [] H). reflexivity. Qed.
Lemma last_app_nn {A} (x y : list A) d : y <> [] -> last (x ++ y) d = last y d.
Proof. intros N. induction x as [|a x IH]; [reflexivity|]. cbn [app]. rewrite <- IH.
  destruct (x ++ y) eqn:E; [exfalso; destruct x; cbn in E; [congruence|discriminate]|reflexivity]. Qed.
Lemma bare_last_nb t : bare_ok t = true -> forallb (fun c => negb (c =? 13) && negb (c =? 10)) t = true -> t <> [] /\ isblank (last t 0) = false.
Proof. intros Hb Hd. destruct (bare_chars _ Hb Hd) as (Nb & _ & Tn & _). split; [exact Tn|].
  destruct (@exists_last _ t Tn) as (m & l & ->). rewrite last_last. rewrite forallb_app in Nb. apply andb_true_iff in Nb as [_ Nl].
  cbn [forallb] in Nl. rewrite andb_true_r in Nl. unfold nbc in Nl. apply negb_true_iff in Nl. exact Nl. Qed.
Lemma body_last_nb w : word_ok w = true -> dword_ok w = true -> body w <> [] /\ isblank (last (body w) 0) = false.
Proof. intros Ww Dw. unfold body. unfold word_ok in Ww. apply andb_true_iff in Ww as [_ Ws]. unfold dword_ok in Dw. destruct (w_style w) as [|q all].
  - exact (bare_last_nb _ Ws Dw).
  - apply andb_true_iff in Ws as [Hq _]. destruct (quote_facts q Hq) as (Qb & _). split; [discriminate|].
    change (q :: esc q all (w_text w) ++ [q]) with ((q :: esc q all (w_text w)) ++ [q]). rewrite last_last. exact Qb. Qed.
Lemma render_words_last ws : ws <> [] -> forallb word_ok ws = true -> forallb dword_ok ws = true ->
  render_words ws <> [] /\ isblank (last (render_words ws) 0) = false.
Proof. induction ws as [|w r IH]; [congruence|]. intros _ Hw Hd. cbn [forallb] in Hw, Hd. apply andb_true_iff in Hw as [Ww Wr]. apply andb_true_iff in Hd as [Dw Dr].
  unfold render_words. cbn [flat_map]. fold (render_words r). rewrite render_word_body.
  destruct (body_last_nb w Ww Dw) as [Bn Bl].
  destruct r as [|w2 r2].
  - cbn [render_words flat_map]. rewrite app_nil_r. split; [intros E; apply app_eq_nil in E as [_ E]; exact (Bn E)|]. rewrite (last_app_nn _ _ _ Bn). exact Bl.
  - destruct (IH ltac:(discriminate) Wr Dr) as [Rn Rl]. split; [intros E; apply app_eq_nil in E as [_ E]; exact (Rn E)|].
    rewrite (last_app_nn _ _ _ Rn). exact Rl. Qed.
Lemma classify_open sp : hdn (sp ++ [62]) <> 47 -> trim_tail sp = sp -> classify (60 :: sp ++ [62]) = Some (QAC_OTYPE_SECTIONOPEN, sp).
Proof. intros H HT. unfold classify. change (60 :: sp ++ [62]) with ((60 :: sp) ++ [62]) at 1. rewrite last_last. change (negb (62 =? 62)) with false. cbv iota.
  destruct (sp ++ [62]) as [|c X] eqn:E; [destruct sp; discriminate|]. cbn [hdn] in H.
  assert (R : removelast (c :: X) = sp) by (rewrite <- E; apply removelast_last). revert R. generalize (removelast (c :: X)). intros rl ->. rewrite HT.
  destruct c as [|p]; [reflexivity|]. do 6 (destruct p as [p|p|]; try reflexivity). congruence. Qed.
Lemma classify_close cname : trim_tail cname = cname -> classify (60 :: 47 :: cname ++ [62]) = Some (QAC_OTYPE_SECTIONCLOSE, cname).
Proof. unfold classify. change (60 :: 47 :: cname ++ [62]) with ((60 :: 47 :: cname) ++ [62]) at 1. rewrite last_last. change (negb (62 =? 62)) with false. cbv iota.
  rewrite removelast_last. intros ->. reflexivity. Qed.

Section Lines.
Variable cb : bool -> cbd -> list cbd -> option (list N).
Variable T : list opt.
Variable flags : N.
Variable defcb : bool.
Notation line_step := (line_step cb T flags defcb).
Notation line_act := (line_act cb T flags defcb).

Lemma comment_line ind text sid parents : ws3 ind = true -> line_step (trim (ind ++ 35 :: text ++ [10])) sid parents = LSkip.
Proof. intros H. rewrite (trim_lead ind 35 _ (ws3_blanks _ H) eq_refl). reflexivity. Qed.
Lemma blank_line sp sid parents : ws3 sp = true -> line_step (trim (sp ++ [10])) sid parents = LSkip.
Proof. intros H. rewrite (trim_blanks _ (blanks_nl _ (ws3_blanks _ H))). reflexivity. Qed.

Lemma first_word_facts w r : words_ok false (w :: r) = true -> forallb dword_ok (w :: r) = true ->
  word_ok w = true /\ dword_ok w = true /\ forallb word_ok r = true /\ forallb dword_ok r = true /\
  words_ok false ({| w_gap := []; w_style := w_style w; w_text := w_text w |} :: r) = true /\
  render_words ({| w_gap := []; w_style := w_style w; w_text := w_text w |} :: r) = body w ++ render_words r.
Proof. intros H1 H2. cbn [words_ok] in H1. cbn [forallb] in H2. apply andb_true_iff in H1 as [H1 Hr]. apply andb_true_iff in H1 as [Hw _]. apply andb_true_iff in H2 as [Dw Dr].
  split; [exact Hw|]. split; [exact Dw|]. split; [apply (words_ok_all r _ Hr)|]. split; [exact Dr|]. split; [|reflexivity].
  cbn [words_ok w_gap]. unfold is_bare in *. cbn [w_style]. rewrite Hr. unfold word_ok in *. cbn [w_gap w_style w_text forallb]. apply andb_true_iff in Hw as [_ ->]. reflexivity. Qed.

Lemma dir_line ind ws tr sid parents : ws3 ind = true -> ws3 tr = true -> words_ok false ws = true -> forallb dword_ok ws = true -> first_ok true ws = true ->
  line_step (trim (ind ++ render_words ws ++ tr ++ [10])) sid parents = line_act 0 (map w_text ws) sid parents.
Proof. intros Hi Ht Hw Hd Hf. destruct ws as [|w r]; [discriminate|].
  destruct (first_word_facts w r Hw Hd) as (Ww & Dw & Wr & Dr & W0 & R0).
  destruct (body_facts w Ww Dw) as (Bn & Bh & Bl & B10 & B0).
  set (X := body w ++ render_words r).
  assert (TX : trim (ind ++ render_words (w :: r) ++ tr ++ [10]) = X).
  { unfold render_words. cbn [flat_map]. fold (render_words r). rewrite render_word_body.
    replace (ind ++ ((w_gap w ++ body w) ++ render_words r) ++ tr ++ [10]) with ((ind ++ w_gap w) ++ X ++ tr ++ [10]) by (unfold X; rewrite <- !app_assoc; reflexivity).
    apply trim_between; [apply blanks_app; [apply ws3_blanks, Hi|apply wsc_blanks; unfold word_ok in Ww; apply andb_true_iff in Ww; tauto]|apply blanks_nl, ws3_blanks, Ht|].
    pose proof (words_last r w Ww Dw Wr Dr) as L. fold X in L. destruct (body w) as [|c b] eqn:Eb; [congruence|]. unfold X in *. cbn [app] in *. apply tfb_of; [exact Bh|exact L]. }
  rewrite TX. unfold AconfModel.line_step.
  assert (H35 : (hdn (body w) =? 35) = false /\ hdn (body w) <> 60).
  { unfold first_ok in Hf. unfold body. unfold word_ok in Ww. apply andb_true_iff in Ww as [_ Ws]. destruct (w_style w) as [|q all].
    - rewrite andb_true_iff, !negb_true_iff in Hf. destruct Hf as [F1 F2]. split; [exact F1|]. intros E. rewrite E in F2. discriminate.
    - apply andb_true_iff in Ws as [Hq _]. destruct (quote_facts q Hq) as (_ & _ & _ & Q35 & Q60 & _). cbn [hdn]. split; [exact Q35|]. intros E. rewrite E in Q60. discriminate. }
  destruct H35 as [H35 H60]. unfold X. destruct (body w) as [|c b] eqn:Eb; [congruence|]. cbn [app hd0 hdn] in *. rewrite B0, H35. cbn [orb].
  rewrite (classify_other c _ H60).
  assert (NN : {| w_gap := []; w_style := w_style w; w_text := w_text w |} :: r <> []) by discriminate.
  pose proof (aconf_tokenize_render _ NN W0) as Tk. rewrite R0 in Tk. rewrite ?Eb in Tk. cbn [app] in Tk. rewrite Tk. reflexivity. Qed.

Lemma sect_line ind ws tr sid parents : ws3 ind = true -> ws3 tr = true -> words_ok false ws = true -> forallb dword_ok ws = true -> first_ok false ws = true ->
  line_step (trim (ind ++ 60 :: render_words ws ++ 62 :: tr ++ [10])) sid parents = line_act 1 (map w_text ws) sid parents.
Proof. intros Hi Ht Hw Hd Hf. destruct ws as [|w r] eqn:Ews; [discriminate|]. rewrite <- Ews in *.
  assert (TX : trim (ind ++ 60 :: render_words ws ++ 62 :: tr ++ [10]) = 60 :: render_words ws ++ [62]).
  { replace (ind ++ 60 :: render_words ws ++ 62 :: tr ++ [10]) with (ind ++ (60 :: render_words ws ++ [62]) ++ tr ++ [10]) by (cbn [app]; rewrite <- app_assoc; reflexivity).
    apply trim_line; auto. apply tfb_of; [reflexivity|]. change (60 :: render_words ws ++ [62]) with ((60 :: render_words ws) ++ [62]). rewrite last_last. reflexivity. }
  rewrite TX. unfold AconfModel.line_step. cbn [hd0]. change ((60 =? 0) || (60 =? 35)) with false. cbv iota.
  rewrite classify_open.
  - rewrite (aconf_tokenize_render ws) by (auto; rewrite Ews; discriminate). reflexivity.
  - rewrite Ews in *. destruct (first_word_facts w r Hw Hd) as (Ww & Dw & _). unfold render_words. cbn [flat_map]. rewrite render_word_body, <- !app_assoc.
    pose proof Ww as Ww'. unfold word_ok in Ww'. apply andb_true_iff in Ww' as [Hg Ws]. destruct (w_gap w) as [|g gap] eqn:Eg.
    + cbn [app]. unfold first_ok in Hf. rewrite Eg in Hf. unfold body. unfold dword_ok in Dw. destruct (w_style w) as [|q all].
      * cbn [negb orb] in Hf. apply negb_true_iff, N.eqb_neq in Hf. destruct (bare_chars _ Ws Dw) as (_ & _ & Tn & _).
        destruct (w_text w) as [|c t]; [congruence|]. exact Hf.
      * apply andb_true_iff in Ws as [Hq _]. destruct (quote_facts q Hq) as (_ & _ & _ & _ & _ & Q47). cbn [app hdn]. intros E. rewrite E in Q47. discriminate.
    + cbn [app hdn]. cbn [forallb] in Hg. apply andb_true_iff in Hg as [Hg _]. unfold wsc in Hg. rewrite orb_true_iff, !N.eqb_eq in Hg. destruct Hg as [-> | ->]; discriminate.
  - assert (NE : ws <> []) by (rewrite Ews; discriminate).
    destruct (render_words_last ws NE (words_ok_all _ _ Hw) Hd) as [Rn Rl]. exact (trim_tail_lastnb _ Rn Rl). Qed.

Lemma close_line cind cname ctr sid parents : ws3 cind = true -> ws3 ctr = true -> bare_ok cname = true ->
  forallb (fun c => negb (c =? 13) && negb (c =? 10)) cname = true ->
  line_step (trim (cind ++ 60 :: 47 :: cname ++ 62 :: ctr ++ [10])) sid parents = line_act 2 [cname] sid parents.
Proof. intros Hi Ht Hb Hd.
  assert (TX : trim (cind ++ 60 :: 47 :: cname ++ 62 :: ctr ++ [10]) = 60 :: 47 :: cname ++ [62]).
  { replace (cind ++ 60 :: 47 :: cname ++ 62 :: ctr ++ [10]) with (cind ++ (60 :: 47 :: cname ++ [62]) ++ ctr ++ [10]) by (cbn [app]; rewrite <- app_assoc; reflexivity).
    apply trim_line; auto. apply tfb_of; [reflexivity|]. change (60 :: 47 :: cname ++ [62]) with ((60 :: 47 :: cname) ++ [62]). rewrite last_last. reflexivity. }
  rewrite TX. unfold AconfModel.line_step. cbn [hd0]. change ((60 =? 0) || (60 =? 35)) with false. cbv iota.
  rewrite classify_close by (destruct (bare_last_nb _ Hb Hd) as [Cn Cl]; exact (trim_tail_lastnb _ Cn Cl)).
  assert (NN : [{| w_gap := []; w_style := Bare; w_text := cname |}] <> []) by discriminate.
  assert (W : words_ok false [{| w_gap := []; w_style := Bare; w_text := cname |}] = true).
  { unfold words_ok, word_ok. cbn [w_gap w_style w_text forallb]. rewrite Hb. reflexivity. }
  pose proof (aconf_tokenize_render [{| w_gap := []; w_style := Bare; w_text := cname |}] NN W) as Tk.
  unfold render_words in Tk. cbn [flat_map render_word w_gap w_style w_text app map] in Tk. rewrite app_nil_r in Tk. rewrite Tk. reflexivity. Qed.
End Lines.

(* ---------------- unfolding the nested fixpoints over section bodies ---------------- *)
Lemma render_sect ind ws tr body cind cname ctr :
  render_node (NSect ind ws tr body cind cname ctr) =
  (ind ++ 60 :: render_words ws ++ 62 :: tr) ++ 10 :: aconf_render body ++ (cind ++ 60 :: 47 :: cname ++ 62 :: ctr) ++ [10].
Proof. cbn [render_node].
  assert (G : forall l, (fix go (l : list anode) : list N := match l with [] => [] | x :: r => render_node x ++ go r end) l = aconf_render l).
  { induction l as [|x l IH]; [reflexivity|]. unfold aconf_render. cbn [flat_map]. f_equal; try exact IH. }
  rewrite G. rewrite <- !app_assoc. cbn [app]. rewrite <- !app_assoc. reflexivity. Qed.
Lemma wf_sect maxl ind ws tr body cind cname ctr :
  wf_node maxl (NSect ind ws tr body cind cname ctr) =
  (ws3 ind && ws3 tr && words_ok false ws && forallb dword_ok ws && first_ok false ws && fits maxl (ind ++ 60 :: render_words ws ++ 62 :: tr) &&
   wf_nodes maxl body && ws3 cind && ws3 ctr && bare_ok cname && forallb (fun c => negb (c =? 13) && negb (c =? 10)) cname &&
   fits maxl (cind ++ 60 :: 47 :: cname ++ 62 :: ctr)).
Proof. cbn [wf_node].
  assert (G : forall l, (fix all (l : list anode) : bool := match l with [] => true | x :: r => wf_node maxl x && all r end) l = wf_nodes maxl l).
  { induction l as [|x l IH]; [reflexivity|]. unfold wf_nodes. cbn [forallb]. f_equal; try exact IH. }
  rewrite G. reflexivity. Qed.
Lemma adepth_sect ind ws tr body cind cname ctr : adepth (NSect ind ws tr body cind cname ctr) = 1 + adepths body.
Proof. cbn [adepth].
  assert (G : forall l, (fix mx (l : list anode) : N := match l with [] => 0 | x :: r => N.max (adepth x) (mx r) end) l = adepths l).
  { induction l as [|x l IH]; [reflexivity|]. unfold adepths. cbn [fold_right]. fold (adepths l). rewrite <- IH. reflexivity. }
  rewrite G. reflexivity. Qed.

Fixpoint nsize (n : anode) : nat :=
  match n with
  | NSect _ _ _ body _ _ _ => S ((fix ls (l : list anode) : nat := match l with [] => O | x :: r => (nsize x + ls r)%nat end) body)
  | _ => 1%nat
  end.
Definition lsize (l : list anode) : nat := fold_right (fun n a => (nsize n + a)%nat) O l.
Lemma nsize_sect ind ws tr body cind cname ctr : nsize (NSect ind ws tr body cind cname ctr) = S (lsize body).
Proof. cbn [nsize].
  assert (G : forall l, (fix ls (l : list anode) : nat := match l with [] => O | x :: r => (nsize x + ls r)%nat end) l = lsize l).
  { induction l as [|x l IH]; [reflexivity|]. unfold lsize. cbn [fold_right]. fold (lsize l). rewrite <- IH. reflexivity. }
  rewrite G. reflexivity. Qed.
Lemma nsize_pos n : (1 <= nsize n)%nat.
Proof. destruct n; cbn [nsize]; lia. Qed.

Section Main.
Variable cb : bool -> cbd -> list cbd -> option (list N).
Variable T : list opt.
Variable flags : N.
Variable defcb : bool.
Variable maxl : nat.
Hypothesis maxl_pos : (1 <= maxl)%nat.
Notation pinl := (pinl cb T flags defcb maxl).
Notation snodes := (snodes cb T flags defcb).
Notation snode := (snode cb T flags defcb).
Notation sline := (sline cb T flags defcb).
Notation sclose := (sclose cb T flags defcb).

Lemma snode_sect ind ws tr body cind cname ctr line sid parents evs :
  snode (NSect ind ws tr body cind cname ctr) line sid parents evs =
  match sline 1 (map w_text ws) sid parents with
  | inl (e, ev) => SErr (line + 1) e (ev ++ evs)
  | inr (ev, me, nsid) =>
      match snodes body (line + 1) 0 nsid (me :: parents) (ev ++ evs) with
      | SErr l' e e' => SErr l' e e'
      | SOk c l1 e1 =>
          match sclose cname me nsid parents with
          | inl (e, ev2) => SErr (l1 + 1) e (ev2 ++ e1)
          | inr ev2 => SOk (c + 2) (l1 + 1) (ev2 ++ e1)
          end
      end
  end.
Proof. cbn [AconfSpec.snode]. destruct (sline 1 (map w_text ws) sid parents) as [[e ev]|[[ev me] nsid]]; [reflexivity|].
  assert (G : forall l line cnt evs,
    (fix go (l : list anode) (line cnt : N) (evs : list event) {struct l} : sres :=
       match l with
       | [] => SOk cnt line evs
       | x :: r => match snode x line nsid (me :: parents) evs with
                   | SOk c l' e' => go r l' (cnt + c) e'
                   | SErr l' e e' => SErr l' e e'
                   end
       end) l line cnt evs = snodes l line cnt nsid (me :: parents) evs).
  { induction l as [|x l IH]; intros; [reflexivity|]. cbn [AconfSpec.snodes]. destruct (snode x line0 nsid (me :: parents) evs0); [apply IH|reflexivity]. }
  rewrite G. reflexivity. Qed.

Lemma sline_me otype argv sid parents ev me nsid : sline otype argv sid parents = inr (ev, me, nsid) -> c_level me = level_of parents.
Proof. unfold AconfSpec.sline. destruct (olookup T flags (hd [] argv)) as [o|].
  - destruct (negb (o_sections o =? 0) && (N.land (o_sections o) sid =? 0)); [discriminate|].
    destruct (match take_count (o_take o) with Some k => negb (k =? N.of_nat (length (tl argv))) | None => false end); [discriminate|].
    destruct (args_ok (o_name o) (o_take o) 1 (tl argv)); [discriminate|].
    destruct (if o_cb o then Some false else if defcb then Some true else None); [destruct (cb _ _ _); [discriminate|]|]; intros [= _ <- _]; reflexivity.
  - destruct defcb; [intros [= _ <- _]; reflexivity|]. destruct (ignore_unknown flags); [intros [= _ <- _]; reflexivity|discriminate]. Qed.

(* more fuel than needed does not change the result *)
Lemma pinl_fuel : forall f1 f2 s sid parents oc, (length (p_rest s) < f1)%nat -> (length (p_rest s) < f2)%nat ->
  pinl f1 s sid parents oc = pinl f2 s sid parents oc.
Proof. induction f1 as [|f1 IH]; intros f2 s sid parents oc H1 H2; [lia|]. destruct f2 as [|f2]; [lia|]. cbn [AconfModel.pinl].
  destruct (p_rest s) as [|c r] eqn:ER; [reflexivity|].
  destruct (take_line maxl (c :: r)) as [chunk rest] eqn:TL. pose proof (take_line_shrinks _ _ _ _ _ maxl_pos TL) as Sh.
  assert (Go : forall evs sid' parents' oc', pinl f1 (addev s (p_line s + 1) rest evs) sid' parents' oc' = pinl f2 (addev s (p_line s + 1) rest evs) sid' parents' oc').
  { intros. apply IH; cbn [addev p_rest]; lia. }
  destruct (line_step cb T flags defcb (trim chunk) sid parents) as [|e evs|evs me nsid|evs|evs]; try apply Go; try reflexivity.
  rewrite Go. destruct (pinl_total cb T flags defcb maxl maxl_pos f2 (addev s (p_line s + 1) rest evs) nsid (me :: parents) 0) as (r0 & R0 & L0); [cbn [addev p_rest]; lia|].
  rewrite R0. cbn [bind]. destruct r0 as [c2 s2|l e s2]; [|reflexivity]. cbn [pres_state addev p_rest] in L0. apply IH; lia. Qed.

(* one line at the head of the remaining text *)
Lemma pinl_line f s ln R sid parents oc : p_rest s = ln ++ 10 :: R -> n10 ln = true -> (length ln < maxl)%nat ->
  pinl (S f) s sid parents oc =
  match line_step cb T flags defcb (trim (ln ++ [10])) sid parents with
  | LSkip => pinl f (addev s (p_line s + 1) R []) sid parents oc
  | LFail e evs => Ok (PErr (p_line s + 1) e (addev s (p_line s + 1) R evs))
  | LOpen evs me nsid =>
      bind (pinl f (addev s (p_line s + 1) R evs) nsid (me :: parents) 0) (fun r =>
        match r with
        | PDone c2 s2 => pinl f s2 sid parents (oc + c2 + 1)
        | PErr l e s2 => Ok (PErr l e s2)
        end)
  | LClose evs => Ok (PDone (oc + 1) (addev s (p_line s + 1) R evs))
  | LNext evs => pinl f (addev s (p_line s + 1) R evs) sid parents (oc + 1)
  end.
Proof. intros HR H10 HL. cbn [AconfModel.pinl]. rewrite HR. destruct (ln ++ 10 :: R) as [|c r] eqn:E; [destruct ln; discriminate|].
  rewrite <- E, (take_line_full maxl ln R H10 HL). reflexivity. Qed.

Lemma lvl_lt a b : a + b < 256 -> a < 256. Proof. lia. Qed.
Lemma words_argv ws : ws <> [] -> exists name args, map w_text ws = name :: args.
Proof. destruct ws as [|w r]; [congruence|]. intros _. exists (w_text w), (map w_text r). reflexivity. Qed.

Definition endstate (rest : list N) (l : N) (evs : list event) : pst := {| p_rest := rest; p_line := l; p_trace := evs |}.

(* the parser on the text of a list of nodes followed by rest': it either continues behind them with the count, line number
   and events of the reference semantics, or fails with the reference semantics' line, error and events *)
Lemma pinl_nodes : forall n nodes, (lsize nodes <= n)%nat -> forall fuel s rest' sid parents oc,
  wf_nodes maxl nodes = true -> level_of parents + adepths nodes < 256 ->
  p_rest s = aconf_render nodes ++ rest' -> (length (p_rest s) < fuel)%nat ->
  match snodes nodes (p_line s) oc sid parents (p_trace s) with
  | SOk c l evs => forall fuel', (length rest' < fuel')%nat -> pinl fuel s sid parents oc = pinl fuel' (endstate rest' l evs) sid parents c
  | SErr l e evs => exists s', pinl fuel s sid parents oc = Ok (PErr l e s') /\ p_trace s' = evs
  end.
Proof. induction n as [|n IHn]; intros nodes Hsz fuel s rest' sid parents oc Hwf Hlv HR Hf.
  - destruct nodes as [|x r]; [|pose proof (nsize_pos x); unfold lsize in Hsz; cbn [fold_right] in Hsz; lia].
    cbn [AconfSpec.snodes]. intros fuel' Hf'. unfold aconf_render in HR. cbn [flat_map app] in HR. destruct s as [sr sl st]. cbn [p_rest p_line p_trace] in *. subst sr.
    apply pinl_fuel; cbn [endstate p_rest]; lia.
  - destruct nodes as [|x r].
    { cbn [AconfSpec.snodes]. intros fuel' Hf'. unfold aconf_render in HR. cbn [flat_map app] in HR. destruct s as [sr sl st]. cbn [p_rest p_line p_trace] in *. subst sr.
      apply pinl_fuel; cbn [endstate p_rest]; lia. }
    unfold lsize in Hsz. cbn [fold_right] in Hsz. fold (lsize r) in Hsz.
    unfold wf_nodes in Hwf. cbn [forallb] in Hwf. fold (wf_nodes maxl r) in Hwf. apply andb_true_iff in Hwf as [Hx Hr].
    unfold adepths in Hlv. cbn [fold_right] in Hlv. fold (adepths r) in Hlv.
    assert (Hlr : level_of parents + adepths r < 256) by lia.
    assert (Hl0 : level_of parents < 256) by lia.
    unfold aconf_render in HR. cbn [flat_map] in HR. fold (aconf_render r) in HR. rewrite <- app_assoc in HR.
    destruct fuel as [|f]; [lia|].
    (* continuation on the remaining nodes r from a state whose rest is  aconf_render r ++ rest' *)
    assert (Cont : forall s1 oc1, p_rest s1 = aconf_render r ++ rest' -> (length (p_rest s1) < f)%nat ->
       match snodes r (p_line s1) oc1 sid parents (p_trace s1) with
       | SOk c l evs => forall fuel', (length rest' < fuel')%nat -> pinl f s1 sid parents oc1 = pinl fuel' (endstate rest' l evs) sid parents c
       | SErr l e evs => exists s', pinl f s1 sid parents oc1 = Ok (PErr l e s') /\ p_trace s' = evs
       end).
    { intros s1 oc1 H1 H2. apply (IHn r); auto. pose proof (nsize_pos x). lia. }
    cbn [AconfSpec.snodes].
    destruct x as [ind text|sp|ind ws tr|ind ws tr body cind cname ctr].
    + (* comment *)
      cbn [wf_node] in Hx. rewrite !andb_true_iff in Hx. destruct Hx as [[Hi Ht] Hfit]. cbn [render_node] in HR.
      replace ((ind ++ 35 :: text ++ [10]) ++ aconf_render r ++ rest') with ((ind ++ 35 :: text) ++ 10 :: aconf_render r ++ rest') in HR
        by (rewrite <- !app_assoc; cbn [app]; rewrite <- app_assoc; reflexivity).
      rewrite (pinl_line f s _ _ sid parents oc HR).
      2:{ rewrite n10_app, (ws3_n10 _ Hi). cbn [n10 forallb]. change (negb (35 =? 10)) with true. cbn [andb]. revert Ht. apply forallb_imp. intros c. rewrite andb_true_iff. tauto. }
      2:{ unfold fits in Hfit. apply Nat.ltb_lt in Hfit. exact Hfit. }
      replace ((ind ++ 35 :: text) ++ [10]) with (ind ++ 35 :: text ++ [10]) by (rewrite <- app_assoc; reflexivity).
      rewrite comment_line by exact Hi. cbn [AconfSpec.snode]. rewrite N.add_0_r.
      apply (Cont (addev s (p_line s + 1) (aconf_render r ++ rest') []) oc); cbn [addev p_rest]; [reflexivity|].
      rewrite HR in Hf. rewrite app_length in Hf. cbn [length] in Hf. lia.
    + (* blank line *)
      cbn [wf_node] in Hx. rewrite !andb_true_iff in Hx. destruct Hx as [Hi Hfit]. cbn [render_node] in HR.
      replace ((sp ++ [10]) ++ aconf_render r ++ rest') with (sp ++ 10 :: aconf_render r ++ rest') in HR by (rewrite <- app_assoc; reflexivity).
      rewrite (pinl_line f s _ _ sid parents oc HR (ws3_n10 _ Hi)).
      2:{ unfold fits in Hfit. apply Nat.ltb_lt in Hfit. exact Hfit. }
      rewrite blank_line by exact Hi. cbn [AconfSpec.snode]. rewrite N.add_0_r.
      apply (Cont (addev s (p_line s + 1) (aconf_render r ++ rest') []) oc); cbn [addev p_rest]; [reflexivity|].
      rewrite HR in Hf. rewrite app_length in Hf. cbn [length] in Hf. lia.
    + (* directive *)
      cbn [wf_node] in Hx. rewrite !andb_true_iff in Hx. destruct Hx as [[[[[Hi Ht] Hw] Hd] Hfo] Hfit]. cbn [render_node] in HR.
      replace ((ind ++ render_words ws ++ tr ++ [10]) ++ aconf_render r ++ rest') with ((ind ++ render_words ws ++ tr) ++ 10 :: aconf_render r ++ rest') in HR
        by (rewrite <- !app_assoc; reflexivity).
      assert (Hne : ws <> []) by (destruct ws; [discriminate|discriminate]).
      rewrite (pinl_line f s _ _ sid parents oc HR).
      2:{ rewrite !n10_app, (ws3_n10 _ Hi), (ws3_n10 _ Ht), (words_n10 ws (words_ok_all ws _ Hw) Hd). reflexivity. }
      2:{ unfold fits in Hfit. apply Nat.ltb_lt in Hfit. exact Hfit. }
      replace ((ind ++ render_words ws ++ tr) ++ [10]) with (ind ++ render_words ws ++ tr ++ [10]) by (rewrite <- !app_assoc; reflexivity).
      rewrite dir_line by auto. destruct (words_argv ws Hne) as (name & args & Ea). cbn [AconfSpec.snode]. rewrite Ea.
      rewrite line_act_open by auto. change (0 =? 1) with false. cbv iota.
      destruct (sline 0 (name :: args) sid parents) as [[e ev]|[[ev me] nsid]].
      * eexists. split; reflexivity.
      * apply (Cont (addev s (p_line s + 1) (aconf_render r ++ rest') ev) (oc + 1)); cbn [addev p_rest]; [reflexivity|].
        rewrite HR in Hf. rewrite app_length in Hf. cbn [length] in Hf. lia.
    + (* section *)
      rewrite wf_sect in Hx. rewrite !andb_true_iff in Hx.
      destruct Hx as [[[[[[[[[[[Hi Ht] Hw] Hd] Hfo] Hfit] Hb] Hci] Hct] Hcn] Hcd] Hcfit].
      rewrite adepth_sect in Hlv. rewrite nsize_sect in Hsz. rewrite render_sect in HR.
      set (cl := cind ++ 60 :: 47 :: cname ++ 62 :: ctr) in *.
      set (R2 := aconf_render r ++ rest').
      replace (((ind ++ 60 :: render_words ws ++ 62 :: tr) ++ 10 :: aconf_render body ++ cl ++ [10]) ++ aconf_render r ++ rest')
        with ((ind ++ 60 :: render_words ws ++ 62 :: tr) ++ 10 :: (aconf_render body ++ cl ++ 10 :: R2)) in HR
        by (unfold R2; rewrite <- !app_assoc; cbn [app]; rewrite <- !app_assoc; reflexivity).
      assert (Hne : ws <> []) by (destruct ws; [discriminate|discriminate]).
      rewrite (pinl_line f s _ _ sid parents oc HR).
      2:{ rewrite n10_app, (ws3_n10 _ Hi). cbn [n10 forallb]. change (negb (60 =? 10)) with true. cbn [andb].
          change (n10 (render_words ws ++ 62 :: tr) = true). rewrite n10_app, (words_n10 ws (words_ok_all ws _ Hw) Hd). cbn [n10 forallb]. change (negb (62 =? 10)) with true. cbn [andb]. apply ws3_n10, Ht. }
      2:{ unfold fits in Hfit. apply Nat.ltb_lt in Hfit. exact Hfit. }
      replace ((ind ++ 60 :: render_words ws ++ 62 :: tr) ++ [10]) with (ind ++ 60 :: render_words ws ++ 62 :: tr ++ [10])
        by (rewrite <- !app_assoc; cbn [app]; rewrite <- !app_assoc; reflexivity).
      rewrite sect_line by auto. destruct (words_argv ws Hne) as (name & args & Ea). rewrite snode_sect, Ea.
      rewrite line_act_open by auto. change (1 =? 1) with true. cbv iota.
      destruct (sline 1 (name :: args) sid parents) as [[e ev]|[[ev me] nsid]] eqn:SL.
      * eexists. split; reflexivity.
      * pose proof (sline_me _ _ _ _ _ _ _ SL) as Lme.
        assert (Hlb : level_of (me :: parents) + adepths body < 256) by (unfold level_of at 1; rewrite Lme; lia).
        assert (Hlc : level_of (me :: parents) < 256) by lia.
        set (s1 := addev s (p_line s + 1) (aconf_render body ++ cl ++ 10 :: R2) ev).
        assert (Hf1 : (length (p_rest s1) < f)%nat).
        { unfold s1. cbn [addev p_rest]. rewrite HR in Hf. rewrite app_length in Hf. cbn [length] in Hf. lia. }
        pose proof (IHn body ltac:(lia) f s1 (cl ++ 10 :: R2) nsid (me :: parents) 0 Hb Hlb eq_refl Hf1) as IB.
        unfold s1 in IB at 1 2. cbn [addev p_line p_trace] in IB.
        destruct (snodes body (p_line s + 1) 0 nsid (me :: parents) (ev ++ p_trace s)) as [c l1 e1|l e e'].
        -- (* body accepted: the closing line *)
           rewrite (IB (S (length (cl ++ 10 :: R2))) ltac:(lia)).
           assert (Hcl10 : n10 cl = true).
           { unfold cl. rewrite n10_app, (ws3_n10 _ Hci). cbn [n10 forallb]. change (negb (60 =? 10)) with true. change (negb (47 =? 10)) with true. cbn [andb].
             change (n10 (cname ++ 62 :: ctr) = true). rewrite n10_app. cbn [n10 forallb]. change (negb (62 =? 10)) with true. cbn [andb].
             fold (n10 ctr). rewrite (ws3_n10 _ Hct), andb_true_r. revert Hcd. apply forallb_imp. intros ch. rewrite andb_true_iff. tauto. }
           rewrite (pinl_line _ (endstate (cl ++ 10 :: R2) l1 e1) cl R2 nsid (me :: parents) c eq_refl Hcl10).
           2:{ unfold fits in Hcfit. apply Nat.ltb_lt in Hcfit. exact Hcfit. }
           replace (cl ++ [10]) with (cind ++ 60 :: 47 :: cname ++ 62 :: ctr ++ [10]) by (unfold cl; rewrite <- !app_assoc; cbn [app]; rewrite <- !app_assoc; reflexivity).
           rewrite close_line by auto. rewrite line_act_close by exact Hlc.
           cbn [endstate p_line].
           destruct (sclose cname me nsid parents) as [[e ev2]|ev2].
           ++ cbn [bind]. eexists. split; reflexivity.
           ++ cbn [bind]. replace (oc + (c + 1) + 1) with (oc + (c + 2)) by lia.
              apply (Cont (addev (endstate (cl ++ 10 :: R2) l1 e1) (l1 + 1) R2 ev2) (oc + (c + 2))); cbn [addev p_rest]; [reflexivity|].
              unfold s1 in Hf1. cbn [addev p_rest] in Hf1. rewrite !app_length in Hf1. cbn [length] in Hf1. lia.
        -- destruct IB as (s' & P & Tr). rewrite P. cbn [bind]. eexists. split; [reflexivity|exact Tr]. Qed.

Definition obs_p (r : pres) : option N * option (N * aerr) * list event :=
  match r with PDone c s => (Some c, None, p_trace s) | PErr l e s => (None, Some (l, e), p_trace s) end.
Definition obs_s (r : sres) : option N * option (N * aerr) * list event :=
  match r with SOk c _ evs => (Some c, None, evs) | SErr l e evs => (None, Some (l, e), evs) end.

(* C20, Apache-style half, document level *)
Theorem aconf_accepts_iff d : wf_nodes maxl d = true -> adepths d < 256 ->
  exists r, aconf_parse cb T flags defcb maxl (aconf_render d) = Ok r /\ obs_p r = obs_s (aconf_srun cb T flags defcb d).
Proof. intros Hwf Hd. unfold aconf_parse, aconf_srun.
  pose proof (pinl_nodes (lsize d) d (le_n _) (S (S (length (aconf_render d)))) {| p_rest := aconf_render d; p_line := 0; p_trace := [] |} [] QAC_SECTION_ROOT [] 0 Hwf) as P.
  cbn [level_of p_rest p_line p_trace] in P. rewrite app_nil_r in P. specialize (P ltac:(lia) eq_refl ltac:(lia)). change QAC_SECTION_ROOT with 1 in *.
  destruct (snodes d 0 0 1 [] []) as [c l evs|l e evs].
  - rewrite (P 1%nat ltac:(simpl; lia)). cbn [AconfModel.pinl endstate p_rest]. eexists. split; reflexivity.
  - destruct P as (s' & P & Tr). rewrite P. eexists. split; [reflexivity|]. cbn [obs_p obs_s]. rewrite Tr. reflexivity. Qed.

(* the count returned for an accepted document is its number of directives (two per section) *)
Lemma count_sect ind ws tr body cind cname ctr : count_node (NSect ind ws tr body cind cname ctr) = 2 + aconf_count body.
Proof. cbn [count_node].
  assert (G : forall l, (fix go (l : list anode) : N := match l with [] => 0 | x :: r => count_node x + go r end) l = aconf_count l).
  { induction l as [|x l IH]; [reflexivity|]. unfold aconf_count. cbn [fold_right]. fold (aconf_count l). rewrite <- IH. reflexivity. }
  rewrite G. reflexivity. Qed.
Lemma snodes_count : forall n nodes, (lsize nodes <= n)%nat -> forall line cnt sid parents evs c l e,
  snodes nodes line cnt sid parents evs = SOk c l e -> c = cnt + aconf_count nodes.
Proof. induction n as [|n IHn]; intros nodes Hsz line cnt sid parents evs c l e H.
  - destruct nodes as [|x r]; [|pose proof (nsize_pos x); unfold lsize in Hsz; cbn [fold_right] in Hsz; lia].
    cbn [AconfSpec.snodes] in H. injection H as <- _ _. unfold aconf_count. cbn [fold_right]. lia.
  - destruct nodes as [|x r]; [cbn [AconfSpec.snodes] in H; injection H as <- _ _; unfold aconf_count; cbn [fold_right]; lia|].
    unfold lsize in Hsz. cbn [fold_right] in Hsz. fold (lsize r) in Hsz. pose proof (nsize_pos x) as Px.
    cbn [AconfSpec.snodes] in H. destruct (snode x line sid parents evs) as [c1 l1 e1|] eqn:Sx; [|discriminate].
    apply (IHn r ltac:(lia)) in H. unfold aconf_count. cbn [fold_right]. fold (aconf_count r).
    assert (C1 : c1 = count_node x).
    { destruct x as [ind text|sp|ind ws tr|ind ws tr body cind cname ctr].
      - cbn [AconfSpec.snode] in Sx. injection Sx as <- _ _. reflexivity.
      - cbn [AconfSpec.snode] in Sx. injection Sx as <- _ _. reflexivity.
      - cbn [AconfSpec.snode] in Sx. destruct (sline 0 (map w_text ws) sid parents) as [[? ?]|[[? ?] ?]]; [discriminate|]. injection Sx as <- _ _. reflexivity.
      - rewrite snode_sect in Sx. rewrite nsize_sect in Hsz. rewrite count_sect.
        destruct (sline 1 (map w_text ws) sid parents) as [[? ?]|[[ev me] nsid]]; [discriminate|].
        destruct (snodes body (line + 1) 0 nsid (me :: parents) (ev ++ evs)) as [cb' lb eb|] eqn:Sb; [|discriminate].
        apply (IHn body ltac:(lia)) in Sb. destruct (sclose cname me nsid parents) as [[? ?]|?]; [discriminate|]. injection Sx as <- _ _. lia. }
    lia. Qed.
Theorem aconf_count_spec d c l evs : aconf_srun cb T flags defcb d = SOk c l evs -> c = aconf_count d.
Proof. unfold aconf_srun. intros H. apply (snodes_count (lsize d) d (le_n _)) in H. lia. Qed.
End Main.

(* ---------------- the bound on the nesting depth is needed: level is a uint8_t ---------------- *)
Definition lv (o : option N * option (N * aerr) * list event) : bool := existsb (fun e => 256 <=? c_level (ev_data e)) (snd o).
Definition cb_ok : bool -> cbd -> list cbd -> option (list N) := fun _ _ _ => None.
Definition T_S : list opt := [{| o_name := [83]; o_take := 255; o_cb := true; o_sectionid := 0; o_sections := 0 |}].
Definition w_S : aword := {| w_gap := []; w_style := Bare; w_text := [83] |}.
Fixpoint nest (n : nat) (d : list anode) : list anode :=
  match n with O => d | S k => [NSect [] [w_S] [] (nest k d) [] [83] []] end.
Definition deep_doc : list anode := nest 256 [NDir [] [w_S] []].          (* <S> nested 256 times around the line S *)
Lemma deep_model : match aconf_parse cb_ok T_S 0 false 100 (aconf_render deep_doc) with Ok r => lv (obs_p r) | _ => true end = false.
Proof. vm_compute. reflexivity. Qed.
Lemma deep_spec : lv (obs_s (aconf_srun cb_ok T_S 0 false deep_doc)) = true.
Proof. vm_compute. reflexivity. Qed.
Theorem aconf_level_refuted : wf_nodes 100 deep_doc = true /\ adepths deep_doc = 256 /\
  forall r, aconf_parse cb_ok T_S 0 false 100 (aconf_render deep_doc) = Ok r -> obs_p r <> obs_s (aconf_srun cb_ok T_S 0 false deep_doc).
Proof. split; [vm_compute; reflexivity|]. split; [vm_compute; reflexivity|]. intros r H E. pose proof deep_model as A. rewrite H, E, deep_spec in A. discriminate. Qed.
