(* C17 (parser half), INI-style parser: for EVERY input string the model terminates without Crash (no read outside the
   value buffer) and without running out of fuel, and delivers a table.  No hypothesis on the input, the table, the
   environment or command output. *)
From Coq Require Import NArith Arith List Bool Lia.
From QV.Base Require Import Res Bytes.
From QV.Gen Require Import Consts.
From QV.Enc Require Import EncModel.
From QV.Conf Require Import IniModel.
Import ListNotations.
Local Open Scope N_scope.

(* a buffer whose last element, at index n, is the terminator *)
Definition term (buf : list N) (n : nat) : Prop := length buf = S n /\ nth_error buf n = Some 0.
Lemma term_app v : term (v ++ [0]) (length v).
Proof. split; [rewrite app_length; simpl; lia|]. rewrite nth_error_app2 by lia. replace (length v - length v)%nat with 0%nat by lia. reflexivity. Qed.
Lemma rd_in buf n i : term buf n -> (i <= n)%nat -> exists c, rd buf i = Ok c /\ (c <> 0 -> (i < n)%nat).
Proof. intros [L T] Hi. unfold rd. destruct (nth_error buf i) as [c|] eqn:E.
  - exists c. split; [reflexivity|]. intros Hc. destruct (Nat.eq_dec i n) as [->|]; [|lia]. rewrite T in E. injection E as <-. congruence.
  - apply nth_error_None in E. lia. Qed.

Lemma term_tl suf n c : term suf n -> rd suf 0 = Ok c -> c <> 0 -> exists m, n = S m /\ term (tl suf) m.
Proof. intros [L T] R Hc. destruct suf as [|x suf']; [discriminate|]. cbn in R. injection R as ->.
  destruct n as [|m]; [cbn in T; injection T as ->; congruence|]. exists m. split; [reflexivity|]. split; [cbn in L |- *; lia|exact T]. Qed.

(* what scan_e hands back: a cursor whose suffix is still terminated, not longer than the one it got, and not at the terminator *)
Definition cursor_ok (n : nat) (s' : list N) : Prop := exists m c, term s' m /\ (m <= n)%nat /\ rd s' 0 = Ok c /\ c <> 0.

Lemma scan_e_safe : forall fuel suf n e opened, term suf n -> (n < fuel)%nat ->
  exists r, scan_e fuel suf e opened = Ok r /\
    match r with EClose _ s' => cursor_ok n s' | EInner _ s' => cursor_ok n s' | EEnd => True end.
Proof. induction fuel as [|f IH]; intros suf n e opened T Hf; [lia|]. cbn [scan_e].
  destruct (rd_in suf n 0%nat T ltac:(lia)) as (c & Rc & Hc). rewrite Rc. cbn [bind].
  destruct (c =? 0) eqn:E0; [exists EEnd; auto|]. apply N.eqb_neq in E0.
  destruct (term_tl suf n c T Rc E0) as (m & -> & Tm).
  assert (Here : cursor_ok (S m) suf) by (exists (S m), c; auto).
  assert (Next : forall o, exists r, scan_e f (tl suf) (S e) o = Ok r /\
      match r with EClose _ s' => cursor_ok (S m) s' | EInner _ s' => cursor_ok (S m) s' | EEnd => True end).
  { intros o. destruct (IH (tl suf) m (S e) o Tm ltac:(lia)) as (r & R & P). exists r. split; [exact R|].
    destruct r as [e' s'|e' s'|]; auto; destruct P as (m' & c' & P1 & P2 & P3); exists m', c'; (split; [exact P1|]; split; [lia|exact P3]). }
  destruct (c =? QCONF_VAR).
  - destruct (rd_in suf (S m) 1%nat T ltac:(lia)) as (d & Rd & _). rewrite Rd. cbn [bind].
    destruct (d =? QCONF_VAR_OPEN); [exists (EInner e suf); split; [reflexivity|exact Here]|apply Next].
  - destruct (c =? QCONF_VAR_OPEN); [apply Next|]. destruct (c =? QCONF_VAR_CLOSE); [|apply Next].
    destruct opened as [|[|o]]; try (exists (EClose e suf); split; [reflexivity|exact Here]). apply Next. Qed.

Section Safe.
Variable env : list N -> option (list N).
Variable cmd : list N -> option (list N).

Lemma find_buf_safe t fuel0 : forall fuel suf n s, term suf n -> (n < fuel)%nat -> (n < fuel0)%nat ->
  exists r, find_buf env cmd fuel fuel0 t suf s = Ok r.
Proof. induction fuel as [|f IH]; intros suf n s T Hf H0; [lia|]. cbn [find_buf].
  destruct (rd_in suf n 0%nat T ltac:(lia)) as (c & Rc & Hc). rewrite Rc. cbn [bind].
  destruct (c =? 0) eqn:E0; [eauto|]. apply N.eqb_neq in E0.
  destruct (term_tl suf n c T Rc E0) as (m & -> & Tm).
  destruct (negb (c =? QCONF_VAR)); [apply (IH (tl suf) m); auto; lia|].
  destruct (rd_in suf (S m) 1%nat T ltac:(lia)) as (d & Rd & _). rewrite Rd. cbn [bind].
  destruct (negb (d =? QCONF_VAR_OPEN)) eqn:Ed; [apply (IH (tl suf) m); auto; lia|].
  assert (Hd0 : d <> 0). { intros ->. vm_compute in Ed. discriminate. }
  assert (Rd' : rd (tl suf) 0 = Ok d). { destruct suf as [|x [|y suf']]; try discriminate. exact Rd. }
  destruct (term_tl (tl suf) m d Tm Rd' Hd0) as (k & -> & Tk).
  destruct (scan_e_safe fuel0 (tl (tl suf)) k (S (S s)) 1%nat Tk ltac:(lia)) as (r & R & P). rewrite R. cbn [bind].
  destruct r as [e at_e|e at_e|]; [| |eauto].
  - destruct (resolve env cmd t (firstn (e - s - 2) (tl (tl suf)))) as [new|]; [eauto|].
    destruct P as (m' & c' & P1 & P2 & P3 & P4). destruct (term_tl at_e m' c' P1 P3 P4) as (k' & -> & Tk'). apply (IH (tl at_e) k'); auto; lia.
  - destruct P as (m' & c' & P1 & P2 & _). apply (IH at_e m'); auto; lia. Qed.

Theorem round_safe t value : exists r, round env cmd t value = Ok r.
Proof. unfold round.
  destruct (find_buf_safe t (S (length value)) (S (length value)) (value ++ [0]) (length value) 0%nat (term_app value)) as (r & R); [lia|lia|].
  rewrite R. cbn [bind]. destruct r as [[[s e] new]|]; eauto. Qed.
Theorem expand_safe rounds : forall t value, exists v, expand env cmd rounds t value = Ok v.
Proof. induction rounds as [|k IH]; intros t value; cbn [expand]; [eauto|].
  destruct (round_safe t value) as (r & R). rewrite R. cbn [bind]. destruct r; eauto. Qed.
(* _parsestr: terminates (at most _MAX_SUBSTITUTIONS substitution rounds, each a bounded scan) and stays inside the value *)
Theorem ini_expand_safe t value : exists v, parsestr env cmd t value = Ok v.
Proof. apply expand_safe. Qed.

Lemma process_safe sep line s : exists s', process env cmd sep line s = Ok s'.
Proof. unfold process.
  assert (G : forall section buf, exists s', (let (name0, value0) := makeword buf sep in
     bind (parsestr env cmd (tb_ s) (trim value0)) (fun nv => Ok {| sect := section;
       tb_ := tb_ s ++ [(match section with Some sc => sc ++ 46 :: trim name0 | None => trim name0 end, nv)] |})) = Ok s').
  { intros section buf. destruct (makeword buf sep) as [n0 v0]. destruct (ini_expand_safe (tb_ s) (trim v0)) as (v & V). rewrite V. cbn [bind]. eauto. }
  destruct ((hd0 (trim line) =? 35) || (hd0 (trim line) =? 0)); [eauto|].
  destruct ((hd0 (trim line) =? 91) && (last (trim line) 0 =? 93)); [|apply G].
  destruct (trim (removelast (tl (trim line)))) eqn:E; [eauto|]. apply G. Qed.
Lemma parse_go_safe sep : forall str cur s, exists s', parse_go env cmd sep str cur s = Ok s'.
Proof. induction str as [|c r IH]; intros cur s; cbn [parse_go]; [apply process_safe|].
  destruct (c =? 10); [|apply IH]. destruct (process_safe sep (rev cur) s) as (s' & P). rewrite P. cbn [bind]. apply IH. Qed.
(* qconfig_parse_str: for every input string and separator a table is delivered *)
Theorem ini_parse_safe sep str : exists t, ini_parse_str env cmd sep str = Ok t.
Proof. unfold ini_parse_str. destruct (parse_go_safe sep str [] {| sect := None; tb_ := [] |}) as (s & P). rewrite P. cbn [bind]. eauto. Qed.

(* why the bound is there: without it (rounds unbounded, every other step as in the model) the expansion of b=${a} after
   a=${a} never ends -- this is what the pinned code did.  [expand_unbounded] is [expand] with fuel instead of the bound. *)
Fixpoint expand_unbounded (fuel : nat) (t : tbl) (value : list N) : res (list N) :=
  match fuel with
  | O => Fuel
  | S k => bind (round env cmd t value) (fun r => match r with None => Ok value | Some v => expand_unbounded k t v end)
  end.
End Safe.
Definition selfref_tbl : tbl := [([97], [36; 123; 97; 125])].          (* a = ${a}  (stored literally: a was not defined yet) *)
Theorem ini_expand_unbounded_refuted env cmd : forall fuel, expand_unbounded env cmd fuel selfref_tbl [36; 123; 97; 125] = Fuel.
Proof. induction fuel as [|k IH]; [reflexivity|]. cbn [expand_unbounded].
  assert (R : round env cmd selfref_tbl [36; 123; 97; 125] = Ok (Some [36; 123; 97; 125])) by (vm_compute; reflexivity).
  rewrite R. cbn [bind]. exact IH. Qed.

