(* Executable model of the Apache-style parser src/extensions/qaconf.c (_parse_inline, the tokenizer, _is_str_number,
   _is_str_bool), following the repaired code (the tokenizer does not look behind the terminator; false booleans are
   accepted and normalised to "0").

   Strings are lists of non-NUL bytes.  The tokenizer exists twice: [aconf_tokenize] on the string (used by the parser model and
   the C20 theorems) and [tk_buf] on the buffer including its terminator, where every read of the C code is a [rd] and a
   read outside the buffer is [Crash] (C17); AconfProofs.v shows they agree.  The C tokenizer builds its words in place
   (memmove over the backslash, NUL over the delimiter); all those writes are at positions it has already read, and it
   never reads a position it has written, so the words are accumulated functionally here.

   fgets() is the pure split [take_line]; the option table, the parser flags and "is a default handler installed" are data;
   the user's callbacks are the section variable [cb], which returns None (ok) or Some message. *)
From Coq Require Import NArith List Bool.
From QV.Base Require Import Res Bytes.
From QV.Gen Require Import Consts.
From QV.Enc Require Import EncModel.
From QV.Conf Require Import IniModel.
Import ListNotations.
Local Open Scope N_scope.

(* ---------------- strcasecmp(a, b) == 0 in the C locale ---------------- *)
Definition lower (c : N) : N := if (65 <=? c) && (c <=? 90) then c + 32 else c.
Definition caseeq (a b : list N) : bool := list_eqb (map lower a) (map lower b).

(* ---------------- _is_str_number: 2 = floating point, 1 = integer, 0 = not a number ---------------- *)
Definition isdigit (c : N) : bool := (48 <=? c) && (c <=? 57).
Fixpoint num_go (l : list N) (atstart dot lastdot : bool) : N :=
  match l with
  | [] => if atstart then 0 else if dot then (if lastdot then 0 else 2) else 1
  | c :: r => if isdigit c then num_go r false dot false
              else if c =? 46 then (if atstart then 0 else if dot then 0 else num_go r false true true)
              else 0
  end.
Definition is_str_number (s : list N) : N :=
  match s with
  | 45 :: r => num_go r true false false
  | _ => num_go s true false false
  end.

(* ---------------- _is_str_bool: Some true / Some false / None (C: 1 / 0 / -1) ---------------- *)
Definition w_true := [116; 114; 117; 101].   Definition w_false := [102; 97; 108; 115; 101].
Definition w_on := [111; 110].               Definition w_off := [111; 102; 102].
Definition w_yes := [121; 101; 115].         Definition w_no := [110; 111].
Definition w_1 := [49].                      Definition w_0 := [48].
Definition is_str_bool (s : list N) : option bool :=
  if caseeq s w_true then Some true else if caseeq s w_on then Some true else
  if caseeq s w_yes then Some true else if caseeq s w_1 then Some true else
  if caseeq s w_false then Some false else if caseeq s w_off then Some false else
  if caseeq s w_no then Some false else if caseeq s w_0 then Some false else None.

(* ---------------- the tokenizer, string level ---------------- *)
Inductive tokres := TokErr | TokOk (argv : list (list N)).
Inductive tst := TSkip | TWord (qt : N) (w : list N).       (* w: the word so far, reversed *)
Definition ws (c : N) : bool := (c =? 32) || (c =? 9).

Fixpoint tk (l : list N) (st : tst) (acc : list (list N)) : tokres :=
  match l with
  | [] => match st with
          | TSkip => TokOk (rev ([] :: acc))                               (* the word loop meets NUL at once: empty word *)
          | TWord qt w => if 0 <? qt then TokErr else TokOk (rev (rev w :: acc))
          end
  | c :: r =>
      let endword (acc' : list (list N)) :=                                 (* *wp2 = 0; wp2++; store; if ( *wp2 == 0) done *)
        match r with [] => TokOk (rev acc') | _ => tk r TSkip acc' end in
      let inword (qt : N) (w : list N) :=
        if c =? 39 then (if qt =? 1 then endword (rev w :: acc) else tk r (TWord qt (c :: w)) acc)
        else if c =? 34 then (if qt =? 2 then endword (rev w :: acc) else tk r (TWord qt (c :: w)) acc)
        else if c =? 92 then
          (if 0 <? qt then
             match r with
             | d :: r' => tk r' (TWord qt (d :: w)) acc                     (* the escaped character is taken literally *)
             | [] => tk r (TWord qt (c :: w)) acc                           (* backslash before the terminator: literal *)
             end
           else tk r (TWord qt (c :: w)) acc)
        else if ws c then (if qt =? 0 then endword (rev w :: acc) else tk r (TWord qt (c :: w)) acc)
        else tk r (TWord qt (c :: w)) acc in
      match st with
      | TSkip => if ws c then tk r TSkip acc
                 else if c =? 39 then tk r (TWord 1 []) acc
                 else if c =? 34 then tk r (TWord 2 []) acc
                 else inword 0 []
      | TWord qt w => inword qt w
      end
  end.
Definition aconf_tokenize (data : list N) : tokres := tk data TSkip [].

(* ---------------- the tokenizer, buffer level: i is the read cursor (wp1 while skipping, wp2 inside a word) ---------------- *)
Fixpoint tk_buf (fuel : nat) (buf : list N) (i : nat) (st : tst) (acc : list (list N)) : res tokres :=
  match fuel with
  | O => Fuel
  | S f =>
    bind (rd buf i) (fun c =>
      if c =? 0 then
        Ok (match st with
            | TSkip => TokOk (rev ([] :: acc))
            | TWord qt w => if 0 <? qt then TokErr else TokOk (rev (rev w :: acc))
            end)
      else
      let endword (acc' : list (list N)) :=
        bind (rd buf (S i)) (fun d => if d =? 0 then Ok (TokOk (rev acc')) else tk_buf f buf (S i) TSkip acc') in
      let inword (qt : N) (w : list N) :=
        if c =? 39 then (if qt =? 1 then endword (rev w :: acc) else tk_buf f buf (S i) (TWord qt (c :: w)) acc)
        else if c =? 34 then (if qt =? 2 then endword (rev w :: acc) else tk_buf f buf (S i) (TWord qt (c :: w)) acc)
        else if c =? 92 then
          (if 0 <? qt then
             bind (rd buf (S i)) (fun d =>
               if d =? 0 then tk_buf f buf (S i) (TWord qt (c :: w)) acc
               else tk_buf f buf (S (S i)) (TWord qt (d :: w)) acc)
           else tk_buf f buf (S i) (TWord qt (c :: w)) acc)
        else if ws c then (if qt =? 0 then endword (rev w :: acc) else tk_buf f buf (S i) (TWord qt (c :: w)) acc)
        else tk_buf f buf (S i) (TWord qt (c :: w)) acc in
      match st with
      | TSkip => if ws c then tk_buf f buf (S i) TSkip acc
                 else if c =? 39 then tk_buf f buf (S i) (TWord 1 []) acc
                 else if c =? 34 then tk_buf f buf (S i) (TWord 2 []) acc
                 else inword 0 []
      | TWord qt w => inword qt w
      end)
  end.

(* ---------------- fgets(buf, MAX_LINESIZE, fp): at most n = MAX_LINESIZE-1 characters, stops after a newline ---------------- *)
Fixpoint take_line (n : nat) (s : list N) : list N * list N :=
  match n, s with
  | O, _ => ([], s)
  | _, [] => ([], [])
  | S n', c :: r => if c =? 10 then ([c], r) else let (a, b) := take_line n' r in (c :: a, b)
  end.

Definition maxline : nat := N.to_nat (QAC_MAX_LINESIZE - 1).

(* ---------------- option table, callback data, errors ---------------- *)
Record opt := { o_name : list N; o_take : N; o_cb : bool; o_sectionid : N; o_sections : N }.
Record cbd := { c_otype : N; c_section : N; c_sections : N; c_level : N; c_argv : list (list N) }.
Record event := { ev_def : bool; ev_data : cbd; ev_parents : list cbd }.
Inductive aerr :=
| EUnclosed (name : list N)            (* <%s> section was not closed. *)
| EBracket (buf : list N)              (* Missing closing bracket. - '%s'. *)
| EQuote                               (* Quotation hasn't properly closed. *)
| EBadClose (name : list N)            (* Trying to close <%s> section that wasn't opened. *)
| EScope (oname : list N)              (* Option '%s' is in wrong section. *)
| EArgc (oname : list N) (numtake : N) (* '%s' option takes %d arguments. *)
| EInt (j : N) (oname : list N)        (* %dth argument of '%s' must be integer type. *)
| EFloat (j : N) (oname : list N)      (* %dth argument of '%s' must be floating point. type *)
| EBool (j : N) (oname : list N)       (* %dth argument of '%s' must be bool type. *)
| ECallback (msg : list N)             (* %s *)
| EUnknown (name : list N).            (* Unregistered option '%s'. *)

Record pst := { p_rest : list N; p_line : N; p_trace : list event }.     (* trace newest first *)
Inductive pres := PDone (count : N) (s : pst) | PErr (line : N) (e : aerr) (s : pst).

Definition argv0 (c : cbd) : list N := hd [] (c_argv c).
Definition bit (x m : N) : bool := negb (N.land x m =? 0).

(* '<' handling: Some (otype, text to aconf_tokenize) or None = missing closing bracket *)
Definition classify (buf : list N) : option (N * list N) :=
  match buf with
  | 60 :: sp =>
      if negb (last buf 0 =? 62) then None else
      match sp with
      | 47 :: sp' => Some (QAC_OTYPE_SECTIONCLOSE, trim_tail (removelast sp'))    (* the bracket is removed, then qstrtrimtail() *)
      | _ => Some (QAC_OTYPE_SECTIONOPEN, trim_tail (removelast sp))
      end
  | _ => Some (QAC_OTYPE_OPTION, buf)
  end.

(* the type checks of arguments j, j+1, ...; only the first MAX_TYPECHECK arguments have individual type bits, the others
   have the default type; bool arguments are rewritten to "1"/"0" *)
Definition argtype (take deft j : N) : N :=
  if QAC_MAX_TYPECHECK <? j then deft
  else if bit take (N.shiftl QAC_A1_INT (j - 1)) then 1
  else if bit take (N.shiftl QAC_A1_FLOAT (j - 1)) then 2
  else if bit take (N.shiftl QAC_A1_BOOL (j - 1)) then 3
  else deft.
Fixpoint check_types (o : opt) (deft : N) (j : N) (args : list (list N)) : aerr + list (list N) :=
  match args with
  | [] => inr []
  | a :: r =>
      let t := argtype (o_take o) deft j in
      let rest (a' : list N) := match check_types o deft (j + 1) r with inl e => inl e | inr r' => inr (a' :: r') end in
      if t =? 1 then (if is_str_number a =? 1 then rest a else inl (EInt j (o_name o)))
      else if t =? 2 then (if is_str_number a =? 0 then inl (EFloat j (o_name o)) else rest a)
      else if t =? 3 then
        match is_str_bool a with
        | Some true => rest w_1
        | Some false => rest w_0
        | None => inl (EBool j (o_name o))
        end
      else rest a
  end.
Definition deftype (take : N) : N :=
  if bit take QAC_AA_INT then 1 else if bit take QAC_AA_FLOAT then 2 else if bit take QAC_AA_BOOL then 3 else 0.

(* section scope, argument count and types of an option or section-open line; returns the (possibly rewritten) argv *)
Definition check_line (o : opt) (sectionid : N) (argv : list (list N)) : aerr + list (list N) :=
  if negb (o_sections o =? QAC_SECTION_ALL) && (N.land (o_sections o) sectionid =? 0) then inl (EScope (o_name o)) else
  let numtake := N.land (o_take o) QAC_TAKEALL in
  if negb (numtake =? QAC_TAKEALL) && negb (numtake =? N.of_nat (length argv) - 1) then inl (EArgc (o_name o) numtake) else
  match argv with
  | [] => inr []
  | a0 :: args =>
      match check_types o (deftype (o_take o)) 1 args with
      | inl e => inl e
      | inr args' => inr (a0 :: args')
      end
  end.

Section Aconf.
Variable cb : bool -> cbd -> list cbd -> option (list N).   (* via default handler?, data, parent chain (innermost first) *)
Variable T : list opt.
Variable flags : N.
Variable defcb : bool.
Variable maxl : nat.                                         (* MAX_LINESIZE - 1 *)

Definition cmpf (a b : list N) : bool := if bit flags QAC_CASEINSENSITIVE then caseeq a b else list_eqb a b.
Definition find_opt (a0 : list N) : option opt := find (fun o => cmpf a0 (o_name o)) T.
Definition addev (s : pst) (line : N) (rest : list N) (e : list event) : pst :=
  {| p_rest := rest; p_line := line; p_trace := e ++ p_trace s |}.

(* what one line does: the body of the while loop after qstrtrim, up to "Section handling" *)
Inductive lact :=
| LSkip                                                  (* blank line or comment: continue *)
| LFail (e : aerr) (evs : list event)                    (* EXITLOOP *)
| LOpen (evs : list event) (me : cbd) (nsid : N)         (* section open: recursive call with section id nsid and parent me *)
| LClose (evs : list event)                              (* section close: doneloop *)
| LNext (evs : list event).                              (* option: next line *)

(* a tokenized line: close-mismatch check, option lookup, checks, callback *)
Definition line_act (otype : N) (argv : list (list N)) (sectionid : N) (parents : list cbd) : lact :=
      let level := match parents with p :: _ => (c_level p + 1) mod 256 | [] => 0 end in
      let sections := match parents with p :: _ => N.lor (c_sections p) sectionid | [] => sectionid end in
          let a0 := hd [] argv in
          let isclose := otype =? QAC_OTYPE_SECTIONCLOSE in
          if isclose && (match parents with [] => true | p :: _ => negb (cmpf a0 (argv0 p)) end)
          then LFail (EBadClose a0) [] else
          (* find matching option; the result is an error or (events, argv as passed on, newsectionid) *)
          let found : aerr * list event + list event * list (list N) * N :=
            match find_opt a0 with
            | Some o =>
                match (if isclose then inr argv else check_line o sectionid argv) with
                | inl e => inl (e, [])
                | inr argv' =>
                    let me := {| c_otype := otype; c_section := sectionid; c_sections := sections; c_level := level; c_argv := argv' |} in
                    let nsid := if otype =? QAC_OTYPE_SECTIONOPEN then o_sectionid o mod 4294967296 else 0 in
                    let via := if o_cb o then Some false else if defcb then Some true else None in
                    match via with
                    | None => inr ([], argv', nsid)
                    | Some d =>
                        let (data, pars) :=
                          if isclose then
                            match parents with
                            | p :: gp => ({| c_otype := QAC_OTYPE_SECTIONCLOSE; c_section := c_section p; c_sections := c_sections p;
                                             c_level := c_level p; c_argv := c_argv p |}, gp)
                            | [] => (me, [])
                            end
                          else (me, parents) in
                        let ev := {| ev_def := d; ev_data := data; ev_parents := pars |} in
                        match cb d data pars with
                        | Some msg => inl (ECallback msg, [ev])
                        | None => inr ([ev], argv', nsid)
                        end
                    end
                end
            | None =>
                let me := {| c_otype := otype; c_section := sectionid; c_sections := sections; c_level := level; c_argv := argv |} in
                if defcb then inr ([{| ev_def := true; ev_data := me; ev_parents := parents |}], argv, 0)
                else if negb (bit flags QAC_IGNOREUNKNOWN) then inl (EUnknown a0, [])
                else inr ([], argv, 0)
            end in
          match found with
          | inl (e, evs) => LFail e evs
          | inr (evs, argv', nsid) =>
              if otype =? QAC_OTYPE_SECTIONOPEN then
                LOpen evs {| c_otype := otype; c_section := sectionid; c_sections := sections; c_level := level; c_argv := argv' |} nsid
              else if isclose then LClose evs
              else LNext evs
          end.

Definition line_step (buf : list N) (sectionid : N) (parents : list cbd) : lact :=
  if (hd0 buf =? 0) || (hd0 buf =? 35) then LSkip else
  match classify buf with
  | None => LFail (EBracket buf) []
  | Some (otype, sp) =>
      match aconf_tokenize sp with
      | TokErr => LFail EQuote []
      | TokOk argv => line_act otype argv sectionid parents
      end
  end.

(* one call of _parse_inline from the top of its while loop: optcount is the loop-carried local (newsectionid is reset for
   every line) *)
Fixpoint pinl (fuel : nat) (s : pst) (sectionid : N) (parents : list cbd) (optcount : N) : res pres :=
  match fuel with
  | O => Fuel
  | S f =>
    match p_rest s with
    | [] =>                                                            (* fgets() == NULL *)
        match parents with
        | p :: _ => Ok (PErr (p_line s) (EUnclosed (argv0 p)) s)
        | [] => Ok (PDone optcount s)
        end
    | _ =>
      let (chunk, rest) := take_line maxl (p_rest s) in
      let line := p_line s + 1 in
      match line_step (trim chunk) sectionid parents with
      | LSkip => pinl f (addev s line rest []) sectionid parents optcount
      | LFail e evs => Ok (PErr line e (addev s line rest evs))
      | LOpen evs me nsid =>
          bind (pinl f (addev s line rest evs) nsid (me :: parents) 0) (fun r =>
            match r with
            | PDone c2 s2 => pinl f s2 sectionid parents (optcount + c2 + 1)
            | PErr l e s2 => Ok (PErr l e s2)
            end)
      | LClose evs => Ok (PDone (optcount + 1) (addev s line rest evs))
      | LNext evs => pinl f (addev s line rest evs) sectionid parents (optcount + 1)
      end
    end
  end.

(* qaconf->parse(): the whole file *)
Definition aconf_parse (file : list N) : res pres :=
  pinl (S (S (length file))) {| p_rest := file; p_line := 0; p_trace := [] |} QAC_SECTION_ROOT [] 0.
End Aconf.
