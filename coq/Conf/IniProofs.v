(* C20, INI-style parser: the parser model applied to the rendered text of a well-formed document yields exactly the
   entries the reference semantics assigns to the document. *)
From Coq Require Import NArith Arith List Bool Lia.
From QV.Base Require Import Res Bytes.
From QV.Gen Require Import Consts.
From QV.Enc Require Import EncModel.
From QV.Conf Require Import IniModel IniSpec.
Import ListNotations.
Local Open Scope N_scope.

(* ---------------- qstrtrim ---------------- *)
Definition blanks (b : list N) : Prop := forallb isblank b = true.
Lemma blank4_isblank c : blank4 c = isblank c. Proof. reflexivity. Qed.
Lemma wsok_blanks b : wsok b = true -> blanks b.
Proof. unfold wsok, blanks. induction b as [|c b IH]; [reflexivity|]. cbn [forallb]. rewrite !andb_true_iff. intros [H1 H2]. split; auto.
  unfold isblank. rewrite !orb_true_iff in *. tauto. Qed.
Lemma wsok_no10 b : wsok b = true -> ~ In 10 b.
Proof. unfold wsok. rewrite forallb_forall. intros H I. specialize (H 10 I). vm_compute in H. discriminate. Qed.
Lemma blanks_app a b : blanks a -> blanks b -> blanks (a ++ b).
Proof. unfold blanks. rewrite forallb_app. intros -> ->. reflexivity. Qed.
Lemma forallb_rev {A} (f : A -> bool) l : forallb f (rev l) = forallb f l.
Proof. induction l as [|a l IH]; [reflexivity|]. cbn [rev forallb]. rewrite forallb_app, IH. cbn [forallb]. rewrite andb_true_r, andb_comm. reflexivity. Qed.
Lemma trim_head_app a b : trim_head (a ++ b) = match trim_head a with [] => trim_head b | y => y ++ b end.
Proof. induction a as [|c a IH]; [reflexivity|]. cbn [app trim_head]. destruct (isblank c); [exact IH|reflexivity]. Qed.
Lemma trim_head_blanks b : blanks b -> trim_head b = [].
Proof. unfold blanks. induction b as [|c b IH]; [reflexivity|]. cbn [forallb trim_head]. rewrite andb_true_iff. intros [-> H]. auto. Qed.
Lemma trim_head_blanks_app b x : blanks b -> trim_head (b ++ x) = trim_head x.
Proof. intros H. rewrite trim_head_app, (trim_head_blanks b H). reflexivity. Qed.
Lemma trim_head_nb c x : isblank c = false -> trim_head (c :: x) = c :: x.
Proof. intros H. cbn [trim_head]. rewrite H. reflexivity. Qed.
Lemma trim_tail_blanks b : blanks b -> trim_tail b = [].
Proof. intros H. unfold trim_tail. rewrite trim_head_blanks; [reflexivity|]. unfold blanks. rewrite forallb_rev. exact H. Qed.
Lemma trim_tail_app_blanks x b : blanks b -> trim_tail (x ++ b) = trim_tail x.
Proof. intros H. unfold trim_tail. rewrite rev_app_distr, trim_head_blanks_app; [reflexivity|]. unfold blanks. rewrite forallb_rev. exact H. Qed.
Lemma trim_tail_mid x c y : isblank c = false -> trim_tail (x ++ c :: y) = x ++ c :: trim_tail y.
Proof. intros H. unfold trim_tail. rewrite rev_app_distr. cbn [rev]. rewrite <- app_assoc. cbn [app]. rewrite trim_head_app.
  destruct (trim_head (rev y)) as [|z zs] eqn:E.
  - rewrite trim_head_nb by exact H. cbn [rev]. rewrite rev_involutive. reflexivity.
  - rewrite rev_app_distr. cbn [rev]. rewrite rev_involutive, <- app_assoc. reflexivity. Qed.
Lemma trim_lead pre c y : blanks pre -> isblank c = false -> trim (pre ++ c :: y) = c :: trim_tail y.
Proof. intros Hp Hc. unfold trim. rewrite trim_head_blanks_app, trim_head_nb by auto. exact (trim_tail_mid [] c y Hc). Qed.
Lemma trim_blanks b : blanks b -> trim b = [].
Proof. intros H. unfold trim. rewrite trim_head_blanks by exact H. reflexivity. Qed.

(* a string in trimmed form between blanks *)
Lemma tfb_cases s : tfb s = true -> s = [] \/ exists c m l, (s = [c] /\ isblank c = false /\ m = [] /\ l = c) \/ (s = c :: m ++ [l] /\ isblank c = false /\ isblank l = false).
Proof. destruct s as [|c s]; [auto|]. intros H. right. unfold tfb in H. rewrite !blank4_isblank, andb_true_iff, !negb_true_iff in H. destruct H as [Hc Hl].
  destruct (@exists_last _ (c :: s)) as (m & l & E); [discriminate|]. rewrite E, last_last in Hl.
  destruct m as [|c' m]; cbn [app] in E; injection E as <- Es.
  - exists c, [], c. left. subst s. auto.
  - exists c, m, l. right. subst s. auto. Qed.
Lemma trim_tail_tf a s : tfb s = true -> s <> [] -> trim_tail (a ++ s) = a ++ s.
Proof. intros T N. destruct (tfb_cases s T) as [->|(c & m & l & [(-> & Hc & _ & _)|(-> & Hc & Hl)])]; [congruence| |].
  - rewrite (trim_tail_mid a c [] Hc). reflexivity.
  - replace (a ++ c :: m ++ [l]) with ((a ++ c :: m) ++ l :: []) by (rewrite <- app_assoc; reflexivity).
    rewrite (trim_tail_mid _ l [] Hl). reflexivity. Qed.
Lemma trim_between a s b : blanks a -> blanks b -> tfb s = true -> trim (a ++ s ++ b) = s.
Proof. intros Ha Hb T. destruct s as [|c s'] eqn:Es.
  - cbn [app]. apply trim_blanks, blanks_app; auto.
  - assert (Hc : isblank c = false). { unfold tfb in T. rewrite blank4_isblank, andb_true_iff, negb_true_iff in T. tauto. }
    cbn [app]. rewrite trim_lead by auto. rewrite trim_tail_app_blanks by auto.
    pose proof (trim_tail_mid [] c s' Hc) as P. cbn [app] in P. rewrite <- P.
    apply (trim_tail_tf [] (c :: s') T). discriminate. Qed.

(* ---------------- _q_makeword ---------------- *)
Lemma makeword_split a sep b : ~ In sep a -> makeword (a ++ sep :: b) sep = (a, b).
Proof. induction a as [|c a IH]; intros H; cbn [app makeword].
  - rewrite N.eqb_refl. reflexivity.
  - destruct (c =? sep) eqn:E; [apply N.eqb_eq in E; subst c; exfalso; apply H; left; reflexivity|].
    rewrite IH; [reflexivity|]. intros I. apply H. right. exact I. Qed.

(* ---------------- the reference search on the value buffer ---------------- *)
Lemma rd0 c r : rd (c :: r) 0 = Ok c. Proof. reflexivity. Qed.
Lemma rd1 c d r : rd (c :: d :: r) 1 = Ok d. Proof. reflexivity. Qed.

Lemma refc_facts c : refc c = true -> (c =? 0) = false /\ (c =? QCONF_VAR) = false /\ (c =? QCONF_VAR_OPEN) = false /\ (c =? QCONF_VAR_CLOSE) = false.
Proof. unfold refc, linec, QCONF_VAR, QCONF_VAR_OPEN, QCONF_VAR_CLOSE. rewrite !andb_true_iff, !negb_true_iff. tauto. Qed.
Lemma nodollar_facts c : (negb (c =? 36) && negb (c =? 0)) = true -> (c =? 0) = false /\ (c =? QCONF_VAR) = false.
Proof. unfold QCONF_VAR. rewrite !andb_true_iff, !negb_true_iff. tauto. Qed.

Lemma scan_e_name rest : forall nm fuel e, forallb refc nm = true -> (length nm < fuel)%nat ->
  scan_e fuel (nm ++ 125 :: rest) e 1 = Ok (EClose (e + length nm) (125 :: rest)).
Proof. induction nm as [|c nm IH]; intros fuel e H Hf; (destruct fuel as [|f]; [simpl in Hf; lia|]); cbn [scan_e app].
  - rewrite rd0. cbn [bind]. replace (e + length (@nil N))%nat with e by (simpl; lia). reflexivity.
  - cbn [forallb] in H. apply andb_true_iff in H as [Hc H]. destruct (refc_facts c Hc) as (E0 & E1 & E2 & E3).
    rewrite rd0. cbn [bind tl]. rewrite E0, E1, E2, E3. rewrite IH by (auto; simpl in Hf; lia). cbn [length]. f_equal. f_equal. lia. Qed.

Definition VO : list N := [36; 123].
Lemma skipn_app_len {A} (a b : list A) : skipn (length a) (a ++ b) = b.
Proof. induction a; [reflexivity|exact IHa]. Qed.
Lemma firstn_app_len {A} (a b : list A) : firstn (length a) (a ++ b) = a.
Proof. induction a; [reflexivity|]. cbn [length app firstn]. f_equal. exact IHa. Qed.
Section Expand.
Variable env : list N -> option (list N).
Variable cmd : list N -> option (list N).

Lemma find_buf_none fuel0 t : forall v fuel s, nodollar v = true -> (length v < fuel)%nat ->
  find_buf env cmd fuel fuel0 t (v ++ [0]) s = Ok None.
Proof. induction v as [|c v IH]; intros fuel s H Hf; (destruct fuel as [|f]; [simpl in Hf; lia|]); cbn [find_buf app].
  - rewrite rd0. reflexivity.
  - unfold nodollar in H. cbn [forallb] in H. apply andb_true_iff in H as [Hc H]. destruct (nodollar_facts c Hc) as (E0 & E1).
    rewrite rd0. cbn [bind tl]. rewrite E0, E1. cbn [negb]. apply IH; [exact H|simpl in Hf; lia]. Qed.

Lemma find_ref fuel0 t nm new rest : forallb refc nm = true -> (length nm < fuel0)%nat -> resolve env cmd t nm = Some new ->
  forall done fuel s, nodollar done = true -> (length done < fuel)%nat ->
  find_buf env cmd fuel fuel0 t (done ++ 36 :: 123 :: nm ++ 125 :: rest) s =
    Ok (Some ((s + length done)%nat, (s + length done + 2 + length nm)%nat, new)).
Proof. intros Hn H0 R. induction done as [|c done IH]; intros fuel s H Hf; (destruct fuel as [|f]; [simpl in Hf; lia|]); cbn [find_buf app].
  - rewrite rd0. cbn [bind]. change (36 =? 0) with false. change (negb (36 =? QCONF_VAR)) with false. cbv iota.
    rewrite rd1. cbn [bind tl]. change (negb (123 =? QCONF_VAR_OPEN)) with false. cbv iota.
    rewrite scan_e_name by auto. cbn [bind].
    replace (S (S s) + length nm - s - 2)%nat with (length nm) by lia. rewrite firstn_app_len, R. cbn [length]. do 3 f_equal. f_equal; lia.
  - unfold nodollar in H. cbn [forallb] in H. apply andb_true_iff in H as [Hc H]. destruct (nodollar_facts c Hc) as (E0 & E1).
    rewrite rd0. cbn [bind tl]. rewrite E0, E1. cbn [negb]. rewrite IH by (auto; simpl in Hf; lia). cbn [length]. do 3 f_equal. f_equal; lia. Qed.

(* one round on a value without references: nothing to do; on  done ${nm} rest : the reference is replaced *)
Lemma round_none t v : nodollar v = true -> round env cmd t v = Ok None.
Proof. intros H. unfold round. rewrite (find_buf_none _ t v _ 0%nat H) by lia. reflexivity. Qed.
Lemma round_ref t done nm new rest : nodollar done = true -> forallb refc nm = true -> resolve env cmd t nm = Some new ->
  round env cmd t (done ++ 36 :: 123 :: nm ++ 125 :: rest) = Ok (Some (done ++ new ++ rest)).
Proof. intros Hd Hn R. unfold round. remember (done ++ 36 :: 123 :: nm ++ 125 :: rest) as value eqn:EV.
  assert (L : length value = (length done + 2 + length nm + 1 + length rest)%nat).
  { subst value. rewrite app_length. cbn [length]. rewrite app_length. cbn [length]. lia. }
  assert (EB : value ++ [0] = done ++ 36 :: 123 :: nm ++ 125 :: (rest ++ [0])).
  { subst value. rewrite <- app_assoc. cbn [app]. rewrite <- app_assoc. reflexivity. }
  rewrite EB.
  rewrite (find_ref (S (length value)) t nm new (rest ++ [0]) Hn ltac:(lia) R done (S (length value)) 0%nat Hd ltac:(lia)). clear EB.
  cbn [bind Nat.add]. f_equal. f_equal. subst value.
  rewrite firstn_app_len. f_equal. f_equal.
  replace (S (length done + 2 + length nm)) with (length done + (3 + length nm))%nat by lia.
  rewrite skipn_app, skipn_all2 by lia. replace (length done + (3 + length nm) - length done)%nat with (3 + length nm)%nat by lia.
  replace (36 :: 123 :: nm ++ 125 :: rest) with ((36 :: 123 :: nm ++ [125]) ++ rest) by (cbn [app]; rewrite <- app_assoc; reflexivity).
  replace (3 + length nm)%nat with (length (36 :: 123 :: nm ++ [125])) by (cbn [length]; rewrite app_length; simpl; lia).
  apply skipn_app_len. Qed.
Lemma expand_nodollar rounds t v : nodollar v = true -> expand env cmd rounds t v = Ok v.
Proof. intros H. destruct rounds; cbn [expand]; [reflexivity|]. rewrite round_none by exact H. reflexivity. Qed.
End Expand.

(* ---------------- the table: getstr finds the last definition ---------------- *)
Lemma list_eqb_beq a : forall b, list_eqb a b = beq a b.
Proof. reflexivity. Qed.
Lemma find_app {A} (f : A -> bool) a b : find f (a ++ b) = match find f a with Some x => Some x | None => find f b end.
Proof. induction a as [|x a IH]; [reflexivity|]. cbn [app find]. destruct (f x); [reflexivity|exact IH]. Qed.
Lemma lookup_last_find t n : lookup_last t n = match find (fun e => beq (fst e) n) (rev t) with Some e => Some (snd e) | None => None end.
Proof. induction t as [|[n0 v0] t IH]; [reflexivity|]. cbn [lookup_last rev]. rewrite find_app, IH.
  destruct (find (fun e => beq (fst e) n) (rev t)); [reflexivity|]. cbn [find fst snd]. rewrite list_eqb_beq. destruct (beq n0 n); reflexivity. Qed.
Lemma lookup_defined es n : existsb (fun e => beq (fst e) n) es = true -> lookup_last es n = Some (value_of es n).
Proof. intros H. rewrite lookup_last_find. unfold value_of. apply existsb_exists in H as (x & I & Hx).
  destruct (find (fun e => beq (fst e) n) (rev es)) eqn:F; [reflexivity|].
  exfalso. apply in_rev in I. pose proof (List.find_none _ _ F x I) as Q. cbv beta in Q. congruence. Qed.

Definition vals_ok (es : entries) : Prop := forall n v, In (n, v) es -> nodollar v = true.
Lemma vals_ok_snoc es n v : vals_ok es -> nodollar v = true -> vals_ok (es ++ [(n, v)]).
Proof. intros H Hv n' v' I. apply in_app_or in I as [I|[I|[]]]; [eauto|]. injection I as <- <-. exact Hv. Qed.
Lemma nodollar_app a b : nodollar (a ++ b) = nodollar a && nodollar b.
Proof. apply forallb_app. Qed.
Lemma value_of_ok es n : vals_ok es -> nodollar (value_of es n) = true.
Proof. intros H. unfold value_of. destruct (find (fun e => beq (fst e) n) (rev es)) as [[n' v']|] eqn:F; [|reflexivity].
  apply find_some in F as [I _]. apply in_rev in I. exact (H n' v' I). Qed.

Section Template.
Variable env : list N -> option (list N).
Variable cmd : list N -> option (list N).
Variable maxsub : N.

Lemma eval_piece_ok es p : vals_ok es -> piece_ok env es p = true -> nodollar (eval_piece env es p) = true.
Proof. intros H P. destruct p as [s|n|n]; cbn [eval_piece piece_ok] in *.
  - unfold lit_ok in P. apply andb_true_iff in P. tauto.
  - apply value_of_ok, H.
  - rewrite !andb_true_iff in P. destruct P as [_ P]. destruct (env n); [exact P|reflexivity]. Qed.
Lemma eval_template_ok es t : vals_ok es -> forallb (piece_ok env es) t = true -> nodollar (eval_template env es t) = true.
Proof. intros H. induction t as [|p t IH]; [reflexivity|]. cbn [forallb]. rewrite andb_true_iff. intros [P Q].
  unfold eval_template. cbn [flat_map]. rewrite nodollar_app, (eval_piece_ok es p H P). apply IH, Q. Qed.

Lemma refc_37 : refc 37 = true. Proof. reflexivity. Qed.

Lemma expand_template es : vals_ok es -> forall ps rounds done, nodollar done = true -> forallb (piece_ok env es) ps = true ->
  (length (filter isref ps) <= rounds)%nat ->
  expand env cmd rounds es (done ++ render_template ps) = Ok (done ++ eval_template env es ps).
Proof. intros Hv. induction ps as [|p ps IH]; intros rounds done Hd Hp Hr.
  - cbn. rewrite app_nil_r. apply expand_nodollar, Hd.
  - cbn [forallb] in Hp. apply andb_true_iff in Hp as [P Q]. unfold render_template, eval_template. cbn [flat_map].
    fold (render_template ps). fold (eval_template env es ps).
    assert (Step : forall nm new, forallb refc nm = true -> resolve env cmd es nm = Some new -> nodollar new = true ->
              isref p = true -> render_piece p = 36 :: 123 :: nm ++ [125] -> eval_piece env es p = new ->
              expand env cmd rounds es (done ++ render_piece p ++ render_template ps) = Ok (done ++ eval_piece env es p ++ eval_template env es ps)).
    { intros nm new Hn R Hnew Hi Er Ee. cbn [filter] in Hr. rewrite Hi in Hr. cbn [length] in Hr.
      destruct rounds as [|k]; [lia|]. cbn [expand]. rewrite Er, Ee.
      replace ((36 :: 123 :: nm ++ [125]) ++ render_template ps) with (36 :: 123 :: nm ++ 125 :: render_template ps)
        by (cbn [app]; rewrite <- app_assoc; reflexivity).
      rewrite (round_ref env cmd es done nm new (render_template ps)) by auto. cbn [bind]. rewrite app_assoc. rewrite IH; [rewrite <- app_assoc; reflexivity| |exact Q|lia].
      rewrite nodollar_app, Hd, Hnew. reflexivity. }
    destruct p as [s|n|n]; cbn [piece_ok] in P.
    + cbn [render_piece eval_piece]. rewrite !app_assoc. apply IH; [|exact Q|exact Hr].
      rewrite nodollar_app, Hd. unfold lit_ok in P. apply andb_true_iff in P. tauto.
    + rewrite !andb_true_iff, !negb_true_iff in P. destruct P as ((((Pn & Pc) & P33) & P37) & Pe).
      apply (Step n (value_of es n)); auto; [|apply value_of_ok, Hv].
      destruct n as [|c n]; [discriminate|]. cbn [hdz] in P33, P37. cbn [resolve].
      unfold QCONF_VAR_CMD, QCONF_VAR_ENV. rewrite P33, P37. apply lookup_defined; auto.
    + rewrite !andb_true_iff, !negb_true_iff in P. destruct P as ((Pn & Pc) & Pe).
      assert (A1 : forallb refc (37 :: n) = true).
      { change (forallb refc (37 :: n)) with (refc 37 && forallb refc n). apply andb_true_iff. split; [reflexivity|exact Pc]. }
      assert (A2 : resolve env cmd es (37 :: n) = Some (match env n with Some v => v | None => [] end)).
      { destruct n as [|c n]; [discriminate|]. reflexivity. }
      assert (A3 : nodollar (match env n with Some v => v | None => [] end) = true).
      { destruct (env n); [exact Pe|reflexivity]. }
      exact (Step _ _ A1 A2 A3 eq_refl eq_refl eq_refl). Qed.
End Template.

(* ---------------- lines ---------------- *)
Definition n10 (l : list N) : bool := forallb (fun c => negb (c =? 10)) l.
Lemma n10_app a b : n10 (a ++ b) = n10 a && n10 b. Proof. apply forallb_app. Qed.
Lemma forallb_imp {A} (f g : A -> bool) l : (forall x, f x = true -> g x = true) -> forallb f l = true -> forallb g l = true.
Proof. intros H. induction l as [|a l IH]; [reflexivity|]. cbn [forallb]. rewrite !andb_true_iff. intros [P Q]. auto. Qed.
Lemma wsok_n10 b : wsok b = true -> n10 b = true.
Proof. apply forallb_imp. intros x. rewrite !orb_true_iff, !N.eqb_eq. intros [[->| ->]| ->]; reflexivity. Qed.
Lemma linec_n10 s : forallb linec s = true -> n10 s = true.
Proof. apply forallb_imp. intros x. unfold linec. rewrite andb_true_iff. tauto. Qed.
Lemma refc_n10 s : forallb refc s = true -> n10 s = true.
Proof. apply forallb_imp. intros x. unfold refc, linec. rewrite !andb_true_iff. tauto. Qed.

Section Lines.
Variable env : list N -> option (list N).
Variable cmd : list N -> option (list N).
Lemma parse_go_line sep : forall line rest cur s, n10 line = true ->
  parse_go env cmd sep (line ++ 10 :: rest) cur s = bind (process env cmd sep (rev cur ++ line) s) (fun s' => parse_go env cmd sep rest [] s').
Proof. induction line as [|c line IH]; intros rest cur s H; cbn [app parse_go].
  - rewrite N.eqb_refl, app_nil_r. reflexivity.
  - cbn [n10 forallb] in H. apply andb_true_iff in H as [Hc H]. apply negb_true_iff in Hc. rewrite Hc.
    rewrite IH by exact H. cbn [rev]. rewrite <- app_assoc. reflexivity. Qed.
Lemma parse_go_end sep : forall line cur s, n10 line = true ->
  parse_go env cmd sep line cur s = process env cmd sep (rev cur ++ line) s.
Proof. induction line as [|c line IH]; intros cur s H; cbn [parse_go].
  - rewrite app_nil_r. reflexivity.
  - cbn [n10 forallb] in H. apply andb_true_iff in H as [Hc H]. apply negb_true_iff in Hc. rewrite Hc.
    rewrite IH by exact H. cbn [rev]. rewrite <- app_assoc. reflexivity. Qed.
End Lines.

(* ---------------- one line of a well-formed document ---------------- *)
Section Items.
Variable env : list N -> option (list N).
Variable cmd : list N -> option (list N).
Notation maxsub := QCONF_MAX_SUBSTITUTIONS.

Lemma isblank_sep sep : sep_ok sep = true -> isblank sep = false /\ (sep =? 0) = false /\ (sep =? 35) = false /\ (sep =? 91) = false.
Proof. unfold sep_ok. rewrite blank4_isblank, !andb_true_iff, !negb_true_iff. tauto. Qed.

Lemma process_comment sep pre text s : wsok pre = true -> process env cmd sep (pre ++ 35 :: text) s = Ok s.
Proof. intros Hp. unfold process. rewrite (trim_lead pre 35 text (wsok_blanks _ Hp) eq_refl). reflexivity. Qed.
Lemma process_blank sep pre s : wsok pre = true -> process env cmd sep pre s = Ok s.
Proof. intros Hp. unfold process. rewrite (trim_blanks pre (wsok_blanks _ Hp)). reflexivity. Qed.

Lemma trim_section pre m1 name m2 post : wsok pre = true -> wsok post = true ->
  trim (pre ++ 91 :: m1 ++ name ++ m2 ++ 93 :: post) = 91 :: (m1 ++ name ++ m2) ++ [93].
Proof. intros Hp Hq. rewrite (trim_lead pre 91 _ (wsok_blanks _ Hp) eq_refl). f_equal.
  replace (m1 ++ name ++ m2 ++ 93 :: post) with ((m1 ++ name ++ m2) ++ 93 :: post) by (rewrite <- !app_assoc; reflexivity).
  rewrite (trim_tail_mid _ 93 post eq_refl), (trim_tail_blanks post (wsok_blanks _ Hq)). reflexivity. Qed.

Lemma process_section sep l name section es : sep_ok sep = true -> lay_ok l = true -> sect_ok name = true ->
  process env cmd sep (render_item sep (ISection name, l)) {| sect := section; tb_ := es |} =
  Ok (match name with
      | [] => {| sect := None; tb_ := es |}
      | _ => {| sect := Some name; tb_ := es ++ [(name ++ [46], name)] |}
      end).
Proof. intros Hs Hl Hn. unfold lay_ok in Hl. rewrite !andb_true_iff in Hl. destruct Hl as (((Hp & H1) & H2) & Hq).
  unfold sect_ok in Hn. apply andb_true_iff in Hn as [Hlit Htf]. unfold lit_ok in Hlit. apply andb_true_iff in Hlit as [_ Hnd].
  cbn [render_item]. unfold process. rewrite trim_section by auto.
  change (hd0 (91 :: (l_mid1 l ++ name ++ l_mid2 l) ++ [93])) with 91.
  change ((91 =? 35) || (91 =? 0)) with false. cbv iota.
  change (91 :: (l_mid1 l ++ name ++ l_mid2 l) ++ [93]) with ((91 :: l_mid1 l ++ name ++ l_mid2 l) ++ [93]) at 1.
  rewrite last_last. change ((91 =? 91) && (93 =? 93)) with true. cbv iota.
  cbn [tl]. rewrite removelast_last.
  rewrite (trim_between _ name _ (wsok_blanks _ H1) (wsok_blanks _ H2) Htf).
  destruct name as [|c name']; [reflexivity|]. set (name := c :: name') in *.
  cbv zeta. pose proof (makeword_split [] sep name (fun x => x)) as M. cbn [app] in M. rewrite M. cbv iota beta.
  assert (Tn : trim name = name). { pose proof (trim_between [] name [] eq_refl eq_refl Htf) as T. cbn [app] in T. rewrite app_nil_r in T. exact T. }
  rewrite Tn. unfold parsestr. rewrite expand_nodollar by exact Hnd. cbn [bind tb_].
  change (trim []) with (@nil N). reflexivity. Qed.

Lemma name_ok_facts sep name : name_ok sep name = true ->
  ~ In sep name /\ tfb name = true /\ (hdz name =? 35) = false /\ (hdz name =? 91) = false /\ n10 name = true /\ forallb (fun c => negb (c =? 0)) name = true.
Proof. unfold name_ok. rewrite !andb_true_iff, !negb_true_iff. intros (((Hc & Ht) & H35) & H91). repeat split; auto.
  - intros I. rewrite forallb_forall in Hc. specialize (Hc sep I). rewrite N.eqb_refl, andb_false_r in Hc. discriminate.
  - revert Hc. apply forallb_imp. intros x. unfold linec. rewrite !andb_true_iff. tauto.
  - revert Hc. apply forallb_imp. intros x. unfold linec. rewrite !andb_true_iff. tauto. Qed.

Lemma trim_tail_value m2 tt post : wsok m2 = true -> wsok post = true -> tfb tt = true -> trim (trim_tail (m2 ++ tt ++ post)) = tt.
Proof. intros H2 Hq T. rewrite app_assoc, (trim_tail_app_blanks _ post (wsok_blanks _ Hq)).
  destruct tt as [|c tt'] eqn:E.
  - rewrite app_nil_r, (trim_tail_blanks m2 (wsok_blanks _ H2)). reflexivity.
  - rewrite <- E in *. rewrite (trim_tail_tf m2 tt T) by (subst tt; discriminate).
    pose proof (trim_between m2 tt [] (wsok_blanks _ H2) eq_refl T) as P. rewrite app_nil_r in P. exact P. Qed.

Lemma process_entry sep l name t section es : sep_ok sep = true -> vals_ok es -> lay_ok l = true -> name_ok sep name = true ->
  tmpl_ok env maxsub es t = true ->
  process env cmd sep (render_item sep (IEntry name t, l)) {| sect := section; tb_ := es |} =
  Ok {| sect := section; tb_ := es ++ [(match section with Some s => s ++ 46 :: name | None => name end, eval_template env es t)] |}.
Proof. intros Hs Hv Hl Hn Ht. unfold lay_ok in Hl. rewrite !andb_true_iff in Hl. destruct Hl as (((Hp & H1) & H2) & Hq).
  destruct (isblank_sep sep Hs) as (Sb & S0 & S35 & S91). destruct (name_ok_facts sep name Hn) as (Nsep & Ntf & N35 & N91 & _ & Nz).
  unfold tmpl_ok in Ht. rewrite !andb_true_iff in Ht. destruct Ht as ((Tp & Ttf) & Tn).
  set (tt := render_template t) in *. set (V := l_mid2 l ++ tt ++ l_post l).
  (* the trimmed line is  A ++ sep :: trim_tail V  with A = name ++ mid1 (or empty) *)
  assert (EB : exists A, trim (render_item sep (IEntry name t, l)) = A ++ sep :: trim_tail V /\ ~ In sep A /\ trim A = name /\
             (hd0 (A ++ [sep]) =? 35) = false /\ (hd0 (A ++ [sep]) =? 0) = false /\ (hd0 (A ++ [sep]) =? 91) = false).
  { cbn [render_item]. fold tt. destruct name as [|c name'] eqn:En.
    - exists []. cbn [app]. rewrite app_assoc. rewrite trim_lead; [|apply blanks_app; apply wsok_blanks; auto|exact Sb].
      cbn [hd0]. repeat split; auto.
    - exists (name ++ l_mid1 l). rewrite <- En in *.
      assert (Hc : isblank c = false). { subst name. unfold tfb in Ntf. rewrite blank4_isblank, andb_true_iff, negb_true_iff in Ntf. tauto. }
      split; [|split; [|split]].
      + subst name. cbn [app]. rewrite trim_lead by (auto using wsok_blanks). fold V.
        replace (name' ++ l_mid1 l ++ sep :: V) with ((name' ++ l_mid1 l) ++ sep :: V) by (rewrite <- app_assoc; reflexivity).
        rewrite (trim_tail_mid _ sep V Sb). rewrite <- app_assoc. reflexivity.
      + intros I. apply in_app_or in I as [I|I]; [auto|]. apply wsok_blanks in H1. unfold blanks in H1. rewrite forallb_forall in H1.
        specialize (H1 sep I). congruence.
      + pose proof (trim_between [] name (l_mid1 l) eq_refl (wsok_blanks _ H1) Ntf) as P. exact P.
      + subst name. cbn [app hd0]. cbn [hdz] in N35, N91. cbn [forallb] in Nz. apply andb_true_iff in Nz as [Nz _]. apply negb_true_iff in Nz. auto. }
  destruct EB as (A & EB & HA & TA & B35 & B0 & B91).
  assert (Hh : forall X, hd0 (A ++ sep :: X) = hd0 (A ++ [sep])). { intros X. destruct A; reflexivity. }
  unfold process. rewrite EB, Hh, B35, B0, B91. cbn [orb andb]. cbv iota zeta.
  rewrite (makeword_split A sep _ HA). cbv iota beta. rewrite TA.
  unfold V. rewrite (trim_tail_value _ tt _ H2 Hq Ttf). unfold parsestr. cbn [tb_ sect].
  pose proof (expand_template env cmd es Hv t (N.to_nat maxsub) [] eq_refl Tp) as E. cbn [app] in E. fold tt in E.
  rewrite E; [reflexivity|]. apply N.leb_le in Tn. lia. Qed.
End Items.

(* ---------------- the whole document ---------------- *)
Section Doc.
Variable env : list N -> option (list N).
Variable cmd : list N -> option (list N).
Notation maxsub := QCONF_MAX_SUBSTITUTIONS.

Lemma tmpl_n10 es t : forallb (piece_ok env es) t = true -> n10 (render_template t) = true.
Proof. induction t as [|p t IH]; [reflexivity|]. cbn [forallb]. rewrite andb_true_iff. intros [P Q].
  unfold render_template. cbn [flat_map]. rewrite n10_app. fold (render_template t). rewrite (IH Q), andb_true_r.
  destruct p as [s|n|n]; cbn [piece_ok render_piece] in *.
  - unfold lit_ok in P. apply andb_true_iff in P as [P _]. apply linec_n10, P.
  - rewrite !andb_true_iff in P. destruct P as ((((_ & Pc) & _) & _) & _). cbn [n10 forallb]. change (n10 (n ++ [125]) = true). rewrite n10_app, (refc_n10 _ Pc). reflexivity.
  - rewrite !andb_true_iff in P. destruct P as ((_ & Pc) & _). cbn [n10 forallb]. change (n10 (n ++ [125]) = true). rewrite n10_app, (refc_n10 _ Pc). reflexivity. Qed.

(* the first item of a well-formed document: its line has no newline and [process] performs the step of the reference semantics *)
Lemma item_step sep il r section es : sep_ok sep = true -> vals_ok es -> wf_go env maxsub sep (il :: r) section es = true ->
  exists section' es', n10 (render_item sep il) = true /\
    process env cmd sep (render_item sep il) {| sect := section; tb_ := es |} = Ok {| sect := section'; tb_ := es' |} /\
    vals_ok es' /\ wf_go env maxsub sep r section' es' = true /\ eval_go env (il :: r) section es = eval_go env r section' es'.
Proof. intros Hs Hv W. destruct il as [[text| |name|name t] l]; cbn [wf_go] in W.
  - rewrite !andb_true_iff in W. destruct W as ((Hl & Ht) & W). exists section, es. unfold lay_ok in Hl. rewrite !andb_true_iff in Hl.
    destruct Hl as (((Hp & _) & _) & _). split; [|split; [apply process_comment, Hp|auto]].
    cbn [render_item]. rewrite n10_app, (wsok_n10 _ Hp). cbn [n10 forallb andb negb]. apply linec_n10, Ht.
  - rewrite !andb_true_iff in W. destruct W as (Hl & W). exists section, es. unfold lay_ok in Hl. rewrite !andb_true_iff in Hl.
    destruct Hl as (((Hp & _) & _) & _). split; [|split; [apply process_blank, Hp|auto]]. cbn [render_item]. apply wsok_n10, Hp.
  - assert (Hl : lay_ok l = true) by (destruct name; rewrite !andb_true_iff in W; tauto).
    assert (Hn : sect_ok name = true) by (destruct name; [reflexivity|rewrite !andb_true_iff in W; tauto]).
    assert (L10 : n10 (render_item sep (ISection name, l)) = true).
    { pose proof Hl as Hl'. unfold lay_ok in Hl'. rewrite !andb_true_iff in Hl'. destruct Hl' as (((Hp & H1) & H2) & Hq).
      unfold sect_ok, lit_ok in Hn. rewrite !andb_true_iff in Hn. destruct Hn as ((Hn & _) & _).
      cbn [render_item]. rewrite n10_app. cbn [n10 forallb]. change (negb (91 =? 10)) with true. cbn [andb].
      fold (n10 (l_mid1 l ++ name ++ l_mid2 l ++ 93 :: l_post l)). rewrite !n10_app. cbn [n10 forallb]. change (negb (93 =? 10)) with true. cbn [andb].
      fold (n10 (l_post l)). fold (n10 (l_pre l)).
      rewrite (wsok_n10 _ Hp), (wsok_n10 _ H1), (wsok_n10 _ H2), (wsok_n10 _ Hq), (linec_n10 _ Hn). reflexivity. }
    destruct name as [|c name'].
    + rewrite !andb_true_iff in W. destruct W as (_ & W). exists None, es. split; [exact L10|]. split; [apply (process_section env cmd sep l [] section es Hs Hl Hn)|auto].
    + rewrite !andb_true_iff in W. destruct W as ((_ & _) & W). set (name := c :: name') in *.
      exists (Some name), (es ++ [(name ++ [46], name)]). split; [exact L10|]. split; [apply (process_section env cmd sep l name section es Hs Hl Hn)|].
      split; [|split; [exact W|reflexivity]]. apply vals_ok_snoc; [exact Hv|]. unfold sect_ok, lit_ok in Hn. rewrite !andb_true_iff in Hn. tauto.
  - rewrite !andb_true_iff in W. destruct W as (((Hl & Hn) & Ht) & W).
    exists section, (es ++ [(match section with Some s => s ++ 46 :: name | None => name end, eval_template env es t)]).
    split; [|split; [apply process_entry; auto|]].
    + pose proof Hl as Hl'. unfold lay_ok in Hl'. rewrite !andb_true_iff in Hl'. destruct Hl' as (((Hp & H1) & H2) & Hq).
      destruct (name_ok_facts env cmd sep name Hn) as (_ & _ & _ & _ & N10 & _). destruct (isblank_sep sep Hs) as (Sb & _).
      unfold tmpl_ok in Ht. rewrite !andb_true_iff in Ht. destruct Ht as ((Tp & _) & _).
      cbn [render_item]. rewrite !n10_app. cbn [n10 forallb]. fold (n10 (l_mid2 l ++ render_template t ++ l_post l)). rewrite !n10_app.
      fold (n10 (l_pre l)). fold (n10 name). fold (n10 (l_mid1 l)).
      rewrite (wsok_n10 _ Hp), (wsok_n10 _ H1), (wsok_n10 _ H2), (wsok_n10 _ Hq), N10, (tmpl_n10 es t Tp).
      assert (sep =? 10 = false) as ->. { destruct (sep =? 10) eqn:E; [|reflexivity]. apply N.eqb_eq in E. subst sep. discriminate. }
      reflexivity.
    + split; [|split; [exact W|reflexivity]]. apply vals_ok_snoc; [exact Hv|].
      unfold tmpl_ok in Ht. rewrite !andb_true_iff in Ht. destruct Ht as ((Tp & _) & _). apply eval_template_ok; auto. Qed.

Lemma parse_doc sep fnl : sep_ok sep = true -> forall d section es, vals_ok es -> wf_go env maxsub sep d section es = true ->
  exists section', parse_go env cmd sep (ini_render sep fnl d) [] {| sect := section; tb_ := es |} = Ok {| sect := section'; tb_ := eval_go env d section es |}.
Proof. intros Hs. induction d as [|il d IH]; intros section es Hv W.
  - exists section. cbn [ini_render parse_go rev]. apply (process_blank env cmd sep [] _ eq_refl).
  - destruct (item_step sep il d section es Hs Hv W) as (section' & es' & L & P & Hv' & W' & E). rewrite E.
    destruct (IH section' es' Hv' W') as (section'' & IHd). exists section''.
    destruct d as [|il2 d].
    + cbn [ini_render]. destruct fnl.
      * rewrite parse_go_line by exact L. cbn [rev app]. rewrite P. cbn [bind]. cbn [ini_render] in IHd. exact IHd.
      * rewrite app_nil_r, parse_go_end by exact L. cbn [rev app]. rewrite P. cbn [eval_go] in *. cbn [ini_render parse_go rev] in IHd.
        rewrite (process_blank env cmd sep [] _ eq_refl) in IHd. exact IHd.
    + change (ini_render sep fnl (il :: il2 :: d)) with (render_item sep il ++ 10 :: ini_render sep fnl (il2 :: d)).
      rewrite parse_go_line by exact L. cbn [rev app]. rewrite P. cbn [bind]. exact IHd. Qed.

(* C20, INI half: parsing the text of a well-formed document yields exactly the entries the document denotes *)
Theorem ini_roundtrip sep fnl d : ini_wf env maxsub sep d = true ->
  ini_parse_str env cmd sep (ini_render sep fnl d) = Ok (ini_eval env d).
Proof. unfold ini_wf. rewrite andb_true_iff. intros [Hs W]. unfold ini_parse_str, ini_eval.
  destruct (parse_doc sep fnl Hs d None [] (fun n v I => match I with end) W) as (s' & P). rewrite P. reflexivity. Qed.
End Doc.
