(* C11 - containers are memory-safe and leak-free for every operation history: the part a theorem can carry, the allocation ledger.
   For every container, every constructor outcome, EVERY history of operations (with any pattern of failing allocations) and the
   destructor: each free names a live block the container owns (never twice, never a block of the caller, never a block handed out),
   each copy writes into / reads from live owned blocks, and after the destructor nothing the container allocated is left.
   Raw memory effects outside the ledger (index arithmetic, byte ranges of the copies, overlap) are observed by the wrapped and the
   sanitizer builds of harness/h_api.c in checks/c11.py - searching for failing inputs, never the verdict; the static hash table's
   "never outside the user's region" is Properties_C07 (C07_indices_in_table) plus the guard pages of that check. *)
From Coq Require Import List NArith Bool.
From QV.Alloc Require Import Ledger Scripts LedgerTac ScriptProofs Theorems Instances.
Import ListNotations.
Open Scope N_scope.

(* --- every single call, any oracle: legal events, and owned = summary afterwards --- *)
Theorem C11_tree_safe : forall Sz g o al l, Inv (gblocks g) l ->
  safe l (evs (tree_step Sz g o (nxt l) al)) /\ Inv (gblocks (st' (tree_step Sz g o (nxt l) al))) (run l (evs (tree_step Sz g o (nxt l) al))).
Proof. exact tree_valid_thm. Qed.
Theorem C11_hashtbl_safe : forall Sz g o al l, Inv (gblocks g) l ->
  safe l (evs (hash_step Sz g o (nxt l) al)) /\ Inv (gblocks (st' (hash_step Sz g o (nxt l) al))) (run l (evs (hash_step Sz g o (nxt l) al))).
Proof. exact hashtbl_valid_thm. Qed.
Theorem C11_listtbl_safe : forall Sz g o al l, Inv (gblocks g) l ->
  safe l (evs (ltbl_step Sz g o (nxt l) al)) /\ Inv (gblocks (st' (ltbl_step Sz g o (nxt l) al))) (run l (evs (ltbl_step Sz g o (nxt l) al))).
Proof. exact listtbl_valid_thm. Qed.
Theorem C11_list_safe : forall Sz g o al l, Inv (gblocks g) l ->
  safe l (evs (list_step Sz g o (nxt l) al)) /\ Inv (gblocks (st' (list_step Sz g o (nxt l) al))) (run l (evs (list_step Sz g o (nxt l) al))).
Proof. exact list_valid_thm. Qed.
Theorem C11_hasharr_safe : forall g o al l, Inv (gblocks g) l ->
  safe l (evs (harr_step g o (nxt l) al)) /\ Inv (gblocks (st' (harr_step g o (nxt l) al))) (run l (evs (harr_step g o (nxt l) al))).
Proof. exact hasharr_valid_thm. Qed.
Theorem C11_vector_safe : forall v o al l, Inv (vblocks v) l ->
  safe l (evs (vec_step v o (nxt l) al)) /\ Inv (vblocks (st' (vec_step v o (nxt l) al))) (run l (evs (vec_step v o (nxt l) al))).
Proof. exact vector_valid_thm. Qed.

(* --- whole life (life_ok, Alloc/Theorems.v): constructor with any oracle; if it succeeds, for EVERY history h of (operation, oracle) pairs
       all event lists are legal, the destructor's events are legal, and afterwards no block is owned --- *)
Theorem C11_tree_no_leak : forall Sz ts al, life_ok (tree_step Sz) script_free (script_ctor (s_tree Sz) (s_mutex Sz) ts 1 al).
Proof. exact tree_life. Qed.
Theorem C11_hashtbl_no_leak : forall Sz range ts al, life_ok (hash_step Sz) script_free (script_qhashtbl Sz range ts 1 al).
Proof. exact hash_life. Qed.
Theorem C11_listtbl_no_leak : forall Sz ts al, life_ok (ltbl_step Sz) script_free (script_ctor (s_ltbl Sz) (s_mutex Sz) ts 1 al).
Proof. exact ltbl_life. Qed.
Theorem C11_list_no_leak : forall Sz ts al, life_ok (list_step Sz) script_free (script_ctor (s_list Sz) (s_mutex Sz) ts 1 al).
Proof. exact list_life. Qed.
(* queue, stack, grow buffer: outer struct + list *)
Theorem C11_wrappers_no_leak : forall Sz osz ts al, life_ok (list_step Sz) script_free (script_wrapper osz Sz ts 1 al).
Proof. exact wrapper_life. Qed.
Theorem C11_hasharr_no_leak : forall Sz al, life_ok harr_step script_free (script_qhasharr Sz 1 al).
Proof. exact harr_life. Qed.
Theorem C11_vector_no_leak : forall Sz max osz ts pol al, life_ok vec_step script_vec_free (script_qvector Sz max osz ts pol 1 al).
Proof. exact vec_life. Qed.

(* --- ledger facts the above rest on --- *)
(* once a block is dead (freed, or moved by realloc) no later legal event frees, returns, writes or reads it: no double free, no use after free *)
Theorem C11_dead_stays_dead : forall evs l b, wf l -> own l b = false -> b < nxt l -> safe l evs ->
  (forall e, In e evs -> e = Free b \/ e = Return b \/ (exists s, e = Copy b s) \/ (exists d, e = Copy d (SBlk b)) -> False) /\ own (run l evs) b = false.
Proof. exact dead_stays_dead. Qed.
(* whatever a container owns after a call and did not own before was allocated inside that call (it never adopts caller memory) *)
Theorem C11_tree_owns_only_own_allocations : forall Sz s o al l b, Inv (gblocks s) l -> In b (gblocks (st' (tree_step Sz s o (nxt l) al))) -> ~ In b (gblocks s) -> In b (allocs (evs (tree_step Sz s o (nxt l) al))).
Proof. exact tree_owns. Qed.
Theorem C11_hashtbl_owns_only_own_allocations : forall Sz s o al l b, Inv (gblocks s) l -> In b (gblocks (st' (hash_step Sz s o (nxt l) al))) -> ~ In b (gblocks s) -> In b (allocs (evs (hash_step Sz s o (nxt l) al))).
Proof. exact hash_owns. Qed.
Theorem C11_listtbl_owns_only_own_allocations : forall Sz s o al l b, Inv (gblocks s) l -> In b (gblocks (st' (ltbl_step Sz s o (nxt l) al))) -> ~ In b (gblocks s) -> In b (allocs (evs (ltbl_step Sz s o (nxt l) al))).
Proof. exact ltbl_owns. Qed.
Theorem C11_list_owns_only_own_allocations : forall Sz s o al l b, Inv (gblocks s) l -> In b (gblocks (st' (list_step Sz s o (nxt l) al))) -> ~ In b (gblocks s) -> In b (allocs (evs (list_step Sz s o (nxt l) al))).
Proof. exact list_owns. Qed.
Theorem C11_vector_owns_only_own_allocations : forall s o al l b, Inv (vblocks s) l -> In b (vblocks (st' (vec_step s o (nxt l) al))) -> ~ In b (vblocks s) -> In b (allocs (evs (vec_step s o (nxt l) al))).
Proof. exact vec_owns. Qed.
(* the boolean checker the extracted driver runs on every predicted event list decides safe *)
Theorem C11_safeb_iff : forall evs l, safeb l evs = true <-> safe l evs.
Proof. exact safeb_iff. Qed.

(* --- non-vacuity: a life with a failing allocation in the middle and a removal that moves the successor's buffers --- *)
Example C11_ex_life :
  let c := script_ctor 200 56 true 1 allok in
  match st' c with
  | Some g0 =>
    let h := [(TPut 7 2 3, allok); (TPut 9 2 0, allok); (TPut 8 2 5, fail_at 2); (TPut 8 2 5, allok); (TGet 7, fail_at 0); (TRemove 7 (Some 8), allok); (TNext 9, allok)] in
    let g := fst (hrun (tree_step sz64) g0 (run ledger0 (evs c)) h) in let l := snd (hrun (tree_step sz64) g0 (run ledger0 (evs c)) h) in
    List.length (els g) = 2%nat /\ safeb (run ledger0 (evs c)) (hevents (tree_step sz64) g0 (run ledger0 (evs c)) h) = true /\
    map (own (run l (evs (script_free g)))) [1; 2; 3; 4; 5; 6; 7; 8; 9; 10; 11; 12; 13; 14; 15; 16] = repeat false 16
  | None => False
  end.
Proof. vm_compute. repeat split. Qed.
(* the ledger rejects what the property forbids *)
Example C11_ex_double_free_rejected : safeb (run ledger0 [Alloc 1 TData 4]) [Free 1; Free 1] = false. Proof. reflexivity. Qed.
Example C11_ex_use_after_free_rejected : safeb (run ledger0 [Alloc 1 TData 4; Alloc 2 TData 4]) [Free 1; Copy 2 (SBlk 1)] = false. Proof. reflexivity. Qed.
Example C11_ex_free_of_returned_rejected : safeb (run ledger0 [Alloc 1 TRet 4]) [Return 1; Free 1] = false. Proof. reflexivity. Qed.
Example C11_ex_leak_detected : own (run ledger0 [Alloc 1 THandle 8; Alloc 2 TData 4; Free 1]) 2 = true. Proof. reflexivity. Qed.


(* --- the formatted methods putstrf / addstrf (DYNAMIC_VSPRINTF) are operations of the step functions (TPutf, HPutf, LPutf, SAddf, APutf):
       C11_*_safe and C11_*_no_leak above quantify over every op of every history and so include them.  A life with formatted puts of 10, 1024
       and 2500 characters, failing in the growth step, in the put and not at all: --- *)
Example C11_ex_life_with_putstrf :
  let c := script_qhashtbl sz64 3 false 1 allok in
  match st' c with
  | Some g0 =>
    let h := [(HPutf 7 4 10, allok); (HPutf 8 4 1024, fail_at 1); (HPutf 8 4 1024, fail_at 3); (HPutf 8 4 2500, allok); (HPutf 7 4 5000, fail_at 2); (HPutf 7 4 1023, allok); (HGet 8, allok)] in
    let g := fst (hrun (hash_step sz64) g0 (run ledger0 (evs c)) h) in let l := snd (hrun (hash_step sz64) g0 (run ledger0 (evs c)) h) in
    List.length (els g) = 2%nat /\ safeb (run ledger0 (evs c)) (hevents (hash_step sz64) g0 (run ledger0 (evs c)) h) = true /\
    map (own (run l (evs (script_free g)))) [1; 2; 3; 4; 5; 6; 7; 8; 9; 10; 11; 12; 13; 14; 15; 16; 17; 18; 19; 20; 21; 22; 23; 24] = repeat false 24
  | None => False
  end.
Proof. vm_compute. repeat split. Qed.
Theorem C11_vsprintf_safe : forall fuel len size al k bs l, Inv bs l ->
  let r := vs_loop fuel len size al k (nxt l) in
  safe l (fst (fst (fst r))) /\ Inv (olist (snd (fst (fst r))) ++ bs) (run l (fst (fst (fst r)))).
Proof. exact vsprintf_valid_thm. Qed.

Print Assumptions C11_tree_safe. Print Assumptions C11_hashtbl_safe. Print Assumptions C11_listtbl_safe. Print Assumptions C11_list_safe.
Print Assumptions C11_hasharr_safe. Print Assumptions C11_vector_safe.
Print Assumptions C11_tree_no_leak. Print Assumptions C11_hashtbl_no_leak. Print Assumptions C11_listtbl_no_leak. Print Assumptions C11_list_no_leak.
Print Assumptions C11_wrappers_no_leak. Print Assumptions C11_hasharr_no_leak. Print Assumptions C11_vector_no_leak.
Print Assumptions C11_dead_stays_dead. Print Assumptions C11_tree_owns_only_own_allocations. Print Assumptions C11_hashtbl_owns_only_own_allocations.
Print Assumptions C11_listtbl_owns_only_own_allocations. Print Assumptions C11_list_owns_only_own_allocations. Print Assumptions C11_vector_owns_only_own_allocations.
Print Assumptions C11_safeb_iff.
Print Assumptions C11_vsprintf_safe.
