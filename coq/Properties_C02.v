(* C02 — the tree table stays a valid left-leaning red-black search tree; lookups are logarithmic. *)
From Coq Require Import NArith List Bool Arith.
From QV.Base Require Import Res.
From QV.Gen Require Import Consts.
From QV.Tree Require Import TreeModel TreeLlrb QTree TreeSpec QTreeProofs TreeIter.
Import ListNotations.

Theorem C02_variant : LLRB234 = true.
Proof. reflexivity. Qed.

Section C02.
Variable kcmp : list N -> list N -> comparison.
Hypothesis kcmp_trans : forall a b c, kcmp a b = Lt -> kcmp b c = Lt -> kcmp a c = Lt.
Hypothesis kcmp_antisym : forall a b, kcmp a b = CompOpp (kcmp b a).
Hypothesis kcmp_eq_l : forall a b c, kcmp a b = Eq -> kcmp a c = kcmp b c.

(* the invariant: black root, a valid red-black structure of some black height (no red node with a red child, equal
   black height on all paths, a red right child only beside a red left child), keys strictly ascending in order *)
Definition LLRB (s : tbl) : Prop := llrb node (ncmp kcmp) (root s).

(* after every operation of every history, including failed removals and replacements *)
Theorem C02_invariant : forall os, forallb is_map_op os = true ->
  exists s obs, run kcmp init os = Ok (s, obs) /\ LLRB s /\ check_model (root s) = 0.
Proof. intros os H. destruct (run_map_refines kcmp kcmp_trans kcmp_antisym kcmp_eq_l os init false (Inv_init kcmp) H) as (s & obs & d & E & HI & _).
  exists s, obs. split; [exact E|]. split; [apply HI|]. apply (inv_check kcmp). exact HI. Qed.
(* ... and for histories with walks and nearest-key searches interleaved *)
Theorem C02_invariant_any_history : forall os,
  exists s obs, run kcmp init os = Ok (s, obs) /\ LLRB s /\ check_model (root s) = 0.
Proof. intros os. destruct (run_init_refines kcmp kcmp_trans kcmp_antisym kcmp_eq_l os) as (s & obs & d & E & HI & _).
  exists s, obs. split; [exact E|]. split; [apply HI|]. apply (inv_check kcmp). exact HI. Qed.
(* single operations from any valid tree: result is Ok (no crash, fuel suffices) and valid again *)
Theorem C02_put_step : forall t n, llrb node (ncmp kcmp) t -> exists t', tput (ncmp kcmp) nrepl t n = Ok t' /\ llrb node (ncmp kcmp) t'.
Proof. intros t n H. destruct (tput_ok node (ncmp kcmp) nrepl (list N) nval (ncmp_trans kcmp kcmp_trans) (ncmp_antisym kcmp kcmp_antisym) (ncmp_eq_l kcmp kcmp_eq_l)
  (repl_eqv_val kcmp kcmp_antisym kcmp_eq_l) t n H) as (t' & E & L & _). eauto. Qed.
Theorem C02_remove_step : forall t k, llrb node (ncmp kcmp) t -> exists t' b, tremove (ncmp kcmp) nmerge t k = Ok (t', b) /\ llrb node (ncmp kcmp) t'.
Proof. intros t k H. destruct (tremove_ok node (ncmp kcmp) nmerge _ kv (ncmp_trans kcmp kcmp_trans) (ncmp_antisym kcmp kcmp_antisym) (ncmp_eq_l kcmp kcmp_eq_l)
  (merge_eqv_kv kcmp) t k H) as (t' & b & E & L & _). eauto. Qed.
(* at most 2*log2(n+1) key comparisons per lookup, stated without logarithms *)
Theorem C02_lookup_cost : forall s k, Inv kcmp s ->
  2 ^ (find_cost (ncmp kcmp) (root s) (probe k)) <= (N.to_nat (num s) + 1) * (N.to_nat (num s) + 1).
Proof. exact (inv_lookup_cost kcmp). Qed.
End C02.

(* qtreetbl_check() (transcribed) accepts exactly the valid red-black structures with a black root *)
Theorem C02_check_agrees : forall (t : tree node), check_model t = 0 <-> (is_red t = false /\ exists n, valid node n t).
Proof. intros t. split; [apply check_model_complete|]. intros (Hb & n & Hv). eapply check_model_ok; eauto. Qed.

Example C02_ex : exists s obs, run byte_cmp init [Put [3%N] [1%N]; Put [1%N] [1%N]; Put [2%N] [1%N]; Put [4%N] [1%N]; Remove [1%N]; Remove [9%N]] = Ok (s, obs)
  /\ check_model (root s) = 0 /\ num s = 3%N.
Proof. vm_compute. eexists; eexists; repeat split. Qed.

Print Assumptions C02_invariant.
Print Assumptions C02_invariant_any_history.
Print Assumptions C02_put_step.
Print Assumptions C02_remove_step.
Print Assumptions C02_lookup_cost.
Print Assumptions C02_check_agrees.

(* ---- the C text of the balancing helpers, machine-translated from clang's AST of qtreetbl.c on every run (Gen/TreeOps.v,
   tools/gen_treeops.py), does on a heap of node objects exactly what the model's functions do on trees: same result
   tree (shape, colours, node identities), nothing outside the nodes of the argument is touched, no NULL is dereferenced
   whenever the model does not Crash.  So the theorems above speak about the code as it is now for these functions;
   put_obj/remove_obj/remove_min, which call them, stay tied by the lockstep runs. *)
From Coq Require Import ZArith.
From QV.Tree Require Import TreeHeap TreeHeapProofs TreeHeapMrl TreeHeapFix TreeHeapRmin TreeHeapPut TreeHeapFind TreeHeapCheck TreeHeapRem.
From QV.Gen Require Import TreeOps.
Theorem C02_c_helpers_refine :
  refines c_flip_color flip /\ refines c_rotate_left rotl /\ refines c_rotate_right rotr /\
  refines c_move_red_left mrl /\ refines c_move_red_right mrr /\
  (forall h p (t t' : tree positive), t <> E -> rep h p t -> NoDup (elements t) -> fix_ t = Ok t' ->
     exists p' h', c_fix p h = Ok (p', h') /\ rep h' p' t' /\ frame (elements t) h h') /\
  (forall h p t, rep h p t -> c_is_red p h = Ok (is_red t, h)).
Proof. exact (conj c_flip_refines (conj c_rotl_refines (conj c_rotr_refines (conj c_mrl_refines (conj c_mrr_refines
  (conj c_fix_refines c_is_red_ok)))))). Qed.
(* flip_color() returns its argument (move_red_left/right ignore the result and go on with their own pointer) *)
Theorem C02_c_flip_same_pointer : forall h p (t t' : tree positive), rep h p t -> NoDup (elements t) -> flip t = Ok t' ->
  exists h', c_flip_color p h = Ok (p, h') /\ rep h' p t' /\ frame (elements t) h h'.
Proof. exact c_flip_same_ptr. Qed.
(* the spine loops of find_min()/find_max() end on the node of the least / greatest key and change nothing *)
Theorem C02_c_find_min_max : forall h p (t : tree positive), rep h p t ->
  c_find_min (size t) p h = Ok (tmin t, h) /\ c_find_max (size t) p h = Ok (tmax t, h).
Proof. intros h p t H. exact (conj (c_find_min_ok h p t H) (c_find_max_ok h p t H)). Qed.
(* remove_min(): the translated recursion (explicit fuel) refines the model's rmin for every fuel, and releases exactly the
   node object of the least key: that object is not allocated afterwards (free_node), the others are the nodes of the
   result, nothing outside the tree is touched.  (The pinned tree freed name and data but not the node: commit 5b84119.) *)
Theorem C02_c_remove_min_refines : forall fuel h p (t t' : tree positive), rep h p t -> NoDup (elements t) -> rmin fuel t = Ok t' ->
  exists p' h' m, c_remove_min fuel p h = Ok (p', h') /\ rep h' p' t' /\ elements t = m :: elements t' /\ h' m = None /\
    frame (elements t) h h'.
Proof. exact c_rmin_refines. Qed.
(* put_obj(): the translated recursion refines the model's put, for every comparator answer function kc (kc i = what
   tbl->compare returns for the searched key at node i; zcmp = its sign), every fuel, every heap in which the new node object n
   (red, no children, as new_obj makes it) is distinct from the nodes of the tree: same result tree, nothing but the tree's
   nodes and n touched.  An existing key keeps its node object (repl x n = x); its value buffer is payload, outside this heap. *)
Theorem C02_c_put_obj_refines : forall (kc : positive -> Z) fuel h p n (t t' : tree positive),
  rep h p t -> h n = Some (mkcell true None None) -> NoDup (n :: elements t) ->
  put (fun (_ x : positive) => zcmp (kc x)) (fun (x _ : positive) => x) fuel t n = Ok t' ->
  exists p' h', c_put_obj kc fuel p (Some n) h = Ok (p', h') /\ rep h' p' t' /\ frame (n :: elements t) h h' /\ NoDup (elements t').
Proof. exact c_put_refines_ex. Qed.
(* find_obj(): the translated look-up loop returns the node object the model's find returns (None = not found), leaves the heap
   alone and needs no more fuel than the number of nodes + 1; with the guard of its first line true (no key given) it returns NULL.
   k stands for the searched key, whose comparisons are the answers kc. *)
Theorem C02_c_find_obj : forall (kc : positive -> Z) (k : positive) (t : tree positive) h p, rep h p t ->
  c_find_obj kc (S (size t)) p false h = Ok (find (fun (_ x : positive) => zcmp (kc x)) t k, h) /\
  forall fuel, c_find_obj kc fuel p true h = Ok (None, h).
Proof. exact c_find_obj_ok. Qed.
(* node_check_red() / node_check_llrb(), the recursive checkers behind return codes 2 and 4 of qtreetbl_check(): the translated
   text computes the model's check_red / check_llrb (the functions C02_check_agrees is about) and changes nothing.
   node_check_black() returns its path length through an int* and stays transcribed. *)
Theorem C02_c_checkers : forall (t : tree positive) h p, rep h p t ->
  c_node_check_red (S (size t)) p h = Ok (check_red t, h) /\ c_node_check_llrb (S (size t)) p h = Ok (check_llrb t, h).
Proof. exact c_checkers_ok. Qed.
(* remove_obj(): the translated recursion refines the model's rem (merge x m = x: the node object at the removed key's place
   stays and takes the successor's key and value, the successor's object is the one released by remove_min), for every
   comparator answer function kc, every heap and every fuel above the number of nodes (the C code calls find_min, whose loop
   needs that much).  kc may be a function of the node object because within one call every comparison is made before any key
   moves; the lazily recomputed `cmp` of the C code (flag recmp) is shown to equal the model's fresh comparison each time. *)
Theorem C02_c_remove_obj_refines : forall (kc : positive -> Z) (k : positive) fuel h p (t t' : tree positive) b,
  rep h p t -> NoDup (elements t) -> size t < fuel ->
  rem (fun (_ x : positive) => zcmp (kc x)) (fun (x _ : positive) => x) fuel t k = Ok (t', b) ->
  exists p' h', c_remove_obj kc fuel p h = Ok (p', h') /\ rep h' p' t' /\ frame (elements t) h h'.
Proof. exact c_rem_refines_ex. Qed.
(* non-vacuity: a three-node heap with a red right child; fix() rotates it to the left *)
Example C02_c_helpers_nonvacuous :
  let h : heap := fun j => match j with 1%positive => Some (mkcell false (Some 2%positive) (Some 3%positive))
                                   | 2%positive => Some (mkcell false None None)
                                   | 3%positive => Some (mkcell true None None) | _ => None end in
  let t := T false (T false E 2%positive E) 1%positive (T true E 3%positive E) in
  rep h (Some 1%positive) t /\ NoDup (elements t) /\ fix_ t = Ok (T false (T true (T false E 2 E) 1 E) 3 E)%positive
  /\ (exists h', c_fix (Some 1%positive) h = Ok (Some 3%positive, h')).
Proof. cbn. split; [repeat first [reflexivity | split | eexists]|]. split; [repeat constructor; cbn; intuition discriminate|].
  split; [reflexivity|]. eexists; reflexivity. Qed.
Print Assumptions C02_c_helpers_refine.
Print Assumptions C02_c_flip_same_pointer.
Print Assumptions C02_c_find_min_max.
Print Assumptions C02_c_remove_min_refines.
Print Assumptions C02_c_put_obj_refines.
Print Assumptions C02_c_find_obj.
Print Assumptions C02_c_checkers.
Print Assumptions C02_c_remove_obj_refines.
