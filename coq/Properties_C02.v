(* C02 — the tree table stays a valid left-leaning red-black search tree; lookups are logarithmic. *)
From Coq Require Import NArith List Bool Arith.
From QV.Base Require Import Res.
From QV.Gen Require Import Consts.
From QV.Tree Require Import TreeModel TreeLlrb QTree TreeSpec QTreeProofs TreeIter.
Import ListNotations.

Theorem C02_variant : LLRB234 = true.
Proof. reflexivity. Qed.

Section C02.
Variable kcmp : list N -> list N -> comparison.
Hypothesis kcmp_trans : forall a b c, kcmp a b = Lt -> kcmp b c = Lt -> kcmp a c = Lt.
Hypothesis kcmp_antisym : forall a b, kcmp a b = CompOpp (kcmp b a).
Hypothesis kcmp_eq_l : forall a b c, kcmp a b = Eq -> kcmp a c = kcmp b c.

(* the invariant: black root, a valid red-black structure of some black height (no red node with a red child, equal
   black height on all paths, a red right child only beside a red left child), keys strictly ascending in order *)
Definition LLRB (s : tbl) : Prop := llrb node (ncmp kcmp) (root s).

(* after every operation of every history, including failed removals and replacements *)
Theorem C02_invariant : forall os, forallb is_map_op os = true ->
  exists s obs, run kcmp init os = Ok (s, obs) /\ LLRB s /\ check_model (root s) = 0.
Proof. intros os H. destruct (run_map_refines kcmp kcmp_trans kcmp_antisym kcmp_eq_l os init false (Inv_init kcmp) H) as (s & obs & d & E & HI & _).
  exists s, obs. split; [exact E|]. split; [apply HI|]. apply (inv_check kcmp). exact HI. Qed.
(* ... and for histories with walks and nearest-key searches interleaved *)
Theorem C02_invariant_any_history : forall os,
  exists s obs, run kcmp init os = Ok (s, obs) /\ LLRB s /\ check_model (root s) = 0.
Proof. intros os. destruct (run_init_refines kcmp kcmp_trans kcmp_antisym kcmp_eq_l os) as (s & obs & d & E & HI & _).
  exists s, obs. split; [exact E|]. split; [apply HI|]. apply (inv_check kcmp). exact HI. Qed.
(* single operations from any valid tree: result is Ok (no crash, fuel suffices) and valid again *)
Theorem C02_put_step : forall t n, llrb node (ncmp kcmp) t -> exists t', tput (ncmp kcmp) nrepl t n = Ok t' /\ llrb node (ncmp kcmp) t'.
Proof. intros t n H. destruct (tput_ok node (ncmp kcmp) nrepl (list N) nval (ncmp_trans kcmp kcmp_trans) (ncmp_antisym kcmp kcmp_antisym) (ncmp_eq_l kcmp kcmp_eq_l)
  (repl_eqv_val kcmp kcmp_antisym kcmp_eq_l) t n H) as (t' & E & L & _). eauto. Qed.
Theorem C02_remove_step : forall t k, llrb node (ncmp kcmp) t -> exists t' b, tremove (ncmp kcmp) nmerge t k = Ok (t', b) /\ llrb node (ncmp kcmp) t'.
Proof. intros t k H. destruct (tremove_ok node (ncmp kcmp) nmerge _ kv (ncmp_trans kcmp kcmp_trans) (ncmp_antisym kcmp kcmp_antisym) (ncmp_eq_l kcmp kcmp_eq_l)
  (merge_eqv_kv kcmp) t k H) as (t' & b & E & L & _). eauto. Qed.
(* at most 2*log2(n+1) key comparisons per lookup, stated without logarithms *)
Theorem C02_lookup_cost : forall s k, Inv kcmp s ->
  2 ^ (find_cost (ncmp kcmp) (root s) (probe k)) <= (N.to_nat (num s) + 1) * (N.to_nat (num s) + 1).
Proof. exact (inv_lookup_cost kcmp). Qed.
End C02.

(* qtreetbl_check() (transcribed) accepts exactly the valid red-black structures with a black root *)
Theorem C02_check_agrees : forall (t : tree node), check_model t = 0 <-> (is_red t = false /\ exists n, valid node n t).
Proof. intros t. split; [apply check_model_complete|]. intros (Hb & n & Hv). eapply check_model_ok; eauto. Qed.

Example C02_ex : exists s obs, run byte_cmp init [Put [3%N] [1%N]; Put [1%N] [1%N]; Put [2%N] [1%N]; Put [4%N] [1%N]; Remove [1%N]; Remove [9%N]] = Ok (s, obs)
  /\ check_model (root s) = 0 /\ num s = 3%N.
Proof. vm_compute. eexists; eexists; repeat split. Qed.

Print Assumptions C02_invariant.
Print Assumptions C02_invariant_any_history.
Print Assumptions C02_put_step.
Print Assumptions C02_remove_step.
Print Assumptions C02_lookup_cost.
Print Assumptions C02_check_agrees.
