(* Reference definitions for property C19, on plain lists of bytes (the terminator is not part of a string).
   Written independently of StrModel.v: no indices, no buffers, no fuel. *)
From Coq Require Import NArith ZArith List Bool.
Import ListNotations.
Local Open Scope N_scope.

(* ---------- trimming: precisely the leading / trailing blanks, tabs, CRs and LFs ---------- *)
Definition is_blank (c : N) : bool := existsb (N.eqb c) [32; 9; 13; 10].
Fixpoint drop_while (p : N -> bool) (s : list N) : list N :=
  match s with [] => [] | c :: r => if p c then drop_while p r else s end.
Definition trim_head_spec (s : list N) : list N := drop_while is_blank s.
Definition trim_tail_spec (s : list N) : list N := rev (drop_while is_blank (rev s)).
Definition trim_spec (s : list N) : list N := trim_tail_spec (trim_head_spec s).

(* ---------- unquoting: strip one leading `head` and one trailing `tail`, only if both are there ---------- *)
Definition unchar_spec (s : list N) (head tail : N) : option (list N) :=
  match s with
  | h :: r => match rev r with
              | t :: m => if (h =? head) && (t =? tail) then Some (rev m) else None
              | [] => None
              end
  | [] => None
  end.

(* ---------- replace ---------- *)
(* token mode: every character listed in tok becomes word, nothing else changes *)
Definition replace_tok_spec (s tok word : list N) : list N :=
  flat_map (fun c => if existsb (N.eqb c) tok then word else [c]) s.
(* string mode: every leftmost non-overlapping occurrence of tok becomes word.
   Scan from the left; `skip` counts the characters of the occurrence just replaced that are still to be passed over.
   (tok must be non-empty.) *)
Fixpoint is_prefix (t s : list N) : bool :=
  match t, s with
  | [], _ => true
  | a :: t', b :: s' => (a =? b) && is_prefix t' s'
  | _ :: _, [] => false
  end.
Fixpoint replace_from (tok word s : list N) (skip : nat) : list N :=
  match s with
  | [] => []
  | c :: r =>
    match skip with
    | S k => replace_from tok word r k
    | O => if is_prefix tok s then word ++ replace_from tok word r (length tok - 1)
           else c :: replace_from tok word r 0
    end
  end.
Definition replace_str_spec (s tok word : list N) : list N := replace_from tok word s 0.
(* the same thing said without an algorithm: out is the replacement of s when s splits as
   u1 tok u2 tok ... un, each occurrence being the leftmost one in what is left *)
Definition occurs_at (tok s : list N) (i : nat) : Prop := exists a z, s = a ++ tok ++ z /\ length a = i.
Inductive replaced (tok word : list N) : list N -> list N -> Prop :=
| Rep_none s : (forall i, ~ occurs_at tok s i) -> replaced tok word s s
| Rep_occ u rest out : (forall i, occurs_at tok (u ++ tok ++ rest) i -> (length u <= i)%nat) ->
    replaced tok word rest out -> replaced tok word (u ++ tok ++ rest) (u ++ word ++ out).

(* ---------- bounded copy: always terminated, at most size bytes ---------- *)
Definition strcpy_spec (size : nat) (src : list N) : list N := firstn (size - 1) src ++ [0].
Definition strncpy_spec (size nbytes : nat) (src : list N) : list N := firstn (Nat.min nbytes (size - 1)) src ++ [0].

(* ---------- substring between the first `start` and the first `end` after it ---------- *)
Definition first_occ (t s : list N) (i : nat) : Prop :=
  occurs_at t s i /\ forall j, occurs_at t s j -> (i <= j)%nat.
Definition between_spec (s st en m : list N) : Prop :=
  exists a z, s = a ++ st ++ m ++ en ++ z /\ first_occ st s (length a) /\ first_occ en (m ++ en ++ z) (length m).

(* ---------- line reading: the next line of `rest`, CRs dropped, LF consumed; at most size-1 characters are looked at ---------- *)
Fixpoint line_of (w : list N) : list N * nat :=      (* (line with CRs still in, number of characters consumed) *)
  match w with
  | [] => ([], O)
  | c :: r => if c =? 10 then ([], 1%nat) else let (l, n) := line_of r in (c :: l, S n)
  end.
Definition gets_spec (size : nat) (rest : list N) : option (list N * nat) :=
  match rest with
  | [] => None
  | _ => let (l, n) := line_of (firstn (size - 1) rest) in Some (filter (fun c => negb (c =? 13)) l, n)
  end.

(* ---------- reversal, case conversion ---------- *)
Definition upper_spec (s : list N) : list N := map (fun c => if (97 <=? c) && (c <=? 122) then c - 32 else c) s.
Definition lower_spec (s : list N) : list N := map (fun c => if (65 <=? c) && (c <=? 90) then c + 32 else c) s.

(* ---------- tokenizer ---------- *)
(* fields of s separated by the characters of delims, empty fields included: "a,,b" -> a, "", b ; "" -> "" *)
Fixpoint fields (delims s : list N) : list (list N) :=
  match s with
  | [] => [[]]
  | c :: r => if existsb (N.eqb c) delims then [] :: fields delims r
              else match fields delims r with f :: fs => (c :: f) :: fs | [] => [[c]] end
  end.
(* qstrtok/qstrtokenizer return every field in order, including empty ones, EXCEPT that an empty LAST field is
   not produced: "a," gives a (not a, ""), "" gives nothing, "," gives one empty field.  This is what the code
   does (a call that starts at the terminator returns NULL) and what the header example relies on
   ("a:b::d" -> a, b, "", d); the reference definition records it. *)
Definition drop_last_empty (fs : list (list N)) : list (list N) :=
  match rev fs with [] :: r => rev r | _ => fs end.
Definition tokenize_spec (delims s : list N) : list (list N) := drop_last_empty (fields delims s).
(* one qstrtok call on the remaining text: (token, stop delimiter or 0, characters consumed) *)
Fixpoint first_field (delims s : list N) : list N * N * nat :=
  match s with
  | [] => ([], 0, O)
  | c :: r => if existsb (N.eqb c) delims then ([], c, 1%nat)
              else match first_field delims r with (f, d, n) => (c :: f, d, S n) end
  end.
Definition strtok_spec (delims rest : list N) : option (list N * N * nat) :=
  match rest with [] => None | _ => Some (first_field delims rest) end.

(* ---------- comma-separated decimal number (extra; qstr_comma_number) ---------- *)
(* decimal digits (ASCII) of n, most significant first; fuel >= number of digits *)
Fixpoint decimal (fuel : nat) (n : N) : list N :=
  match fuel with
  | O => []
  | S f => if n <? 10 then [48 + n] else decimal f (n / 10) ++ [48 + n mod 10]
  end.
Definition undecimal (ds : list N) : N := fold_left (fun a d => 10 * a + (d - 48)) ds 0.
Fixpoint chunks3 (l : list N) : list (list N) :=
  match l with a :: b :: c :: r => [a; b; c] :: chunks3 r | [] => [] | _ => [l] end.
Fixpoint join (sep : N) (gs : list (list N)) : list N :=
  match gs with [] => [] | [g] => g | g :: r => g ++ sep :: join sep r end.
(* groups of three digits counted from the right, separated by commas *)
Definition group3 (ds : list N) : list N :=
  let k := (length ds mod 3)%nat in
  join 44 ((if (k =? 0)%nat then [] else [firstn k ds]) ++ chunks3 (skipn k ds)).
Definition comma_spec (number : Z) : list N :=
  (if (number <? 0)%Z then [45] else []) ++ group3 (decimal 10 (Z.to_N (Z.abs number))).
