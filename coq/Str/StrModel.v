(* Executable models of the string utilities of src/utilities/qstring.c (property C19).
   In-place routines are modelled on the whole buffer (a list of bytes that includes the terminator and
   whatever follows it); every index is a Z, a read or a write at an index outside the buffer is Crash.
   That is how "writes only inside the buffer the contract covers" becomes a statement: on a buffer of
   exactly strlen+1 bytes the model returns Ok.  Pointers the C code forms before the start of the array
   (qstrtrim_tail(""), qstrrev("")) appear as the index -1, which is compared but never dereferenced.
   `char` is signed on the modelled platform (x86-64): see schar.
   Sizes (size_t, int) are unbounded here; the theorems therefore speak about lengths below 2^31. *)
From Coq Require Import NArith ZArith List Bool.
From QV.Base Require Import Res Bytes.
Import ListNotations.
Local Open Scope N_scope.

(* ---------------- buffers ---------------- *)
Definition zlen (b : list N) : Z := Z.of_nat (length b).
Definition rdz (b : list N) (i : Z) : res N :=
  if (i <? 0)%Z then Crash else match nth_error b (Z.to_nat i) with Some c => Ok c | None => Crash end.
Definition wrz (b : list N) (i : Z) (v : N) : res (list N) :=
  if (i <? 0)%Z || (zlen b <=? i)%Z then Crash
  else Ok (firstn (Z.to_nat i) b ++ v :: skipn (S (Z.to_nat i)) b).
(* memmove(b + dst, b + src, n) inside one buffer; n is a size_t, so a negative int argument is a huge count *)
Definition memmove (b : list N) (dst src n : Z) : res (list N) :=
  if (n <? 0)%Z then Crash else
  if (n =? 0)%Z then Ok b else
  if (src <? 0)%Z || (dst <? 0)%Z || (zlen b <? src + n)%Z || (zlen b <? dst + n)%Z then Crash
  else Ok (firstn (Z.to_nat dst) b ++ firstn (Z.to_nat n) (skipn (Z.to_nat src) b) ++ skipn (Z.to_nat (dst + n)) b).

Definition blank (c : N) : bool := (c =? 32) || (c =? 9) || (c =? 13) || (c =? 10).

(* for (i = start; p(b[i]); i++) ;   -> i *)
Fixpoint scan_fwd (p : N -> bool) (fuel : nat) (b : list N) (i : Z) : res Z :=
  match fuel with
  | O => Fuel
  | S f => bind (rdz b i) (fun c => if p c then scan_fwd p f b (i + 1)%Z else Ok i)
  end.
(* for (; se >= lo && blank(b[se]); se--) ;   -> se   (se may end at lo - 1, possibly -1) *)
Fixpoint scan_back (fuel : nat) (b : list N) (lo se : Z) : res Z :=
  match fuel with
  | O => Fuel
  | S f => if (lo <=? se)%Z then bind (rdz b se) (fun c => if blank c then scan_back f b lo (se - 1)%Z else Ok se)
           else Ok se
  end.
Definition strlen (fuel : nat) (b : list N) (i : Z) : res Z :=
  bind (scan_fwd nonzero fuel b i) (fun e => Ok (e - i)%Z).
(* the C string stored at index i of b *)
Definition cstr_at (fuel : nat) (b : list N) (i : Z) : res (list N) :=
  bind (strlen fuel b i) (fun n => Ok (firstn (Z.to_nat n) (skipn (Z.to_nat i) b))).

(* ---------------- qstrtrim, qstrtrim_head, qstrtrim_tail ---------------- *)
Definition qstrtrim (fuel : nat) (b : list N) : res (list N) :=
  bind (scan_fwd blank fuel b 0) (fun ss =>
  bind (scan_fwd nonzero fuel b ss) (fun se0 =>
  bind (scan_back fuel b ss (se0 - 1)) (fun se1 =>
  let se := (se1 + 1)%Z in
  bind (wrz b se 0) (fun b1 =>
  if (0 <? ss)%Z then memmove b1 0 ss (se - ss + 1) else Ok b1)))).

Definition qstrtrim_head (fuel : nat) (b : list N) : res (list N) :=
  bind (scan_fwd blank fuel b 0) (fun ss =>
  if (0 <? ss)%Z then bind (strlen fuel b ss) (fun l => memmove b 0 ss (l + 1)) else Ok b).

(* se = str + strlen(str) - 1 : for the empty string this is index -1 *)
Definition qstrtrim_tail (fuel : nat) (b : list N) : res (list N) :=
  bind (strlen fuel b 0) (fun l =>
  bind (scan_back fuel b 0 (l - 1)) (fun se1 => wrz b (se1 + 1) 0)).

(* ---------------- qstrunchar ---------------- *)
Definition qstrunchar (fuel : nat) (b : list N) (head tail : N) : res (option (list N)) :=
  bind (strlen fuel b 0) (fun len =>
  if (len <? 2)%Z then Ok None else
  bind (rdz b 0) (fun c0 => if negb (c0 =? head) then Ok None else
  bind (rdz b (len - 1)) (fun c1 => if negb (c1 =? tail) then Ok None else
  bind (memmove b 0 1 (len - 2)) (fun b1 =>
  bind (wrz b1 (len - 2) 0) (fun b2 => Ok (Some b2)))))).

(* ---------------- qstrreplace ---------------- *)
(* the output buffer newstr has cap = maxstrlen + 1 bytes; the state is (output so far, reversed; its length).
   *newp++ = c with newp at or beyond newstr + cap is Crash *)
Fixpoint emit (w : list N) (cap : nat) (st : list N * nat) : res (list N * nat) :=
  match w with
  | [] => Ok st
  | c :: r => let (o, n) := st in if (n <? cap)%nat then emit r cap (c :: o, S n) else Crash
  end.
Fixpoint tok_match (c : N) (tok : list N) : bool :=
  match tok with [] => false | t :: r => if c =? t then true else tok_match c r end.
Fixpoint tr_loop (src tok w : list N) (cap : nat) (st : list N * nat) : res (list N * nat) :=
  match src with
  | [] => Ok st
  | c :: r => bind (if tok_match c tok then emit w cap st else emit [c] cap st) (fun st' => tr_loop r tok w cap st')
  end.
(* !strncmp(s, tok, strlen(tok)) for a NUL-free tok: tok is a prefix of s *)
Fixpoint strncmp_eq (s tok : list N) : bool :=
  match tok with
  | [] => true
  | t :: tr => match s with c :: sr => (c =? t) && strncmp_eq sr tr | [] => false end
  end.
(* for (srcp = srcstr; *srcp; srcp++) { if (!strncmp(..)) { emit word; srcp += tokstrlen - 1; } else *newp++ = *srcp; }
   src is the string body, srcb = src ++ [0] *)
Fixpoint sr_loop (fuel : nat) (src tok w : list N) (i : Z) (cap : nat) (st : list N * nat) : res (list N * nat) :=
  match fuel with
  | O => Fuel
  | S f =>
    bind (rdz (src ++ [0]) i) (fun c =>
      if c =? 0 then Ok st else
      if strncmp_eq (skipn (Z.to_nat i) src) tok
      then bind (emit w cap st) (fun st' => sr_loop f src tok w (i + (zlen tok - 1) + 1)%Z cap st')
      else bind (emit [c] cap st) (fun st' => sr_loop f src tok w (i + 1)%Z cap st'))
  end.
Definition maxlen_t (src w : nat) : nat := (src * (if (0 <? w)%nat then w else 1))%nat.
(* strlen(srcstr) / strlen(tokstr) with an empty tokstr is a division by zero (SIGFPE): Crash *)
Definition maxlen_s (src tok w : nat) : res nat :=
  if (tok <? w)%nat then (if (tok =? 0)%nat then Crash else Ok ((src / tok) * w + src mod tok)%nat) else Ok src.
Fixpoint cstr_of (b : list N) : res (list N) :=
  match b with [] => Crash | c :: r => if c =? 0 then Ok [] else bind (cstr_of r) (fun s => Ok (c :: s)) end.
(* strcpy(srcstr, newstr) into the caller's buffer sb *)
Definition strcpy_into (sb out : list N) : res (list N) :=
  if (length out + 1 <=? length sb)%nat then Ok (out ++ 0 :: skipn (length out + 1) sb) else Crash.
(* result: (returned string or NULL, the caller's source buffer afterwards, size passed to malloc or 0) *)
Definition qstrreplace (fuel : nat) (mode sb tok w : list N) : res (option (list N) * list N * nat) :=
  match mode with
  | [method; memuse] =>
    bind (cstr_of sb) (fun src =>
    bind (if method =? 116 then Ok (Some (maxlen_t (length src) (length w)))
          else if method =? 115 then bind (maxlen_s (length src) (length tok) (length w)) (fun m => Ok (Some m))
          else Ok None) (fun mm =>
    match mm with
    | None => Ok (None, sb, O)
    | Some m =>
      let cap := S m in
      bind (if method =? 116 then tr_loop src tok w cap ([], O) else sr_loop fuel src tok w 0 cap ([], O)) (fun st =>
      bind (emit [0] cap st) (fun _ =>
      let out := rev (fst st) in
      if memuse =? 110 then Ok (Some out, sb, cap)
      else if memuse =? 114 then bind (strcpy_into sb out) (fun sb' => Ok (Some out, sb', cap))
      else Ok (None, sb, cap)))
    end))
  | _ => Ok (None, sb, O)
  end.

(* ---------------- qstrcpy, qstrncpy ---------------- *)
(* memmove(dst, src, n) between two different buffers *)
Definition copy_in (dst src : list N) (n : nat) : res (list N) :=
  if (n =? 0)%nat then Ok dst else
  if (length src <? n)%nat || (length dst <? n)%nat then Crash else Ok (firstn n src ++ skipn n dst).
Definition qstrncpy (dst : list N) (size : nat) (srcb : list N) (nbytes : nat) : res (list N) :=
  if (size =? 0)%nat then Ok dst else
  let nb := if (size <=? nbytes)%nat then (size - 1)%nat else nbytes in
  bind (copy_in dst srcb nb) (fun d1 => wrz d1 (Z.of_nat nb) 0).
Definition qstrcpy (fuel : nat) (dst : list N) (size : nat) (srcb : list N) : res (list N) :=
  if (size =? 0)%nat then Ok dst else
  bind (strlen fuel srcb 0) (fun n => qstrncpy dst size srcb (Z.to_nat n)).

(* ---------------- qstrdup_between, qmemdup ---------------- *)
Fixpoint strstr (h n : list N) : option nat :=
  if strncmp_eq h n then Some O else
  match h with [] => None | _ :: r => option_map S (strstr r n) end.
Definition qstrdup_between (s st en : list N) : option (list N) :=
  match strstr s st with
  | None => None
  | Some i => let s1 := skipn (i + length st) s in
              match strstr s1 en with None => None | Some len => Some (firstn len s1) end
  end.
Definition qmemdup (data : list N) (size : nat) : res (option (list N)) :=
  if (size =? 0)%nat then Ok None else
  if (size <=? length data)%nat then Ok (Some (firstn size data)) else Crash.

(* ---------------- qstrgets ---------------- *)
Fixpoint gets_loop (fuel : nat) (src : list N) (from : Z) (i lim : N) (buf : list N) (to : Z) : res (list N * Z * Z) :=
  match fuel with
  | O => Fuel
  | S f =>
    bind (rdz src from) (fun c =>
      if (c =? 0) || negb (i <? lim) then Ok (buf, from, to) else
      if c =? 13 then gets_loop f src (from + 1)%Z (i + 1) lim buf to else
      if c =? 10 then Ok (buf, (from + 1)%Z, to) else
      bind (wrz buf to c) (fun buf' => gets_loop f src (from + 1)%Z (i + 1) lim buf' (to + 1)%Z))
  end.
(* size - 1 is computed in size_t: size = 0 gives 2^64 - 1 *)
Definition qstrgets (fuel : nat) (buf : list N) (size : N) (src : list N) (off : Z) : res (option (list N * Z)) :=
  bind (rdz src off) (fun c0 =>
  if c0 =? 0 then Ok None else
  let lim := if size =? 0 then 18446744073709551615 else size - 1 in
  bind (gets_loop fuel src off 0 lim buf 0) (fun r =>
  match r with (b1, from, to) => bind (wrz b1 to 0) (fun b2 => Ok (Some (b2, from))) end)).

(* ---------------- qstrrev ---------------- *)
Fixpoint rev_loop (fuel : nat) (b : list N) (p1 p2 : Z) : res (list N) :=
  match fuel with
  | O => Fuel
  | S f =>
    if (p1 <? p2)%Z then
      bind (rdz b p1) (fun t => bind (rdz b p2) (fun u =>
      bind (wrz b p1 u) (fun b1 => bind (wrz b1 p2 t) (fun b2 => rev_loop f b2 (p1 + 1)%Z (p2 - 1)%Z))))
    else Ok b
  end.
Definition qstrrev (fuel : nat) (b : list N) : res (list N) :=
  bind (strlen fuel b 0) (fun len => rev_loop fuel b 0 (len - 1)%Z).

(* ---------------- qstrupper, qstrlower ---------------- *)
Definition schar (c : N) : Z := if c <? 128 then Z.of_N c else (Z.of_N c - 256)%Z.
Definition uchar (z : Z) : N := Z.to_N (z mod 256)%Z.
(* for (cp = str; cp[0]; cp++) if (cp[0] >= lo && cp[0] <= hi) cp[0] += delta;    comparisons on (signed) char *)
Fixpoint case_loop (lo hi delta : Z) (fuel : nat) (b : list N) (cp : Z) : res (list N) :=
  match fuel with
  | O => Fuel
  | S f =>
    bind (rdz b cp) (fun c =>
      if c =? 0 then Ok b else
      if (lo <=? schar c)%Z && (schar c <=? hi)%Z
      then bind (wrz b cp (uchar (schar c + delta))) (fun b1 => case_loop lo hi delta f b1 (cp + 1)%Z)
      else case_loop lo hi delta f b (cp + 1)%Z)
  end.
Definition qstrupper (fuel : nat) (b : list N) : res (list N) := case_loop 97 122 (-32) fuel b 0.
Definition qstrlower (fuel : nat) (b : list N) : res (list N) := case_loop 65 90 32 fuel b 0.

(* ---------------- qstrtok, qstrtokenizer ---------------- *)
Fixpoint find_delim (c : N) (delims : list N) : option N :=
  match delims with [] => None | d :: r => if c =? d then Some d else find_delim c r end.
Fixpoint tok_loop (fuel : nat) (b delims : list N) (ep : Z) : res (Z * option N) :=
  match fuel with
  | O => Fuel
  | S f =>
    bind (rdz b ep) (fun c =>
      if c =? 0 then Ok (ep, None) else
      match find_delim c delims with
      | Some d => Ok (ep, Some d)
      | None => tok_loop f b delims (ep + 1)%Z
      end)
  end.
(* result: (index of the token or NULL, *retstop, *offset, the buffer afterwards) *)
Definition qstrtok (fuel : nat) (b delims : list N) (off : Z) : res (option Z * N * Z * list N) :=
  bind (tok_loop fuel b delims off) (fun r =>
  match r with
  | (ep, Some d) => bind (wrz b ep 0) (fun b1 => Ok (Some off, d, (ep + 1)%Z, b1))
  | (ep, None) => if (off =? ep)%Z then Ok (None, 0, off, b) else Ok (Some off, 0, ep, b)
  end).
Fixpoint tokz_loop (fuel fuel2 : nat) (b delims : list N) (off : Z) (acc : list (list N)) : res (list (list N)) :=
  match fuel with
  | O => Fuel
  | S f =>
    bind (qstrtok fuel2 b delims off) (fun r =>
    match r with
    | (None, _, _, _) => Ok (rev acc)
    | (Some ts, _, off', b') => bind (cstr_at fuel2 b' ts) (fun tk => tokz_loop f fuel2 b' delims off' (tk :: acc))
    end)
  end.
(* works on strdup(str) *)
Definition qstrtokenizer (fuel : nat) (b delims : list N) : res (list (list N)) :=
  bind (cstr_of b) (fun s => tokz_loop fuel fuel (s ++ [0]) delims 0 []).

(* ---------- qstr_comma_number (extra) ---------- *)
(* str = malloc(14 + 1); the magnitude is taken in unsigned int arithmetic (0U - (unsigned)number for negatives) and printed
   with "%u" into buf[11] (at most 10 digits); then
   for (bufp = buf; *bufp; strp++, bufp++) { *strp = *bufp; if (strlen(bufp) % 3 == 1 && bufp[1]) *(++strp) = ','; } *)
Fixpoint snprintf_u (fuel : nat) (n : N) : list N :=     (* "%u": decimal digits, most significant first *)
  match fuel with
  | O => []
  | S f => if n <? 10 then [48 + n] else snprintf_u f (n / 10) ++ [48 + n mod 10]
  end.
Fixpoint comma_loop (bufp : list N) (cap : nat) (st : list N * nat) : res (list N * nat) :=
  match bufp with
  | [] => Ok st
  | c :: r =>
    bind (emit [c] cap st) (fun st1 =>
      if ((length bufp mod 3 =? 1)%nat && negb (match r with [] => true | _ => false end))
      then bind (emit [44] cap st1) (fun st2 => comma_loop r cap st2)
      else comma_loop r cap st1)
  end.
Definition qstr_comma_number (number : Z) : res (list N) :=
  let unumber := (if (number <? 0)%Z then (0 - number mod 4294967296) mod 4294967296 else number mod 4294967296)%Z in
  let buf := snprintf_u 10 (Z.to_N unumber) in
  bind (if (number <? 0)%Z then emit [45] 15 ([], O) else Ok ([], O)) (fun st0 =>
  bind (comma_loop buf 15 st0) (fun st =>
  bind (emit [0] 15 st) (fun _ => Ok (rev (fst st))))).
