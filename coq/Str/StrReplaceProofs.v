(* C19: qstrreplace in its four modes = the reference definitions, and the buffer the code allocates
   (maxstrlen + 1 bytes) is large enough for every input: no write of the model is refused. *)
From Coq Require Import NArith ZArith List Bool Lia.
From QV.Base Require Import Res Bytes.
From QV.Str Require Import StrModel StrSpec StrBase.
Import ListNotations.
Local Open Scope N_scope.

Lemma emit_spec w : forall cap o n, (n <= cap)%nat ->
  emit w cap (o, n) = if (n + length w <=? cap)%nat then Ok (rev w ++ o, (n + length w)%nat) else Crash.
Proof.
  induction w as [|c w IH]; intros cap o n Hn; cbn [emit length rev app].
  - rewrite Nat.add_0_r. destruct (Nat.leb_spec n cap); [reflexivity|lia].
  - destruct (Nat.ltb_spec n cap).
    + rewrite IH by lia. replace (S n + length w)%nat with (n + S (length w))%nat by lia.
      rewrite <- app_assoc. reflexivity.
    + destruct (Nat.leb_spec (n + S (length w)) cap); [lia|reflexivity].
Qed.
Lemma emit_ok w cap o n : (n + length w <= cap)%nat -> emit w cap (o, n) = Ok (rev w ++ o, (n + length w)%nat).
Proof. intros H. rewrite emit_spec by lia. destruct (Nat.leb_spec (n + length w) cap); [reflexivity|lia]. Qed.

(* ---------- token mode ---------- *)
Lemma tok_match_existsb c tok : tok_match c tok = existsb (N.eqb c) tok.
Proof. induction tok as [|t r IH]; cbn [tok_match existsb]; [reflexivity|]. rewrite IH. destruct (c =? t); reflexivity. Qed.
Lemma tr_loop_spec tok w cap src : forall o n, (n + length (replace_tok_spec src tok w) <= cap)%nat ->
  tr_loop src tok w cap (o, n) = Ok (rev (replace_tok_spec src tok w) ++ o, (n + length (replace_tok_spec src tok w))%nat).
Proof.
  induction src as [|c r IH]; intros o n H; cbn [tr_loop replace_tok_spec flat_map]; [cbn; rewrite Nat.add_0_r; reflexivity|].
  fold (replace_tok_spec r tok w) in *. cbn [replace_tok_spec flat_map] in H. fold (replace_tok_spec r tok w) in H.
  rewrite tok_match_existsb. set (piece := if existsb (N.eqb c) tok then w else [c]) in *.
  replace (if existsb (N.eqb c) tok then emit w cap (o, n) else emit [c] cap (o, n)) with (emit piece cap (o, n))
    by (unfold piece; destruct (existsb (N.eqb c) tok); reflexivity).
  rewrite app_length in H. rewrite emit_ok by lia. cbn [bind]. rewrite IH by lia.
  rewrite rev_app_distr, <- app_assoc, app_length. f_equal. f_equal. lia.
Qed.
Theorem replace_tok_len s tok w : (length (replace_tok_spec s tok w) <= maxlen_t (length s) (length w))%nat.
Proof.
  unfold maxlen_t. set (m := if (0 <? length w)%nat then length w else 1%nat).
  assert (Hm : (length w <= m /\ 1 <= m)%nat) by (unfold m; destruct (Nat.ltb_spec 0 (length w)); lia).
  induction s as [|c r IH]; cbn [replace_tok_spec flat_map length]; [lia|]. fold (replace_tok_spec r tok w).
  rewrite app_length. cbn [Nat.mul]. destruct (existsb (N.eqb c) tok); cbn [length]; lia.
Qed.

(* ---------- string mode ---------- *)
Lemma strncmp_is_prefix tok : forall s, strncmp_eq s tok = is_prefix tok s.
Proof. induction tok as [|t tk IH]; intros s; destruct s as [|c s]; cbn [strncmp_eq is_prefix]; auto. rewrite N.eqb_sym, IH. reflexivity. Qed.
Lemma is_prefix_app tok z : is_prefix tok (tok ++ z) = true.
Proof. induction tok as [|t tk IH]; cbn [is_prefix app]; [reflexivity|]. rewrite N.eqb_refl, IH. reflexivity. Qed.
Lemma is_prefix_true tok : forall s, is_prefix tok s = true -> exists z, s = tok ++ z.
Proof.
  induction tok as [|t tk IH]; intros s H; [exists s; reflexivity|]. destruct s as [|c s]; cbn [is_prefix] in H; [discriminate|].
  apply andb_true_iff in H as [H1 H2]. apply N.eqb_eq in H1. subst c. destruct (IH s H2) as (z & ->). exists z. reflexivity.
Qed.
Lemma replace_from_skip tok w a : forall z, replace_from tok w (a ++ z) (length a) = replace_from tok w z 0.
Proof. induction a as [|x a IH]; intros z; cbn [app length replace_from]; auto. Qed.
Lemma replace_str_nil tok w : replace_str_spec [] tok w = [].
Proof. reflexivity. Qed.
Lemma replace_str_hit tok w z : tok <> [] -> replace_str_spec (tok ++ z) tok w = w ++ replace_str_spec z tok w.
Proof.
  intros Ht. unfold replace_str_spec. destruct tok as [|t tk]; [contradiction|].
  cbn [app replace_from]. change (t :: tk ++ z) with ((t :: tk) ++ z). rewrite is_prefix_app.
  replace (length (t :: tk) - 1)%nat with (length tk) by (cbn [length]; lia). rewrite replace_from_skip. reflexivity.
Qed.
Lemma replace_str_miss tok w c r : is_prefix tok (c :: r) = false -> replace_str_spec (c :: r) tok w = c :: replace_str_spec r tok w.
Proof. intros H. unfold replace_str_spec. cbn [replace_from]. rewrite H. reflexivity. Qed.

Lemma sr_loop_spec tok w cap m : forall rest pre fuel o n, (length rest <= m)%nat -> cstr (pre ++ rest) -> tok <> [] ->
  (length rest < fuel)%nat -> (n + length (replace_str_spec rest tok w) <= cap)%nat ->
  sr_loop fuel (pre ++ rest) tok w (zlen pre) cap (o, n) =
    Ok (rev (replace_str_spec rest tok w) ++ o, (n + length (replace_str_spec rest tok w))%nat).
Proof.
  induction m as [|m IH]; intros rest pre fuel o n Hm Hs Ht Hf Hc; (destruct fuel; [lia|]); cbn [sr_loop].
  - destruct rest; [|cbn in Hm; lia]. rewrite app_nil_r, rdz_mid by reflexivity. cbn. rewrite Nat.add_0_r. reflexivity.
  - destruct rest as [|c r].
    + rewrite app_nil_r, rdz_mid by reflexivity. cbn. rewrite Nat.add_0_r. reflexivity.
    + rewrite <- app_assoc. cbn [app]. rewrite rdz_mid by reflexivity. cbn [bind].
      assert (Hcr : cstr (c :: r)) by (apply cstr_app in Hs; tauto). rewrite (cstr_head_nz _ _ Hcr).
      rewrite zlen_to_nat, skipn_len_app, strncmp_is_prefix.
      destruct (is_prefix tok (c :: r)) eqn:Hp.
      * destruct (is_prefix_true _ _ Hp) as (z & Ez). rewrite Ez in *. rewrite replace_str_hit in * by auto.
        rewrite app_length in Hc. rewrite emit_ok by lia. cbn [bind].
        replace (zlen pre + (zlen tok - 1) + 1)%Z with (zlen (pre ++ tok)) by zl.
        rewrite app_assoc. assert (Hlt : (1 <= length tok)%nat) by (destruct tok; [contradiction|cbn; lia]).
        rewrite app_length in Hm, Hf.
        rewrite IH; [| lia | rewrite <- app_assoc; auto | auto | lia | lia].
        rewrite rev_app_distr, <- app_assoc, app_length. f_equal. f_equal. lia.
      * rewrite replace_str_miss in * by auto. cbn [length] in Hc. rewrite emit_ok by (cbn [length]; lia). cbn [bind rev app].
        replace (zlen pre + 1)%Z with (zlen (pre ++ [c])) by zl.
        replace (pre ++ c :: r) with ((pre ++ [c]) ++ r) by (rewrite <- app_assoc; reflexivity).
        cbn [length] in Hm, Hf.
        rewrite IH; [| lia | rewrite <- app_assoc; auto | auto | lia | cbn [length]; lia].
        cbn [length]. rewrite <- app_assoc. cbn [app]. f_equal. f_equal. lia.
Qed.

(* the arithmetic behind maxstrlen = (len / tok) * word + len % tok *)
Definition sbound (t ww len : nat) : nat := ((len / t) * ww + len mod t)%nat.
Lemma sbound_hit t ww z : (1 <= t)%nat -> sbound t ww (t + z) = (ww + sbound t ww z)%nat.
Proof.
  intros Ht. unfold sbound. replace (t + z)%nat with (1 * t + z)%nat by lia. rewrite Nat.div_add_l by lia.
  replace (1 * t + z)%nat with (z + 1 * t)%nat by lia. rewrite Nat.mod_add by lia. lia.
Qed.
Lemma sbound_miss t ww r : (1 <= t)%nat -> (t <= ww)%nat -> (1 + sbound t ww r <= sbound t ww (S r))%nat.
Proof.
  intros Ht Hw. unfold sbound. pose proof (Nat.div_mod r t ltac:(lia)) as E. pose proof (Nat.mod_upper_bound r t ltac:(lia)) as Hm.
  set (q := (r / t)%nat) in *. set (m := (r mod t)%nat) in *.
  destruct (Nat.eq_dec (S m) t) as [Et|Et].
  - assert (Eq : (S r / t = S q)%nat) by (symmetry; apply (Nat.div_unique (S r) t (S q) 0); lia).
    assert (Em : (S r mod t = 0)%nat) by (symmetry; apply (Nat.mod_unique (S r) t (S q) 0); lia).
    rewrite Eq, Em. cbn [Nat.mul]. lia.
  - assert (Eq : (S r / t = q)%nat) by (symmetry; apply (Nat.div_unique (S r) t q (S m)); lia).
    assert (Em : (S r mod t = S m)%nat) by (symmetry; apply (Nat.mod_unique (S r) t q (S m)); lia).
    rewrite Eq, Em. lia.
Qed.
Lemma replace_str_len_gt tok w m : forall s, (length s <= m)%nat -> tok <> [] -> (length tok < length w)%nat ->
  (length (replace_str_spec s tok w) <= sbound (length tok) (length w) (length s))%nat.
Proof.
  induction m as [|m IH]; intros s Hm Ht Hw; assert (Hlt : (1 <= length tok)%nat) by (destruct tok; [contradiction|cbn; lia]).
  - destruct s; [|cbn in Hm; lia]. cbn. lia.
  - destruct s as [|c r]; [cbn; lia|]. destruct (is_prefix tok (c :: r)) eqn:Hp.
    + destruct (is_prefix_true _ _ Hp) as (z & Ez). rewrite Ez in *. rewrite replace_str_hit by auto.
      rewrite !app_length in *. rewrite sbound_hit by lia. specialize (IH z ltac:(lia) Ht Hw). lia.
    + rewrite replace_str_miss by auto. cbn [length] in *. specialize (IH r ltac:(lia) Ht Hw).
      pose proof (sbound_miss (length tok) (length w) (length r) ltac:(lia) ltac:(lia)). lia.
Qed.
Lemma replace_str_len_le tok w m : forall s, (length s <= m)%nat -> tok <> [] -> (length w <= length tok)%nat ->
  (length (replace_str_spec s tok w) <= length s)%nat.
Proof.
  induction m as [|m IH]; intros s Hm Ht Hw; assert (Hlt : (1 <= length tok)%nat) by (destruct tok; [contradiction|cbn; lia]).
  - destruct s; [|cbn in Hm; lia]. cbn. lia.
  - destruct s as [|c r]; [cbn; lia|]. destruct (is_prefix tok (c :: r)) eqn:Hp.
    + destruct (is_prefix_true _ _ Hp) as (z & Ez). rewrite Ez in *. rewrite replace_str_hit by auto.
      rewrite !app_length in *. specialize (IH z ltac:(lia) Ht Hw). lia.
    + rewrite replace_str_miss by auto. cbn [length] in *. specialize (IH r ltac:(lia) Ht Hw). lia.
Qed.
(* the allocation is sufficient: for a non-empty search string the result never exceeds maxstrlen *)
Theorem replace_str_len s tok w : tok <> [] ->
  exists m, maxlen_s (length s) (length tok) (length w) = Ok m /\ (length (replace_str_spec s tok w) <= m)%nat.
Proof.
  intros Ht. unfold maxlen_s. assert (Hlt : (1 <= length tok)%nat) by (destruct tok; [contradiction|cbn; lia]).
  destruct (Nat.ltb_spec (length tok) (length w)).
  - destruct (Nat.eqb_spec (length tok) 0); [lia|]. eexists. split; [reflexivity|].
    apply (replace_str_len_gt tok w (length s)); auto.
  - eexists. split; [reflexivity|]. apply (replace_str_len_le tok w (length s)); auto.
Qed.

(* ---------- the four modes (and what an unknown second mode letter does) ---------- *)
Definition finish (memuse : N) (sb out : list N) (cap : nat) : res (option (list N) * list N * nat) :=
  if memuse =? 110 then Ok (Some out, sb, cap)
  else if memuse =? 114 then bind (strcpy_into sb out) (fun sb' => Ok (Some out, sb', cap))
  else Ok (None, sb, cap).
Lemma replace_s_gen memuse src tail tok w fuel : cstr src -> tok <> [] -> (length src < fuel)%nat ->
  exists m, maxlen_s (length src) (length tok) (length w) = Ok m /\ (length (replace_str_spec src tok w) <= m)%nat /\
  qstrreplace fuel [115; memuse] (src ++ 0 :: tail) tok w = finish memuse (src ++ 0 :: tail) (replace_str_spec src tok w) (S m).
Proof.
  intros Hs Ht Hf. destruct (replace_str_len src tok w Ht) as (m & Em & Hm). exists m. split; [auto|split; [auto|]].
  unfold qstrreplace. rewrite cstr_of_app by auto. cbn [bind]. change (115 =? 116) with false. change (115 =? 115) with true. cbv iota.
  rewrite Em. cbn [bind].
  pose proof (sr_loop_spec tok w (S m) (length src) src [] fuel [] 0%nat ltac:(lia) Hs Ht Hf ltac:(cbn; lia)) as H.
  cbn [app] in H. change (zlen []) with 0%Z in H. rewrite H. cbn [bind fst Nat.add].
  rewrite emit_ok by (cbn [length]; lia). cbn [bind]. rewrite app_nil_r, rev_involutive. reflexivity.
Qed.
Lemma replace_t_gen memuse src tail tok w fuel : cstr src ->
  (length (replace_tok_spec src tok w) <= maxlen_t (length src) (length w))%nat /\
  qstrreplace fuel [116; memuse] (src ++ 0 :: tail) tok w =
    finish memuse (src ++ 0 :: tail) (replace_tok_spec src tok w) (S (maxlen_t (length src) (length w))).
Proof.
  intros Hs. pose proof (replace_tok_len src tok w) as Hm. split; [auto|].
  unfold qstrreplace. rewrite cstr_of_app by auto. cbn [bind]. change (116 =? 116) with true. cbv iota. cbn [bind].
  rewrite tr_loop_spec by (cbn; lia). cbn [bind fst Nat.add].
  rewrite emit_ok by (cbn [length]; lia). cbn [bind]. rewrite app_nil_r, rev_involutive. reflexivity.
Qed.

(* in place: strcpy(srcstr, newstr) writes length out + 1 bytes into the caller's buffer sb; it fits exactly when
   length out + 1 <= length sb -- which the caller has to guarantee ("given source string should have enough space") *)
Lemma finish_n sb out cap : finish 110 sb out cap = Ok (Some out, sb, cap).
Proof. reflexivity. Qed.
Lemma finish_r sb out cap : finish 114 sb out cap =
  if (length out + 1 <=? length sb)%nat then Ok (Some out, out ++ 0 :: skipn (length out + 1) sb, cap) else Crash.
Proof. unfold finish, strcpy_into. change (114 =? 110) with false. change (114 =? 114) with true. cbv iota. destruct (length out + 1 <=? length sb)%nat; reflexivity. Qed.

(* ---------- empty search string in string mode: outside the contract, and the code misbehaves ---------- *)
Lemma sr_loop_empty_tok cap fuel : forall st, sr_loop fuel [97] [] [] 0 cap st = Fuel.
Proof. induction fuel as [|f IH]; intros st; [reflexivity|]. cbn [sr_loop]. cbn. destruct st. apply IH. Qed.
Theorem replace_empty_token_div0 : forall fuel, qstrreplace fuel [115; 110] [97; 0] [] [120] = Crash.
Proof. intros. reflexivity. Qed.
Theorem replace_empty_token_hang : forall fuel, qstrreplace fuel [115; 110] [97; 0] [] [] = Fuel.
Proof. intros. unfold qstrreplace. cbn [cstr_of N.eqb bind length maxlen_s Nat.ltb Nat.leb]. cbn. rewrite sr_loop_empty_tok. reflexivity. Qed.

(* ---------- the algorithmic reference definition meets the declarative one ---------- *)
Lemma occurs_prefix tok s : is_prefix tok s = true <-> occurs_at tok s 0.
Proof.
  split.
  - intros H. destruct (is_prefix_true _ _ H) as (z & ->). exists [], z. auto.
  - intros (a & z & E & L). destruct a; [|discriminate]. cbn in E. subst s. apply is_prefix_app.
Qed.
Lemma occurs_cons tok c r i : occurs_at tok (c :: r) (S i) <-> occurs_at tok r i.
Proof.
  split.
  - intros (a & z & E & L). destruct a as [|x a]; [discriminate|]. cbn in E. inversion E. subst. exists a, z. cbn in L. split; [auto|lia].
  - intros (a & z & E & L). exists (c :: a), z. subst r. cbn. split; [reflexivity|lia].
Qed.
Theorem replace_str_replaced tok w m : forall s, (length s <= m)%nat -> tok <> [] -> replaced tok w s (replace_str_spec s tok w).
Proof.
  induction m as [|m IH]; intros s Hm Ht.
  - destruct s; [|cbn in Hm; lia]. apply Rep_none. intros i (a & z & E & L). destruct a; destruct tok; try discriminate. contradiction.
  - destruct s as [|c r].
    + apply Rep_none. intros i (a & z & E & L). destruct a; destruct tok; try discriminate. contradiction.
    + assert (Hlt : (1 <= length tok)%nat) by (destruct tok; [contradiction|cbn; lia]).
      destruct (is_prefix tok (c :: r)) eqn:Hp.
      * destruct (is_prefix_true _ _ Hp) as (z & Ez). rewrite Ez in *. rewrite replace_str_hit by auto.
        apply (Rep_occ tok w [] z). { intros; cbn; lia. }
        apply IH; auto. rewrite app_length in Hm. lia.
      * rewrite replace_str_miss by auto. specialize (IH r ltac:(cbn in Hm; lia) Ht).
        remember (replace_str_spec r tok w) as out eqn:Eo. clear Eo.
        destruct IH as [r Hno | u rest out Hfirst Hrest].
        -- apply Rep_none. intros [|i] Ho.
           ++ apply (proj2 (occurs_prefix tok _)) in Ho. congruence.
           ++ apply (proj1 (occurs_cons tok c r i)) in Ho. exact (Hno i Ho).
        -- apply (Rep_occ tok w (c :: u) rest out); auto.
           intros [|i] Ho.
           ++ apply (proj2 (occurs_prefix tok _)) in Ho. cbn [app] in Ho. congruence.
           ++ cbn [app] in Ho. apply (proj1 (occurs_cons tok c _ i)) in Ho. apply Hfirst in Ho. cbn [length]. lia.
Qed.

(* ... and the declarative definition determines the result (so it is a specification, not just a property) *)
Lemma app_eq_len (a : list N) : forall a' b b', a ++ b = a' ++ b' -> length a = length a' -> a = a' /\ b = b'.
Proof.
  induction a as [|x a IH]; intros a' b b' E L; destruct a' as [|y a']; try discriminate; [auto|].
  cbn in E. inversion E. subst. cbn in L. destruct (IH a' b b' H1 ltac:(lia)) as [-> ->]. auto.
Qed.
Theorem replaced_fun tok w s o1 : replaced tok w s o1 -> forall o2, replaced tok w s o2 -> o1 = o2.
Proof.
  induction 1 as [s Hno | u rest out Hfirst Hrest IH]; intros o2 H2.
  - inversion H2 as [s' Hno' | u' rest' out' Hfirst' Hrest' E]; [reflexivity|].
    exfalso. apply (Hno (length u')). exists u', rest'. subst. auto.
  - inversion H2 as [s' Hno' E1 E2 | u' rest' out' Hfirst' Hrest' E].
    + exfalso. apply (Hno' (length u)). exists u, rest. auto.
    + assert (L : length u = length u').
      { apply Nat.le_antisymm.
        - apply Hfirst. exists u', rest'. auto.
        - apply Hfirst'. rewrite E. exists u, rest. auto. }
      destruct (app_eq_len _ _ _ _ E (eq_sym L)) as [Eu E3]. apply app_inv_head in E3. subst. f_equal. f_equal. apply IH. auto.
Qed.
