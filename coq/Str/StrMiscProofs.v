(* C19: qstrrev, qstrupper, qstrlower, qstrcpy, qstrncpy, qmemdup, qstrgets = their reference definitions; bounded writes. *)
From Coq Require Import NArith ZArith List Bool Lia.
From QV.Base Require Import Res Bytes.
From QV.Str Require Import StrModel StrSpec StrBase.
Import ListNotations.
Local Open Scope N_scope.

(* ---------- qstrrev ---------- *)
Lemma list_ends (l : list N) : l = [] \/ (exists x, l = [x]) \/ exists x m y, l = x :: m ++ [y].
Proof.
  destruct l as [|x l]; auto. right. destruct l as [|a l'] using rev_ind; [left; eauto|]. right. eauto.
Qed.
Lemma rev_loop_spec n : forall mid pre post fuel, (length mid <= n)%nat -> (length mid < fuel)%nat ->
  rev_loop fuel (pre ++ mid ++ post) (zlen pre) (zlen pre + zlen mid - 1)%Z = Ok (pre ++ rev mid ++ post).
Proof.
  induction n as [|n IH]; intros mid pre post fuel Hn Hf; (destruct fuel; [lia|]); cbn [rev_loop].
  - destruct mid; [|cbn in Hn; lia]. destruct (Z.ltb_spec (zlen pre) (zlen pre + zlen [] - 1)); [zl|]. reflexivity.
  - destruct (list_ends mid) as [->|[(x & ->)|(x & m & y & ->)]].
    + destruct (Z.ltb_spec (zlen pre) (zlen pre + zlen [] - 1)); [zl|]. reflexivity.
    + destruct (Z.ltb_spec (zlen pre) (zlen pre + zlen [x] - 1)); [zl|]. reflexivity.
    + pose proof (zlen_nonneg m).
      destruct (Z.ltb_spec (zlen pre) (zlen pre + zlen (x :: m ++ [y]) - 1)); [|zl].
      cbn [app]. rewrite rdz_mid by reflexivity. cbn [bind].
      replace (pre ++ x :: (m ++ [y]) ++ post) with ((pre ++ x :: m) ++ y :: post)
        by (rewrite <- !app_assoc; reflexivity).
      rewrite rdz_mid by zl. cbn [bind].
      rewrite <- app_assoc. cbn [app]. rewrite wrz_mid by reflexivity. cbn [bind].
      replace (pre ++ y :: m ++ y :: post) with ((pre ++ y :: m) ++ y :: post) by (rewrite <- app_assoc; reflexivity).
      rewrite wrz_mid by zl. cbn [bind].
      replace ((pre ++ y :: m) ++ x :: post) with ((pre ++ [y]) ++ m ++ (x :: post)) by (rewrite <- !app_assoc; reflexivity).
      replace (zlen pre + 1)%Z with (zlen (pre ++ [y])) by zl.
      replace (zlen pre + zlen (x :: m ++ [y]) - 1 - 1)%Z with (zlen (pre ++ [y]) + zlen m - 1)%Z by zl.
      rewrite IH.
      * f_equal. cbn [rev]. rewrite rev_app_distr. cbn [rev app]. rewrite <- !app_assoc. reflexivity.
      * cbn [length] in Hn. rewrite app_length in Hn. cbn in Hn. lia.
      * cbn [length] in Hf. rewrite app_length in Hf. cbn in Hf. lia.
Qed.
Theorem qstrrev_eq s fuel : cstr s -> (length s + 1 < fuel)%nat -> qstrrev fuel (s ++ [0]) = Ok (rev s ++ [0]).
Proof.
  intros Hs Hf. unfold qstrrev. rewrite strlen_0 by (auto; lia). cbn [bind].
  pose proof (rev_loop_spec (length s) s [] [0] fuel ltac:(lia) ltac:(lia)) as H. cbn [app] in H.
  rewrite zlen_nil, Z.add_0_l in H. exact H.
Qed.

(* ---------- qstrupper, qstrlower ---------- *)
Definition case_fn (lo hi delta : Z) (c : N) : N :=
  if (lo <=? schar c)%Z && (schar c <=? hi)%Z then uchar (schar c + delta) else c.
Lemma case_loop_spec lo hi delta s : forall pre post fuel, cstr s -> (length s < fuel)%nat ->
  case_loop lo hi delta fuel (pre ++ s ++ 0 :: post) (zlen pre) = Ok (pre ++ map (case_fn lo hi delta) s ++ 0 :: post).
Proof.
  induction s as [|c s IH]; intros pre post fuel Hs Hf; (destruct fuel; [cbn in Hf; lia|]); cbn [case_loop app map].
  - rewrite rdz_mid by reflexivity. reflexivity.
  - rewrite rdz_mid by reflexivity. cbn [bind]. rewrite (cstr_head_nz _ _ Hs). apply cstr_cons in Hs as [_ Hs].
    unfold case_fn at 1. destruct ((lo <=? schar c)%Z && (schar c <=? hi)%Z).
    + rewrite wrz_mid by reflexivity. cbn [bind].
      replace (zlen pre + 1)%Z with (zlen (pre ++ [uchar (schar c + delta)])) by zl.
      replace (pre ++ uchar (schar c + delta) :: s ++ 0 :: post) with ((pre ++ [uchar (schar c + delta)]) ++ s ++ 0 :: post)
        by (rewrite <- app_assoc; reflexivity).
      rewrite IH by (auto; cbn in Hf; lia). rewrite <- app_assoc. reflexivity.
    + replace (zlen pre + 1)%Z with (zlen (pre ++ [c])) by zl.
      replace (pre ++ c :: s ++ 0 :: post) with ((pre ++ [c]) ++ s ++ 0 :: post) by (rewrite <- app_assoc; reflexivity).
      rewrite IH by (auto; cbn in Hf; lia). rewrite <- app_assoc. reflexivity.
Qed.
(* on bytes, the signed-char comparison and arithmetic of the C code is the plain ASCII case map (bytes >= 0x80 are negative
   chars, hence below 'a' and 'A': untouched) *)
Lemma upper_byte : forallb (fun c => case_fn 97 122 (-32) c =? (if (97 <=? c) && (c <=? 122) then c - 32 else c)) (rng 256) = true.
Proof. vm_compute. reflexivity. Qed.
Lemma lower_byte : forallb (fun c => case_fn 65 90 32 c =? (if (65 <=? c) && (c <=? 90) then c + 32 else c)) (rng 256) = true.
Proof. vm_compute. reflexivity. Qed.
Lemma map_bytes (f g : N -> N) s : bytes s -> (forall c, isbyte c = true -> f c = g c) -> map f s = map g s.
Proof.
  intros Hb H. induction s as [|c s IH]; [reflexivity|]. apply bytes_cons in Hb as [Hc Hb]. cbn [map]. rewrite H, IH; auto.
Qed.
Theorem qstrupper_eq s fuel : cstr s -> (length s + 1 < fuel)%nat -> qstrupper fuel (s ++ [0]) = Ok (upper_spec s ++ [0]).
Proof.
  intros Hs Hf. unfold qstrupper. pose proof (case_loop_spec 97 122 (-32) s [] [] fuel Hs ltac:(lia)) as H.
  cbn [app] in H. change (zlen []) with 0%Z in H. rewrite H. unfold upper_spec. do 2 f_equal.
  apply map_bytes; [apply cstr_bytes; auto|]. intros c Hc. apply N.eqb_eq. exact (fbyte _ c upper_byte Hc).
Qed.
Theorem qstrlower_eq s fuel : cstr s -> (length s + 1 < fuel)%nat -> qstrlower fuel (s ++ [0]) = Ok (lower_spec s ++ [0]).
Proof.
  intros Hs Hf. unfold qstrlower. pose proof (case_loop_spec 65 90 32 s [] [] fuel Hs ltac:(lia)) as H.
  cbn [app] in H. change (zlen []) with 0%Z in H. rewrite H. unfold lower_spec. do 2 f_equal.
  apply map_bytes; [apply cstr_bytes; auto|]. intros c Hc. apply N.eqb_eq. exact (fbyte _ c lower_byte Hc).
Qed.

(* ---------- qstrncpy, qstrcpy ---------- *)
(* dst is the real destination array; the contract is size <= length dst.  The result is
   (min nbytes (size-1) bytes of the source) ++ [0] ++ (the rest of dst, untouched): at most size bytes written, always terminated. *)
Theorem qstrncpy_eq dst size srcb nbytes : (1 <= size)%nat -> (size <= length dst)%nat -> (Nat.min nbytes (size - 1) <= length srcb)%nat ->
  qstrncpy dst size srcb nbytes =
    Ok (firstn (Nat.min nbytes (size - 1)) srcb ++ 0 :: skipn (Nat.min nbytes (size - 1) + 1) dst).
Proof.
  intros H1 H2 H3. unfold qstrncpy. destruct (Nat.eqb_spec size 0); [lia|].
  assert (E : (if (size <=? nbytes)%nat then (size - 1)%nat else nbytes) = Nat.min nbytes (size - 1)).
  { destruct (Nat.leb_spec size nbytes); lia. }
  rewrite E. set (nb := Nat.min nbytes (size - 1)) in *. assert (Hnb : (nb < length dst)%nat) by lia.
  unfold copy_in. destruct (Nat.eqb_spec nb 0) as [E0|E0].
  - rewrite E0. cbn [bind firstn app]. destruct dst as [|d dst]; [cbn in Hnb; lia|].
    change (d :: dst) with ([] ++ d :: dst). rewrite wrz_mid by reflexivity. reflexivity.
  - destruct (Nat.ltb_spec (length srcb) nb); [lia|]. destruct (Nat.ltb_spec (length dst) nb); [lia|]. cbn [orb bind].
    assert (Hl : length (firstn nb srcb) = nb) by (rewrite firstn_length; lia).
    destruct (skipn nb dst) as [|d r] eqn:Es.
    { apply (f_equal (@length N)) in Es. rewrite skipn_length in Es. cbn in Es. lia. }
    rewrite wrz_mid by (unfold zlen; lia). f_equal. f_equal. f_equal.
    symmetry. eapply skipn_succ; eauto.
Qed.
Theorem qstrncpy_size0 dst srcb nbytes : qstrncpy dst 0 srcb nbytes = Ok dst.
Proof. reflexivity. Qed.
Theorem qstrcpy_eq dst size s post fuel : cstr s -> (length s < fuel)%nat -> (1 <= size)%nat -> (size <= length dst)%nat ->
  qstrcpy fuel dst size (s ++ 0 :: post) = Ok (strcpy_spec size s ++ skipn (Nat.min (length s) (size - 1) + 1) dst).
Proof.
  intros Hs Hf H1 H2. unfold qstrcpy. destruct (Nat.eqb_spec size 0); [lia|].
  rewrite strlen_0 by auto. cbn [bind]. rewrite zlen_to_nat.
  rewrite qstrncpy_eq; auto; [|rewrite app_length; lia]. unfold strcpy_spec. rewrite <- app_assoc. cbn [app]. f_equal. f_equal.
  rewrite firstn_app. replace (Nat.min (length s) (size - 1) - length s)%nat with O by lia. cbn [firstn]. rewrite app_nil_r.
  destruct (Nat.le_ge_cases (length s) (size - 1)).
  - rewrite Nat.min_l by lia. rewrite !firstn_all2 by lia. reflexivity.
  - rewrite Nat.min_r by lia. reflexivity.
Qed.
Lemma strncpy_spec_len size nbytes s : (1 <= size)%nat -> (length (strncpy_spec size nbytes s) <= size)%nat.
Proof. intros H. unfold strncpy_spec. rewrite app_length, firstn_length. cbn [length]. lia. Qed.

(* ---------- qmemdup ---------- *)
Theorem qmemdup_eq data size : (size <= length data)%nat ->
  qmemdup data size = Ok (if (size =? 0)%nat then None else Some (firstn size data)).
Proof. intros H. unfold qmemdup. destruct (size =? 0)%nat; [reflexivity|]. destruct (Nat.leb_spec size (length data)); [reflexivity|lia]. Qed.

(* ---------- qstrgets ---------- *)
Ltac tup := cbn [filter length skipn app]; repeat match goal with |- Ok _ = Ok _ => f_equal | |- (_, _) = (_, _) => f_equal end; zl.
Definition notcr (c : N) : bool := negb (c =? 13).
Lemma gets_loop_spec rest : forall pre post fuel i lim k bpre bfree, cstr rest -> (length rest < fuel)%nat ->
  i <= lim -> N.to_nat (lim - i) = k -> (k <= length bfree)%nat ->
  let (l, n) := line_of (firstn k rest) in
  gets_loop fuel (pre ++ rest ++ 0 :: post) (zlen pre) i lim (bpre ++ bfree) (zlen bpre) =
    Ok (bpre ++ filter notcr l ++ skipn (length (filter notcr l)) bfree, (zlen pre + Z.of_nat n)%Z, (zlen bpre + zlen (filter notcr l))%Z).
Proof.
  induction rest as [|c rest IH]; intros pre post fuel i lim k bpre bfree Hs Hf Hi Hk Hb; (destruct fuel; [cbn in Hf; lia|]).
  - rewrite firstn_nil. cbn [line_of gets_loop app filter length skipn]. rewrite rdz_mid by reflexivity. cbn [bind N.eqb orb].
    tup.
  - cbn [gets_loop app]. rewrite rdz_mid by reflexivity. cbn [bind]. rewrite (cstr_head_nz _ _ Hs). cbn [orb].
    apply cstr_cons in Hs as [_ Hs]. destruct k as [|k].
    + destruct (N.ltb_spec i lim); [lia|]. cbn [negb firstn line_of filter length skipn app]. tup.
    + destruct (N.ltb_spec i lim); [|lia]. cbn [negb firstn line_of].
      destruct (N.eqb_spec c 13) as [E13|E13].
      * subst c. cbn [N.eqb Pos.eqb].
        specialize (IH (pre ++ [13]) post fuel (i + 1) lim k bpre bfree Hs ltac:(cbn in Hf; lia) ltac:(lia) ltac:(lia) ltac:(lia)).
        destruct (line_of (firstn k rest)) as [l n]. cbn [filter notcr N.eqb Pos.eqb negb].
        rewrite <- app_assoc in IH. cbn [app] in IH. replace (zlen pre + 1)%Z with (zlen (pre ++ [13])) by zl.
        rewrite IH. tup.
      * destruct (N.eqb_spec c 10) as [E10|E10].
        { cbn [filter length skipn app]. tup. }
        destruct bfree as [|x bfree]; [cbn in Hb; lia|].
        rewrite wrz_mid by reflexivity. cbn [bind].
        specialize (IH (pre ++ [c]) post fuel (i + 1) lim k (bpre ++ [c]) bfree Hs ltac:(cbn in Hf; lia) ltac:(lia) ltac:(lia) ltac:(cbn in Hb; lia)).
        destruct (line_of (firstn k rest)) as [l n]. assert (Hn : notcr c = true) by (unfold notcr; destruct (N.eqb_spec c 13); [contradiction|reflexivity]).
        cbn [filter]. rewrite !Hn. cbn [length skipn].
        rewrite <- !app_assoc in IH. cbn [app] in IH.
        replace (zlen pre + 1)%Z with (zlen (pre ++ [c])) by zl. replace (zlen bpre + 1)%Z with (zlen (bpre ++ [c])) by zl.
        rewrite IH. tup.
Qed.
Lemma line_of_len w : let (l, n) := line_of w in (length l <= length w)%nat /\ (n <= length w)%nat.
Proof.
  induction w as [|c w IH]; cbn [line_of length]; [auto|]. destruct (c =? 10); [cbn; lia|].
  destruct (line_of w) as [l n]. cbn [length]. lia.
Qed.
Lemma filter_len (f : N -> bool) l : (length (filter f l) <= length l)%nat.
Proof. induction l as [|c l IH]; cbn [filter length]; [lia|]. destruct (f c); cbn [length]; lia. Qed.
(* buf is the real destination array with exactly `size` >= 1 bytes: the stored line plus its terminator fit, the rest of buf is
   untouched; off' - off characters of the text were consumed *)
Theorem qstrgets_eq pre rest post buf size fuel : cstr rest -> (length rest < fuel)%nat -> 1 <= size -> length buf = N.to_nat size ->
  match gets_spec (N.to_nat size) rest with
  | None => qstrgets fuel buf size (pre ++ rest ++ 0 :: post) (zlen pre) = Ok None
  | Some (l, n) => qstrgets fuel buf size (pre ++ rest ++ 0 :: post) (zlen pre) =
                     Ok (Some (l ++ 0 :: skipn (length l + 1) buf, (zlen pre + Z.of_nat n)%Z)) /\ (length l + 1 <= length buf)%nat
  end.
Proof.
  intros Hs Hf H1 Hb. unfold qstrgets, gets_spec.
  destruct rest as [|c rest]; [cbn [app]; rewrite rdz_mid by reflexivity; reflexivity|].
  set (r := c :: rest) in *. change (pre ++ r ++ 0 :: post) with (pre ++ c :: (rest ++ 0 :: post)).
  rewrite rdz_mid by reflexivity. cbn [bind]. rewrite (cstr_head_nz _ _ Hs).
  destruct (N.eqb_spec size 0); [lia|].
  change (pre ++ c :: rest ++ 0 :: post) with (pre ++ r ++ 0 :: post).
  pose proof (gets_loop_spec r pre post fuel 0 (size - 1) (N.to_nat size - 1) [] buf Hs Hf ltac:(lia) ltac:(lia) ltac:(lia)) as H.
  pose proof (line_of_len (firstn (N.to_nat size - 1) r)) as HL.
  destruct (line_of (firstn (N.to_nat size - 1) r)) as [l n1]. cbn [app] in H. change (zlen []) with 0%Z in H. rewrite H. cbn [bind].
  fold notcr. set (l' := filter notcr l) in *.
  assert (Hl' : (length l' < length buf)%nat).
  { pose proof (filter_len notcr l). fold l' in H0. rewrite firstn_length in HL. lia. }
  destruct (skipn (length l') buf) as [|x rr] eqn:Es.
  { apply (f_equal (@length N)) in Es. rewrite skipn_length in Es. cbn in Es. lia. }
  rewrite wrz_mid by (unfold zlen; lia). cbn [bind]. split; [|lia]. rewrite (skipn_succ _ _ _ _ _ Es). reflexivity.
Qed.
