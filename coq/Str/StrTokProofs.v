(* C19: qstrtok, qstrtokenizer and qstrdup_between = their reference definitions. *)
From Coq Require Import NArith ZArith List Bool Lia.
From QV.Base Require Import Res Bytes.
From QV.Str Require Import StrModel StrSpec StrBase StrReplaceProofs.
Import ListNotations.
Local Open Scope N_scope.

Ltac fin := repeat match goal with |- Ok _ = Ok _ => f_equal | |- (_, _) = (_, _) => f_equal | |- Some _ = Some _ => f_equal end;
  try reflexivity; try (rewrite ?zlen_app, ?zlen_cons, ?zlen_nil; unfold zlen; cbn [length]; lia).
Definition nodelim (delims f : list N) : Prop := forallb (fun c => negb (existsb (N.eqb c) delims)) f = true.

Lemma find_delim_existsb c delims : find_delim c delims = if existsb (N.eqb c) delims then Some c else None.
Proof.
  induction delims as [|d r IH]; cbn [find_delim existsb]; [reflexivity|]. destruct (N.eqb_spec c d); [subst; reflexivity|]. exact IH.
Qed.

Lemma first_field_shape delims rest : cstr rest ->
  match first_field delims rest with
  | (f, d, n) => nodelim delims f /\ cstr f /\
      ((d = 0 /\ rest = f /\ n = length f) \/
       (d <> 0 /\ existsb (N.eqb d) delims = true /\ exists r', rest = f ++ d :: r' /\ cstr r' /\ n = S (length f)))
  end.
Proof.
  induction rest as [|c r IH]; intros Hs; cbn [first_field].
  - split; [reflexivity|]. split; [reflexivity|]. left. auto.
  - pose proof Hs as Hs0. apply cstr_cons in Hs as [[Hb Hc] Hr]. destruct (existsb (N.eqb c) delims) eqn:Hd.
    + split; [reflexivity|]. split; [reflexivity|]. right. split; [auto|]. split; [auto|]. exists r. auto.
    + specialize (IH Hr). destruct (first_field delims r) as [[f d] n]. destruct IH as (Hn & Hf & IH).
      split; [unfold nodelim; cbn [forallb]; rewrite Hd; exact Hn|].
      split; [apply cstr_cons; auto|].
      destruct IH as [(-> & -> & ->)|(Hd0 & He & r' & -> & Hr' & ->)]; [left; auto|].
      right. split; [auto|]. split; [auto|]. exists r'. auto.
Qed.

Lemma tok_loop_spec delims rest : forall pre post fuel, cstr rest -> (length rest < fuel)%nat ->
  tok_loop fuel (pre ++ rest ++ 0 :: post) delims (zlen pre) =
    match first_field delims rest with (f, d, n) => Ok ((zlen pre + zlen f)%Z, if d =? 0 then None else Some d) end.
Proof.
  induction rest as [|c r IH]; intros pre post fuel Hs Hf; (destruct fuel; [cbn in Hf; lia|]); cbn [tok_loop first_field app].
  - rewrite rdz_mid by reflexivity. cbn [bind N.eqb]. f_equal. f_equal. zl.
  - rewrite rdz_mid by reflexivity. cbn [bind]. rewrite (cstr_head_nz _ _ Hs). rewrite find_delim_existsb.
    pose proof Hs as Hs0. apply cstr_cons in Hs as [_ Hr].
    destruct (existsb (N.eqb c) delims).
    + rewrite (cstr_head_nz _ _ Hs0). f_equal. f_equal. zl.
    + replace (zlen pre + 1)%Z with (zlen (pre ++ [c])) by zl.
      replace (pre ++ c :: r ++ 0 :: post) with ((pre ++ [c]) ++ r ++ 0 :: post) by (rewrite <- app_assoc; reflexivity).
      rewrite IH by (auto; cbn in Hf; lia). destruct (first_field delims r) as [[f d] n]. f_equal. f_equal. zl.
Qed.

(* One call.  pre is whatever earlier calls left in front of the current offset (it may contain NULs written by them). *)
Theorem qstrtok_eq pre rest delims fuel : cstr rest -> (length rest + 1 < fuel)%nat ->
  qstrtok fuel (pre ++ rest ++ [0]) delims (zlen pre) =
  match strtok_spec delims rest with
  | None => Ok (None, 0, zlen pre, pre ++ rest ++ [0])
  | Some (f, d, n) => Ok (Some (zlen pre), d, (zlen pre + Z.of_nat n)%Z,
                          if d =? 0 then pre ++ rest ++ [0] else pre ++ f ++ 0 :: skipn (S (length f)) rest ++ [0])
  end.
Proof.
  intros Hs Hf. unfold qstrtok, strtok_spec. rewrite tok_loop_spec by (auto; lia).
  pose proof (first_field_shape delims rest Hs) as Sh.
  destruct rest as [|c r].
  - cbn [first_field N.eqb bind zlen length]. rewrite Z.add_0_r, Z.eqb_refl. reflexivity.
  - destruct (first_field delims (c :: r)) as [[f d] n]. destruct Sh as (Hn & Hcf & [(-> & E & ->)|(Hd0 & He & r' & E & Hr' & ->)]).
    + cbn [N.eqb bind]. subst f. destruct (Z.eqb_spec (zlen pre) (zlen pre + zlen (c :: r))); [zl; pose proof (zlen_nonneg r); lia|].
      fin.
    + destruct (N.eqb_spec d 0); [contradiction|]. cbn [bind]. rewrite E.
      replace (pre ++ (f ++ d :: r') ++ [0]) with ((pre ++ f) ++ d :: r' ++ [0]) by (rewrite <- !app_assoc; reflexivity).
      rewrite wrz_mid by zl. cbn [bind]. rewrite skipn_S_len_app, <- app_assoc. fin.
Qed.

(* ---------- reference definition of the tokenizer: unfolding lemmas ---------- *)
Lemma fields_nonnil delims s : fields delims s <> [].
Proof. destruct s as [|c r]; cbn [fields]; [discriminate|]. destruct (existsb (N.eqb c) delims); [discriminate|]. destruct (fields delims r); discriminate. Qed.
Lemma fields_nodelim delims f : nodelim delims f -> fields delims f = [f].
Proof.
  unfold nodelim. induction f as [|c f IH]; cbn [forallb fields]; [reflexivity|]. intros H. apply andb_true_iff in H as [H1 H2].
  apply negb_true_iff in H1. rewrite H1, IH by auto. reflexivity.
Qed.
Lemma fields_delim delims f d r : nodelim delims f -> existsb (N.eqb d) delims = true ->
  fields delims (f ++ d :: r) = f :: fields delims r.
Proof.
  unfold nodelim. intros Hf Hd. induction f as [|c f IH]; cbn [forallb fields app] in *; [rewrite Hd; reflexivity|].
  apply andb_true_iff in Hf as [H1 H2]. apply negb_true_iff in H1. rewrite H1, IH by auto. reflexivity.
Qed.
Lemma drop_last_cons f l : l <> [] -> drop_last_empty (f :: l) = f :: drop_last_empty l.
Proof.
  intros Hl. unfold drop_last_empty. cbn [rev]. destruct (rev l) as [|x r'] eqn:Er.
  - apply (f_equal (@rev (list N))) in Er. rewrite rev_involutive in Er. contradiction.
  - cbn [app]. destruct x; [rewrite rev_app_distr; reflexivity|reflexivity].
Qed.
Lemma tokenize_nil delims : tokenize_spec delims [] = [].
Proof. reflexivity. Qed.
Lemma tokenize_last delims f : nodelim delims f -> f <> [] -> tokenize_spec delims f = [f].
Proof. intros H Hf. unfold tokenize_spec. rewrite fields_nodelim by auto. destruct f; [contradiction|reflexivity]. Qed.
Lemma tokenize_delim delims f d r : nodelim delims f -> existsb (N.eqb d) delims = true ->
  tokenize_spec delims (f ++ d :: r) = f :: tokenize_spec delims r.
Proof. intros H Hd. unfold tokenize_spec. rewrite fields_delim by auto. apply drop_last_cons, fields_nonnil. Qed.

Lemma tokz_loop_spec delims fuel2 m : forall rest pre fuel acc, (length rest <= m)%nat -> cstr rest ->
  (length rest + 1 < fuel2)%nat -> (length rest + 1 < fuel)%nat ->
  tokz_loop fuel fuel2 (pre ++ rest ++ [0]) delims (zlen pre) acc = Ok (rev acc ++ tokenize_spec delims rest).
Proof.
  induction m as [|m IH]; intros rest pre fuel acc Hm Hs Hf2 Hf; (destruct fuel; [lia|]); cbn [tokz_loop]; rewrite qstrtok_eq by auto.
  - destruct rest; [|cbn in Hm; lia]. cbn [strtok_spec bind]. rewrite tokenize_nil, app_nil_r. reflexivity.
  - pose proof (first_field_shape delims rest Hs) as Sh. unfold strtok_spec. destruct rest as [|c r].
    + cbn [bind]. rewrite tokenize_nil, app_nil_r. reflexivity.
    + destruct (first_field delims (c :: r)) as [[f d] n]. destruct Sh as (Hn & Hcf & [(-> & E & ->)|(Hd0 & He & r' & E & Hr' & ->)]).
      * cbn [N.eqb bind]. rewrite E. rewrite cstr_at_mid by (auto; subst f; lia). cbn [bind].
        replace (zlen pre + Z.of_nat (length f))%Z with (zlen (pre ++ f)) by (rewrite zlen_app; unfold zlen; lia).
        replace (pre ++ f ++ [0]) with ((pre ++ f) ++ [] ++ [0]) by (rewrite <- app_assoc; reflexivity).
        rewrite IH by (cbn [length] in *; first [lia | reflexivity]). rewrite tokenize_nil, app_nil_r. cbn [rev]. f_equal. f_equal.
        symmetry. apply tokenize_last; [auto|subst f; discriminate].
      * destruct (N.eqb_spec d 0); [contradiction|]. cbn [bind]. rewrite E, skipn_S_len_app.
        rewrite E in Hm, Hf2, Hf. rewrite app_length in Hm, Hf2, Hf. cbn [length] in Hm, Hf2, Hf.
        rewrite cstr_at_mid by (auto; lia). cbn [bind].
        replace (zlen pre + Z.of_nat (S (length f)))%Z with (zlen (pre ++ f ++ [0])) by (rewrite !zlen_app, zlen_cons, zlen_nil; unfold zlen; lia).
        replace (pre ++ f ++ 0 :: r' ++ [0]) with ((pre ++ f ++ [0]) ++ r' ++ [0]) by (rewrite <- !app_assoc; reflexivity).
        rewrite IH by (auto; lia). cbn [rev]. rewrite <- app_assoc. cbn [app]. f_equal. f_equal.
        symmetry. apply tokenize_delim; auto.
Qed.
Theorem qstrtokenizer_eq s post delims fuel : cstr s -> (length s + 1 < fuel)%nat ->
  qstrtokenizer fuel (s ++ 0 :: post) delims = Ok (tokenize_spec delims s).
Proof.
  intros Hs Hf. unfold qstrtokenizer. rewrite cstr_of_app by auto. cbn [bind].
  exact (tokz_loop_spec delims fuel (length s) s [] fuel [] ltac:(lia) Hs Hf Hf).
Qed.
(* every field, in order: joining the tokens with the delimiters that ended them gives the text back *)
Lemma tokenize_fields delims s : tokenize_spec delims s = fields delims s \/ exists l, fields delims s = l ++ [[]] /\ tokenize_spec delims s = l.
Proof.
  unfold tokenize_spec, drop_last_empty. destruct (rev (fields delims s)) as [|x r] eqn:E; [left; reflexivity|].
  destruct x; [|left; reflexivity]. right. exists (rev r). split; [|reflexivity].
  apply (f_equal (@rev (list N))) in E. rewrite rev_involutive in E. exact E.
Qed.

(* ---------- qstrdup_between ---------- *)
Lemma strstr_some n : forall h i, strstr h n = Some i -> first_occ n h i.
Proof.
  induction h as [|c r IH]; intros i H; cbn [strstr] in H; rewrite strncmp_is_prefix in H.
  - destruct (is_prefix n []) eqn:Hp; [|discriminate]. inversion H. subst i. split; [apply occurs_prefix; auto|intros; lia].
  - destruct (is_prefix n (c :: r)) eqn:Hp.
    + inversion H. subst i. split; [apply occurs_prefix; auto|intros; lia].
    + destruct (strstr r n) as [i'|] eqn:Es; [|discriminate]. cbn in H. inversion H. subst i.
      destruct (IH i' eq_refl) as [Ho Hmin]. split; [apply occurs_cons; auto|].
      intros [|j] Hj.
      * apply (proj2 (occurs_prefix n _)) in Hj. congruence.
      * apply (proj1 (occurs_cons n c r j)) in Hj. apply Hmin in Hj. lia.
Qed.
Lemma strstr_none n : forall h, strstr h n = None -> forall i, ~ occurs_at n h i.
Proof.
  induction h as [|c r IH]; intros H i Ho; cbn [strstr] in H; rewrite strncmp_is_prefix in H.
  - destruct (is_prefix n []) eqn:Hp; [discriminate|]. destruct Ho as (a & z & E & L). destruct a; destruct n; try discriminate.
  - destruct (is_prefix n (c :: r)) eqn:Hp; [discriminate|]. destruct (strstr r n) eqn:Es; [discriminate|].
    destruct i as [|i].
    + apply (proj2 (occurs_prefix n _)) in Ho. congruence.
    + apply (proj1 (occurs_cons n c r i)) in Ho. exact (IH eq_refl i Ho).
Qed.
Theorem qstrdup_between_some s st en m : qstrdup_between s st en = Some m -> between_spec s st en m.
Proof.
  unfold qstrdup_between. destruct (strstr s st) as [i|] eqn:E1; [|discriminate].
  pose proof (strstr_some _ _ _ E1) as F1. destruct F1 as [(a & z0 & Es & La) Hmin1].
  assert (Ek : skipn (i + length st) s = z0).
  { rewrite Es, app_assoc. replace (i + length st)%nat with (length (a ++ st)) by (rewrite app_length; lia). apply skipn_len_app. }
  rewrite Ek. destruct (strstr z0 en) as [len|] eqn:E2; [|discriminate]. intros H. inversion H. clear H.
  pose proof (strstr_some _ _ _ E2) as F2. destruct F2 as [(a2 & z & Ez & La2) Hmin2].
  assert (Em : firstn len z0 = a2) by (rewrite Ez, <- La2; apply firstn_len_app).
  rewrite Em. exists a, z. split; [rewrite Es, Ez; reflexivity|]. split.
  - rewrite La. split; [exists a, z0; auto|auto].
  - rewrite <- Ez, La2. split; [exists a2, z; auto|auto].
Qed.
Theorem qstrdup_between_none s st en : qstrdup_between s st en = None -> forall m, ~ between_spec s st en m.
Proof.
  unfold qstrdup_between. intros H m (a & z & Es & [Ho1 Hmin1] & [Ho2 Hmin2]).
  destruct (strstr s st) as [i|] eqn:E1.
  - pose proof (strstr_some _ _ _ E1) as [(a' & z0 & Es' & La') Hmin'].
    assert (L : length a' = length a).
    { apply Nat.le_antisymm; [rewrite La'; apply Hmin'; auto|]. apply Hmin1. exists a', z0. auto. }
    rewrite Es' in Es. destruct (app_eq_len _ _ _ _ Es L) as [-> E3]. apply app_inv_head in E3.
    assert (Ek : skipn (i + length st) s = z0).
    { rewrite Es', app_assoc. replace (i + length st)%nat with (length (a ++ st)) by (rewrite app_length; lia). apply skipn_len_app. }
    rewrite Ek in H. destruct (strstr z0 en) eqn:E2; [discriminate|].
    apply (strstr_none _ _ E2 (length m)). rewrite E3. exact Ho2.
  - exact (strstr_none _ _ E1 _ Ho1).
Qed.
