(* C19: qstrtrim, qstrtrim_head, qstrtrim_tail, qstrunchar = their reference definitions, and all their reads and
   writes stay inside the strlen+1 bytes of the string (the model returns Ok on a buffer of exactly that size). *)
From Coq Require Import NArith ZArith List Bool Lia.
From QV.Base Require Import Res Bytes.
From QV.Str Require Import StrModel StrSpec StrBase.
Import ListNotations.
Local Open Scope N_scope.

Lemma forallb_blank l : forallb is_blank l = true -> forallb blank l = true.
Proof. induction l as [|c l IH]; cbn [forallb]; auto. rewrite blank_is. intros H. apply andb_true_iff in H as [-> H]. auto. Qed.
Lemma scan_back_0 mid post fuel : (length mid < fuel)%nat ->
  scan_back fuel (mid ++ post) 0 (zlen mid - 1)%Z = Ok (zlen (trim_tail_spec mid) - 1)%Z.
Proof. intros H. pose proof (scan_back_spec mid [] post fuel H) as H0. cbn [app] in H0. rewrite zlen_nil, !Z.add_0_l in H0. exact H0. Qed.
Lemma snoc_cons (l : list N) c : exists x r, l ++ [c] = x :: r /\ length r = length l.
Proof. destruct l as [|x l]; [exists c, []; auto|]. exists x, (l ++ [c]). rewrite app_length. cbn. split; [reflexivity|lia]. Qed.
Lemma cstr_app_l a b : cstr (a ++ b) -> cstr a.
Proof. intros H. apply cstr_app in H. tauto. Qed.
Lemma cstr_app_r a b : cstr (a ++ b) -> cstr b.
Proof. intros H. apply cstr_app in H. tauto. Qed.

Theorem qstrtrim_tail_eq s fuel : cstr s -> (length s + 1 < fuel)%nat ->
  exists g, qstrtrim_tail fuel (s ++ [0]) = Ok (trim_tail_spec s ++ 0 :: g) /\
            length (trim_tail_spec s ++ 0 :: g) = length (s ++ [0]).
Proof.
  intros Hs Hf. unfold qstrtrim_tail. rewrite strlen_0 by (auto; lia). cbn [bind].
  rewrite scan_back_0 by lia. cbn [bind].
  destruct (trim_tail_prefix s) as (trail & E). remember (trim_tail_spec s) as T eqn:HT. clear HT.
  subst s. destruct (snoc_cons trail 0) as (x & r & Ex & Lr).
  rewrite <- app_assoc, Ex. exists r. rewrite wrz_mid by lia. split; [reflexivity|].
  len.
Qed.

Lemma next_nonblank rest : cstr rest -> match rest with c :: _ => is_blank c = false | [] => True end ->
  exists c post, rest ++ [0] = c :: post /\ blank c = false.
Proof. destruct rest as [|c r]; intros _ H; [exists 0, []; auto|]. exists c, (r ++ [0]). rewrite blank_is. auto. Qed.

Theorem qstrtrim_head_eq s fuel : cstr s -> (length s + 1 < fuel)%nat ->
  exists g, qstrtrim_head fuel (s ++ [0]) = Ok (trim_head_spec s ++ 0 :: g) /\
            length (trim_head_spec s ++ 0 :: g) = length (s ++ [0]).
Proof.
  intros Hs Hf. unfold qstrtrim_head, trim_head_spec.
  destruct (drop_while_split is_blank s) as (lead & E & Hl & Hd).
  remember (drop_while is_blank s) as rest eqn:HR. clear HR. subst s.
  assert (Hrest : cstr rest) by (eapply cstr_app_r; eauto).
  destruct (next_nonblank rest Hrest Hd) as (c & post & Ec & Hc).
  rewrite app_length in Hf.
  pose proof (scan_fwd_run blank lead [] c post fuel (forallb_blank _ Hl) Hc ltac:(lia)) as H1.
  cbn [app] in H1. rewrite zlen_nil, Z.add_0_l in H1. rewrite <- app_assoc, Ec, H1. cbn [bind].
  destruct (Z.ltb_spec 0 (zlen lead)) as [Hp|Hp].
  - rewrite <- Ec. rewrite strlen_mid by (auto; lia). cbn [bind].
    pose proof (memmove_front lead (rest ++ [0]) [] (zlen rest + 1)%Z ltac:(zl)) as H2.
    rewrite app_nil_r in H2. rewrite H2. eexists. split; [rewrite <- app_assoc; reflexivity|].
    len.
  - assert (lead = []) by (destruct lead; [auto|rewrite zlen_cons in Hp; pose proof (zlen_nonneg lead); lia]). subst lead.
    cbn [app]. rewrite <- Ec. exists []. auto.
Qed.

Theorem qstrtrim_eq s fuel : cstr s -> (length s + 1 < fuel)%nat ->
  exists g, qstrtrim fuel (s ++ [0]) = Ok (trim_spec s ++ 0 :: g) /\
            length (trim_spec s ++ 0 :: g) = length (s ++ [0]).
Proof.
  intros Hs Hf. unfold qstrtrim, trim_spec, trim_head_spec.
  destruct (drop_while_split is_blank s) as (lead & E & Hl & Hd).
  remember (drop_while is_blank s) as rest eqn:HR. clear HR. subst s.
  assert (Hrest : cstr rest) by (eapply cstr_app_r; eauto).
  destruct (next_nonblank rest Hrest Hd) as (c & post & Ec & Hc).
  rewrite app_length in Hf.
  pose proof (scan_fwd_run blank lead [] c post fuel (forallb_blank _ Hl) Hc ltac:(lia)) as H1.
  cbn [app] in H1. rewrite zlen_nil, Z.add_0_l in H1. rewrite <- app_assoc, Ec, H1. cbn [bind].
  rewrite <- Ec.
  rewrite (scan_fwd_run nonzero rest lead 0 [] fuel (cstr_nonzero _ Hrest) eq_refl ltac:(lia)). cbn [bind].
  rewrite scan_back_spec by lia. cbn [bind].
  destruct (trim_tail_prefix rest) as (trail & E2). remember (trim_tail_spec rest) as core eqn:HC. clear HC.
  subst rest. destruct (snoc_cons trail 0) as (x & r & Ex & Lr).
  rewrite <- app_assoc, Ex, (app_assoc lead core). rewrite wrz_mid by zl. cbn [bind].
  destruct (Z.ltb_spec 0 (zlen lead)) as [Hp|Hp].
  - rewrite <- app_assoc.
    pose proof (memmove_front lead (core ++ [0]) r (zlen lead + zlen core - 1 + 1 - zlen lead + 1)%Z ltac:(zl)) as H2.
    rewrite <- (app_assoc core [0] r) in H2. cbn [app] in H2. rewrite H2.
    eexists. split; [rewrite <- app_assoc; reflexivity|].
    len.
  - assert (lead = []) by (destruct lead; [auto|rewrite zlen_cons in Hp; pose proof (zlen_nonneg lead); lia]). subst lead.
    cbn [app]. exists r. split; [reflexivity|]. len.
Qed.

(* the string after the call is exactly the reference result: reading it back *)
Lemma cstr_trim_tail s : cstr s -> cstr (trim_tail_spec s).
Proof. intros H. destruct (trim_tail_prefix s) as (t & E). rewrite E in H. eapply cstr_app_l; eauto. Qed.
Lemma cstr_trim_head s : cstr s -> cstr (trim_head_spec s).
Proof. intros H. destruct (drop_while_split is_blank s) as (l & E & _). rewrite E in H. eapply cstr_app_r; eauto. Qed.

(* ---------- qstrunchar ---------- *)
Theorem qstrunchar_eq s head tail fuel : cstr s -> (length s + 1 < fuel)%nat ->
  match unchar_spec s head tail with
  | None => qstrunchar fuel (s ++ [0]) head tail = Ok None
  | Some m => exists g, qstrunchar fuel (s ++ [0]) head tail = Ok (Some (m ++ 0 :: g)) /\
                        length (m ++ 0 :: g) = length (s ++ [0])
  end.
Proof.
  intros Hs Hf. unfold qstrunchar, unchar_spec. rewrite strlen_0 by (auto; lia). cbn [bind].
  destruct s as [|h r]; [reflexivity|].
  destruct (rev r) as [|t m'] eqn:Er.
  - apply (f_equal (@rev N)) in Er. rewrite rev_involutive in Er. subst r. reflexivity.
  - apply (f_equal (@rev N)) in Er. rewrite rev_involutive in Er. cbn [rev] in Er. subst r.
    set (m := rev m') in *.
    destruct (Z.ltb_spec (zlen (h :: m ++ [t])) 2); [pose proof (zlen_nonneg m); zl|].
    change ((h :: m ++ [t]) ++ [0]) with ([] ++ h :: ((m ++ [t]) ++ [0])). rewrite rdz_mid by reflexivity. cbn [bind app].
    destruct (N.eqb_spec h head) as [Eh|Eh]; cbn [negb andb]; [|reflexivity].
    replace (h :: (m ++ [t]) ++ [0]) with ((h :: m) ++ t :: [0]) by (cbn; rewrite <- app_assoc; reflexivity).
    rewrite rdz_mid by zl. cbn [bind].
    destruct (N.eqb_spec t tail) as [Et|Et]; cbn [negb]; [|reflexivity].
    pose proof (memmove_front [h] m [t; 0] (zlen (h :: m ++ [t]) - 2)%Z ltac:(zl)) as H2.
    change (zlen [h]) with 1%Z in H2. cbn [app] in H2. cbn [app]. rewrite H2. cbn [bind].
    (* skipn |m| (h :: m ++ [t;0]) has exactly three elements *)
    assert (E5 : exists y z, skipn (length m) (h :: m ++ [t; 0]) = [y; z; 0]).
    { clear. revert h. induction m as [|a m IH]; intros h; cbn [length skipn app]; [eauto|]. apply IH. }
    destruct E5 as (y & z & E5). cbn [app] in *. rewrite E5.
    rewrite wrz_mid by zl. exists [z; 0]. split; [reflexivity|].
    len.
Qed.
