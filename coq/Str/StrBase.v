(* Buffer-level lemmas shared by the C19 proofs: reads, writes, memmove and the two scanning loops. *)
From Coq Require Import NArith ZArith List Bool Lia.
From QV.Base Require Import Res Bytes.
From QV.Str Require Import StrModel StrSpec.
Import ListNotations.
Local Open Scope N_scope.

Lemma zlen_app a b : zlen (a ++ b) = (zlen a + zlen b)%Z.
Proof. unfold zlen. rewrite app_length. lia. Qed.
Lemma zlen_cons c b : zlen (c :: b) = (1 + zlen b)%Z.
Proof. unfold zlen. cbn [length]. lia. Qed.
Lemma zlen_nil : zlen [] = 0%Z.
Proof. reflexivity. Qed.
Lemma zlen_nonneg b : (0 <= zlen b)%Z.
Proof. unfold zlen. lia. Qed.
Lemma zlen_rev b : zlen (rev b) = zlen b.
Proof. unfold zlen. rewrite rev_length. reflexivity. Qed.
Lemma zlen_to_nat b : Z.to_nat (zlen b) = length b.
Proof. unfold zlen. apply Nat2Z.id. Qed.
Ltac len := repeat (progress (rewrite ?app_length, ?skipn_length, ?rev_length, ?map_length; cbn [length])); try lia.
Ltac zl := repeat rewrite ?zlen_app, ?zlen_cons, ?zlen_nil, ?zlen_rev in *; try lia.

Lemma firstn_len_app (A : Type) (l r : list A) : firstn (length l) (l ++ r) = l.
Proof. induction l; cbn; congruence. Qed.
Lemma skipn_len_app (A : Type) (l r : list A) : skipn (length l) (l ++ r) = r.
Proof. induction l; cbn; congruence. Qed.

Lemma skipn_S_len_app (A : Type) (l : list A) c r : skipn (S (length l)) (l ++ c :: r) = r.
Proof. induction l; cbn; auto. Qed.

Lemma skipn_succ (A : Type) n : forall (l : list A) x r, skipn n l = x :: r -> skipn (n + 1) l = r.
Proof.
  induction n as [|n IH]; intros l x r H; destruct l as [|a l]; cbn in H; try discriminate.
  - inversion H. reflexivity.
  - cbn. eapply IH; eauto.
Qed.

Lemma rdz_mid pre c post i : i = zlen pre -> rdz (pre ++ c :: post) i = Ok c.
Proof.
  intros ->. unfold rdz. pose proof (zlen_nonneg pre). destruct (Z.ltb_spec (zlen pre) 0); [lia|].
  rewrite zlen_to_nat, nth_error_app2 by lia. rewrite Nat.sub_diag. reflexivity.
Qed.
Lemma wrz_mid pre c post i v : i = zlen pre -> wrz (pre ++ c :: post) i v = Ok (pre ++ v :: post).
Proof.
  intros ->. unfold wrz. pose proof (zlen_nonneg pre). pose proof (zlen_nonneg post).
  destruct (Z.ltb_spec (zlen pre) 0); [lia|]. destruct (Z.leb_spec (zlen (pre ++ c :: post)) (zlen pre)); [zl|].
  cbn [orb]. rewrite zlen_to_nat, firstn_len_app.
  rewrite skipn_S_len_app. reflexivity.
Qed.

(* memmove to the front of the buffer: the chunk lands at index 0, everything after it stays *)
Lemma memmove_front gap chunk rest n : n = zlen chunk ->
  memmove (gap ++ chunk ++ rest) 0 (zlen gap) n = Ok (chunk ++ skipn (length chunk) (gap ++ chunk ++ rest)).
Proof.
  intros ->. unfold memmove. pose proof (zlen_nonneg chunk). pose proof (zlen_nonneg gap). pose proof (zlen_nonneg rest).
  destruct (Z.ltb_spec (zlen chunk) 0); [lia|].
  destruct (Z.eqb_spec (zlen chunk) 0) as [E|E].
  - destruct chunk; [reflexivity|]. rewrite zlen_cons in E. pose proof (zlen_nonneg chunk). lia.
  - destruct (Z.ltb_spec (zlen gap) 0); [lia|]. destruct (Z.ltb_spec 0 0); [lia|]. cbn [orb].
    destruct (Z.ltb_spec (zlen (gap ++ chunk ++ rest)) (zlen gap + zlen chunk)); [zl|].
    destruct (Z.ltb_spec (zlen (gap ++ chunk ++ rest)) (0 + zlen chunk)); [zl|]. cbn [orb].
    rewrite !zlen_to_nat. change (Z.to_nat 0) with O. cbn [firstn app]. rewrite skipn_len_app, firstn_len_app.
    rewrite Z.add_0_l, zlen_to_nat. reflexivity.
Qed.

(* ---------- forward scan ---------- *)
Lemma scan_fwd_run p run : forall pre c post fuel, forallb p run = true -> p c = false -> (length run < fuel)%nat ->
  scan_fwd p fuel (pre ++ run ++ c :: post) (zlen pre) = Ok (zlen pre + zlen run)%Z.
Proof.
  induction run as [|x run IH]; intros pre c post fuel Hr Hc Hf; (destruct fuel; [cbn in Hf; lia|]).
  - cbn [scan_fwd app]. rewrite rdz_mid by reflexivity. cbn [bind]. rewrite Hc. f_equal. zl.
  - cbn [forallb] in Hr. apply andb_true_iff in Hr as [Hx Hr]. cbn [scan_fwd].
    change (pre ++ (x :: run) ++ c :: post) with (pre ++ x :: (run ++ c :: post)). rewrite rdz_mid by reflexivity.
    cbn [bind]. rewrite Hx.
    replace (pre ++ x :: run ++ c :: post) with ((pre ++ [x]) ++ run ++ c :: post) by (rewrite <- app_assoc; reflexivity).
    replace (zlen pre + 1)%Z with (zlen (pre ++ [x])) by zl.
    rewrite IH; auto; [|cbn in Hf; lia]. f_equal. zl.
Qed.
Lemma cstr_nonzero s : cstr s -> forallb nonzero s = true.
Proof. unfold cstr. induction s as [|c s IH]; cbn [forallb]; auto. rewrite !andb_true_iff. intros [[_ H] H2]. auto. Qed.
Lemma cstr_head_nz c s : cstr (c :: s) -> (c =? 0) = false.
Proof. intros H. apply cstr_cons in H as [[_ H] _]. apply N.eqb_neq. exact H. Qed.
Lemma strlen_mid s pre post fuel : cstr s -> (length s < fuel)%nat ->
  strlen fuel (pre ++ s ++ 0 :: post) (zlen pre) = Ok (zlen s).
Proof.
  intros Hs Hf. unfold strlen. rewrite scan_fwd_run; auto using cstr_nonzero. cbn [bind]. f_equal. lia.
Qed.
Lemma strlen_0 s post fuel : cstr s -> (length s < fuel)%nat -> strlen fuel (s ++ 0 :: post) 0 = Ok (zlen s).
Proof. intros. exact (strlen_mid s [] post fuel H H0). Qed.
Lemma cstr_at_mid s pre post fuel : cstr s -> (length s < fuel)%nat ->
  cstr_at fuel (pre ++ s ++ 0 :: post) (zlen pre) = Ok s.
Proof.
  intros Hs Hf. unfold cstr_at. rewrite strlen_mid by auto. cbn [bind]. rewrite !zlen_to_nat, skipn_len_app, firstn_len_app. reflexivity.
Qed.
Lemma cstr_of_app s post : cstr s -> cstr_of (s ++ 0 :: post) = Ok s.
Proof.
  induction s as [|c s IH]; intros H; cbn [cstr_of app]; [reflexivity|].
  rewrite (cstr_head_nz _ _ H). apply cstr_cons in H as [_ H]. rewrite IH by auto. reflexivity.
Qed.

(* ---------- blanks, drop_while ---------- *)
Lemma blank_is c : blank c = is_blank c.
Proof. unfold blank, is_blank. cbn [existsb]. rewrite orb_false_r, !orb_assoc. reflexivity. Qed.
Lemma drop_while_split p s : exists lead, s = lead ++ drop_while p s /\ forallb p lead = true /\
  match drop_while p s with c :: _ => p c = false | [] => True end.
Proof.
  induction s as [|c s (lead & E & Hl & Hd)]; [exists []; cbn; auto|].
  cbn [drop_while]. destruct (p c) eqn:Hc.
  - exists (c :: lead). cbn [app forallb]. rewrite Hc, Hl. split; [congruence|auto].
  - exists []. cbn. auto.
Qed.
Lemma trim_tail_snoc s c : trim_tail_spec (s ++ [c]) = if is_blank c then trim_tail_spec s else s ++ [c].
Proof.
  unfold trim_tail_spec. rewrite rev_app_distr. cbn [rev app drop_while]. destruct (is_blank c); [reflexivity|].
  cbn [rev]. rewrite rev_involutive. reflexivity.
Qed.
Lemma trim_tail_prefix s : exists trail, s = trim_tail_spec s ++ trail.
Proof.
  unfold trim_tail_spec. destruct (drop_while_split is_blank (rev s)) as (lead & E & _).
  exists (rev lead). rewrite <- rev_app_distr, <- E, rev_involutive. reflexivity.
Qed.

(* ---------- backward scan ---------- *)
Lemma scan_back_spec mid : forall pre post fuel, (length mid < fuel)%nat ->
  scan_back fuel (pre ++ mid ++ post) (zlen pre) (zlen pre + zlen mid - 1)%Z = Ok (zlen pre + zlen (trim_tail_spec mid) - 1)%Z.
Proof.
  induction mid as [|c mid IH] using rev_ind; intros pre post fuel Hf; (destruct fuel; [cbn in Hf; lia|]).
  - cbn [scan_back]. destruct (Z.leb_spec (zlen pre) (zlen pre + zlen [] - 1)); [zl|]. reflexivity.
  - cbn [scan_back]. pose proof (zlen_nonneg mid).
    destruct (Z.leb_spec (zlen pre) (zlen pre + zlen (mid ++ [c]) - 1)); [|zl].
    rewrite <- !app_assoc. cbn [app]. rewrite (app_assoc pre mid), rdz_mid by zl. cbn [bind].
    rewrite trim_tail_snoc, blank_is. destruct (is_blank c).
    + rewrite <- app_assoc. replace (zlen pre + zlen (mid ++ [c]) - 1 - 1)%Z with (zlen pre + zlen mid - 1)%Z by zl.
      apply IH. rewrite app_length in Hf. cbn in Hf. lia.
    + reflexivity.
Qed.
