(* C19: the statements Properties_C19.v closes, assembled from the per-routine proof files. *)
From Coq Require Import NArith ZArith List Bool Lia.
From QV.Base Require Import Res Bytes.
From QV.Str Require Import StrModel StrSpec StrBase.
From QV.Str Require Export StrTrimProofs StrMiscProofs StrReplaceProofs StrTokProofs StrCommaProofs.
Import ListNotations.
Local Open Scope N_scope.

(* mode "sn": new buffer.  sb = src ++ 0 :: tail is the caller's array; S m is the size handed to malloc. *)
Theorem replace_sn src tail tok w fuel : cstr src -> tok <> [] -> (length src < fuel)%nat ->
  exists m, maxlen_s (length src) (length tok) (length w) = Ok m /\ (length (replace_str_spec src tok w) <= m)%nat /\
  qstrreplace fuel [115; 110] (src ++ 0 :: tail) tok w = Ok (Some (replace_str_spec src tok w), src ++ 0 :: tail, S m).
Proof. intros Hs Ht Hf. destruct (replace_s_gen 110 src tail tok w fuel Hs Ht Hf) as (m & E & L & H). exists m. rewrite H, finish_n. auto. Qed.
(* mode "sr": in place.  The result (length out + 1 bytes) is copied over the caller's array: it fits iff the array has that many bytes. *)
Theorem replace_sr src tail tok w fuel : cstr src -> tok <> [] -> (length src < fuel)%nat ->
  let out := replace_str_spec src tok w in let sb := src ++ 0 :: tail in
  exists m, maxlen_s (length src) (length tok) (length w) = Ok m /\ (length out <= m)%nat /\
  qstrreplace fuel [115; 114] sb tok w =
    if (length out + 1 <=? length sb)%nat then Ok (Some out, out ++ 0 :: skipn (length out + 1) sb, S m) else Crash.
Proof. intros Hs Ht Hf out sb. destruct (replace_s_gen 114 src tail tok w fuel Hs Ht Hf) as (m & E & L & H). exists m. unfold sb, out. rewrite H, finish_r. auto. Qed.
Theorem replace_tn src tail tok w fuel : cstr src ->
  (length (replace_tok_spec src tok w) <= maxlen_t (length src) (length w))%nat /\
  qstrreplace fuel [116; 110] (src ++ 0 :: tail) tok w =
    Ok (Some (replace_tok_spec src tok w), src ++ 0 :: tail, S (maxlen_t (length src) (length w))).
Proof. intros Hs. destruct (replace_t_gen 110 src tail tok w fuel Hs) as (L & H). rewrite H, finish_n. auto. Qed.
Theorem replace_tr src tail tok w fuel : cstr src ->
  let out := replace_tok_spec src tok w in let sb := src ++ 0 :: tail in
  (length out <= maxlen_t (length src) (length w))%nat /\
  qstrreplace fuel [116; 114] sb tok w =
    if (length out + 1 <=? length sb)%nat then Ok (Some out, out ++ 0 :: skipn (length out + 1) sb, S (maxlen_t (length src) (length w))) else Crash.
Proof. intros Hs out sb. destruct (replace_t_gen 114 src tail tok w fuel Hs) as (L & H). unfold sb, out. rewrite H, finish_r. auto. Qed.
(* "string mode replaces every leftmost non-overlapping occurrence and nothing else": the algorithmic reference definition is the
   unique output allowed by the declarative one *)
Theorem replace_str_is_leftmost s tok w : tok <> [] ->
  replaced tok w s (replace_str_spec s tok w) /\ forall o, replaced tok w s o -> o = replace_str_spec s tok w.
Proof.
  intros Ht. pose proof (replace_str_replaced tok w (length s) s ltac:(lia) Ht) as H. split; [exact H|].
  intros o Ho. exact (replaced_fun tok w s o Ho _ H).
Qed.
(* an empty search string in string mode is outside the contract; what the code does with it *)
Theorem replace_sn_empty_token_refuted :
  (exists src w, cstr src /\ cstr w /\ forall fuel, qstrreplace fuel [115; 110] (src ++ [0]) [] w = Crash) /\
  (exists src w, cstr src /\ cstr w /\ forall fuel, qstrreplace fuel [115; 110] (src ++ [0]) [] w = Fuel).
Proof.
  split.
  - exists [97], [120]. split; [reflexivity|]. split; [reflexivity|]. exact replace_empty_token_div0.
  - exists [97], []. split; [reflexivity|]. split; [reflexivity|]. exact replace_empty_token_hang.
Qed.
(* the string left in the buffer by the in-place routines, read back *)
Lemma readback s g : cstr s -> cstr_of (s ++ 0 :: g) = Ok s.
Proof. apply cstr_of_app. Qed.
