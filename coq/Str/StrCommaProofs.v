(* C19 (extra): qstr_comma_number = decimal digits grouped in threes from the right, for every int; all writes inside the 15 bytes
   the code allocates.  The model follows the repaired code (magnitude taken in unsigned arithmetic). *)
From Coq Require Import NArith ZArith List Bool Lia.
From QV.Base Require Import Res Bytes.
From QV.Str Require Import StrModel StrSpec.
Import ListNotations.
Local Open Scope N_scope.

Lemma snprintf_u_decimal f : forall n, snprintf_u f n = decimal f n.
Proof. induction f as [|f IH]; intros n; cbn [snprintf_u decimal]; [reflexivity|]. rewrite IH. reflexivity. Qed.

Lemma pow10_succ k : 10 ^ N.of_nat (S k) = 10 * 10 ^ N.of_nat k.
Proof. rewrite Nat2N.inj_succ, N.pow_succ_r'. reflexivity. Qed.
Lemma decimal_len fuel : forall k n, (1 <= k)%nat -> n < 10 ^ N.of_nat k -> (length (decimal fuel n) <= k)%nat.
Proof.
  induction fuel as [|f IH]; intros k n Hk Hn; cbn [decimal]; [cbn; lia|].
  destruct (N.ltb_spec n 10); [cbn; lia|].
  destruct k as [|k]; [lia|]. rewrite pow10_succ in Hn.
  assert (Hk' : (1 <= k)%nat).
  { destruct k; [|lia]. cbn in Hn. lia. }
  rewrite app_length. cbn [length]. specialize (IH k (n / 10) Hk' ltac:(apply N.div_lt_upper_bound; lia)). lia.
Qed.
Lemma undecimal_snoc ds d : undecimal (ds ++ [d]) = 10 * undecimal ds + (d - 48).
Proof. unfold undecimal. rewrite fold_left_app. reflexivity. Qed.
(* decimal really is the decimal representation: the digits evaluate back to n *)
Theorem decimal_value fuel : forall n, n < 10 ^ N.of_nat fuel -> undecimal (decimal fuel n) = n.
Proof.
  induction fuel as [|f IH]; intros n Hn; [cbn in Hn; destruct n; [reflexivity|lia]|].
  cbn [decimal]. destruct (N.ltb_spec n 10).
  - cbv [undecimal fold_left]. lia.
  - rewrite pow10_succ in Hn. rewrite undecimal_snoc, IH by (apply N.div_lt_upper_bound; lia).
    pose proof (N.div_mod n 10 ltac:(lia)) as E. set (q := n / 10) in *. set (m := n mod 10) in *. clearbody q m. clear IH Hn. lia.
Qed.

Lemma unumber_abs number : (-2147483648 <= number < 2147483648)%Z ->
  (if (number <? 0)%Z then (0 - number mod 4294967296) mod 4294967296 else number mod 4294967296)%Z = Z.abs number.
Proof.
  intros H. destruct (Z.ltb_spec number 0).
  - rewrite Z.abs_neq by lia. symmetry. apply (Z.mod_unique _ _ (-1)); [lia|].
    assert (E : (number mod 4294967296 = number + 4294967296)%Z) by (symmetry; apply (Z.mod_unique _ _ (-1)); lia). lia.
  - rewrite Z.abs_eq by lia. apply Z.mod_small. lia.
Qed.

Lemma comma_digits (neg : bool) ds : (length ds <= 10)%nat ->
  bind (if neg then emit [45] 15 ([], O) else Ok ([], O)) (fun st0 =>
  bind (comma_loop ds 15 st0) (fun st => bind (emit [0] 15 st) (fun _ => Ok (rev (fst st))))) =
  Ok ((if neg then [45] else []) ++ group3 ds).
Proof.
  intros H. destruct neg;
  (do 11 (destruct ds as [|? ds]; [vm_compute; reflexivity|])); cbn [length] in H; lia.
Qed.

Theorem comma_eq number : (-2147483648 <= number < 2147483648)%Z -> qstr_comma_number number = Ok (comma_spec number).
Proof.
  intros H. unfold qstr_comma_number, comma_spec. rewrite unumber_abs by auto. rewrite snprintf_u_decimal.
  apply comma_digits. apply decimal_len; [lia|]. change (10 ^ N.of_nat 10) with 10000000000. lia.
Qed.
(* 14 characters and the terminator always fit the 15 bytes *)
Theorem comma_len number : (-2147483648 <= number < 2147483648)%Z -> (length (comma_spec number) <= 14)%nat.
Proof.
  intros H. unfold comma_spec.
  assert (L : (length (decimal 10 (Z.to_N (Z.abs number))) <= 10)%nat).
  { apply decimal_len; [lia|]. change (10 ^ N.of_nat 10) with 10000000000. lia. }
  assert (G : forall ds, (length ds <= 10)%nat -> (length (group3 ds) <= 13)%nat).
  { intros ds Hd. do 11 (destruct ds as [|? ds]; [vm_compute; lia|]). cbn [length] in Hd. lia. }
  specialize (G _ L). rewrite app_length. destruct (number <? 0)%Z; cbn [length]; lia.
Qed.
