(* FNV-1 (Fowler/Noll/Vo), 32 and 64 bit, as published: hash = offset_basis; for each octet: hash = hash * FNV_prime
   (mod 2^w); hash = hash xor octet.  Parameters from the FNV reference (isthe.com/chongo/tech/comp/fnv):
   32 bit: prime 2^24 + 2^8 + 0x93 = 16777619, offset basis 2166136261
   64 bit: prime 2^40 + 2^8 + 0xb3 = 1099511628211, offset basis 14695981039346656037. *)
From Coq Require Import NArith List.
Import ListNotations.
Local Open Scope N_scope.

Definition fnv1 (w prime basis : N) (msg : list N) : N := fold_left (fun h b => N.lxor ((h * prime) mod 2 ^ w) b) msg basis.
Definition fnv1_32 := fnv1 32 (2 ^ 24 + 2 ^ 8 + 147) 2166136261.
Definition fnv1_64 := fnv1 64 (2 ^ 40 + 2 ^ 8 + 179) 14695981039346656037.

(* reference vectors (FNV test suite, test_fnv.c: fnv1 32/64 of "", "a", "b", "foobar", and of "foo\0bar"-like inputs) *)
Example fnv1_32_empty : fnv1_32 [] = 0x811c9dc5. Proof. vm_compute. reflexivity. Qed.
Example fnv1_32_a : fnv1_32 [97] = 0x050c5d7e. Proof. vm_compute. reflexivity. Qed.
Example fnv1_32_b : fnv1_32 [98] = 0x050c5d7d. Proof. vm_compute. reflexivity. Qed.
Example fnv1_32_foobar : fnv1_32 [102; 111; 111; 98; 97; 114] = 0x31f0b262. Proof. vm_compute. reflexivity. Qed.
Example fnv1_32_a_nul : fnv1_32 [97; 0] = 0x70772d5a. Proof. vm_compute. reflexivity. Qed.
Example fnv1_32_nul : fnv1_32 [0] = 0x050c5d1f. Proof. vm_compute. reflexivity. Qed.
Example fnv1_32_foo : fnv1_32 [102; 111; 111] = 0x408f5e13. Proof. vm_compute. reflexivity. Qed.
Example fnv1_64_empty : fnv1_64 [] = 0xcbf29ce484222325. Proof. vm_compute. reflexivity. Qed.
Example fnv1_64_a : fnv1_64 [97] = 0xaf63bd4c8601b7be. Proof. vm_compute. reflexivity. Qed.
Example fnv1_64_foobar : fnv1_64 [102; 111; 111; 98; 97; 114] = 0x340d8765a4dda9c2. Proof. vm_compute. reflexivity. Qed.
Example fnv1_64_a_nul : fnv1_64 [97; 0] = 0x08326707b4eb37da. Proof. vm_compute. reflexivity. Qed.
