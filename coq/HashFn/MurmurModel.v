(* Executable models of qhashmurmur3_32 and qhashmurmur3_128 (src/utilities/qhash.c), buffer level.
   Pointers are buffer suffixes; a word load through the casted pointer (`blocks[i]`) takes 4 / 8 bytes and assembles them
   least significant byte first (x86-64 layout; the alignment of the access is not modelled).  All constants, rotation
   amounts and the layout of the fall-through tail switch come from Gen/HashConst.v. *)
From Coq Require Import NArith List Bool.
From QV.Base Require Import Res Word.
From QV.Gen Require Import HashConst.
Import ListNotations.
Local Open Scope N_scope.

Definition load (n : nat) (p : list N) : res (N * list N) :=          (* *(uintN_t * )p, and p + n *)
  match take n p with Some (bs, q) => Ok (le_join bs, q) | None => Crash end.
Definition idx (p : list N) (i : N) : res N := match nth_error p (N.to_nat i) with Some b => Ok b | None => Crash end.   (* p[i] *)
Definition last_label (cases : list (N * N * N)) : N := match last cases (0, 0, 0) with (c, _, _) => c end.

(* the run of `case c: k ^= tail[i] << s;` statements entered at label sw and falling through to the end of the run *)
Fixpoint tail_xor (sw : N) (tail : list N) (cases : list (N * N * N)) (k : N) : res N :=
  match cases with
  | [] => Ok k
  | (c, i, s) :: r => if c <=? sw then bind (idx tail i) (fun b => tail_xor sw tail r (N.lxor k (N.shiftl b s))) else tail_xor sw tail r k
  end.

(* ---------------- 32 bit ---------------- *)
Definition m32_mixk (k : N) : N := mul32 (rot32 (mul32 k m32_c1) (fst m32_krot) (snd m32_krot)) m32_c2.
Definition m32_mixh (h k : N) : N := add32 (mul32 (rot32 (N.lxor h k) (fst m32_hrot) (snd m32_hrot)) m32_hmul) m32_hadd.
Fixpoint m32_loop (n : nat) (q : list N) (h : N) : res N :=
  match n with O => Ok h | S n' => bind (load 4 q) (fun kq => m32_loop n' (snd kq) (m32_mixh h (m32_mixk (fst kq)))) end.
Definition m32_final (h : N) : N :=
  match m32_fmix with (s1, m1, s2, m2, s3) =>
    let h := N.lxor h (N.shiftr h s1) in let h := mul32 h m1 in
    let h := N.lxor h (N.shiftr h s2) in let h := mul32 h m2 in N.lxor h (N.shiftr h s3) end.

Definition qhashmurmur3_32 (data : list N) (nbytes : N) : res N :=
  if nbytes =? 0 then Ok 0 else
  if 2 ^ 31 <=? nbytes then Crash else        (* `const int nblocks`, `nblocks * 4` in int: overflow, not modelled *)
  let nblocks := nbytes / 4 in
  bind (m32_loop (N.to_nat nblocks) data 0) (fun h =>
  let tail := skipn (N.to_nat (nblocks * 4)) data in
  let sw := N.land nbytes 3 in
  bind (tail_xor sw tail m32_tail 0) (fun k =>
  let h := if last_label m32_tail <=? sw then N.lxor h (m32_mixk k) else h in
  Ok (m32_final (N.lxor h (w32 nbytes))))).

(* ---------------- 128 bit (x64 variant) ---------------- *)
Definition m128_mixk1 (k : N) : N := mul64 (rot64 (mul64 k m128_c1) (fst m128_k1rot) (snd m128_k1rot)) m128_c2.
Definition m128_mixk2 (k : N) : N := mul64 (rot64 (mul64 k m128_c2) (fst m128_k2rot) (snd m128_k2rot)) m128_c1.
Definition m128_block (h : N * N) (k1 k2 : N) : N * N :=
  let (h1, h2) := h in
  let h1 := N.lxor h1 (m128_mixk1 k1) in
  let h1 := rot64 h1 (fst m128_h1rot) (snd m128_h1rot) in
  let h1 := add64 h1 h2 in
  let h1 := add64 (mul64 h1 m128_h1mul) m128_h1add in
  let h2 := N.lxor h2 (m128_mixk2 k2) in
  let h2 := rot64 h2 (fst m128_h2rot) (snd m128_h2rot) in
  let h2 := add64 h2 h1 in
  let h2 := add64 (mul64 h2 m128_h2mul) m128_h2add in
  (h1, h2).
Fixpoint m128_loop (n : nat) (q : list N) (h : N * N) : res (N * N) :=
  match n with
  | O => Ok h
  | S n' => bind (load 8 q) (fun k1q => bind (load 8 (snd k1q)) (fun k2q => m128_loop n' (snd k2q) (m128_block h (fst k1q) (fst k2q))))
  end.
Definition m128_final (h : N) : N :=
  match m128_fmix with (s1, m1, s2, m2, s3) =>
    let h := N.lxor h (N.shiftr h s1) in let h := mul64 h m1 in
    let h := N.lxor h (N.shiftr h s2) in let h := mul64 h m2 in N.lxor h (N.shiftr h s3) end.

(* returns None where the C function returns false; otherwise the 16 bytes stored through (uint64_t * )retbuf *)
Definition qhashmurmur3_128 (data : list N) (nbytes : N) : res (option (list N)) :=
  if nbytes =? 0 then Ok None else
  if 2 ^ 31 <=? nbytes then Crash else        (* `const int nblocks`, `nblocks * 16` in int: overflow, not modelled *)
  let nblocks := nbytes / 16 in
  bind (m128_loop (N.to_nat nblocks) data (0, 0)) (fun h =>
  let (h1, h2) := h in
  let tail := skipn (N.to_nat (nblocks * 16)) data in
  let sw := N.land nbytes 15 in
  bind (tail_xor sw tail m128_tail2 0) (fun k2 =>
  let h2 := if last_label m128_tail2 <=? sw then N.lxor h2 (m128_mixk2 k2) else h2 in
  bind (tail_xor sw tail m128_tail1 0) (fun k1 =>
  let h1 := if last_label m128_tail1 <=? sw then N.lxor h1 (m128_mixk1 k1) else h1 in
  let h1 := N.lxor h1 (w64 nbytes) in
  let h2 := N.lxor h2 (w64 nbytes) in
  let h1 := add64 h1 h2 in
  let h2 := add64 h2 h1 in
  let h1 := m128_final h1 in
  let h2 := m128_final h2 in
  let h1 := add64 h1 h2 in
  let h2 := add64 h2 h1 in
  Ok (Some (le_bytes 8 h1 ++ le_bytes 8 h2))))).
