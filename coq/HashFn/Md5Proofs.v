(* md5c.c model = RFC 1321.
   1. The step list read from MD5Transform is the RFC's schedule (finite computation), and MD5Transform = rfc_block.
   2. The index-level MD5Update / MD5Final refine the generic block-buffered `update` / `final` of Md5Stream.v, so
      any sequence of Update calls followed by Final yields the RFC digest of the concatenation (streaming theorem).
   3. qhashmd5 and qhashmd5_file follow. *)
From Coq Require Import NArith Arith List Lia Bool ZArith.
From Coq Require Import ZifyBool ZifyNat ZifyN.
From QV.Base Require Import Res Word.
From QV.Gen Require Import HashConst.
From QV.HashFn Require Import Md5Model Md5Spec Md5Stream.
Import ListNotations.
Local Open Scope N_scope.
Ltac Zify.zify_post_hook ::= Z.div_mod_to_equations.

(* ================= 1. the compression function ================= *)
(* register order of operation i: ABCD, DABC, CDAB, BCDA, ... *)
Definition ord (j : nat) : N * N * N * N :=
  match j with O => (0, 1, 2, 3) | 1%nat => (3, 0, 1, 2) | 2%nat => (2, 3, 0, 1) | _ => (1, 2, 3, 0) end.
Definition sched (i : nat) : md5step :=
  let '(ra, rb, rc, rd) := ord (i mod 4) in
  mkstep (N.of_nat (i / 16)) ra rb rc rd (N.of_nat (rfc_k i)) (rfc_s i) (nth i T 0).
Definition rfc_schedule : list md5step := map sched (seq 0 64).

(* the 64 FF/GG/HH/II lines of the source, with their #define'd shift amounts, are the RFC's 64 operations *)
Lemma md5_steps_ok : md5_steps = rfc_schedule.
Proof. vm_compute. reflexivity. Qed.

(* the roles (a, b, c, d) that the registers play in operation j *)
Definition view (j : nat) (r : st4) : st4 :=
  let '(ra, rb, rc, rd) := ord j in (getr r ra, getr r rb, getr r rc, getr r rd).

Lemma round_fn_eq q : round_fn (N.of_nat q) = rfc_f q.
Proof. destruct q as [|[|[|q]]]; try reflexivity. unfold rfc_f.
  remember (N.of_nat (S (S (S q)))) as x eqn:E. assert (Hx: 3 <= x) by lia. clear E.
  destruct x as [|p]; [lia|]. destruct p as [p|p|]; [reflexivity| |lia]. destruct p; [reflexivity|reflexivity|lia]. Qed.

Lemma op_assoc a f x t s b :
  add32 (rot32 (add32 a (add32 (add32 f x) t)) s (32 - s)) b = add32 b (rotl32 (add32 (add32 (add32 a f) x) t) s).
Proof. rewrite add32_comm. unfold rotl32. rewrite !add32_assoc. reflexivity. Qed.

Lemma step_view X rn k s t j r : (j < 4)%nat ->
  view (S j mod 4) (md5_step X r (let '(ra, rb, rc, rd) := ord j in mkstep rn ra rb rc rd k s t))
  = rfc_op (round_fn rn) (nth (N.to_nat k) X 0) s t (view j r).
Proof. intros Hj. destruct r as [[[a b] c] d].
  destruct j as [|[|[|[|j]]]]; try lia;
    cbn [view ord Nat.modulo Nat.divmod fst snd md5_step getr setr s_ra s_rb s_rc s_rd s_round s_k s_shift s_ac rfc_op];
    rewrite op_assoc; reflexivity. Qed.

Lemma sched_fold X : forall len i r,
  view ((i + len) mod 4) (fold_left (md5_step X) (map sched (seq i len)) r) = fold_left (rfc_step X) (seq i len) (view (i mod 4) r).
Proof. induction len as [|len IH]; intros i r.
  - rewrite Nat.add_0_r. reflexivity.
  - cbn [seq map fold_left]. replace (i + S len)%nat with (S i + len)%nat by lia. rewrite IH. f_equal.
    assert (Hj: (i mod 4 < 4)%nat) by (apply Nat.mod_upper_bound; lia).
    assert (Hs: (S i mod 4 = S (i mod 4) mod 4)%nat).
    { replace (S i) with (i + 1)%nat by lia. replace (S (i mod 4)) with (i mod 4 + 1)%nat by lia. rewrite Nat.add_mod_idemp_l by lia. reflexivity. }
    rewrite Hs. unfold sched, rfc_step. rewrite step_view by exact Hj. rewrite round_fn_eq, Nat2N.id. reflexivity. Qed.

Theorem transform_eq st blk : MD5Transform st blk = rfc_block st blk.
Proof. unfold MD5Transform, rfc_block. rewrite md5_steps_ok. unfold rfc_schedule.
  change (decode blk) with (words blk).
  pose proof (sched_fold (words blk) 64 0 st) as H.
  change ((0 + 64) mod 4)%nat with O in H. change (0 mod 4)%nat with O in H.
  assert (V: forall r, view 0 r = r) by (intros [[[a b] c] d]; reflexivity).
  rewrite !V in H. rewrite H. reflexivity. Qed.

(* ================= 2. MD5Update / MD5Final refine the generic streaming functions ================= *)
Definition actx := Md5Stream.ctx N st4.
Definition aupdate : actx -> list N -> actx := Md5Stream.update N st4 rfc_block 64.
Definition arun : st4 -> list N -> st4 * list N := Md5Stream.run_blocks N st4 rfc_block 64.
Definition lenbytes (n : nat) : list N := le_bytes 8 ((8 * N.of_nat n) mod 2 ^ 64).
Definition enc (st : st4) : list N := let '(a, b, c, d) := st in encode [a; b; c; d].
Definition afinal : actx -> list N := Md5Stream.final N st4 rfc_block 64 128 0 lenbytes enc.
Definition aspec : st4 -> list N -> list N := Md5Stream.md5_spec N st4 rfc_block 64 128 0 lenbytes enc.
Definition arepr : st4 -> list N -> actx -> Prop := Md5Stream.repr N st4 rfc_block 64.
Lemma B64pos : (0 < 64)%nat. Proof. lia. Qed.
Lemma lenbytes_len n : length (lenbytes n) = 8%nat. Proof. apply le_bytes_length. Qed.

(* what the C context stands for *)
Record R (c : md5ctx) (a : actx) : Prop := mkR {
  R_state : state c = cst a;
  R_buflen : length (buffer c) = 64%nat;
  R_pend : firstn (length (pend a)) (buffer c) = pend a;
  R_idx : length (pend a) = (cnt a mod 64)%nat;
  R_c0 : count0 c = (8 * N.of_nat (cnt a)) mod 2 ^ 32;
  R_c1 : count1 c = ((8 * N.of_nat (cnt a)) / 2 ^ 32) mod 2 ^ 32 }.

(* ---- arithmetic of the bit counter ---- *)
Lemma idx_of_count n : N.land (N.shiftr ((8 * n) mod 2 ^ 32) 3) 63 = n mod 64.
Proof. rewrite N.shiftr_div_pow2. change 63 with (N.ones 6). rewrite N.land_ones.
  change (2 ^ 3) with 8. change (2 ^ 6) with 64. change (2 ^ 32) with 4294967296. lia. Qed.

Lemma count_update n len : len < 2 ^ 32 ->
  let c0 := (8 * n) mod 2 ^ 32 in let c1 := ((8 * n) / 2 ^ 32) mod 2 ^ 32 in
  let l3 := shl32 len 3 in let c0' := add32 c0 l3 in
  let c1' := add32 (if c0' <? l3 then add32 c1 1 else c1) (N.shiftr len 29) in
  c0' = (8 * (n + len)) mod 2 ^ 32 /\ c1' = ((8 * (n + len)) / 2 ^ 32) mod 2 ^ 32.
Proof. intros Hlen. cbv zeta. unfold add32, shl32. rewrite !w32_mod, N.shiftl_mul_pow2, N.shiftr_div_pow2.
  change (2 ^ 3) with 8. change (2 ^ 29) with 536870912. change (2 ^ 32) with 4294967296 in *.
  set (A := (8 * n) mod 4294967296). set (Bq := (8 * n) / 4294967296).
  set (L := (len * 8) mod 4294967296). set (Lq := len / 536870912).
  assert (HA: 8 * n = 4294967296 * Bq + A /\ A < 4294967296) by (unfold A, Bq; lia).
  assert (HL: len * 8 = 4294967296 * Lq + L /\ L < 4294967296) by (unfold L, Lq; lia).
  clearbody A Bq L Lq.
  assert (E: 8 * (n + len) = 4294967296 * (Bq + Lq) + (A + L)) by lia. rewrite E.
  destruct ((A + L) mod 4294967296 <? L) eqn:C; [apply N.ltb_lt in C | apply N.ltb_ge in C]; split; lia. Qed.

(* ---- the block loop of MD5Update ---- *)
Lemma gen_consts : md5_loop_lim = 63 /\ md5_loop_inc = 64 /\ md5_cnt_shift = 3 /\ md5_idx_mask = 63 /\ md5_hi_shift = 29 /\ md5_block = 64
  /\ md5_pad_lt = 56 /\ md5_pad_short = 56 /\ md5_pad_long = 120 /\ md5_file_bufsize = 32768 /\ md5_padding = 128 :: repeat 0 63.
Proof. vm_compute. repeat split. Qed.

Lemma upd_loop_ok junk len : len + 63 < 2 ^ 32 -> forall fuel r i st,
  N.of_nat (length r) + i = len -> (length r / 64 < fuel)%nat ->
  upd_loop fuel len i (r ++ junk) st = Ok (len - N.of_nat (length (snd (arun st r))), snd (arun st r) ++ junk, fst (arun st r)).
Proof. intros Hlen. destruct gen_consts as (E1 & E2 & _). change (2 ^ 32) with 4294967296 in Hlen.
  induction fuel as [|fuel IH]; intros r i st Hi Hf; [lia|].
  cbn [upd_loop]. rewrite E1, E2.
  rewrite (w32_small (i + 63)) by (change (2 ^ 32) with 4294967296; lia).
  destruct (i + 63 <? len) eqn:C; [apply N.ltb_lt in C | apply N.ltb_ge in C].
  - assert (H64: (64 <= length r)%nat) by lia.
    rewrite take_app by exact H64.
    rewrite (w32_small (i + 64)) by (change (2 ^ 32) with 4294967296; lia).
    unfold arun. rewrite (run_blocks_step N st4 rfc_block 64 B64pos st r H64). fold arun. rewrite transform_eq.
    apply IH; rewrite skipn_length; [lia|].
    assert (length r / 64 = S ((length r - 64) / 64))%nat by lia. lia.
  - assert (Hs: (length r < 64)%nat) by lia. unfold arun. rewrite (run_blocks_short N st4 rfc_block 64 st r Hs). cbn [fst snd].
    repeat f_equal. lia. Qed.

Lemma poke_full buf off src : length buf = (off + length src)%nat -> poke buf off src = firstn off buf ++ src.
Proof. intros H. unfold poke. rewrite skipn_all2 by lia. rewrite app_nil_r. reflexivity. Qed.

(* ---- MD5Update refines update ---- *)
Lemma update_refines c a inp junk : R c a -> N.of_nat (length inp) + 63 < 2 ^ 32 ->
  exists c', MD5Update c (inp ++ junk) (N.of_nat (length inp)) = Ok c' /\ R c' (aupdate a inp).
Proof. intros [Hst Hbl Hpend Hidx Hc0 Hc1] Hlen.
  destruct gen_consts as (_ & _ & E3 & E4 & E5 & E6 & _).
  set (len := N.of_nat (length inp)) in *.
  assert (Hi64: (length (pend a) < 64)%nat) by (rewrite Hidx; apply Nat.mod_upper_bound; lia).
  assert (Hindex: md5_index c = N.of_nat (length (pend a))).
  { unfold md5_index. rewrite E3, E4, Hc0, idx_of_count, Hidx. lia. }
  assert (Hlen32: len < 2 ^ 32) by (change (2 ^ 32) with 4294967296 in *; lia).
  destruct (count_update (N.of_nat (cnt a)) len Hlen32) as [Hn0 Hn1]. cbv zeta in Hn0, Hn1.
  unfold MD5Update. rewrite Hindex, E3, E5, E6, Hc0, Hc1, Hn1, Hn0.
  replace (N.of_nat (cnt a) + len) with (N.of_nat (cnt a + length inp)) by (unfold len; lia).
  unfold aupdate, update.
  set (idx := length (pend a)) in *.
  destruct (Nat.leb (64 - idx) (length inp)) eqn:C; [apply Nat.leb_le in C | apply Nat.leb_gt in C].
  - assert ((64 - N.of_nat idx <=? len) = true) as -> by (apply N.leb_le; unfold len; lia).
    replace (N.to_nat (64 - N.of_nat idx)) with (64 - idx)%nat by lia. rewrite Nat2N.id.
    rewrite take_app by exact C.
    rewrite poke_full by (rewrite firstn_length; lia). rewrite Hpend, Hst.
    set (buf1 := pend a ++ firstn (64 - idx) inp). rewrite transform_eq.
    set (st1 := rfc_block (cst a) buf1).
    set (r := skipn (64 - idx) inp).
    rewrite (upd_loop_ok junk len Hlen _ r (64 - N.of_nat idx) st1);
      [| unfold r, len; rewrite skipn_length; lia | unfold r; rewrite skipn_length; assert (length inp / 64 = N.to_nat (len / 64))%nat by (unfold len; lia); assert ((length inp - (64 - idx)) / 64 <= length inp / 64)%nat by lia; lia].
    cbn [bind]. fold arun. destruct (arun st1 r) as [st2 rest] eqn:Er. cbn [fst snd].
    pose proof (run_blocks_tail N st4 rfc_block 64 B64pos st1 r) as Ht. fold arun in Ht. rewrite Er in Ht. cbn [snd] in Ht.
    pose proof (run_blocks_len N st4 rfc_block 64 B64pos st1 r) as Hl. fold arun in Hl. rewrite Er in Hl. cbn [snd] in Hl.
    replace (N.to_nat (len - (len - N.of_nat (length rest)))) with (length rest).
    2:{ assert (length rest <= length r)%nat by (rewrite Hl; apply Nat.mod_le; lia). unfold r in H. rewrite skipn_length in H. unfold len. lia. }
    rewrite take_app by lia. rewrite firstn_all, ?skipn_all. cbn [app].
    eexists. split; [reflexivity|].
    assert (Hb1: length buf1 = 64%nat) by (unfold buf1; rewrite app_length, firstn_length; fold idx; lia).
    constructor; cbn [state buffer count0 count1 cst cnt pend].
    + reflexivity.
    + unfold poke. cbn [firstn app Nat.add]. rewrite app_length, skipn_length. lia.
    + unfold poke. cbn [firstn app Nat.add]. rewrite firstn_app, firstn_all. replace (length rest - length rest)%nat with O by lia. cbn [firstn]. apply app_nil_r.
    + rewrite Hl. unfold r. rewrite skipn_length. fold idx in Hidx. lia.
    + reflexivity.
    + reflexivity.
  - assert ((64 - N.of_nat idx <=? len) = false) as -> by (apply N.leb_gt; unfold len; lia).
    unfold len. rewrite !Nat2N.id. rewrite take_app by lia. rewrite firstn_all, ?skipn_all. cbn [app].
    eexists. split; [reflexivity|].
    constructor; cbn [state buffer count0 count1 cst cnt pend].
    + exact Hst.
    + unfold poke. rewrite !app_length, firstn_length, skipn_length. lia.
    + unfold poke. rewrite app_length. fold idx. rewrite app_assoc. rewrite firstn_app.
      rewrite firstn_all2 by (rewrite app_length, firstn_length; lia).
      rewrite app_length, firstn_length. replace (idx + length inp - (Nat.min idx (length (buffer c)) + length inp))%nat with O by lia.
      cbn [firstn]. rewrite app_nil_r, Hpend. reflexivity.
    + rewrite app_length. fold idx. fold idx in Hidx. lia.
    + reflexivity.
    + reflexivity. Qed.

(* ---- little-endian byte strings of the bit count ---- *)
Lemma pow256_pos a : 256 ^ N.of_nat a <> 0.
Proof. apply N.pow_nonzero. discriminate. Qed.
Lemma le_bytes_mod a : forall x, le_bytes a (x mod 256 ^ N.of_nat a) = le_bytes a x.
Proof. induction a as [|a IH]; intros x; [reflexivity|]. cbn [le_bytes].
  rewrite Nat2N.inj_succ, N.pow_succ_r'. rewrite N.mod_mul_r by (try apply pow256_pos; discriminate).
  set (k := (x / 256) mod 256 ^ N.of_nat a). rewrite (N.mul_comm 256 k).
  rewrite N.mod_add by discriminate. rewrite N.mod_mod by discriminate.
  rewrite N.div_add by discriminate. rewrite (N.div_small (x mod 256) 256) by (apply N.mod_lt; discriminate).
  cbn [N.add]. unfold k. rewrite IH. reflexivity. Qed.
Lemma le_bytes_app a b : forall x, le_bytes (a + b) x = le_bytes a x ++ le_bytes b (x / 256 ^ N.of_nat a).
Proof. induction a as [|a IH]; intros x.
  - cbn [Nat.add le_bytes app]. change (256 ^ N.of_nat 0) with 1. rewrite N.div_1_r. reflexivity.
  - cbn [Nat.add le_bytes app]. rewrite IH. rewrite Nat2N.inj_succ, N.pow_succ_r'. rewrite N.div_div by (try apply pow256_pos; discriminate). reflexivity. Qed.

Lemma bits_eq n : encode [(8 * N.of_nat n) mod 2 ^ 32; ((8 * N.of_nat n) / 2 ^ 32) mod 2 ^ 32] = lenbytes n.
Proof. unfold encode, lenbytes. cbn [flat_map]. rewrite app_nil_r.
  change 8%nat with (4 + 4)%nat. rewrite le_bytes_app. change (256 ^ N.of_nat 4) with 4294967296.
  rewrite <- (le_bytes_mod 4 ((8 * N.of_nat n) mod 2 ^ 64)). change (256 ^ N.of_nat 4) with 4294967296.
  change (2 ^ 32) with 4294967296. change (2 ^ 64) with 18446744073709551616.
  f_equal; f_equal; lia. Qed.

Lemma firstn_repeat {A} (x : A) k n : (k <= n)%nat -> firstn k (repeat x n) = repeat x k.
Proof. revert n. induction k as [|k IH]; intros n H; [reflexivity|]. destruct n; [lia|]. cbn [repeat firstn]. f_equal. apply IH. lia. Qed.
Lemma padlen64 i : padlen 64 i = if Nat.ltb i 56 then (56 - i)%nat else (120 - i)%nat.
Proof. reflexivity. Qed.

(* ---- MD5Final refines final ---- *)
Lemma final_refines c a : R c a -> MD5Final c = Ok (afinal a).
Proof. intros HR. pose proof HR as [Hst Hbl Hpend Hidx Hc0 Hc1].
  destruct gen_consts as (_ & _ & E3 & E4 & _ & _ & P1 & P2 & P3 & _ & PAD).
  set (idx := length (pend a)) in *.
  assert (Hi64: (idx < 64)%nat) by (rewrite Hidx; apply Nat.mod_upper_bound; lia).
  assert (Hindex: md5_index c = N.of_nat idx).
  { unfold md5_index. rewrite E3, E4, Hc0, idx_of_count, Hidx. lia. }
  unfold MD5Final, MD5Pad. rewrite Hindex, P1, P2, P3, Hc0, Hc1, bits_eq.
  set (pl := padlen 64 idx).
  assert (Hpl: (1 <= pl <= 64)%nat) by (unfold pl; rewrite padlen64; destruct (Nat.ltb idx 56) eqn:C; [apply Nat.ltb_lt in C | apply Nat.ltb_ge in C]; lia).
  assert (Epl: (if N.of_nat idx <? 56 then 56 - N.of_nat idx else 120 - N.of_nat idx) = N.of_nat pl).
  { unfold pl. rewrite padlen64. destruct (Nat.ltb idx 56) eqn:C; [apply Nat.ltb_lt in C | apply Nat.ltb_ge in C];
    [assert ((N.of_nat idx <? 56) = true) as -> by (apply N.ltb_lt; lia) | assert ((N.of_nat idx <? 56) = false) as -> by (apply N.ltb_ge; lia)]; lia. }
  rewrite Epl.
  set (inp1 := firstn pl md5_padding).
  assert (Hl1: length inp1 = pl) by (unfold inp1; rewrite firstn_length, PAD; cbn [length]; rewrite repeat_length; lia).
  assert (Hinp1: inp1 = 128 :: repeat 0 (pl - 1)).
  { unfold inp1. rewrite PAD. destruct pl as [|k]; [lia|]. cbn [firstn]. rewrite firstn_repeat by lia. replace (S k - 1)%nat with k by lia. reflexivity. }
  rewrite <- (firstn_skipn pl md5_padding). fold inp1. rewrite <- Hl1.
  destruct (update_refines c a inp1 (skipn (length inp1) md5_padding) HR) as (c1 & U1 & R1).
  { rewrite Hl1. change (2 ^ 32) with 4294967296. lia. }
  rewrite U1. cbn [bind].
  destruct (update_refines c1 _ (lenbytes (cnt a)) [] R1) as (c2 & U2 & R2).
  { rewrite lenbytes_len. reflexivity. }
  rewrite app_nil_r, lenbytes_len in U2. change (N.of_nat 8) with 8 in U2. rewrite U2. cbn [bind].
  destruct R2 as [Hst2 _ _ _ _ _]. rewrite Hst2.
  unfold afinal, final, aupdate. fold idx. fold pl. rewrite <- Hinp1.
  unfold enc. destruct (cst (update N st4 rfc_block 64 (update N st4 rfc_block 64 a inp1) (lenbytes (cnt a)))) as [[[x y] z] w]. reflexivity. Qed.

(* MD5Init represents the empty message, whatever the buffer held *)
Lemma init_state : state (MD5Init []) = rfc_init. Proof. vm_compute. reflexivity. Qed.
Definition a0 : actx := Build_ctx N st4 rfc_init 0 [].
Lemma init_R g : length g = 64%nat -> R (MD5Init g) a0.
Proof. intros Hg. constructor; cbn [a0 cst cnt pend length firstn]; try reflexivity; try exact Hg. Qed.

(* ================= 3. the generic specification is RFC 1321 ================= *)
Lemma pad_eq msg : msg ++ padding N 64 128 0 (length msg) ++ lenbytes (length msg) = rfc_pad msg.
Proof. unfold rfc_pad, padding, lenbytes. cbn [app]. do 3 f_equal. rewrite padlen64.
  assert (H: (length msg mod 64 < 64)%nat) by (apply Nat.mod_upper_bound; lia). set (r := (length msg mod 64)%nat) in *.
  f_equal. clearbody r. destruct (Nat.ltb r 56) eqn:C; [apply Nat.ltb_lt in C | apply Nat.ltb_ge in C]; lia. Qed.

Lemma rfc_blocks_run : forall k st l fuel, length l = (64 * k)%nat -> (k <= fuel)%nat -> rfc_blocks fuel st l = fst (arun st l).
Proof. induction k as [|k IH]; intros st l fuel Hl Hf.
  - destruct l; [|cbn [length] in Hl; lia]. unfold arun. rewrite run_blocks_short by (cbn [length]; lia). destruct fuel; reflexivity.
  - destruct fuel as [|f]; [lia|]. destruct l as [|x l'] eqn:El; [cbn [length] in Hl; lia|]. cbn [rfc_blocks]. rewrite <- El in *.
    unfold arun. rewrite (run_blocks_step N st4 rfc_block 64 B64pos st l) by lia. fold arun.
    apply IH; [rewrite skipn_length; lia | lia]. Qed.

Lemma pad_len msg : (length (rfc_pad msg) mod 64 = 0)%nat.
Proof. unfold rfc_pad. rewrite !app_length, repeat_length, le_bytes_length. cbn [length].
  assert (H: (length msg mod 64 < 64)%nat) by (apply Nat.mod_upper_bound; lia). lia. Qed.

Theorem aspec_rfc msg : aspec rfc_init msg = md5 msg.
Proof. unfold aspec, md5_spec, md5. rewrite pad_eq. pose proof (pad_len msg) as Hm. set (p := rfc_pad msg) in *.
  rewrite (rfc_blocks_run (length p / 64) rfc_init p (length p)) by lia. fold arun.
  unfold enc. destruct (fst (arun rfc_init p)) as [[[a b] c] d]. unfold encode. cbn [flat_map]. rewrite app_nil_r. reflexivity. Qed.

(* ================= 4. streaming theorem, qhashmd5, qhashmd5_file ================= *)
Definition chunk_ok (ch : list N * list N) : Prop := N.of_nat (length (fst ch)) + 63 < 2 ^ 32.

Lemma updates_ok : forall chunks c a msg, R c a -> arepr rfc_init msg a -> Forall chunk_ok chunks ->
  exists c' a', md5_updates c chunks = Ok c' /\ R c' a' /\ arepr rfc_init (msg ++ concat (map fst chunks)) a'.
Proof. induction chunks as [|[data junk] r IH]; intros c a msg HR Hrep Hok.
  - exists c, a. cbn [md5_updates map concat]. rewrite app_nil_r. auto.
  - inversion Hok as [|? ? H1 H2]; subst. unfold chunk_ok in H1. cbn [fst] in H1.
    destruct (update_refines c a data junk HR H1) as (c1 & U1 & R1).
    cbn [md5_updates map concat fst]. rewrite U1. cbn [bind].
    rewrite app_assoc. apply (IH c1 (aupdate a data)); [exact R1 | | exact H2].
    apply (update_repr N st4 rfc_block 64 B64pos). exact Hrep. Qed.

Lemma final_ok c a msg : R c a -> arepr rfc_init msg a -> MD5Final c = Ok (md5 msg).
Proof. intros HR Hrep. rewrite (final_refines c a HR). f_equal. rewrite <- aspec_rfc.
  apply (final_repr N st4 rfc_block 64 B64pos). exact Hrep. Qed.

(* every way of cutting a message into MD5Update calls gives the RFC digest of the message *)
Theorem md5_stream_eq : forall g chunks, length g = 64%nat -> Forall chunk_ok chunks ->
  md5_stream g chunks = Ok (md5 (concat (map fst chunks))).
Proof. intros g chunks Hg Hok. unfold md5_stream.
  destruct (updates_ok chunks (MD5Init g) a0 [] (init_R g Hg) (repr_init N st4 rfc_block 64 rfc_init) Hok) as (c' & a' & U & HR & Hrep).
  rewrite U. cbn [bind app] in *. apply (final_ok c' a' _ HR Hrep). Qed.

(* qhashmd5 on any buffer and any size_t nbytes: the digest of the first (nbytes mod 2^32) bytes *)
Theorem qhashmd5_general : forall g buf nbytes, length g = 64%nat ->
  (N.to_nat (w32 nbytes) <= length buf)%nat -> w32 nbytes + 63 < 2 ^ 32 ->
  qhashmd5 g buf nbytes = Ok (md5 (firstn (N.to_nat (w32 nbytes)) buf)).
Proof. intros g buf nbytes Hg Hk Hlen. set (k := N.to_nat (w32 nbytes)) in *.
  pose proof (md5_stream_eq g [(firstn k buf, skipn k buf)] Hg) as H.
  unfold md5_stream in H. cbn [md5_updates map concat fst] in H. rewrite firstn_skipn, app_nil_r, firstn_length in H.
  replace (N.of_nat (Nat.min k (length buf))) with (w32 nbytes) in H by (unfold k; lia).
  unfold qhashmd5. destruct (MD5Update (MD5Init g) buf (w32 nbytes)) as [c| |]; cbn [bind] in *; apply H; constructor; try constructor;
    unfold chunk_ok; cbn [fst]; rewrite firstn_length; replace (N.of_nat (Nat.min k (length buf))) with (w32 nbytes) by (unfold k; lia); exact Hlen. Qed.

Theorem md5_eq : forall g msg junk, length g = 64%nat -> N.of_nat (length msg) + 63 < 2 ^ 32 ->
  qhashmd5 g (msg ++ junk) (N.of_nat (length msg)) = Ok (md5 msg).
Proof. intros g msg junk Hg Hlen.
  assert (Hw: w32 (N.of_nat (length msg)) = N.of_nat (length msg)) by (apply w32_small; change (2 ^ 32) with 4294967296 in *; lia).
  rewrite (qhashmd5_general g (msg ++ junk) _ Hg); rewrite Hw, ?Nat2N.id; [| rewrite app_length; lia | exact Hlen].
  rewrite firstn_app, firstn_all. replace (length msg - length msg)%nat with O by lia. cbn [firstn]. rewrite app_nil_r. reflexivity. Qed.

(* ---- qhashmd5_file ---- *)
Lemma firstn_plus {A} (l : list A) : forall a b, firstn (a + b) l = firstn a l ++ firstn b (skipn a l).
Proof. induction l as [|x l IH]; intros a b; [destruct a, b; reflexivity|]. destruct a; [reflexivity|]. cbn [Nat.add firstn skipn app]. f_equal. apply IH. Qed.
Lemma file_loop_ok : forall fuel c a done pos toread, R c a -> arepr rfc_init done a ->
  (N.to_nat toread <= length pos)%nat -> (toread + 32767) / 32768 + 1 <= N.of_nat fuel ->
  exists c' a', file_loop fuel c pos toread = Ok (Some c') /\ R c' a' /\ arepr rfc_init (done ++ firstn (N.to_nat toread) pos) a'.
Proof. destruct gen_consts as (_ & _ & _ & _ & _ & _ & _ & _ & _ & BS & _).
  induction fuel as [|fuel IH]; intros c a done pos toread HR Hrep Hpos Hfuel; [lia|].
  cbn [file_loop]. rewrite BS.
  destruct (0 <? toread) eqn:C; [apply N.ltb_lt in C | apply N.ltb_ge in C].
  - set (req := if 32768 <? toread then 32768 else toread).
    assert (Hreq: 0 < req /\ req <= toread /\ req <= 32768 /\ (toread <= 32768 -> req = toread) /\ (32768 < toread -> req = 32768)).
    { unfold req. destruct (32768 <? toread) eqn:C2; [apply N.ltb_lt in C2 | apply N.ltb_ge in C2]; lia. }
    clearbody req. destruct Hreq as (Q1 & Q2 & Q3 & Q4 & Q5).
    set (buf := firstn (N.to_nat req) pos).
    assert (Hbl: length buf = N.to_nat req) by (unfold buf; rewrite firstn_length; lia).
    rewrite Hbl, N2Nat.id. rewrite (w32_small req) by (change (2 ^ 32) with 4294967296; lia).
    destruct (update_refines c a buf [] HR) as (c1 & U1 & R1); [rewrite Hbl, N2Nat.id; change (2 ^ 32) with 4294967296; lia|].
    rewrite app_nil_r, Hbl, N2Nat.id in U1. rewrite U1. cbn [bind].
    destruct (IH c1 (aupdate a buf) (done ++ buf) (skipn (N.to_nat req) pos) (toread - req) R1) as (c' & a' & L & HR' & Hrep').
    + apply (update_repr N st4 rfc_block 64 B64pos). exact Hrep.
    + rewrite skipn_length. lia.
    + destruct (N.le_gt_cases toread 32768) as [Hs|Hs]; [rewrite (Q4 Hs) | rewrite (Q5 Hs)]; lia.
    + exists c', a'. split; [exact L|]. split; [exact HR'|].
      replace (done ++ firstn (N.to_nat toread) pos) with ((done ++ buf) ++ firstn (N.to_nat (toread - req)) (skipn (N.to_nat req) pos)); [exact Hrep'|].
      rewrite <- app_assoc. f_equal. unfold buf.
      replace (N.to_nat toread) with (N.to_nat req + N.to_nat (toread - req))%nat by lia.
      rewrite firstn_plus. reflexivity.
  - exists c, a. assert (toread = 0) as -> by lia. cbn [N.to_nat firstn]. rewrite app_nil_r. auto. Qed.

(* the digest of the byte range [offset, offset + count) of the file, count = nbytes or "to the end" when nbytes = 0 *)
Definition file_range (file : list N) (offset nbytes : N) : list N :=
  let count := if nbytes =? 0 then N.of_nat (length file) - offset else nbytes in
  firstn (N.to_nat count) (skipn (N.to_nat offset) file).

Theorem md5_file_eq : forall g file offset nbytes, length g = 64%nat -> offset + nbytes <= N.of_nat (length file) ->
  qhashmd5_file g file offset nbytes = Ok (Some (md5 (file_range file offset nbytes))).
Proof. intros g file offset nbytes Hg Hrange. destruct gen_consts as (_ & _ & _ & _ & _ & _ & _ & _ & _ & BS & _).
  unfold qhashmd5_file, file_range.
  assert ((N.of_nat (length file) <? offset + nbytes) = false) as -> by (apply N.ltb_ge; exact Hrange).
  set (count := if nbytes =? 0 then N.of_nat (length file) - offset else nbytes).
  assert (Hc: offset + count <= N.of_nat (length file)) by (unfold count; destruct (nbytes =? 0); lia).
  clearbody count. rewrite BS.
  destruct (file_loop_ok (S (S (N.to_nat (count / 32768)))) (MD5Init g) a0 [] (skipn (N.to_nat offset) file) count
              (init_R g Hg) (repr_init N st4 rfc_block 64 rfc_init)) as (c' & a' & L & HR & Hrep).
  - rewrite skipn_length. lia.
  - lia.
  - rewrite L. cbn [bind app] in *. rewrite (final_ok c' a' _ HR Hrep). reflexivity. Qed.

Theorem md5_file_range_error : forall g file offset nbytes, N.of_nat (length file) < offset + nbytes ->
  qhashmd5_file g file offset nbytes = Ok None.
Proof. intros g file offset nbytes H. unfold qhashmd5_file. apply N.ltb_lt in H. rewrite H. reflexivity. Qed.
