(* "Each result is a pure function of exactly the given bytes": for a buffer that holds the nbytes input bytes followed by
   arbitrary further memory `junk`, every hash model returns the same value as on the buffer that ends right after the
   input (where any read past the input would be Crash), and that value is not Crash. *)
From Coq Require Import NArith Arith List Lia Bool.
From QV.Base Require Import Res Bytes Word.
From QV.HashFn Require Import FnvModel MurmurModel Md5Model FnvSpec MurmurSpec Md5Spec FnvProofs MurmurProofs Md5Proofs.
Import ListNotations.
Local Open Scope N_scope.

Record pure_on {A} (f : list N -> N -> res A) (msg junk : list N) : Prop := mkpure {
  same_result : f (msg ++ junk) (N.of_nat (length msg)) = f msg (N.of_nat (length msg));
  no_read_outside : is_ok (f msg (N.of_nat (length msg))) = true }.

Lemma pure_from_eq {A} (f : list N -> N -> res A) msg junk v :
  (forall j, f (msg ++ j) (N.of_nat (length msg)) = Ok v) -> pure_on f msg junk.
Proof. intros H. pose proof (H []) as H0. rewrite app_nil_r in H0. split; [rewrite H, H0; reflexivity | rewrite H0; reflexivity]. Qed.

Theorem hashes_pure : forall g msg junk, length g = 64%nat -> bytes msg -> msg <> [] -> N.of_nat (length msg) < 2 ^ 31 ->
  pure_on qhashfnv1_32 msg junk /\ pure_on qhashfnv1_64 msg junk /\ pure_on qhashmurmur3_32 msg junk /\
  pure_on qhashmurmur3_128 msg junk /\ pure_on (qhashmd5 g) msg junk.
Proof. intros g msg junk Hg Hb Hne Hlen. split; [|split; [|split; [|split]]].
  - apply (pure_from_eq _ _ _ (fnv1_32 msg)). intros j. apply fnv32_eq, Hne.
  - apply (pure_from_eq _ _ _ (fnv1_64 msg)). intros j. apply fnv64_eq, Hne.
  - apply (pure_from_eq _ _ _ (murmur3_x86_32 0 msg)). intros j. apply murmur32_eq; assumption.
  - apply (pure_from_eq _ _ _ (Some (murmur3_x64_128 0 msg))). intros j. apply murmur128_eq; assumption.
  - apply (pure_from_eq _ _ _ (md5 msg)). intros j. apply md5_eq; [exact Hg|]. change (2 ^ 31) with 2147483648 in Hlen. change (2 ^ 32) with 4294967296. lia. Qed.

(* the result does not depend on the previous contents of the MD5 context buffer (uninitialised stack memory in qhashmd5) *)
Theorem md5_garbage_independent : forall g1 g2 msg junk, length g1 = 64%nat -> length g2 = 64%nat -> N.of_nat (length msg) + 63 < 2 ^ 32 ->
  qhashmd5 g1 (msg ++ junk) (N.of_nat (length msg)) = qhashmd5 g2 (msg ++ junk) (N.of_nat (length msg)).
Proof. intros. rewrite !md5_eq by assumption. reflexivity. Qed.
