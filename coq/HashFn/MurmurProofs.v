(* qhashmurmur3_32 / qhashmurmur3_128 (buffer-level models) = MurmurHash3 x86_32 / x64_128 with seed 0 for every non-empty
   byte string shorter than 2^31, whatever follows the buffer. *)
From Coq Require Import NArith Arith List Lia Bool.
From QV.Base Require Import Res Bytes Word.
From QV.Gen Require Import HashConst.
From QV.HashFn Require Import MurmurModel MurmurSpec.
Import ListNotations.
Local Open Scope N_scope.

(* ---------- xor of a byte below a multiple of 256 is addition ---------- *)
Lemma land_high_low hi b : b < 256 -> N.land (256 * hi) b = 0.
Proof. intros Hb. apply N.bits_inj. intros n. rewrite N.land_spec, N.bits_0.
  destruct (N.lt_ge_cases n 8) as [Hn|Hn].
  - replace (256 * hi) with (hi * 2 ^ 8) by (change (2 ^ 8) with 256; lia). rewrite N.mul_pow2_bits_low by exact Hn. reflexivity.
  - rewrite <- (N.mod_small b (2 ^ 8)) by exact Hb. rewrite N.mod_pow2_bits_high by exact Hn. apply andb_false_r. Qed.
Lemma lxor_high_low hi b : b < 256 -> N.lxor (256 * hi) b = 256 * hi + b.
Proof. intros Hb. symmetry. apply N.add_nocarry_lxor. apply land_high_low, Hb. Qed.
Lemma pow256 m : 2 ^ (N.of_nat (8 * m)) = 256 ^ N.of_nat m.
Proof. rewrite Nat2N.inj_mul. change (N.of_nat 8) with 8. rewrite N.pow_mul_r. reflexivity. Qed.
Lemma lxor_step m hi b : b < 256 ->
  N.lxor (256 ^ N.of_nat (S m) * hi) (N.shiftl b (N.of_nat (8 * m))) = 256 ^ N.of_nat m * (256 * hi + b).
Proof. intros Hb. rewrite Nat2N.inj_succ, N.pow_succ_r'. rewrite <- (lxor_high_low hi b Hb).
  replace (256 * 256 ^ N.of_nat m * hi) with (N.shiftl (256 * hi) (N.of_nat (8 * m))) by (rewrite N.shiftl_mul_pow2, pow256; lia).
  rewrite <- N.shiftl_lxor, N.shiftl_mul_pow2, pow256. lia. Qed.

(* ---------- the fall-through tail switch ---------- *)
(* the canonical layout: entries for byte positions idx0 + m - 1 down to idx0; label = index + 1, shift = 8 * position *)
Fixpoint cases (idx0 m : nat) : list (N * N * N) :=
  match m with O => [] | S m' => (N.of_nat (idx0 + m' + 1), N.of_nat (idx0 + m'), N.of_nat (8 * m')) :: cases idx0 m' end.

Lemma bytes_nth l i : bytes l -> (i < length l)%nat -> nth i l 0 < 256.
Proof. revert i. induction l as [|c r IH]; intros i Hb Hi; [cbn in Hi; lia|]. apply bytes_cons in Hb as [Hc Hr].
  destruct i; cbn [nth]; [unfold isbyte in Hc; apply N.ltb_lt; exact Hc | apply IH; [exact Hr | cbn in Hi; lia]]. Qed.
Lemma idx_app tl junk i : (i < length tl)%nat -> idx (tl ++ junk) (N.of_nat i) = Ok (nth i tl 0).
Proof. intros Hi. unfold idx. rewrite Nat2N.id. rewrite nth_error_app1 by exact Hi.
  rewrite (nth_error_nth' tl 0 Hi). reflexivity. Qed.
Lemma firstn_succ_nth (L : list N) m : (m < length L)%nat -> firstn (S m) L = firstn m L ++ [nth m L 0].
Proof. revert L. induction m as [|m IH]; intros L H; destruct L as [|x L]; cbn in H; try lia; [reflexivity|].
  cbn [firstn nth app]. f_equal. apply IH. lia. Qed.

Lemma nth_skipn' (l : list N) k m : nth m (skipn k l) 0 = nth (k + m) l 0.
Proof. revert l. induction k as [|k IH]; intros l; [reflexivity|]. destruct l as [|x l]; [destruct m; reflexivity|]. cbn [skipn Nat.add nth]. apply IH. Qed.

Lemma tail_xor_cases tl junk idx0 : bytes tl -> forall m hi,
  tail_xor (N.of_nat (length tl)) (tl ++ junk) (cases idx0 m) (256 ^ N.of_nat m * hi)
  = Ok (256 ^ N.of_nat m * hi + le_join (firstn m (skipn idx0 tl))).
Proof. intros Hb. induction m as [|m IH]; intros hi.
  - cbn [cases tail_xor firstn le_join]. f_equal. lia.
  - cbn [cases tail_xor]. destruct (N.of_nat (idx0 + m + 1) <=? N.of_nat (length tl)) eqn:E.
    + apply N.leb_le in E. assert (Hi: (idx0 + m < length tl)%nat) by lia.
      rewrite idx_app by exact Hi. cbn [bind].
      assert (Hlt: nth (idx0 + m) tl 0 < 256) by (apply bytes_nth; assumption).
      rewrite lxor_step by exact Hlt. rewrite IH. f_equal.
      rewrite firstn_succ_nth by (rewrite skipn_length; lia). rewrite le_join_app, firstn_length, skipn_length.
      replace (Nat.min m (length tl - idx0)) with m by lia. cbn [le_join].
      replace (nth m (skipn idx0 tl) 0) with (nth (idx0 + m) tl 0) by (rewrite nth_skipn'; reflexivity).
      rewrite Nat2N.inj_succ, N.pow_succ_r'. lia.
    + apply N.leb_gt in E. assert (Hi: (length tl <= idx0 + m)%nat) by lia.
      replace (256 ^ N.of_nat (S m) * hi) with (256 ^ N.of_nat m * (256 * hi)) by (rewrite Nat2N.inj_succ, N.pow_succ_r'; lia).
      rewrite IH. f_equal. rewrite !firstn_all2 by (rewrite skipn_length; lia). reflexivity. Qed.

Lemma tail_xor_ok tl junk idx0 m : bytes tl ->
  tail_xor (N.of_nat (length tl)) (tl ++ junk) (cases idx0 m) 0 = Ok (le_join (firstn m (skipn idx0 tl))).
Proof. intros Hb. pose proof (tail_xor_cases tl junk idx0 Hb m 0) as H. rewrite N.mul_0_r in H. exact H. Qed.

(* the switch layouts read from the source are the canonical ones *)
Lemma tables_ok : m32_tail = cases 0 3 /\ m128_tail2 = cases 8 7 /\ m128_tail1 = cases 0 8.
Proof. vm_compute. repeat split. Qed.

Lemma bytes_skipn l n : bytes l -> bytes (skipn n l).
Proof. intros H. rewrite <- (firstn_skipn n l) in H. apply bytes_app in H. tauto. Qed.
Lemma bytes_firstn l n : bytes l -> bytes (firstn n l).
Proof. intros H. rewrite <- (firstn_skipn n l) in H. apply bytes_app in H. tauto. Qed.

(* ---------- length arithmetic ---------- *)
Lemma len_split (B : nat) (len : nat) : (0 < B)%nat -> exists n t, (len = B * n + t /\ t < B)%nat.
Proof. intros HB. exists (len / B)%nat, (len mod B)%nat. split; [apply Nat.div_mod; lia | apply Nat.mod_upper_bound; lia]. Qed.
Lemma div_blocks (B n t : nat) : (t < B)%nat -> N.of_nat (B * n + t) / N.of_nat B = N.of_nat n.
Proof. intros H. symmetry. apply (N.div_unique _ _ _ (N.of_nat t)); lia. Qed.
Lemma land_blocks (k : N) (B n t : nat) : N.of_nat B = 2 ^ k -> (t < B)%nat -> N.land (N.of_nat (B * n + t)) (N.ones k) = N.of_nat t.
Proof. intros HB H. rewrite N.land_ones. symmetry. apply (N.mod_unique _ _ (N.of_nat n)); lia. Qed.

(* ---------- 32 bit ---------- *)
Lemma mixk32_eq k : m32_mixk k = scramble32 k. Proof. reflexivity. Qed.
Lemma mixh32_eq h k : m32_mixh h (m32_mixk k) = add32 (mul32 (rotl32 (N.lxor h (scramble32 k)) 13) 5) 0xe6546b64. Proof. reflexivity. Qed.
Lemma final32_eq h : m32_final h = fmix32 h. Proof. reflexivity. Qed.

Lemma m32_loop_body junk : forall n key h t, (length key = 4 * n + t)%nat -> (t < 4)%nat ->
  m32_loop n (key ++ junk) h = Ok (fst (body32 h key)) /\ snd (body32 h key) = skipn (4 * n) key.
Proof. induction n as [|n IH]; intros key h t Hl Ht.
  - cbn [m32_loop]. replace (4 * 0)%nat with O by lia. cbn [skipn].
    destruct key as [|b0 [|b1 [|b2 [|b3 r]]]]; cbn [body32 fst snd]; try (split; reflexivity). cbn [length] in Hl. lia.
  - destruct key as [|b0 [|b1 [|b2 [|b3 r]]]]; cbn [length] in Hl; try lia.
    cbn [m32_loop app load take bind fst snd]. rewrite mixh32_eq.
    replace (4 * S n)%nat with (4 + 4 * n)%nat by lia. cbn [body32 skipn Nat.add].
    apply (IH r _ t); [lia | exact Ht]. Qed.

Theorem murmur32_eq : forall key junk, bytes key -> key <> [] -> N.of_nat (length key) < 2 ^ 31 ->
  qhashmurmur3_32 (key ++ junk) (N.of_nat (length key)) = Ok (murmur3_x86_32 0 key).
Proof. intros key junk Hb Hne Hlen.
  destruct (len_split 4 (length key)) as (n & t & Hl & Ht); [lia|].
  unfold qhashmurmur3_32.
  assert ((N.of_nat (length key) =? 0) = false) as -> by (apply N.eqb_neq; destruct key; [congruence | cbn [length]; lia]).
  assert ((2 ^ 31 <=? N.of_nat (length key)) = false) as -> by (apply N.leb_gt; exact Hlen).
  assert (Hdiv: N.of_nat (length key) / 4 = N.of_nat n) by (rewrite Hl; apply (div_blocks 4 n t Ht)).
  rewrite Hdiv, Nat2N.id.
  destruct (m32_loop_body junk n key 0 t Hl Ht) as [Hloop Hsnd]. rewrite Hloop. cbn [bind].
  replace (N.to_nat (N.of_nat n * 4)) with (4 * n)%nat by lia.
  rewrite skipn_app. replace (4 * n - length key)%nat with O by lia. cbn [skipn].
  set (tl := skipn (4 * n) key) in *.
  assert (Htl: length tl = t) by (unfold tl; rewrite skipn_length; lia).
  assert (Hsw: N.land (N.of_nat (length key)) 3 = N.of_nat (length tl)).
  { rewrite Htl, Hl. change 3 with (N.ones 2). apply (land_blocks 2 4 n t); [reflexivity | exact Ht]. }
  rewrite Hsw. destruct tables_ok as [T32 _]. rewrite T32.
  rewrite tail_xor_ok by (apply bytes_skipn, Hb). cbn [bind skipn].
  rewrite firstn_all2 by lia.
  unfold murmur3_x86_32. rewrite (surjective_pairing (body32 0 key)), Hsnd. fold tl.
  rewrite final32_eq, w32_mod, mixk32_eq. f_equal. f_equal. f_equal.
  change (last_label (cases 0 3)) with 1.
  destruct tl as [|x r]; [reflexivity|]. cbn [length]. 
  assert ((1 <=? N.of_nat (S (length r))) = true) as -> by (apply N.leb_le; lia). reflexivity. Qed.

(* ---------- 128 bit ---------- *)
Lemma mixk1_eq k : m128_mixk1 k = scramble_k1 k. Proof. reflexivity. Qed.
Lemma mixk2_eq k : m128_mixk2 k = scramble_k2 k. Proof. reflexivity. Qed.
Lemma block128_eq h k1 k2 : m128_block h k1 k2 = block128 h k1 k2. Proof. destruct h. reflexivity. Qed.
Lemma final128_eq h : m128_final h = fmix64 h. Proof. reflexivity. Qed.

Lemma m128_loop_body junk : forall n key h t, (length key = 16 * n + t)%nat -> (t < 16)%nat ->
  m128_loop n (key ++ junk) h = Ok (fst (body128 h key)) /\ snd (body128 h key) = skipn (16 * n) key.
Proof. induction n as [|n IH]; intros key h t Hl Ht.
  - cbn [m128_loop]. replace (16 * 0)%nat with O by lia. cbn [skipn].
    do 16 (destruct key as [|? key]; [split; reflexivity|]). cbn [length] in Hl. lia.
  - do 16 (destruct key as [|? key]; [cbn [length] in Hl; lia|]). cbn [length] in Hl.
    cbn [m128_loop app load take bind fst snd]. rewrite block128_eq.
    replace (16 * S n)%nat with (16 + 16 * n)%nat by lia. cbn [body128 skipn Nat.add].
    apply (IH key _ t); [lia | exact Ht]. Qed.

Theorem murmur128_eq : forall key junk, bytes key -> key <> [] -> N.of_nat (length key) < 2 ^ 31 ->
  qhashmurmur3_128 (key ++ junk) (N.of_nat (length key)) = Ok (Some (murmur3_x64_128 0 key)).
Proof. intros key junk Hb Hne Hlen.
  destruct (len_split 16 (length key)) as (n & t & Hl & Ht); [lia|].
  unfold qhashmurmur3_128.
  assert ((N.of_nat (length key) =? 0) = false) as -> by (apply N.eqb_neq; destruct key; [congruence | cbn [length]; lia]).
  assert ((2 ^ 31 <=? N.of_nat (length key)) = false) as -> by (apply N.leb_gt; exact Hlen).
  assert (Hdiv: N.of_nat (length key) / 16 = N.of_nat n) by (rewrite Hl; apply (div_blocks 16 n t Ht)).
  rewrite Hdiv, Nat2N.id.
  destruct (m128_loop_body junk n key (0, 0) t Hl Ht) as [Hloop Hsnd]. rewrite Hloop. cbn [bind].
  unfold murmur3_x64_128, murmur3_x64_128_words.
  destruct (body128 (0, 0) key) as [[h1 h2] tl0] eqn:Eb. cbn [fst snd] in *. subst tl0.
  replace (N.to_nat (N.of_nat n * 16)) with (16 * n)%nat by lia.
  rewrite skipn_app. replace (16 * n - length key)%nat with O by lia. cbn [skipn].
  set (tl := skipn (16 * n) key) in *.
  assert (Htl: length tl = t) by (unfold tl; rewrite skipn_length; lia).
  assert (Hsw: N.land (N.of_nat (length key)) 15 = N.of_nat (length tl)).
  { rewrite Htl, Hl. change 15 with (N.ones 4). apply (land_blocks 4 16 n t); [reflexivity | exact Ht]. }
  rewrite Hsw. destruct tables_ok as (_ & T2 & T1). rewrite T2, T1.
  assert (Hbt: bytes tl) by (apply bytes_skipn, Hb).
  rewrite !tail_xor_ok by exact Hbt. cbn [bind].
  rewrite (firstn_all2 (n := 7)) by (rewrite skipn_length; lia).
  change (last_label (cases 8 7)) with 9. change (last_label (cases 0 8)) with 1.
  rewrite !final128_eq, w64_mod, mixk1_eq, mixk2_eq.
  assert (E2: (9 <=? N.of_nat (length tl)) = Nat.ltb 8 (length tl)).
  { destruct (Nat.ltb 8 (length tl)) eqn:E; [apply Nat.ltb_lt in E; apply N.leb_le; lia | apply Nat.ltb_ge in E; apply N.leb_gt; lia]. }
  rewrite E2.
  assert (E1: (if 1 <=? N.of_nat (length tl) then N.lxor h1 (scramble_k1 (le_join (firstn 8 (skipn 0 tl)))) else h1)
              = match tl with [] => h1 | _ => N.lxor h1 (scramble_k1 (le_join (firstn 8 tl))) end).
  { destruct tl as [|x r]; [reflexivity|]. cbn [length skipn].
    assert ((1 <=? N.of_nat (S (length r))) = true) as -> by (apply N.leb_le; lia). reflexivity. }
  rewrite E1. reflexivity. Qed.

(* empty input: qhashmurmur3_32 returns 0 (which happens to be MurmurHash3 x86_32 of the empty key with seed 0),
   qhashmurmur3_128 returns false and writes nothing *)
Lemma murmur_empty : forall buf, qhashmurmur3_32 buf 0 = Ok (murmur3_x86_32 0 []) /\ qhashmurmur3_128 buf 0 = Ok None.
Proof. intros. split; reflexivity. Qed.
