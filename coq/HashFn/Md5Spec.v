(* RFC 1321 (The MD5 Message-Digest Algorithm), written from the RFC text.
   3.1/3.2: the message is extended by a single 0x80 byte, then zero bytes until its length is 56 mod 64, then the
   length in bits (mod 2^64) as 8 bytes, low-order byte first.  3.3: A,B,C,D initialised to 01 23 45 67 / 89 ab cd ef /
   fe dc ba 98 / 76 54 32 10 (low-order bytes first).  3.4: each 64-byte block, read as 16 little-endian words X[0..15],
   goes through 64 operations  a = b + ((a + f(b,c,d) + X[k] + T[i]) <<< s)  with the roles of a,b,c,d rotating one
   place per operation; f is F,G,H,I in rounds 1..4; k is i, 1+5i, 5+3i, 7i (mod 16) in rounds 1..4; s cycles through
   7 12 17 22 / 5 9 14 20 / 4 11 16 23 / 6 10 15 21; T[i] = floor(2^32 * |sin(i)|) for i = 1..64 (given as the literal table of
   the RFC's appendix; computing sines needs reals).  3.5: output A,B,C,D, low-order byte of A first. *)
From Coq Require Import NArith Arith List.
From QV.Base Require Import Word.
Import ListNotations.
Local Open Scope N_scope.

Definition T : list N := [
   0xd76aa478; 0xe8c7b756; 0x242070db; 0xc1bdceee; 0xf57c0faf; 0x4787c62a; 0xa8304613; 0xfd469501;
   0x698098d8; 0x8b44f7af; 0xffff5bb1; 0x895cd7be; 0x6b901122; 0xfd987193; 0xa679438e; 0x49b40821;
   0xf61e2562; 0xc040b340; 0x265e5a51; 0xe9b6c7aa; 0xd62f105d; 0x02441453; 0xd8a1e681; 0xe7d3fbc8;
   0x21e1cde6; 0xc33707d6; 0xf4d50d87; 0x455a14ed; 0xa9e3e905; 0xfcefa3f8; 0x676f02d9; 0x8d2a4c8a;
   0xfffa3942; 0x8771f681; 0x6d9d6122; 0xfde5380c; 0xa4beea44; 0x4bdecfa9; 0xf6bb4b60; 0xbebfbc70;
   0x289b7ec6; 0xeaa127fa; 0xd4ef3085; 0x04881d05; 0xd9d4d039; 0xe6db99e5; 0x1fa27cf8; 0xc4ac5665;
   0xf4292244; 0x432aff97; 0xab9423a7; 0xfc93a039; 0x655b59c3; 0x8f0ccc92; 0xffeff47d; 0x85845dd1;
   0x6fa87e4f; 0xfe2ce6e0; 0xa3014314; 0x4e0811a1; 0xf7537e82; 0xbd3af235; 0x2ad7d2bb; 0xeb86d391].

Definition F x y z := N.lor (N.land x y) (N.land (not32 x) z).
Definition G x y z := N.lor (N.land x z) (N.land y (not32 z)).
Definition H x y z := N.lxor (N.lxor x y) z.
Definition I x y z := N.lxor y (N.lor x (not32 z)).
Definition rfc_f (round : nat) := match round with O => F | 1%nat => G | 2%nat => H | _ => I end.
Definition rfc_k (i : nat) : nat :=
  (match i / 16 with O => i | 1 => (1 + 5 * i) mod 16 | 2 => (5 + 3 * i) mod 16 | _ => (7 * i) mod 16 end)%nat.
Definition rfc_s (i : nat) : N :=
  nth (i mod 4)%nat (nth (i / 16)%nat [[7; 12; 17; 22]; [5; 9; 14; 20]; [4; 11; 16; 23]; [6; 10; 15; 21]] []) 0.

(* operation number i (0-based) on the registers in their current roles (a, b, c, d); the roles rotate afterwards *)
Definition rfc_op (f : N -> N -> N -> N) (xk s t : N) (r : N * N * N * N) : N * N * N * N :=
  let '(a, b, c, d) := r in
  (d, add32 b (rotl32 (add32 (add32 (add32 a (f b c d)) xk) t) s), b, c).
Definition rfc_step (X : list N) (r : N * N * N * N) (i : nat) : N * N * N * N :=
  rfc_op (rfc_f (i / 16)%nat) (nth (rfc_k i) X 0) (rfc_s i) (nth i T 0) r.

Fixpoint words (blk : list N) : list N :=
  match blk with b0 :: b1 :: b2 :: b3 :: r => le_join [b0; b1; b2; b3] :: words r | _ => [] end.
Definition rfc_block (st : N * N * N * N) (blk : list N) : N * N * N * N :=
  let X := words blk in
  let '(a, b, c, d) := fold_left (rfc_step X) (seq 0 64) st in
  let '(a0, b0, c0, d0) := st in
  (add32 a0 a, add32 b0 b, add32 c0 c, add32 d0 d).

Definition rfc_pad (msg : list N) : list N :=
  let n := length msg in
  msg ++ [128] ++ repeat 0 ((119 - n mod 64) mod 64)%nat ++ le_bytes 8 ((8 * N.of_nat n) mod 2 ^ 64).

Fixpoint rfc_blocks (fuel : nat) (st : N * N * N * N) (l : list N) : N * N * N * N :=
  match fuel with
  | O => st
  | S f => match l with [] => st | _ => rfc_blocks f (rfc_block st (firstn 64 l)) (skipn 64 l) end
  end.
Definition rfc_init : N * N * N * N := (le_join [0x01; 0x23; 0x45; 0x67], le_join [0x89; 0xab; 0xcd; 0xef], le_join [0xfe; 0xdc; 0xba; 0x98], le_join [0x76; 0x54; 0x32; 0x10]).
Definition md5 (msg : list N) : list N :=
  let p := rfc_pad msg in
  let '(a, b, c, d) := rfc_blocks (length p) rfc_init p in
  le_bytes 4 a ++ le_bytes 4 b ++ le_bytes 4 c ++ le_bytes 4 d.

(* ---------------- validation ---------------- *)
(* a few entries of T against the RFC's listing (operations 1, 2, 17, 33, 49, 64) *)
Example T_entries : nth 0 T 0 = 0xd76aa478 /\ nth 1 T 0 = 0xe8c7b756 /\ nth 16 T 0 = 0xf61e2562 /\ nth 32 T 0 = 0xfffa3942 /\ nth 48 T 0 = 0xf4292244 /\ nth 63 T 0 = 0xeb86d391 /\ length T = 64%nat.
Proof. vm_compute. repeat split. Qed.
(* the k and s schedules against the RFC's "[ABCD k s i]" listing, rows 1, 5 (round 2), 9 (round 3), 13 (round 4) *)
Example schedule_rows : map rfc_k [0; 1; 2; 3; 16; 17; 18; 19; 32; 33; 34; 35; 48; 49; 50; 51]%nat = [0; 1; 2; 3; 1; 6; 11; 0; 5; 8; 11; 14; 0; 7; 14; 5]%nat
  /\ map rfc_s [0; 1; 2; 3; 16; 17; 18; 19; 32; 33; 34; 35; 48; 49; 50; 51]%nat = [7; 12; 17; 22; 5; 9; 14; 20; 4; 11; 16; 23; 6; 10; 15; 21].
Proof. vm_compute. split; reflexivity. Qed.

(* RFC 1321 appendix A.5 test suite *)
Example rfc_empty : md5 [] = [0xd4;0x1d;0x8c;0xd9;0x8f;0x00;0xb2;0x04;0xe9;0x80;0x09;0x98;0xec;0xf8;0x42;0x7e]. Proof. vm_compute. reflexivity. Qed.
Example rfc_a : md5 [97] = [0x0c;0xc1;0x75;0xb9;0xc0;0xf1;0xb6;0xa8;0x31;0xc3;0x99;0xe2;0x69;0x77;0x26;0x61]. Proof. vm_compute. reflexivity. Qed.
Example rfc_abc : md5 [97;98;99] = [0x90;0x01;0x50;0x98;0x3c;0xd2;0x4f;0xb0;0xd6;0x96;0x3f;0x7d;0x28;0xe1;0x7f;0x72]. Proof. vm_compute. reflexivity. Qed.
(* "message digest" *)
Example rfc_md : md5 [109;101;115;115;97;103;101;32;100;105;103;101;115;116] = [0xf9;0x6b;0x69;0x7d;0x7c;0xb7;0x93;0x8d;0x52;0x5a;0x2f;0x31;0xaa;0xf1;0x61;0xd0]. Proof. vm_compute. reflexivity. Qed.
(* "abcdefghijklmnopqrstuvwxyz" *)
Example rfc_az : md5 (map N.of_nat (seq 97 26)) = [0xc3;0xfc;0xd3;0xd7;0x61;0x92;0xe4;0x00;0x7d;0xfb;0x49;0x6c;0xca;0x67;0xe1;0x3b]. Proof. vm_compute. reflexivity. Qed.
(* "ABCDEFGHIJKLMNOPQRSTUVWXYZabcdefghijklmnopqrstuvwxyz0123456789" (62 bytes: two blocks after padding) *)
Example rfc_alnum : md5 (map N.of_nat (seq 65 26 ++ seq 97 26 ++ seq 48 10)) = [0xd1;0x74;0xab;0x98;0xd2;0x77;0xd9;0xf5;0xa5;0x61;0x1c;0x2c;0x9f;0x41;0x9d;0x9f]. Proof. vm_compute. reflexivity. Qed.
(* "1234567890" eight times (80 bytes) *)
Example rfc_digits : md5 (map N.of_nat (concat (repeat (seq 49 9 ++ [48]%nat) 8))) = [0x57;0xed;0xf4;0xa2;0x2b;0xe3;0xc9;0x55;0xac;0x49;0xda;0x2e;0x21;0x07;0xb6;0x7a]. Proof. vm_compute. reflexivity. Qed.
