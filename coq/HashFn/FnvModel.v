(* Executable model of qhashfnv1_32 / qhashfnv1_64 (src/utilities/qhash.c), buffer level.
   The input pointer is a buffer suffix (Base/Word.v): `data` is the list of bytes from the first input byte to the
   end of the accessible memory; dereferencing a pointer with nothing left is Crash.  Constants, the shift list of the
   shift-add multiplication and the form of the loop condition come from Gen/HashConst.v (regenerated on every run). *)
From Coq Require Import NArith List Bool.
From QV.Base Require Import Res Word.
From QV.Gen Require Import HashConst.
Import ListNotations.
Local Open Scope N_scope.

Definition deref (p : list N) : res N := match p with b :: _ => Ok b | [] => Crash end.     (* *dp *)

(* h += (h<<s1) + (h<<s2) + ... : every shift and every partial sum is a uint32_t / uint64_t *)
Definition fnv32_mul (h : N) : N := add32 h (fold_left (fun acc k => add32 acc (shl32 h k)) fnv32_shifts 0).
Definition fnv64_mul (h : N) : N := add64 h (fold_left (fun acc k => add64 acc (shl64 h k)) fnv64_shifts 0).

(* for (dp = data; COND; dp++, nbytes--) { h = mul h; h ^= *dp; }
   COND is `*dp && nbytes > 0` (left operand evaluated first) or `nbytes > 0`, whichever the source has now *)
Section Loop.
Variable cond_reads_dp : bool.
Variable mul : N -> N.
Fixpoint fnv_loop (nbytes : nat) (dp : list N) (h : N) : res N :=
  let body n := bind (deref dp) (fun b => fnv_loop n (tl dp) (N.lxor (mul h) b)) in
  if cond_reads_dp then
    bind (deref dp) (fun c => if c =? 0 then Ok h else match nbytes with O => Ok h | S n => body n end)
  else match nbytes with O => Ok h | S n => body n end.
End Loop.

Definition qhashfnv1_32 (data : list N) (nbytes : N) : res N :=
  if nbytes =? 0 then Ok 0 else fnv_loop fnv32_cond_reads_dp fnv32_mul (N.to_nat nbytes) data fnv32_basis.
Definition qhashfnv1_64 (data : list N) (nbytes : N) : res N :=
  if nbytes =? 0 then Ok 0 else fnv_loop fnv64_cond_reads_dp fnv64_mul (N.to_nat nbytes) data fnv64_basis.
