(* qhashfnv1_32 / qhashfnv1_64 (buffer-level model) = FNV-1 for every non-empty byte string, whatever follows the buffer. *)
From Coq Require Import NArith Arith List Lia Bool.
From QV.Base Require Import Res Word.
From QV.Gen Require Import HashConst.
From QV.HashFn Require Import FnvModel FnvSpec.
Import ListNotations.
Local Open Scope N_scope.

(* sum of 2^k over the shift list: the multiplier that the shift-add sequence implements, minus one *)
Definition sumpow (shifts : list N) : N := fold_right (fun k s => 2 ^ k + s) 0 shifts.

Lemma shl32_mul h k : shl32 h k = w32 (h * 2 ^ k).
Proof. unfold shl32. rewrite N.shiftl_mul_pow2. reflexivity. Qed.
Lemma shl64_mul h k : shl64 h k = w64 (h * 2 ^ k).
Proof. unfold shl64. rewrite N.shiftl_mul_pow2. reflexivity. Qed.

Lemma shiftadd32 h shifts : forall acc, w32 (fold_left (fun acc k => add32 acc (shl32 h k)) shifts acc) = w32 (acc + h * sumpow shifts).
Proof. induction shifts as [|k r IH]; intros acc; cbn [fold_left sumpow fold_right].
  - rewrite N.mul_0_r, N.add_0_r. reflexivity.
  - rewrite IH. fold (sumpow r). unfold add32. rewrite shl32_mul, w32_add_r, w32_add_l. f_equal. lia. Qed.
Lemma shiftadd64 h shifts : forall acc, w64 (fold_left (fun acc k => add64 acc (shl64 h k)) shifts acc) = w64 (acc + h * sumpow shifts).
Proof. induction shifts as [|k r IH]; intros acc; cbn [fold_left sumpow fold_right].
  - rewrite N.mul_0_r, N.add_0_r. reflexivity.
  - rewrite IH. fold (sumpow r). unfold add64. rewrite shl64_mul, w64_add_r, w64_add_l. f_equal. lia. Qed.

(* the shift-add sequence of the source is multiplication by the FNV prime modulo 2^w *)
Lemma fnv32_mul_ok h : fnv32_mul h = (h * (2 ^ 24 + 2 ^ 8 + 147)) mod 2 ^ 32.
Proof. unfold fnv32_mul. unfold add32 at 1. rewrite <- w32_add_r, shiftadd32, w32_add_r, <- w32_mod. f_equal.
  assert (E: 1 + sumpow fnv32_shifts = 2 ^ 24 + 2 ^ 8 + 147) by (vm_compute; reflexivity). rewrite <- E. lia. Qed.
Lemma fnv64_mul_ok h : fnv64_mul h = (h * (2 ^ 40 + 2 ^ 8 + 179)) mod 2 ^ 64.
Proof. unfold fnv64_mul. unfold add64 at 1. rewrite <- w64_add_r, shiftadd64, w64_add_r, <- w64_mod. f_equal.
  assert (E: 1 + sumpow fnv64_shifts = 2 ^ 40 + 2 ^ 8 + 179) by (vm_compute; reflexivity). rewrite <- E. lia. Qed.
(* the #else branch (compilers other than gcc) multiplies by the same number *)
Lemma fnv_else_branch : fnv32_prime = 1 + sumpow fnv32_shifts /\ fnv64_prime = 1 + sumpow fnv64_shifts.
Proof. vm_compute. split; reflexivity. Qed.

(* the loop over exactly nbytes bytes (condition `nbytes > 0`) *)
Lemma fnv_loop_fold mul msg junk : forall h,
  fnv_loop false mul (length msg) (msg ++ junk) h = Ok (fold_left (fun h b => N.lxor (mul h) b) msg h).
Proof. induction msg as [|b r IH]; intros h; [reflexivity|]. cbn [length app fnv_loop deref bind tl fold_left]. apply IH. Qed.

Lemma fold_left_ext {A B} (f g : A -> B -> A) l : (forall a b, f a b = g a b) -> forall a, fold_left f l a = fold_left g l a.
Proof. intros E. induction l as [|x r IH]; intros a; cbn [fold_left]; [reflexivity|]. rewrite E. apply IH. Qed.

Lemma len_nonzero (msg : list N) : msg <> [] -> (N.of_nat (length msg) =? 0) = false.
Proof. intros H. destruct msg; [congruence|]. apply N.eqb_neq. cbn [length]. lia. Qed.

Theorem fnv32_eq : forall msg junk, msg <> [] -> qhashfnv1_32 (msg ++ junk) (N.of_nat (length msg)) = Ok (fnv1_32 msg).
Proof. intros msg junk Hne. unfold qhashfnv1_32. rewrite (len_nonzero msg Hne), Nat2N.id.
  assert (fnv32_cond_reads_dp = false) as -> by reflexivity.
  rewrite fnv_loop_fold. f_equal. unfold fnv1_32, fnv1. assert (fnv32_basis = 2166136261) as -> by reflexivity.
  apply fold_left_ext. intros h b. rewrite fnv32_mul_ok. reflexivity. Qed.

Theorem fnv64_eq : forall msg junk, msg <> [] -> qhashfnv1_64 (msg ++ junk) (N.of_nat (length msg)) = Ok (fnv1_64 msg).
Proof. intros msg junk Hne. unfold qhashfnv1_64. rewrite (len_nonzero msg Hne), Nat2N.id.
  assert (fnv64_cond_reads_dp = false) as -> by reflexivity.
  rewrite fnv_loop_fold. f_equal. unfold fnv1_64, fnv1. assert (fnv64_basis = 14695981039346656037) as -> by reflexivity.
  apply fold_left_ext. intros h b. rewrite fnv64_mul_ok. reflexivity. Qed.

(* empty input: the C functions return 0, FNV-1 of the empty string is the offset basis (the property excludes it) *)
Lemma fnv_empty : forall buf, qhashfnv1_32 buf 0 = Ok 0 /\ qhashfnv1_64 buf 0 = Ok 0.
Proof. intros. split; reflexivity. Qed.

(* the loop condition of the pinned tree (`*dp && nbytes > 0`, repaired by the fix commit): with that condition the
   model reads the byte after the buffer and stops at the first NUL *)
Example fnv_old_condition_overreads : fnv_loop true fnv32_mul 1 [97] fnv32_basis = Crash.
Proof. vm_compute. reflexivity. Qed.
Example fnv_old_condition_stops_at_nul :
  fnv_loop true fnv32_mul 3 [97; 0; 98; 7] fnv32_basis = Ok (fnv1_32 [97]) /\ fnv1_32 [97] <> fnv1_32 [97; 0; 98].
Proof. vm_compute. split; [reflexivity | discriminate]. Qed.
