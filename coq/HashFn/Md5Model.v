(* Executable model of src/internal/md5/md5c.c (MD5Init / MD5Update / MD5Pad / MD5Final / MD5Transform) and of the
   wrappers qhashmd5 and qhashmd5_file (src/utilities/qhash.c).
   MD5Transform is driven by the step list Gen.md5_steps (one record per FF/GG/HH/II line of the source, regenerated on
   every run).  Input pointers are buffer suffixes: copying or transforming n bytes from a pointer with fewer than n
   bytes left is Crash.  Encode/Decode are memcpy on the modelled little-endian target: a word is the little-endian
   value of its four bytes.  The context keeps what the C struct keeps: four state words, the bit count in two 32-bit
   words, and the whole 64-byte buffer (stale bytes included). *)
From Coq Require Import NArith List Bool.
From QV.Base Require Import Res Word.
From QV.Gen Require Import HashConst.
Import ListNotations.
Local Open Scope N_scope.

Definition st4 := (N * N * N * N)%type.
Record md5ctx := mkctx { state : st4; count0 : N; count1 : N; buffer : list N }.

(* F, G, H, I as in the #defines (x, y, z are u_int32_t, ~ is 32-bit complement) *)
Definition mF x y z := N.lor (N.land x y) (N.land (not32 x) z).
Definition mG x y z := N.lor (N.land x z) (N.land y (not32 z)).
Definition mH x y z := N.lxor (N.lxor x y) z.
Definition mI x y z := N.lxor y (N.lor x (not32 z)).
Definition round_fn (r : N) : N -> N -> N -> N := match r with 0 => mF | 1 => mG | 2 => mH | _ => mI end.

Definition getr (r : st4) (i : N) : N := let '(a, b, c, d) := r in match i with 0 => a | 1 => b | 2 => c | _ => d end.
Definition setr (r : st4) (i : N) (v : N) : st4 :=
  let '(a, b, c, d) := r in match i with 0 => (v, b, c, d) | 1 => (a, v, c, d) | 2 => (a, b, v, d) | _ => (a, b, c, v) end.

(* FF(a, b, c, d, x, s, ac): (a) += F((b),(c),(d)) + (x) + (u_int32_t)(ac); (a) = ROTATE_LEFT((a),(s)); (a) += (b); *)
Definition md5_step (x : list N) (r : st4) (s : md5step) : st4 :=
  let a := getr r (s_ra s) in let b := getr r (s_rb s) in let c := getr r (s_rc s) in let d := getr r (s_rd s) in
  let a := add32 a (add32 (add32 (round_fn (s_round s) b c d) (nth (N.to_nat (s_k s)) x 0)) (s_ac s)) in
  let a := rot32 a (s_shift s) (32 - s_shift s) in
  let a := add32 a b in
  setr r (s_ra s) a.

(* Decode(x, block, 64) *)
Fixpoint decode (blk : list N) : list N :=
  match blk with b0 :: b1 :: b2 :: b3 :: r => le_join [b0; b1; b2; b3] :: decode r | _ => [] end.
(* Encode(out, words, 4 * n) *)
Definition encode (ws : list N) : list N := flat_map (le_bytes 4) ws.

Definition MD5Transform (st : st4) (block : list N) : st4 :=
  let x := decode block in
  let '(a, b, c, d) := fold_left (md5_step x) md5_steps st in
  let '(s0, s1, s2, s3) := st in
  (add32 s0 a, add32 s1 b, add32 s2 c, add32 s3 d).

(* MD5Init leaves context->buffer as it was: `garbage` is whatever the 64 bytes held *)
Definition MD5Init (garbage : list N) : md5ctx :=
  mkctx (nth 0 md5_init_state 0, nth 1 md5_init_state 0, nth 2 md5_init_state 0, nth 3 md5_init_state 0) 0 0 garbage.

(* memcpy(&buf[off], src, |src|) *)
Definition poke (buf : list N) (off : nat) (src : list N) : list N := firstn off buf ++ src ++ skipn (off + length src) buf.

(* for (i = partLen; i + 63 < inputLen; i += 64) MD5Transform(state, &input[i]);   i is an unsigned int, q = &input[i] *)
Fixpoint upd_loop (fuel : nat) (len i : N) (q : list N) (st : st4) : res (N * list N * st4) :=
  match fuel with
  | O => Fuel
  | S f => if w32 (i + md5_loop_lim) <? len
           then match take 64 q with None => Crash | Some (blk, q') => upd_loop f len (w32 (i + md5_loop_inc)) q' (MD5Transform st blk) end
           else Ok (i, q, st)
  end.

Definition md5_index (c : md5ctx) : N := N.land (N.shiftr (count0 c) md5_cnt_shift) md5_idx_mask.

(* MD5Update(context, input, inputLen), inputLen an unsigned int (the caller passes a value below 2^32) *)
Definition MD5Update (c : md5ctx) (input : list N) (len : N) : res md5ctx :=
  let idx := md5_index c in
  let l3 := shl32 len md5_cnt_shift in
  let c0 := add32 (count0 c) l3 in
  let c1 := if c0 <? l3 then add32 (count1 c) 1 else count1 c in
  let c1 := add32 c1 (N.shiftr len md5_hi_shift) in
  let partLen := md5_block - idx in
  if partLen <=? len then
    match take (N.to_nat partLen) input with
    | None => Crash
    | Some (chunk, q) =>
        let buf1 := poke (buffer c) (N.to_nat idx) chunk in
        let st1 := MD5Transform (state c) buf1 in
        bind (upd_loop (S (N.to_nat (len / 64))) len partLen q st1) (fun r =>
          let '(i, q', st2) := r in
          match take (N.to_nat (len - i)) q' with
          | None => Crash
          | Some (rest, _) => Ok (mkctx st2 c0 c1 (poke buf1 0 rest))
          end)
    end
  else
    match take (N.to_nat len) input with
    | None => Crash
    | Some (chunk, _) => Ok (mkctx (state c) c0 c1 (poke (buffer c) (N.to_nat idx) chunk))
    end.

Definition MD5Pad (c : md5ctx) : res md5ctx :=
  let bits := encode [count0 c; count1 c] in
  let idx := md5_index c in
  let padLen := if idx <? md5_pad_lt then md5_pad_short - idx else md5_pad_long - idx in
  bind (MD5Update c md5_padding padLen) (fun c1 => MD5Update c1 bits 8).

Definition MD5Final (c : md5ctx) : res (list N) :=
  bind (MD5Pad c) (fun c' => let '(a, b, c2, d) := state c' in Ok (encode [a; b; c2; d])).

(* qhashmd5(data, nbytes, retbuf): MD5Update(&context, data, (unsigned int) nbytes) *)
Definition qhashmd5 (garbage : list N) (data : list N) (nbytes : N) : res (list N) :=
  bind (MD5Update (MD5Init garbage) data (w32 nbytes)) MD5Final.

(* qhashmd5_file on a regular file with contents `file`: read(fd, buf, n) delivers min(n, bytes left) bytes.
   None = the function returns false. *)
Fixpoint file_loop (fuel : nat) (c : md5ctx) (pos : list N) (toread : N) : res (option md5ctx) :=
  match fuel with
  | O => Fuel
  | S f =>
    if 0 <? toread then
      let req := if md5_file_bufsize <? toread then md5_file_bufsize else toread in
      let buf := firstn (N.to_nat req) pos in            (* what read() put into buf *)
      let nread := N.of_nat (length buf) in
      bind (MD5Update c buf (w32 nread)) (fun c' => file_loop f c' (skipn (N.to_nat req) pos) (toread - nread))
    else Ok (Some c)
  end.
Definition qhashmd5_file (garbage : list N) (file : list N) (offset nbytes : N) : res (option (list N)) :=
  let size := N.of_nat (length file) in
  if size <? offset + nbytes then Ok None else
  let nbytes := if nbytes =? 0 then size - offset else nbytes in
  let pos := skipn (N.to_nat offset) file in
  bind (file_loop (S (S (N.to_nat (nbytes / md5_file_bufsize)))) (MD5Init garbage) pos nbytes) (fun oc =>
    match oc with None => Ok None | Some c => bind (MD5Final c) (fun d => Ok (Some d)) end).

(* any sequence of MD5Update calls, each on its own buffer (data, what follows the data), then MD5Final *)
Fixpoint md5_updates (c : md5ctx) (chunks : list (list N * list N)) : res md5ctx :=
  match chunks with
  | [] => Ok c
  | (data, junk) :: r => bind (MD5Update c (data ++ junk) (N.of_nat (length data))) (fun c' => md5_updates c' r)
  end.
Definition md5_stream (garbage : list N) (chunks : list (list N * list N)) : res (list N) :=
  bind (md5_updates (MD5Init garbage) chunks) MD5Final.
