(* Block-buffered streaming (MD5Init / MD5Update / MD5Final of md5c.c) equals one-shot block processing of the padded
   message, for every message and every way of cutting it into Update calls.  Generic in the byte type, the chaining
   state, the compression function and the block size (kept abstract: a literal 64 makes Nat.mod unfold badly).
   Md5Proofs.v instantiates it and shows that the index-level model of md5c.c refines `update` / `final`. *)
From Coq Require Import List Arith Lia.
Import ListNotations.

Section Stream.
Variable byte : Type.
Variable St : Type.
Variable compress : St -> list byte -> St.       (* MD5Transform on one 64-byte block *)
Variable B : nat.                                  (* block size: 64 for MD5 *)
Hypothesis Bpos : 0 < B.

(* one-shot: fold compress over the full blocks of a message, return state and unprocessed tail *)
Fixpoint blocks (fuel:nat) (st:St) (l:list byte) : St * list byte :=
  match fuel with
  | O => (st, l)
  | S f => if Nat.leb B (length l) then blocks f (compress st (firstn B l)) (skipn B l) else (st, l)
  end.
Definition run_blocks st l := blocks (length l) st l.

(* the context of md5c.c, with the buffer reduced to its meaningful prefix *)
Record ctx := { cst : St; cnt : nat; pend : list byte }.   (* cnt = bytes seen; length pend = cnt mod 64 *)

(* MD5Update as written: fill the buffer, transform it, transform whole blocks straight from the input, keep the rest *)
Definition update (c:ctx) (inp:list byte) : ctx :=
  let idx := length (pend c) in
  let partLen := B - idx in
  if Nat.leb partLen (length inp) then
    let st1 := compress (cst c) (pend c ++ firstn partLen inp) in
    let (st2, rest) := run_blocks st1 (skipn partLen inp) in
    {| cst := st2; cnt := cnt c + length inp; pend := rest |}
  else {| cst := cst c; cnt := cnt c + length inp; pend := pend c ++ inp |}.

Definition wfc (c:ctx) := length (pend c) < B.

Lemma blocks_fuel : forall f f' st l, length l <= f -> length l <= f' -> blocks f st l = blocks f' st l.
Proof. assert (Hnil: forall f st, blocks f st [] = (st, [])).
  { intros [|f] st; [reflexivity|]. cbn [blocks]. assert (Nat.leb B (length (@nil byte)) = false) by (apply Nat.leb_gt; cbn; lia). rewrite H. reflexivity. }
  induction f as [|f IH]; intros f' st l H H'.
  - destruct l; [|cbn in H; lia]. rewrite !Hnil. reflexivity.
  - destruct f' as [|f'].
    + destruct l; [|cbn in H'; lia]. rewrite !Hnil. reflexivity.
    + cbn [blocks]. destruct (Nat.leb B (length l)) eqn:E; [|reflexivity]. apply Nat.leb_le in E.
      apply IH; rewrite skipn_length; lia. Qed.

Lemma run_blocks_step st l : B <= length l -> run_blocks st l = run_blocks (compress st (firstn B l)) (skipn B l).
Proof. intros H. unfold run_blocks. assert (Hl: length l = S (length l - 1)) by (lia). rewrite Hl at 1. cbn [blocks].
  assert (Nat.leb B (length l) = true) by (apply Nat.leb_le; exact H). rewrite H0.
  apply blocks_fuel; rewrite skipn_length; lia. Qed.
Lemma run_blocks_short st l : length l < B -> run_blocks st l = (st, l).
Proof. intros H. unfold run_blocks. destruct l as [|b l']; [reflexivity|]. cbn [length blocks].
  assert (Nat.leb B (S (length l')) = false) by (apply Nat.leb_gt; exact H). cbn [length] in *. rewrite H0. reflexivity. Qed.
Lemma run_blocks_tail st l : length (snd (run_blocks st l)) < B.
Proof. unfold run_blocks. remember (length l) as f eqn:Ef. assert (length l <= f) by lia. clear Ef. revert st l H.
  induction f as [|f IH]; intros st l H; cbn [blocks snd].
  - destruct l; [cbn; lia|cbn in H; lia].
  - destruct (Nat.leb B (length l)) eqn:E; [apply IH; rewrite skipn_length; apply Nat.leb_le in E; lia | apply Nat.leb_gt in E; exact E]. Qed.

(* processing a ++ b in one go = processing a, then (tail of a) ++ b *)
Lemma run_blocks_app st a b : run_blocks st (a ++ b) = let (st1, r) := run_blocks st a in run_blocks st1 (r ++ b).
Proof. remember (length a) as n eqn:En. revert st a En. induction n as [n IH] using lt_wf_ind. intros st a En.
  destruct (Nat.lt_ge_cases (length a) B) as [Hlt|Hge].
  - rewrite (run_blocks_short st a Hlt). reflexivity.
  - rewrite (run_blocks_step st a Hge). rewrite run_blocks_step by (rewrite app_length; lia).
    rewrite firstn_app, skipn_app. replace (B - length a) with 0 by lia. cbn [firstn skipn]. rewrite app_nil_r.
    apply (IH (length (skipn B a))); [rewrite skipn_length; lia | reflexivity]. Qed.

(* what a context stands for: the state after all full blocks of the bytes seen, plus the pending tail *)
Definition repr (st0:St) (msg:list byte) (c:ctx) : Prop :=
  run_blocks st0 msg = (cst c, pend c) /\ cnt c = length msg.

Lemma update_repr st0 msg c inp : repr st0 msg c -> repr st0 (msg ++ inp) (update c inp).
Proof. intros [Hr Hc]. pose proof (run_blocks_tail st0 msg) as Ht. rewrite Hr in Ht. cbn in Ht.
  unfold repr. rewrite run_blocks_app, Hr. unfold update.
  destruct (Nat.leb (B - length (pend c)) (length inp)) eqn:E.
  - apply Nat.leb_le in E. rewrite run_blocks_step by (rewrite app_length; lia).
    rewrite firstn_app, skipn_app. replace (B - length (pend c)) with (B - length (pend c)) by reflexivity.
    rewrite firstn_all2 by lia. rewrite skipn_all2 by lia. cbn [app].
    destruct (run_blocks (compress (cst c) (pend c ++ firstn (B - length (pend c)) inp)) (skipn (B - length (pend c)) inp)) as [st2 rest] eqn:E2.
    cbn. split; [reflexivity|]. rewrite app_length. lia.
  - apply Nat.leb_gt in E. rewrite run_blocks_short by (rewrite app_length; lia). cbn. split; [reflexivity|]. rewrite app_length. lia. Qed.

(* any chunking of the message *)
Theorem updates_repr st0 chunks : repr st0 (concat chunks) (fold_left update chunks {| cst := st0; cnt := 0; pend := [] |}).
Proof.
  assert (G: forall chunks msg c, repr st0 msg c -> repr st0 (msg ++ concat chunks) (fold_left update chunks c)).
  { induction chunks0 as [|a r IH]; intros msg c R; cbn [concat fold_left]; [rewrite app_nil_r; exact R|].
    rewrite app_assoc. apply IH. apply update_repr. exact R. }
  apply (G chunks [] _). split; reflexivity. Qed.

Lemma run_blocks_len st l : length (snd (run_blocks st l)) = length l mod B.
Proof. remember (length l) as n eqn:En. revert st l En. induction n as [n IH] using lt_wf_ind. intros st l En.
  destruct (Nat.lt_ge_cases (length l) B) as [Hlt|Hge].
  - rewrite (run_blocks_short st l Hlt). cbn. rewrite En. symmetry. apply Nat.mod_small. exact Hlt.
  - rewrite (run_blocks_step st l Hge). rewrite (IH (length (skipn B l))); [|rewrite skipn_length; lia|reflexivity].
    rewrite skipn_length, En. replace (length l) with ((length l - B) + 1 * B) at 2 by lia. rewrite Nat.mod_add by (lia). reflexivity. Qed.

(* ---- MD5Pad / MD5Final ---- *)
Variable x80 zero : byte.
Variable lenbytes : nat -> list byte.           (* Encode(bits, count, 8): the bit count, little endian, 8 bytes *)
Hypothesis lenbytes_len : forall n, length (lenbytes n) = 8.
Variable encode : St -> list byte.              (* Encode(digest, state, 16) *)

Definition padlen (idx:nat) := if Nat.ltb idx (B - 8) then B - 8 - idx else 2 * B - 8 - idx.
Definition padding (n:nat) : list byte := x80 :: repeat zero (padlen (n mod B) - 1).
(* RFC 1321: message, then 0x80 and zeros up to 56 mod 64, then the 64-bit length *)
Definition md5_spec (st0:St) (msg:list byte) : list byte :=
  encode (fst (run_blocks st0 (msg ++ padding (length msg) ++ lenbytes (length msg)))).
(* md5c.c: MD5Final = Update(PADDING, padLen); Update(bits, 8); Encode(state) *)
Definition final (c:ctx) : list byte :=
  let bits := lenbytes (cnt c) in
  let c1 := update c (x80 :: repeat zero (padlen (length (pend c)) - 1)) in
  let c2 := update c1 bits in
  encode (cst c2).

(* a context that represents msg finalises to the digest of msg *)
Lemma final_repr st0 msg c : repr st0 msg c -> final c = md5_spec st0 msg.
Proof. intros R0. destruct R0 as [Hr Hc]. unfold final, md5_spec.
  assert (Hp: length (pend c) = length msg mod B) by (rewrite <- (run_blocks_len st0 msg), Hr; reflexivity).
  assert (R0: repr st0 msg c) by (split; auto).
  pose proof (update_repr st0 msg c (x80 :: repeat zero (padlen (length (pend c)) - 1)) R0) as R1.
  pose proof (update_repr st0 _ _ (lenbytes (cnt c)) R1) as R2. destruct R2 as [Hr2 _].
  rewrite <- app_assoc in Hr2. unfold padding. rewrite <- Hp, <- Hc. rewrite Hr2. reflexivity. Qed.
Lemma repr_init st0 : repr st0 [] {| cst := st0; cnt := 0; pend := [] |}.
Proof. split; reflexivity. Qed.

Theorem stream_eq_spec st0 chunks :
  final (fold_left update chunks {| cst := st0; cnt := 0; pend := [] |}) = md5_spec st0 (concat chunks).
Proof.
  pose proof (updates_repr st0 chunks) as R. set (c := fold_left update chunks _) in *. set (msg := concat chunks) in *.
  destruct R as [Hr Hc]. unfold final, md5_spec.
  assert (Hp: length (pend c) = length msg mod B) by (rewrite <- (run_blocks_len st0 msg), Hr; reflexivity).
  assert (R0: repr st0 msg c) by (split; auto).
  pose proof (update_repr st0 msg c (x80 :: repeat zero (padlen (length (pend c)) - 1)) R0) as R1.
  pose proof (update_repr st0 _ _ (lenbytes (cnt c)) R1) as R2. destruct R2 as [Hr2 _].
  rewrite <- app_assoc in Hr2. unfold padding. rewrite <- Hp, <- Hc. rewrite Hr2. reflexivity. Qed.
End Stream.
Arguments cst {byte St}. Arguments cnt {byte St}. Arguments pend {byte St}.

