(* MurmurHash3 (Austin Appleby, public domain; smhasher/src/MurmurHash3.cpp) x86_32 and x64_128 as published, with a seed.
   The key is cut into little-endian words (a word is the sum of b_i * 256^i of its bytes); the remaining 1..3 / 1..15
   tail bytes are treated as a word padded with zero bytes.  Constants are the published ones, written here literally. *)
From Coq Require Import NArith List.
From QV.Base Require Import Word.
Import ListNotations.
Local Open Scope N_scope.

(* ---------------- x86_32 ---------------- *)
Definition scramble32 (k : N) : N := mul32 (rotl32 (mul32 k 0xcc9e2d51) 15) 0x1b873593.
Fixpoint body32 (h : N) (key : list N) : N * list N :=
  match key with
  | b0 :: b1 :: b2 :: b3 :: r =>
      let h := N.lxor h (scramble32 (le_join [b0; b1; b2; b3])) in
      let h := rotl32 h 13 in
      body32 (add32 (mul32 h 5) 0xe6546b64) r
  | tail => (h, tail)
  end.
Definition fmix32 (h : N) : N :=
  let h := N.lxor h (N.shiftr h 16) in let h := mul32 h 0x85ebca6b in
  let h := N.lxor h (N.shiftr h 13) in let h := mul32 h 0xc2b2ae35 in
  N.lxor h (N.shiftr h 16).
Definition murmur3_x86_32 (seed : N) (key : list N) : N :=
  let (h, tail) := body32 seed key in
  let h := match tail with [] => h | _ => N.lxor h (scramble32 (le_join tail)) end in
  fmix32 (N.lxor h (N.of_nat (length key) mod 2 ^ 32)).

(* ---------------- x64_128 ---------------- *)
Definition C1 : N := 0x87c37b91114253d5.
Definition C2 : N := 0x4cf5ad432745937f.
Definition scramble_k1 (k : N) : N := mul64 (rotl64 (mul64 k C1) 31) C2.
Definition scramble_k2 (k : N) : N := mul64 (rotl64 (mul64 k C2) 33) C1.
Definition block128 (h : N * N) (k1 k2 : N) : N * N :=
  let (h1, h2) := h in
  let h1 := N.lxor h1 (scramble_k1 k1) in
  let h1 := add64 (rotl64 h1 27) h2 in
  let h1 := add64 (mul64 h1 5) 0x52dce729 in
  let h2 := N.lxor h2 (scramble_k2 k2) in
  let h2 := add64 (rotl64 h2 31) h1 in
  let h2 := add64 (mul64 h2 5) 0x38495ab5 in
  (h1, h2).
Fixpoint body128 (h : N * N) (key : list N) : N * N * list N :=
  match key with
  | a0 :: a1 :: a2 :: a3 :: a4 :: a5 :: a6 :: a7 :: b0 :: b1 :: b2 :: b3 :: b4 :: b5 :: b6 :: b7 :: r =>
      body128 (block128 h (le_join [a0; a1; a2; a3; a4; a5; a6; a7]) (le_join [b0; b1; b2; b3; b4; b5; b6; b7])) r
  | tail => (h, tail)
  end.
Definition fmix64 (k : N) : N :=
  let k := N.lxor k (N.shiftr k 33) in let k := mul64 k 0xff51afd7ed558ccd in
  let k := N.lxor k (N.shiftr k 33) in let k := mul64 k 0xc4ceb9fe1a85ec53 in
  N.lxor k (N.shiftr k 33).
(* the two 64-bit halves (h1, h2) of the result *)
Definition murmur3_x64_128_words (seed : N) (key : list N) : N * N :=
  let '(h1, h2, tail) := body128 (seed, seed) key in
  let h2 := if Nat.ltb 8 (length tail) then N.lxor h2 (scramble_k2 (le_join (skipn 8 tail))) else h2 in
  let h1 := match tail with [] => h1 | _ => N.lxor h1 (scramble_k1 (le_join (firstn 8 tail))) end in
  let len := N.of_nat (length key) mod 2 ^ 64 in
  let h1 := N.lxor h1 len in
  let h2 := N.lxor h2 len in
  let h1 := add64 h1 h2 in
  let h2 := add64 h2 h1 in
  let h1 := fmix64 h1 in
  let h2 := fmix64 h2 in
  let h1 := add64 h1 h2 in
  let h2 := add64 h2 h1 in
  (h1, h2).
(* the 16 output bytes: ((uint64_t * )out)[0] = h1, [1] = h2 on a little-endian machine *)
Definition murmur3_x64_128 (seed : N) (key : list N) : list N :=
  let (h1, h2) := murmur3_x64_128_words seed key in le_bytes 8 h1 ++ le_bytes 8 h2.

(* ---------------- validation of these definitions ---------------- *)
(* widely published x86_32 vectors *)
Example m32_empty0 : murmur3_x86_32 0 [] = 0. Proof. vm_compute. reflexivity. Qed.
Example m32_empty1 : murmur3_x86_32 1 [] = 0x514e28b7. Proof. vm_compute. reflexivity. Qed.
Example m32_emptyf : murmur3_x86_32 0xffffffff [] = 0x81f16f39. Proof. vm_compute. reflexivity. Qed.
Example m32_ffff : murmur3_x86_32 0 [255; 255; 255; 255] = 0x76293b50. Proof. vm_compute. reflexivity. Qed.
Example m32_21436587 : murmur3_x86_32 0 [0x21; 0x43; 0x65; 0x87] = 0xf55b516b. Proof. vm_compute. reflexivity. Qed.
Example m32_21436587s : murmur3_x86_32 0x5082edee [0x21; 0x43; 0x65; 0x87] = 0x2362f9de. Proof. vm_compute. reflexivity. Qed.
Example m32_214365 : murmur3_x86_32 0 [0x21; 0x43; 0x65] = 0x7e4a8634. Proof. vm_compute. reflexivity. Qed.
Example m32_2143 : murmur3_x86_32 0 [0x21; 0x43] = 0xa0f7b07a. Proof. vm_compute. reflexivity. Qed.
Example m32_21 : murmur3_x86_32 0 [0x21] = 0x72661cf4. Proof. vm_compute. reflexivity. Qed.
Example m32_0000 : murmur3_x86_32 0 [0; 0; 0; 0] = 0x2362f9de. Proof. vm_compute. reflexivity. Qed.
Example m32_000 : murmur3_x86_32 0 [0; 0; 0] = 0x85f0b427. Proof. vm_compute. reflexivity. Qed.
Example m32_00 : murmur3_x86_32 0 [0; 0] = 0x30f4c306. Proof. vm_compute. reflexivity. Qed.
Example m32_0 : murmur3_x86_32 0 [0] = 0x514e28b7. Proof. vm_compute. reflexivity. Qed.
(* "hello" and "The quick brown fox jumps over the lazy dog", seed 0 *)
Definition s_hello : list N := [104; 101; 108; 108; 111].
Definition s_fox : list N := [84;104;101;32;113;117;105;99;107;32;98;114;111;119;110;32;102;111;120;32;106;117;109;112;115;32;111;118;101;114;32;116;104;101;32;108;97;122;121;32;100;111;103].
Example m32_hello : murmur3_x86_32 0 s_hello = 0x248bfa47. Proof. vm_compute. reflexivity. Qed.
Example m32_fox : murmur3_x86_32 0 s_fox = 0x2e4ff723. Proof. vm_compute. reflexivity. Qed.
Example m128_hello : murmur3_x64_128_words 0 s_hello = (0xcbd8a7b341bd9b02, 0x5b1e906a48ae1d19). Proof. vm_compute. reflexivity. Qed.
Example m128_fox : murmur3_x64_128_words 0 s_fox = (0xe34bbc7bbc071b6c, 0x7a433ca9c49a9347). Proof. vm_compute. reflexivity. Qed.

(* SMHasher's VerificationTest (KeysetTest.cpp): hash the keys {0}, {0,1}, {0,1,2}, ... of length 0..255 with seed 256 - length,
   concatenate the 256 results, hash that with seed 0 and read the first four bytes as a little-endian number.
   Published values (smhasher main.cpp): MurmurHash3_x86_32 0xB0F57EE3, MurmurHash3_x64_128 0x6384BA69. *)
Definition smhasher_verify (hash : N -> list N -> list N) : N :=
  let keys := map (fun i => map N.of_nat (seq 0 i)) (seq 0 256) in
  let hashes := flat_map (fun k => hash (256 - N.of_nat (length k)) k) keys in
  le_join (firstn 4 (hash 0 hashes)).
Example smhasher_x86_32 : smhasher_verify (fun seed k => le_bytes 4 (murmur3_x86_32 seed k)) = 0xB0F57EE3.
Proof. vm_compute. reflexivity. Qed.
Example smhasher_x64_128 : smhasher_verify murmur3_x64_128 = 0x6384BA69.
Proof. vm_compute. reflexivity. Qed.
