/* C19 harness: string utilities of qstring.c, one op per line, one observation per line.
   Every string argument lives in a buffer of exactly strlen+1 bytes that ends at an inaccessible page, every
   destination buffer has exactly the size the contract states and ends at an inaccessible page too, so a write (or
   read) beyond the buffer faults and is printed as CRASH.  The in-place routines are run a second time with the buffer
   at the START of the accessible area (an inaccessible page right before it), so an access before the first byte
   faults as well; both runs must give the same bytes.  malloc is wrapped (link with --wrap=malloc,free): while an op
   is running, blocks come from guard pages with their exact size, and the first requested size is reported. */
#include "common.h"
#include "qlibc.h"

static char line[1 << 20];
static unsigned char t1[1 << 18], t2[1 << 18], t3[1 << 18], t4[1 << 18];
static char a[6][1 << 18];

/* ---- guarded malloc ---- */
void *__real_malloc(size_t); void __real_free(void *);
static int gm_on = 0; static size_t gm_first = 0; static int gm_cnt = 0;
#define GM_MAX 64
static guard_t gm_tab[GM_MAX]; static int gm_used[GM_MAX];
void *__wrap_malloc(size_t n) {
    if (!gm_on) return __real_malloc(n);
    if (gm_cnt++ == 0) gm_first = n;
    for (int i = 0; i < GM_MAX; i++) if (!gm_used[i]) { gm_tab[i] = guard_alloc(n, 0); gm_used[i] = 1; return gm_tab[i].p; }
    return NULL;
}
void __wrap_free(void *p) {
    if (p == NULL) return;
    for (int i = 0; i < GM_MAX; i++) if (gm_used[i] && gm_tab[i].p == p) { guard_free(gm_tab[i]); gm_used[i] = 0; return; }
    __real_free(p);
}
static void gm_start(void) { gm_on = 1; gm_first = 0; gm_cnt = 0; }
static void gm_stop(void) { gm_on = 0; }
static void gm_cleanup(void) { gm_on = 0; for (int i = 0; i < GM_MAX; i++) if (gm_used[i]) { guard_free(gm_tab[i]); gm_used[i] = 0; } }

/* a NUL-terminated copy of n bytes in an exact-size guarded buffer */
static guard_t gstr(const unsigned char *s, size_t n, int lo) {
    guard_t g = guard_alloc(n + 1, lo); memcpy(g.p, s, n); g.p[n] = 0; return g;
}
static const char *why(void) { return qv_sig == SIGALRM ? "TIMEOUT" : "CRASH"; }

typedef char *(*inplace_fn)(char *);
/* returns 0 ok (out filled with n+1 bytes), 1 crash/timeout, 2 bad return value */
static int run_inplace(inplace_fn f, const unsigned char *s, size_t n, int lo, unsigned char *out) {
    guard_t g = gstr(s, n, lo); int rc = 0;
    if (QV_TRY(5)) { char *r = f((char *)g.p); QV_END; if (r != (char *)g.p) rc = 2; memcpy(out, g.p, n + 1); }
    else rc = 1;
    guard_free(g); return rc;
}
static unsigned char uc_head, uc_tail; static int uc_null;
static char *unchar_wrap(char *s) { char *r = qstrunchar(s, (char)uc_head, (char)uc_tail); uc_null = (r == NULL); return r ? r : s; }

int main(void) {
    qv_install();
    { struct sigaction sa; memset(&sa, 0, sizeof sa); sa.sa_handler = qv_segv; sa.sa_flags = SA_NODEFER; sigaction(SIGFPE, &sa, NULL); }  /* x / strlen("") */
    while (fgets(line, sizeof line, stdin)) {
        if (line[0] == '#' || line[0] == '\n') continue;
        char op[32]; for (int i = 0; i < 6; i++) a[i][0] = 0;
        sscanf(line, "%31s %s %s %s %s %s %s", op, a[0], a[1], a[2], a[3], a[4], a[5]);
        inplace_fn f = NULL;
        if (!strcmp(op, "trim")) f = qstrtrim; else if (!strcmp(op, "trimh")) f = qstrtrim_head;
        else if (!strcmp(op, "trimt")) f = qstrtrim_tail; else if (!strcmp(op, "rev")) f = qstrrev;
        else if (!strcmp(op, "upper")) f = qstrupper; else if (!strcmp(op, "lower")) f = qstrlower;
        else if (!strcmp(op, "unchar")) { f = unchar_wrap; uc_head = (unsigned char)atoi(a[1]); uc_tail = (unsigned char)atoi(a[2]); }
        if (f) {
            size_t n = unhex(a[0], t1);
            int rc1 = run_inplace(f, t1, n, 0, t2); int null1 = uc_null;
            int rc2 = run_inplace(f, t1, n, 1, t3); int null2 = uc_null;
            if (rc1 == 1 || rc2 == 1) printf("%s\n", why());
            else if (rc1 == 2 || rc2 == 2) printf("BADRET\n");
            else if (memcmp(t2, t3, n + 1) != 0 || (f == unchar_wrap && null1 != null2)) printf("LAYOUTDIFF\n");
            else { if (f == unchar_wrap) printf(null1 ? "NULL " : "OK "); puthex(stdout, t2, n + 1); printf("\n"); }
        } else if (!strcmp(op, "repl")) {
            /* repl <mode> <src> <tok> <word> <cap>: srcstr is a buffer of cap bytes (string, NUL, 0xAA fill) */
            size_t nm = unhex(a[0], t1), ns = unhex(a[1], t2), nt = unhex(a[2], t3), nw = unhex(a[3], t4);
            size_t cap = (size_t)atol(a[4]); if (cap < ns + 1) cap = ns + 1;
            guard_t gm = gstr(t1, nm, 0), gt = gstr(t3, nt, 0), gw = gstr(t4, nw, 0);
            guard_t gs = guard_alloc(cap, 0); memset(gs.p, 0xAA, cap); memcpy(gs.p, t2, ns); gs.p[ns] = 0;
            if (QV_TRY(2)) {
                gm_start();
                char *r = qstrreplace((char *)gm.p, (char *)gs.p, (char *)gt.p, (char *)gw.p);
                gm_stop(); QV_END;
                printf("R ");
                /* the documented memory modes: "?n" hands out a fresh malloc()ed string the caller frees (never the source), "?r" the source */
                const char *md = (const char *)gm.p;
                int okmode = (md[0] == 's' || md[0] == 't') && (md[1] == 'n' || md[1] == 'r') && md[2] == 0;
                if (r == NULL) printf("NULL");
                else if (okmode && md[1] == 'n' && r == (char *)gs.p) printf("BADRET-source-returned-in-new-buffer-mode");
                else if (okmode && md[1] == 'r' && r != (char *)gs.p) printf("BADRET-not-the-source-in-replace-mode");
                else puthex(stdout, r, strlen(r));
                printf(" B "); puthex(stdout, gs.p, cap); printf(" M %zu\n", gm_first);
                if (r != NULL && r != (char *)gs.p) free(r);
            } else { gm_stop(); printf("%s\n", why()); }
            gm_cleanup();
            guard_free(gm); guard_free(gt); guard_free(gw); guard_free(gs);
        } else if (!strcmp(op, "cpy") || !strcmp(op, "ncpy")) {
            /* cpy <size> <src> ; ncpy <size> <src> <nbytes>: dst has exactly size bytes */
            size_t size = (size_t)atol(a[0]); size_t ns = unhex(a[1], t1); size_t nb = (size_t)atol(a[2]);
            guard_t gs = gstr(t1, ns, 0); guard_t gd = guard_alloc(size, 0); memset(gd.p, 0xAA, size);
            if (QV_TRY(5)) {
                char *r = op[0] == 'c' ? qstrcpy((char *)gd.p, size, (char *)gs.p) : qstrncpy((char *)gd.p, size, (char *)gs.p, nb);
                QV_END;
                if (r != (char *)gd.p) printf("BADRET\n"); else { puthex(stdout, gd.p, size); printf("\n"); }
            } else printf("%s\n", why());
            guard_free(gs); guard_free(gd);
        } else if (!strcmp(op, "cpyov")) {
            /* cpyov <delta> <size> <src>: qstrcpy(dst, size, src) with src and dst inside ONE buffer, dst = src - delta (the documented
               "overlap between src and dst is allowed": shifting a string left or right in place).  Prints the string found at dst. */
            long delta = atol(a[0]); size_t size = (size_t)atol(a[1]); size_t ns = unhex(a[2], t1);
            size_t ad = delta < 0 ? (size_t)-delta : (size_t)delta, span = (ns + 1 > size ? ns + 1 : size);
            guard_t g = guard_alloc(ad + span + 2, 0); memset(g.p, 0xAA, ad + span + 2);
            unsigned char *lo = g.p + 1, *hi = g.p + 1 + ad;
            unsigned char *src = delta >= 0 ? hi : lo, *dst = delta >= 0 ? lo : hi;
            memcpy(src, t1, ns); src[ns] = 0;
            if (QV_TRY(5)) {
                char *r = qstrcpy((char *)dst, size, (char *)src);
                QV_END;
                if (r != (char *)dst) printf("BADRET\n");
                else if (!memchr(dst, 0, size)) printf("UNTERMINATED\n");
                else { puthex(stdout, dst, strlen((char *)dst)); printf("\n"); }
            } else printf("%s\n", why());
            guard_free(g);
        } else if (!strcmp(op, "between")) {
            size_t ns = unhex(a[0], t1), n1 = unhex(a[1], t2), n2 = unhex(a[2], t3);
            guard_t gs = gstr(t1, ns, 0), g1 = gstr(t2, n1, 0), g2 = gstr(t3, n2, 0);
            if (QV_TRY(5)) {
                gm_start(); char *r = qstrdup_between((char *)gs.p, (char *)g1.p, (char *)g2.p); gm_stop(); QV_END;
                if (r == NULL) printf("NULL\n"); else { puthex(stdout, r, strlen(r)); printf("\n"); free(r); }
            } else { gm_stop(); printf("%s\n", why()); }
            gm_cleanup(); guard_free(gs); guard_free(g1); guard_free(g2);
        } else if (!strcmp(op, "memdup")) {
            /* memdup <data> <size>: data is a buffer of exactly its own length */
            size_t nd = unhex(a[0], t1); size_t size = (size_t)atol(a[1]);
            guard_t gd = guard_alloc(nd, 0); memcpy(gd.p, t1, nd);
            if (QV_TRY(5)) {
                gm_start(); void *r = qmemdup(gd.p, size); gm_stop(); QV_END;
                if (r == NULL) printf("NULL\n"); else { puthex(stdout, r, size); printf("\n"); free(r); }
            } else { gm_stop(); printf("%s\n", why()); }
            gm_cleanup(); guard_free(gd);
        } else if (!strcmp(op, "gets")) {
            /* gets <size> <src> <off>: buf has exactly size bytes */
            size_t size = (size_t)atol(a[0]); size_t ns = unhex(a[1], t1); long off = atol(a[2]);
            guard_t gs = gstr(t1, ns, 0); guard_t gb = guard_alloc(size, 0); memset(gb.p, 0xAA, size);
            if (QV_TRY(5)) {
                char *o = (char *)gs.p + off;
                char *r = qstrgets((char *)gb.p, size, &o); QV_END;
                if (r == NULL) printf("NULL\n");
                else if (r != (char *)gb.p) printf("BADRET\n");
                else { puthex(stdout, gb.p, size); printf(" %ld\n", (long)(o - (char *)gs.p)); }
            } else printf("%s\n", why());
            guard_free(gs); guard_free(gb);
        } else if (!strcmp(op, "tok")) {
            /* tok <str> <delims> <off> */
            size_t ns = unhex(a[0], t1), nd = unhex(a[1], t2); int off = atoi(a[2]);
            guard_t gs = gstr(t1, ns, 0), gd = gstr(t2, nd, 0);
            if (QV_TRY(5)) {
                char stop = (char)0x55;
                char *r = qstrtok((char *)gs.p, (char *)gd.p, &stop, &off); QV_END;
                if (r == NULL) printf("NULL"); else { printf("T %ld ", (long)(r - (char *)gs.p)); puthex(stdout, r, strlen(r)); }
                printf(" %d %d ", off, (int)(unsigned char)stop); puthex(stdout, gs.p, ns + 1); printf("\n");
            } else printf("%s\n", why());
            guard_free(gs); guard_free(gd);
        } else if (!strcmp(op, "tokz")) {
            size_t ns = unhex(a[0], t1), nd = unhex(a[1], t2);
            guard_t gs = gstr(t1, ns, 0), gd = gstr(t2, nd, 0);
            if (QV_TRY(5)) {
                qlist_t *l = qstrtokenizer((char *)gs.p, (char *)gd.p); QV_END;
                if (l == NULL) printf("NULL\n");
                else {
                    printf("%zu", l->size(l));
                    for (qlist_obj_t *o = l->first; o; o = o->next) { printf(" "); puthex(stdout, o->data, strlen(o->data)); }
                    printf("\n"); l->free(l);
                }
            } else printf("%s\n", why());
            guard_free(gs); guard_free(gd);
        } else if (!strcmp(op, "comma")) {
            /* comma <int>: the result block is an exact-size guard block */
            int number = (int)atol(a[0]);
            if (QV_TRY(5)) {
                gm_start(); char *r = qstr_comma_number(number); gm_stop(); QV_END;
                if (r == NULL) printf("NULL\n"); else { puthex(stdout, r, strlen(r)); printf("\n"); free(r); }
            } else { gm_stop(); printf("%s\n", why()); }
            gm_cleanup();
        } else printf("?? %s", line);

    }
    return 0;
}
