/* C20 / C17 (parser half) harness: INI-style parser qconfig.c and Apache-style parser qaconf.c.
   One op per line on stdin, one observation per line on stdout.

     env <hexname> <hexval|->                 setenv (the environment is cleared at start-up); "-" as value = empty string
     unenv <hexname>                           unsetenv
     ini  <sepchar-decimal> <hexdoc>           qconfig_parse_str(NULL, doc, sep); doc in an exactly-sized buffer before a guard page
     inif <sepchar-decimal> <hexdoc>           qconfig_parse_file(NULL, tmpfile, sep)
     ac <flags> <defhandler 0|1> <table> <hexdoc>   qaconf() + addoptions(table) [+ setdefhandler] + parse(tmpfile, flags)
         table = "-" or  name,take,hascb,sectionid,sections;...   (name in hex, numbers decimal)

   Observations:
     ini/inif:  "<n> name=value name=value ..." (hex, insertion order) | NULL | CRASH | TIMEOUT
     ac:        "<ret> <errline> <errmsg-hex> <trace>"   errline/errmsg = "- -" when no error string is set;
                trace = one "[...]" per callback invocation, see cb_trace.
   popen() is wrapped to fail, so ${!cmd} yields the empty string (external commands are outside the model). */
#include "common.h"
#include "qlibc.h"
#include "qlibcext.h"
#include <stdarg.h>
#include <limits.h>

FILE *__wrap_popen(const char *cmd, const char *mode) { (void)cmd; (void)mode; errno = ENOSYS; return NULL; }

static char *line;                 /* current op line (malloc'd by getline) */
static unsigned char *tmp;         /* decoded document */
static size_t tmpcap;
static char tmppath[PATH_MAX];

/* ---------------------------------------------------------------- trace buffer */
static char *tr; static size_t trlen, trcap;
static void tput(const char *fmt, ...) {
    va_list ap;
    for (;;) {
        va_start(ap, fmt);
        int n = vsnprintf(tr + trlen, trcap - trlen, fmt, ap);
        va_end(ap);
        if (n >= 0 && (size_t)n < trcap - trlen) { trlen += (size_t)n; return; }
        trcap = trcap * 2 + (size_t)(n > 0 ? n : 0) + 64; tr = realloc(tr, trcap);
    }
}
static void thex(const char *s) {
    size_t n = strlen(s);
    if (n == 0) { tput("-"); return; }
    for (size_t i = 0; i < n; i++) tput("%02x", (unsigned char)s[i]);
}
/* one callback invocation:
   [<via> <otype> <section> <sections> <level> <argv0>,<argv1>,... |<plevel> <pargv0>,<pargv1>,... |...]   via: O = option callback, D = default handler */
static char *trace_cb(qaconf_cbdata_t *data, const char *via) {
    tput(" [%s %d %llu %llu %u ", via, (int)data->otype, (unsigned long long)data->section, (unsigned long long)data->sections, (unsigned)data->level);
    for (int i = 0; i < data->argc; i++) { if (i) tput(","); thex(data->argv[i]); }
    for (qaconf_cbdata_t *p = data->parent; p != NULL; p = p->parent) {
        tput(" |%u ", (unsigned)p->level);
        for (int i = 0; i < p->argc; i++) { if (i) tput(","); thex(p->argv[i]); }
    }
    tput("]");
    /* the callback "fails" (returns a malloc'd message, as the API asks) when its first argument is the word !fail */
    if (data->argc >= 2 && !strcmp(data->argv[1], "!fail")) {
        char *m = malloc(strlen(data->argv[0]) + 8);
        sprintf(m, "E:%s", data->argv[0]);
        return m;
    }
    return NULL;
}
static QAC_CB(cb_opt) { (void)userdata; return trace_cb(data, "O"); }
static QAC_CB(cb_def) { (void)userdata; return trace_cb(data, "D"); }

/* ---------------------------------------------------------------- signals: like common.h but on an alternate stack,
   so that stack exhaustion by deeply nested sections is reported as CRASH instead of killing the harness */
static void install(void) {
    static char altstack[1 << 16];
    stack_t ss; ss.ss_sp = altstack; ss.ss_size = sizeof altstack; ss.ss_flags = 0; sigaltstack(&ss, NULL);
    struct sigaction sa; memset(&sa, 0, sizeof sa); sa.sa_handler = qv_segv; sa.sa_flags = SA_NODEFER | SA_ONSTACK;
    sigaction(SIGSEGV, &sa, NULL); sigaction(SIGBUS, &sa, NULL); sigaction(SIGALRM, &sa, NULL);
}

static void write_tmp(const unsigned char *p, size_t n) {
    FILE *f = fopen(tmppath, "wb");
    if (!f) { perror(tmppath); exit(3); }
    if (n) fwrite(p, 1, n, f);
    fclose(f);
}
static void print_tbl(qlisttbl_t *t) {
    if (!t) { printf("NULL\n"); return; }
    printf("%zu", t->size(t));
    for (qlisttbl_obj_t *o = t->first; o; o = o->next) {
        printf(" "); puthex(stdout, o->name, strlen(o->name)); printf("=");
        puthex(stdout, o->data, o->size ? o->size - 1 : 0);
    }
    printf("\n"); t->free(t);
}

#define MAXOPT 64
int main(void) {
    const char *td = getenv("TMPDIR");
    snprintf(tmppath, sizeof tmppath, "%s/qvconf-%ld.conf", td && *td ? td : ".", (long)getpid());
    int wd = getenv("QV_WATCHDOG") ? atoi(getenv("QV_WATCHDOG")) : 3;
    clearenv();
    install();
    trcap = 1 << 16; tr = malloc(trcap);
    size_t lcap = 0; ssize_t ll;
    while ((ll = getline(&line, &lcap, stdin)) > 0) {
        if (line[0] == '#' || line[0] == '\n') continue;
        if (line[ll - 1] == '\n') line[--ll] = 0;
        if ((size_t)ll + 16 > tmpcap) { tmpcap = (size_t)ll + 16; tmp = realloc(tmp, tmpcap); }
        char *save = NULL;
        char *op = strtok_r(line, " ", &save);
        if (!op) continue;
        if (!strcmp(op, "env") || !strcmp(op, "unenv")) {
            char *hn = strtok_r(NULL, " ", &save), *hv = strtok_r(NULL, " ", &save);
            char name[4096], val[4096];
            size_t n = unhex(hn, (unsigned char *)name); name[n] = 0;
            if (op[0] == 'u') unsetenv(name);
            else { n = hv ? unhex(hv, (unsigned char *)val) : 0; val[n] = 0; setenv(name, val, 1); }
            printf("ok\n");
        } else if (!strcmp(op, "incfile")) {
            /* a file next to the parsed one, for "@INCLUDE qvinc.conf" lines */
            char *hd = strtok_r(NULL, " ", &save); size_t n = hd ? unhex(hd, tmp) : 0;
            char ip[PATH_MAX]; snprintf(ip, sizeof ip, "%s", tmppath);
            char *sl = strrchr(ip, '/'); snprintf(sl ? sl + 1 : ip, sizeof ip - (sl ? (size_t)(sl + 1 - ip) : 0), "qvinc.conf");
            FILE *f = fopen(ip, "wb"); if (f) { fwrite(tmp, 1, n, f); fclose(f); }
            printf("ok\n");
        } else if (!strcmp(op, "ini") || !strcmp(op, "inif")) {
            char *hs = strtok_r(NULL, " ", &save), *hd = strtok_r(NULL, " ", &save);
            int sep = atoi(hs);
            size_t n = unhex(hd, tmp);
            if (op[3] == 'f') {
                write_tmp(tmp, n);
                if (QV_TRY(wd)) {
                    qlisttbl_t *t = qconfig_parse_file(NULL, tmppath, (char)sep);
                    QV_END;
                    print_tbl(t);
                } else printf("%s\n", qv_sig == SIGALRM ? "TIMEOUT" : "CRASH");
            } else {
                guard_t g = guard_alloc(n + 1, 0); memcpy(g.p, tmp, n); g.p[n] = 0;
                if (QV_TRY(wd)) {
                    qlisttbl_t *t = qconfig_parse_str(NULL, (char *)g.p, (char)sep);
                    QV_END;
                    print_tbl(t);
                } else printf("%s\n", qv_sig == SIGALRM ? "TIMEOUT" : "CRASH");
                guard_free(g);
            }
        } else if (!strcmp(op, "ac") || !strcmp(op, "acr")) {
            /* acr: the same object parses the same file twice; the second run is reported and must equal a first run */
            char *hf = strtok_r(NULL, " ", &save), *hdef = strtok_r(NULL, " ", &save);
            char *ht = strtok_r(NULL, " ", &save), *hd = strtok_r(NULL, " ", &save);
            int flags = atoi(hf), usedef = atoi(hdef);
            static qaconf_option_t opts[MAXOPT + 1];
            static char names[MAXOPT][512];
            int no = 0;
            if (ht && strcmp(ht, "-")) {
                char *s2 = NULL;
                for (char *e = strtok_r(ht, ";", &s2); e && no < MAXOPT; e = strtok_r(NULL, ";", &s2)) {
                    char hn[1024]; unsigned long long take, hascb, sid, secs;
                    if (sscanf(e, "%1023[^,],%llu,%llu,%llu,%llu", hn, &take, &hascb, &sid, &secs) != 5) continue;
                    size_t k = unhex(hn, (unsigned char *)names[no]); names[no][k] = 0;
                    opts[no].name = names[no]; opts[no].take = (uint32_t)take; opts[no].cb = hascb ? cb_opt : NULL;
                    opts[no].sectionid = sid; opts[no].sections = secs; no++;
                }
            }
            memset(&opts[no], 0, sizeof opts[no]);
            size_t n = hd ? unhex(hd, tmp) : 0;
            write_tmp(tmp, n);
            trlen = 0; tr[0] = 0;
            if (QV_TRY(wd)) {
                qaconf_t *conf = qaconf();
                if (op[2] == 'r' && no >= 2) {
                    /* the re-used-object variant also registers its option table in two calls (core + module tables) */
                    static qaconf_option_t part[MAXOPT + 1]; int h = no / 2;
                    memcpy(part, opts, h * sizeof opts[0]); memset(&part[h], 0, sizeof part[h]);
                    conf->addoptions(conf, part);
                    conf->addoptions(conf, opts + h);
                } else
                conf->addoptions(conf, opts);
                if (usedef) conf->setdefhandler(conf, cb_def);
                int ret = conf->parse(conf, tmppath, (uint8_t)flags);
                if (op[2] == 'r') { trlen = 0; tr[0] = 0; ret = conf->parse(conf, tmppath, (uint8_t)flags); }
                QV_END;
                const char *em = conf->errmsg(conf);
                printf("%d ", ret);
                if (em == NULL) printf("- -");
                else {
                    size_t pl = strlen(tmppath);
                    if (!strncmp(em, tmppath, pl) && em[pl] == ':') {
                        const char *q = em + pl + 1; long ln = strtol(q, (char **)&q, 10);
                        if (*q == ' ') q++;
                        printf("%ld ", ln); puthex(stdout, q, strlen(q));
                    } else { printf("? "); puthex(stdout, em, strlen(em)); }
                }
                printf("%s\n", tr);
                conf->free(conf);
            } else printf("%s%s\n", qv_sig == SIGALRM ? "TIMEOUT" : "CRASH", "");
        } else printf("?? %s\n", op);
        fflush(stdout);
    }
    unlink(tmppath);
    return 0;
}
