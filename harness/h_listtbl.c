/* C08 harness: qlisttbl. One op per line; prints "<observation> | num=<n> chain=<ok|BAD..> <hash:name=data,...>".
   Caller buffers are exact-size heap blocks, scribbled and freed right after each call.  The chain is dumped through
   the public first/next pointers and verified backwards through last/prev after every op.
   save/load use files in a private directory created under $TMPDIR and removed at exit. */
#include "common.h"
#include "qlibc.h"
#include <sys/stat.h>
#include <inttypes.h>

static char line[1 << 20], a1[1 << 19], a2[1 << 19], a3[1 << 19], a4[64], a5[4096];
static unsigned char b1[1 << 18], b2[1 << 18];
static char dir[4096], fsave[4200], fload[4200], fnone[4200];

static void *dupbuf(const unsigned char *p, size_t n) { unsigned char *q = malloc(n ? n : 1); memcpy(q, p, n); return q; }
/* names are handed in from addresses of varying alignment (offsets 0..3 in turn inside their block) */
static struct { void *p, *base; } dreg[16];
static char *dupname(const unsigned char *p, size_t n) {
    static unsigned ctr; char *b = malloc(n + 4), *q = b + (ctr++ & 3); memcpy(q, p, n);
    for (int i = 0; i < 16; i++) if (!dreg[i].p) { dreg[i].p = q; dreg[i].base = b; return q; }
    memmove(b, q, n); return b;
}
static void scribble_free(void *p, size_t n) {
    if (!p) return; memset(p, 0x5A, n ? n : 1);
    for (int i = 0; i < 16; i++) if (dreg[i].p == p) { free(dreg[i].base); dreg[i].p = NULL; return; }
    free(p);
}
/* a name argument: "N" = NULL, otherwise hex of a C string ("-" = empty); returned block is exact size incl. NUL */
static char *mkname(const char *h, size_t *len) {
    if (h[0] == 'N') { *len = 0; return NULL; }
    size_t n = unhex(h, b1); b1[n] = 0; n = strlen((char *)b1);
    *len = n + 1; return dupname(b1, n + 1);
}
static size_t hexto(char *out, size_t room, const void *p, size_t n) {
    const unsigned char *b = p; static const char hx[] = "0123456789abcdef";
    if (n == 0) { out[0] = '-'; return 1; }
    if (2 * n + 4 > room) { out[0] = '!'; return 1; }
    for (size_t i = 0; i < n; i++) { out[2 * i] = hx[b[i] >> 4]; out[2 * i + 1] = hx[b[i] & 15]; }
    return 2 * n;
}
static void cleanup(void) { unlink(fsave); unlink(fload); rmdir(dir); }
static void write_file(const char *path, const void *p, size_t n) {
    FILE *f = fopen(path, "wb"); if (!f) { perror("fopen"); exit(3); }
    if (n) fwrite(p, 1, n, f); fclose(f);
}

#define MAXN 200000
static qlisttbl_obj_t *seen[MAXN];
static void dump(qlisttbl_t *t) {
    const char *bad = NULL; size_t n = 0;
    qlisttbl_obj_t *o, *lastseen = NULL;
    if (t->first && t->first->prev) bad = "first->prev";
    for (o = t->first; o && n < MAXN; o = o->next) { seen[n++] = o; lastseen = o; }
    if (o) bad = "cycle";
    if (!bad && lastseen != t->last) bad = "last";
    if (!bad && n != t->num) bad = "count";
    if (!bad) {
        size_t k = n;
        for (o = t->last; o; o = o->prev) { if (k == 0 || seen[k - 1] != o) { bad = "prev-chain"; break; } k--; }
        if (!bad && k != 0) bad = "prev-chain-short";
    }
    printf(" | num=%zu chain=%s%s ", t->num, bad ? "BAD-" : "ok", bad ? bad : "");
    for (size_t i = 0; i < n; i++) {
        if (i) putchar(',');
        printf("%08x:", seen[i]->hash); puthex(stdout, seen[i]->name, strlen(seen[i]->name)); putchar('=');
        puthex(stdout, seen[i]->data, seen[i]->size);
    }
}
static int all_have_nul(qlisttbl_t *t) {
    for (qlisttbl_obj_t *o = t->first; o; o = o->next) if (!memchr(o->data, 0, o->size)) return 0;
    return 1;
}

int main(void) {
    qv_install();
    const char *td = getenv("TMPDIR"); if (!td || !*td) td = "/tmp";
    snprintf(dir, sizeof dir, "%s/qv-listtbl-XXXXXX", td);
    if (!mkdtemp(dir)) { perror("mkdtemp"); return 3; }
    snprintf(fsave, sizeof fsave, "%s/saved.txt", dir); snprintf(fload, sizeof fload, "%s/load.txt", dir);
    snprintf(fnone, sizeof fnone, "%s/missing.txt", dir);
    atexit(cleanup);
    static unsigned ntab;
    qlisttbl_t *t = qlisttbl(0); int dead = 0;
    write_file(fsave, "#\n", 2);
    while (fgets(line, sizeof line, stdin)) {
        if (line[0] == '#' || line[0] == '\n') continue;
        char op[32]; a1[0] = a2[0] = a3[0] = a4[0] = a5[0] = 0;
        sscanf(line, "%31s %s %s %s %63s %4095s", op, a1, a2, a3, a4, a5);
        if (!strcmp(op, "new")) {
            int f = atoi(a1);
            if (t && !dead) t->free(t);
            t = qlisttbl((f & 1 ? QLISTTBL_UNIQUE : 0) | (f & 2 ? QLISTTBL_CASEINSENSITIVE : 0) |
                         (f & 4 ? QLISTTBL_INSERTTOP : 0) | (f & 8 ? QLISTTBL_LOOKUPFORWARD : 0) |
                         ((++ntab & 1) ? 0 : QLISTTBL_THREADSAFE));     /* every other table with its lock: same answers */
            dead = 0; write_file(fsave, "#\n", 2); continue;
        }
        if (dead) { printf("DEAD\n"); continue; }
        /* whatever an earlier, unrelated call left in errno must not influence an operation: every op starts with a stale ENOMEM */
        errno = ENOMEM;
        if (QV_TRY(10)) {
            size_t nl;
            if (!strcmp(op, "put")) {
                char *nm = mkname(a1, &nl); size_t nd = unhex(a2, b2); void *d = nd ? dupbuf(b2, nd) : NULL;
                bool r = t->put(t, nm, d, nd);
                scribble_free(nm, nl); scribble_free(d, nd);
                printf("%s", r ? "true" : "false");
            } else if (!strcmp(op, "putstr")) {
                char *nm = mkname(a1, &nl); size_t sl = 0; char *s = NULL;
                if (a2[0] != 'N') { size_t n = unhex(a2, b2); b2[n] = 0; sl = strlen((char *)b2) + 1; s = dupbuf(b2, sl); }
                bool r = t->putstr(t, nm, s);
                scribble_free(nm, nl); scribble_free(s, sl);
                printf("%s", r ? "true" : "false");
            } else if (!strcmp(op, "putint")) {
                char *nm = mkname(a1, &nl); int64_t z = strtoll(a2, NULL, 10);
                bool r = t->putint(t, nm, z); scribble_free(nm, nl);
                printf("%s", r ? "true" : "false");
            } else if (!strcmp(op, "get")) {
                char *nm = mkname(a1, &nl); int newmem = atoi(a2); size_t sz = 0;
                void *d = t->get(t, nm, &sz, newmem); scribble_free(nm, nl);
                if (d) { puthex(stdout, d, sz); if (newmem) free(d); } else printf("none");
            } else if (!strcmp(op, "getstr")) {
                char *nm = mkname(a1, &nl); int newmem = atoi(a2); size_t sz = 0;
                void *d0 = t->get(t, nm, &sz, false);
                char *d = t->getstr(t, nm, newmem); scribble_free(nm, nl);
                if (d && d0) { puthex(stdout, d, sz); if (newmem) free(d); } else printf("%s", d || d0 ? "inconsistent" : "none");
            } else if (!strcmp(op, "getint")) {
                char *nm = mkname(a1, &nl); size_t sz = 0;
                void *d0 = t->get(t, nm, &sz, false);
                if (d0 && !memchr(d0, 0, sz)) printf("bad");       /* atoll would run past the value: not called */
                else printf("%" PRId64, t->getint(t, nm));
                scribble_free(nm, nl);
            } else if (!strcmp(op, "getmulti")) {
                char *nm = mkname(a1, &nl); int newmem = atoi(a2); size_t cnt = 12345;
                qlisttbl_data_t *objs = t->getmulti(t, nm, newmem, &cnt); scribble_free(nm, nl);
                if (!objs) printf(cnt == 0 ? "none" : "NULL-with-count-%zu", cnt);
                else {
                    printf("%zu ", cnt);
                    size_t i; for (i = 0; objs[i].data != NULL; i++) { if (i) putchar(','); puthex(stdout, objs[i].data, objs[i].size); }
                    if (i != cnt) printf(" TERMINATOR-AT-%zu", i);
                    t->freemulti(objs);
                }
            } else if (!strcmp(op, "remove")) {
                char *nm = mkname(a1, &nl); size_t r = t->remove(t, nm); scribble_free(nm, nl);
                printf("%zu", r);
            } else if (!strcmp(op, "walk")) {
                char *nm = mkname(a1, &nl); int n = atoi(a2); const char *rm = a3[0] == '-' ? "" : a3; int newmem = atoi(a4);
                size_t nrm = strlen(rm); int ended = 0, first = 1; char rmres[4096]; size_t nr = 0;
                static char buf[1 << 20]; size_t bl = 0; buf[0] = 0;
                qlisttbl_obj_t o; memset(&o, 0, sizeof o);
                for (int i = 0; i < n; i++) {
                    if (!t->getnext(t, &o, nm, newmem)) { ended = 1; break; }
                    if (!first) buf[bl++] = ','; first = 0;
                    bl += hexto(buf + bl, sizeof buf - bl, o.name, strlen(o.name)); buf[bl++] = '=';
                    bl += hexto(buf + bl, sizeof buf - bl, o.data, o.size); buf[bl] = 0;
                    if (newmem) { free(o.name); free(o.data); }
                    if ((size_t)i < nrm && rm[i] == '1' && nr < sizeof rmres - 1) rmres[nr++] = t->removeobj(t, &o) ? '1' : '0';
                    if (a5[0]) {      /* "walk ... <key>": reads between the steps; they do not modify the table, the walk must come out the same */
                        static unsigned char kb[4096]; size_t kn = unhex(a5, kb); kb[kn] = 0;
                        char *rk = dupbuf(kb, kn + 1); size_t sz = 0;
                        void *d = t->get(t, rk, &sz, true); free(d); (void)t->getstr(t, rk, false); (void)t->size(t);
                        scribble_free(rk, kn + 1);
                    }
                }
                rmres[nr] = 0; scribble_free(nm, nl);
                printf("walk %s %s rm=%s", ended ? "end" : "more", buf, rmres);
            } else if (!strcmp(op, "size")) { printf("%zu", t->size(t));
            } else if (!strcmp(op, "sort")) { t->sort(t); printf("ok");
            } else if (!strcmp(op, "clear")) { t->clear(t); printf("ok");
            } else if (!strcmp(op, "save")) {
                int sep = atoi(a1), enc = atoi(a2);
                if (!enc && !all_have_nul(t)) printf("bad");        /* "%s" would run past a value: not called */
                else {
                    bool r = t->save(t, fsave, (char)sep, enc);
                    if (!r) printf("false");
                    else {
                        FILE *f = fopen(fsave, "rb"); static unsigned char fb[1 << 20]; size_t n = f ? fread(fb, 1, sizeof fb, f) : 0; if (f) fclose(f);
                        unsigned char *nlp = memchr(fb, '\n', n);
                        if (n < 2 || fb[0] != '#' || !nlp) printf("true NOHEADER");
                        else { printf("true "); puthex(stdout, nlp + 1, n - (size_t)(nlp + 1 - fb)); }
                    }
                }
            } else if (!strcmp(op, "load")) {
                int sep = atoi(a1), dec = atoi(a2); size_t n = unhex(a3, b2);
                write_file(fload, b2, n);
                printf("%zd", t->load(t, fload, (char)sep, dec));
            } else if (!strcmp(op, "reload")) {
                int sep = atoi(a1), dec = atoi(a2);
                printf("%zd", t->load(t, fsave, (char)sep, dec));
            } else if (!strcmp(op, "loadnofile")) {
                printf("%zd", t->load(t, fnone, '=', true));
            } else printf("?? %s", op);
            QV_END;
            dump(t);
            printf("\n");
        } else { printf("%s\n", qv_sig == SIGALRM ? "TIMEOUT" : "CRASH"); dead = 1; }
        fflush(stdout);
    }
    return 0;
}
