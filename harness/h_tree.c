/* C01-C04 harness: qtreetbl. One op per line; prints "<observation> | <structure>".
   Caller buffers are exact-size heap blocks, scribbled and freed right after each call. */
#include <limits.h>
#include "common.h"
#include "qlibc.h"

static char line[1 << 20], a1[1 << 19], a2[1 << 19];
static unsigned char b1[1 << 18], b2[1 << 18];
static long ncmp_calls;
static int use_default;
static unsigned ntab;      /* every other table is created with the THREADSAFE option: same answers either way */
static int (*base_cmp)(const void *, size_t, const void *, size_t);
/* the byte ordering computed by a comparator that leaves errno set, as one built on strtoul()/strcoll() may (ERANGE): what a
   comparator leaves in errno is not a result of the table operation */
static int errno_cmp(const void *a, size_t na, const void *b, size_t nb) { int r = qtreetbl_byte_cmp(a, na, b, nb); errno = ERANGE; return r; }
static int rev_cmp(const void *a, size_t la, const void *b, size_t lb) { return qtreetbl_byte_cmp(b, lb, a, la); }
static int len_cmp(const void *a, size_t la, const void *b, size_t lb) {
    if (la != lb) return la < lb ? -1 : 1;
    return qtreetbl_byte_cmp(a, la, b, lb);
}
/* case-insensitive ordering: byte-different keys can be equal (the stored key object is then the first one put) */
static int ci_cmp(const void *a, size_t la, const void *b, size_t lb) {
    const unsigned char *x = a, *y = b; size_t n = la < lb ? la : lb;
    for (size_t i = 0; i < n; i++) {
        int cx = (x[i] >= 'A' && x[i] <= 'Z') ? x[i] + 32 : x[i], cy = (y[i] >= 'A' && y[i] <= 'Z') ? y[i] + 32 : y[i];
        if (cx != cy) return cx < cy ? -1 : 1;
    }
    return la == lb ? 0 : (la < lb ? -1 : 1);
}
/* valid orderings whose results are not -1/0/+1: multiples of 65536 (zero in the low 16 bits) and the two extreme ints
   (INT_MIN cannot be negated); only the sign of a comparator's result means anything */
static int big_cmp(const void *a, size_t la, const void *b, size_t lb) { int r = qtreetbl_byte_cmp(a, la, b, lb); return r < 0 ? -65536 * 3 : r > 0 ? 65536 * 5 : 0; }
static int ext_cmp(const void *a, size_t la, const void *b, size_t lb) { int r = qtreetbl_byte_cmp(a, la, b, lb); return r < 0 ? INT_MIN : r > 0 ? INT_MAX : 0; }
static int counting_cmp(const void *a, size_t la, const void *b, size_t lb) { ncmp_calls++; return base_cmp(a, la, b, lb); }

/* caller buffers start at every alignment in turn (offsets 0..7 from what malloc returns): the table is a function of the
   bytes handed in, not of where the caller keeps them */
static struct { void *p, *base; } dmap[256]; static unsigned dupno;
static void *dupbuf(const unsigned char *p, size_t n) {
    unsigned char *base = malloc(n + 16), *q = base + (dupno++ % 8); memcpy(q, p, n);
    for (int i = 0; i < 256; i++) if (!dmap[i].p) { dmap[i].p = q; dmap[i].base = base; return q; }
    abort();
}
static void scribble_free(void *p, size_t n) {
    memset(p, 0x5A, n ? n : 1);
    for (int i = 0; i < 256; i++) if (dmap[i].p == p) { free(dmap[i].base); dmap[i].p = NULL; return; }
    free(p);
}

static void shape(qtreetbl_obj_t *o) {
    if (!o) { printf("."); return; }
    printf("(%c ", o->red ? 'R' : 'B'); puthex(stdout, o->name, o->namesize); printf("="); puthex(stdout, o->data, o->data ? o->datasize : 0);
    printf(" "); shape(o->left); printf(" "); shape(o->right); printf(")");
}
static int tsize(qtreetbl_obj_t *o) { return o ? 1 + tsize(o->left) + tsize(o->right) : 0; }
static int theight(qtreetbl_obj_t *o) { if (!o) return 0; int l = theight(o->left), r = theight(o->right); return 1 + (l > r ? l : r); }
/* independent invariant checker on the public fields: returns 0 fine, else first violated clause */
static int bh(qtreetbl_obj_t *o) { if (!o) return 1; int l = bh(o->left), r = bh(o->right); if (l < 0 || r < 0 || l != r) return -1; return l + (o->red ? 0 : 1); }
static int redred(qtreetbl_obj_t *o) { if (!o) return 0; if (o->red && ((o->left && o->left->red) || (o->right && o->right->red))) return 1; return redred(o->left) || redred(o->right); }
static int rightlean(qtreetbl_obj_t *o) { if (!o) return 0; if (o->right && o->right->red && !(o->left && o->left->red)) return 1; return rightlean(o->left) || rightlean(o->right); }
static qtreetbl_obj_t *prevo;
static int inorder_ok(qtreetbl_obj_t *o) {
    if (!o) return 1;
    if (!inorder_ok(o->left)) return 0;
    if (prevo && base_cmp(prevo->name, prevo->namesize, o->name, o->namesize) >= 0) return 0;
    prevo = o; return inorder_ok(o->right);
}
static int indep_check(qtreetbl_t *t) {
    if (t->root && t->root->red) return 1;
    if (redred(t->root)) return 2;
    if (bh(t->root) < 0) return 3;
    if (rightlean(t->root)) return 4;
    prevo = NULL; if (!inorder_ok(t->root)) return 5;
    return 0;
}

int main(void) {
    qv_install();
    qtreetbl_t *t = NULL; int dump = 1, dead = 0;
    base_cmp = qtreetbl_byte_cmp;
    t = qtreetbl(0); qtreetbl_set_compare(t, counting_cmp);
    while (fgets(line, sizeof line, stdin)) {
        if (line[0] == '#' || line[0] == '\n') continue;
        char op[32]; a1[0] = a2[0] = 0;
        sscanf(line, "%31s %s %s", op, a1, a2);
        if (!strcmp(op, "cmp") || !strcmp(op, "new")) {
            if (!strcmp(op, "cmp")) base_cmp = !strcmp(a1, "rev") ? rev_cmp : !strcmp(a1, "len") ? len_cmp : !strcmp(a1, "ci") ? ci_cmp : !strcmp(a1, "errno") ? errno_cmp : !strcmp(a1, "big") ? big_cmp : !strcmp(a1, "ext") ? ext_cmp : qtreetbl_byte_cmp;
            if (t && !dead) t->free(t);
            if (!strcmp(op, "cmp")) use_default = !strcmp(a1, "default");
            t = qtreetbl((++ntab & 1) ? 0 : QTREETBL_THREADSAFE); if (!use_default) qtreetbl_set_compare(t, counting_cmp);   /* "default": the table as the constructor leaves it, no comparator installed by the caller */
            dead = 0; continue;
        }
        if (!strcmp(op, "dump")) { dump = atoi(a1); continue; }
        if (!strcmp(op, "settid")) { t->tid = (uint8_t)atoi(a1); continue; }   /* test set-up only: used right after "new" */
        if (dead) { printf("DEAD\n"); continue; }
        errno = ENOMEM;          /* a stale value from an earlier, unrelated call: must not influence the operation */
        if (QV_TRY(3)) {
            if (!strcmp(op, "put")) {
                size_t nk = unhex(a1, b1), nv = unhex(a2, b2);
                void *k = dupbuf(b1, nk), *v = nv ? dupbuf(b2, nv) : NULL;
                bool r = qtreetbl_putobj(t, k, nk, v, nv);
                scribble_free(k, nk); if (v) scribble_free(v, nv);
                printf("%s", r ? "true" : "false");
            } else if (!strcmp(op, "sput") || !strcmp(op, "sget") || !strcmp(op, "sgets") || !strcmp(op, "srem")) {
                /* the string-key interface (put/putstr, get, remove): the key is a C string - the empty string included - and is stored
                   with its terminator; sput stores the value as a string too.  Same observations as put / get / remove. */
                size_t nk = unhex(a1, b1); char *k = dupbuf(b1, nk + 1); k[nk] = 0;
                if (op[1] == 'p') {
                    size_t nv = unhex(a2, b2); char *v = dupbuf(b2, nv + 1); v[nv] = 0;
                    bool r = qtreetbl_putstr(t, k, v); scribble_free(v, nv + 1);
                    printf("%s", r ? "true" : "false");
                } else if (op[1] == 'g') {
                    if (op[4] == 's') {
                        /* sgets <key> <newmem>: getstr() first (a read: the pointer into the table, or a copy, is only looked at),
                           then the ordinary get, which must still see the bytes and the length last put */
                        char *sv = qtreetbl_getstr(t, k, a2[0] == '1');
                        if (sv && a2[0] == '1') free(sv);
                    }
                    size_t ds = 12345; ncmp_calls = 0; errno = 0; void *d = qtreetbl_get(t, k, &ds, true); int e = errno; long c = ncmp_calls;
                    if (d) { puthex(stdout, d, ds); scribble_free(d, ds); } else printf("%s", (e == ENOENT || e == EINVAL) ? "none" : "-");
                    if (!use_default) printf(" cmps=%ld", c);
                } else printf("%s", qtreetbl_remove(t, k) ? "true" : "false");
                scribble_free(k, nk + 1);
            } else if (!strcmp(op, "putself")) {
                /* putself <key> <off>:<len>:<mode>: the value (and with mode 1 the key) handed to put() are the table's own buffers,
                   as getobj(newmem=false) returns them: value = stored value[off, off+len) (len -1: to the end) */
                size_t nk = unhex(a1, b1); void *k = dupbuf(b1, nk); size_t ds = 0, so = 0; long sl = 0; int sm = 0;
                sscanf(a2, "%zu:%ld:%d", &so, &sl, &sm);
                unsigned char *d = qtreetbl_getobj(t, k, nk, &ds, false);
                size_t len = sl < 0 ? (ds >= so ? ds - so : 0) : (size_t)sl;
                qtreetbl_obj_t *o = NULL;
                if (d) { qtreetbl_obj_t *st[128]; int sp = 0; if (t->root) st[sp++] = t->root;
                         while (sp && !o) { qtreetbl_obj_t *x = st[--sp]; if (x->data == d) o = x; else { if (x->left && sp < 127) st[sp++] = x->left; if (x->right && sp < 127) st[sp++] = x->right; } } }
                if (!o || so + len > ds || !len) printf("noself");
                else { bool r = qtreetbl_putobj(t, (sm & 1) ? o->name : k, nk, d + so, len); printf("%s", r ? "true" : "false"); }
                scribble_free(k, nk);
            } else if (!strcmp(op, "get")) {
                size_t nk = unhex(a1, b1); void *k = dupbuf(b1, nk); size_t ds = 12345;
                errno = 0; ncmp_calls = 0;
                void *d; static unsigned getno;
                if (nk == sizeof(size_t) && (++getno & 1)) {
                    /* an 8-byte key looked up through ONE variable that is the key on input and receives the size on output
                       (size_t io = key; getobj(tbl, &io, sizeof io, &io, ...)): the key is read before the size is stored */
                    size_t io; memcpy(&io, k, sizeof io);
                    d = qtreetbl_getobj(t, &io, sizeof io, &io, true); ds = io;
                } else d = qtreetbl_getobj(t, k, nk, &ds, true);
                int e = errno; long c = ncmp_calls; scribble_free(k, nk);
                if (d) { puthex(stdout, d, ds); free(d); } else printf("%s", (e == ENOENT || e == EINVAL) ? "none" : "-");
                if (nk && !use_default) printf(" cmps=%ld", c);
            } else if (!strcmp(op, "remove")) {
                size_t nk = unhex(a1, b1); void *k = dupbuf(b1, nk);
                bool r = qtreetbl_removeobj(t, k, nk); scribble_free(k, nk);
                printf("%s", r ? "true" : "false");
            } else if (!strcmp(op, "clear")) { qtreetbl_clear(t); printf("ok");
            } else if (!strcmp(op, "size")) { printf("%zu", qtreetbl_size(t));
            } else if (!strcmp(op, "min") || !strcmp(op, "max")) {
                size_t ns = 0; void *n = op[1] == 'i' ? qtreetbl_find_min(t, &ns) : qtreetbl_find_max(t, &ns);
                if (n) { puthex(stdout, n, ns); free(n); } else printf("none");
            } else if (!strcmp(op, "nearself")) {
                /* nearself <key> <len>: the probe is the first <len> bytes of the table's OWN buffer of <key> (what a cursor's name field
                   points at with newmem=false): the answer depends on the probe's bytes and length, not on where they live.
                   Prints like "near <probe> 0". */
                size_t nk = unhex(a1, b1); void *k = dupbuf(b1, nk); size_t pl = (size_t)atol(a2);
                qtreetbl_obj_t c = qtreetbl_find_nearest(t, k, nk, false); scribble_free(k, nk);
                if (c.name == NULL || pl > c.namesize || pl == 0) printf("noself");
                else {
                    printf("near ");
                    qtreetbl_obj_t o = qtreetbl_find_nearest(t, c.name, pl, true);
                    if (o.name == NULL) printf("none end ");
                    else { puthex(stdout, o.name, o.namesize); printf("="); puthex(stdout, o.data, o.data ? o.datasize : 0); free(o.name); free(o.data); printf(" more "); }
                }
            } else if (!strcmp(op, "otherwalk")) {
                /* otherwalk <n>: n walk starts (one step each, abandoned) and one complete walk on ANOTHER table of this process;
                   nothing done to another table may show in this one.  Prints what `size` prints. */
                static qtreetbl_t *other; int n = atoi(a1);
                if (!other) { other = qtreetbl(0); other->putstr(other, "x", "1"); other->putstr(other, "y", "2"); other->putstr(other, "z", "3"); }
                for (int i = 0; i < n; i++) { qtreetbl_obj_t o; memset(&o, 0, sizeof o); (void)other->getnext(other, &o, false); }
                { qtreetbl_obj_t o; memset(&o, 0, sizeof o); while (other->getnext(other, &o, false)) ; }
                other->putstr(other, "w", "4"); other->remove(other, "w");
                printf("%zu", qtreetbl_size(t));
            } else if (!strcmp(op, "walk") || !strcmp(op, "near")) {
                qtreetbl_obj_t o; memset(&o, 0, sizeof o); int n, first = 1, ended = 0, have = 1;
                if (op[0] == 'n') {
                    size_t nk = unhex(a1, b1); void *k = dupbuf(b1, nk); n = atoi(a2);
                    errno = 0;
                    o = qtreetbl_find_nearest(t, k, nk, true); scribble_free(k, nk);
                    printf("near ");
                    if (o.name == NULL) { printf("none end "); have = 0; }
                    else { puthex(stdout, o.name, o.namesize); printf("="); puthex(stdout, o.data, o.data ? o.datasize : 0); free(o.name); free(o.data); }
                } else { n = atoi(a1); printf("walk"); }
                /* "walk <n> <key>": reads of <key> (and of the extremes and the size) between the steps; they do not modify the table */
                void *rk = NULL; size_t rkn = 0;
                if (op[0] == 'w' && a2[0]) { rkn = unhex(a2, b2); rk = dupbuf(b2, rkn); }
                if (have) {
                    /* collect first, print after, so that "end"/"more" precedes the list as in the model's format */
                    static char buf[1 << 20]; size_t bl = 0; buf[0] = 0;
                    for (int i = 0; i < n; i++) {
                        /* every third step asks for pointers into the table instead of copies (newmem=false): looked at at once, not freed */
                        static unsigned stepno; bool nm = (++stepno % 3) != 0;
                        if (!qtreetbl_getnext(t, &o, nm)) { ended = 1; break; }
                        FILE *m = fmemopen(buf + bl, sizeof buf - bl, "w");
                        if (!first) fputc(',', m); first = 0;
                        puthex(m, o.name, o.namesize); fputc('=', m); puthex(m, o.data, o.data ? o.datasize : 0);
                        bl += ftell(m); fclose(m);
                        if (nm) { free(o.name); free(o.data); }
                        if (rk) { size_t sz = 0; void *d = qtreetbl_getobj(t, rk, rkn, &sz, true); free(d); d = qtreetbl_find_min(t, &sz); free(d); d = qtreetbl_find_max(t, &sz); free(d); (void)qtreetbl_size(t); }
                    }
                    printf(" %s %s", ended ? "end" : "more", buf);
                }
                if (rk) scribble_free(rk, rkn);
            } else printf("?? %s", op);
            QV_END;
            if (dump) { printf(" | num=%zu tid=%d chk=%d ", t->num, (int)t->tid, qtreetbl_check(t)); shape(t->root); }
            else printf(" | num=%zu tid=%d chk=%d n=%d h=%d", t->num, (int)t->tid, qtreetbl_check(t), tsize(t->root), theight(t->root));
            int ic = indep_check(t); if (ic) printf(" INDEP=%d", ic);
            printf("\n");
        } else { printf("%s\n", qv_sig == SIGALRM ? "TIMEOUT" : "CRASH"); dead = 1; }
        fflush(stdout);
    }
    return 0;
}
