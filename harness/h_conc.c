/* C13 harness: several threads operate on ONE thread-safe container.  Every element/key carries its producer (t, j), so
   that any sequential ordering of the calls gives the same final multiset: lost, duplicated or half-applied updates show
   up as a multiset mismatch whatever the schedule was.  Built with -fsanitize=thread the same run reports data races.
   usage: h_conc <tree|hash|listtbl|list|vector> <threads> <ops per thread> <seed> */
#include <pthread.h>
#include <sched.h>
#include "common.h"
#include "qlibc.h"
#include "qinternal.h"

static int T, K; static unsigned seed0; static const char *kind;
static void *cont; static volatile int failed; static char failmsg[256];
static void fail(const char *m, long a, long b) { if (!failed) { snprintf(failmsg, sizeof failmsg, "%s %ld %ld", m, a, b); failed = 1; } }
typedef struct { int t; unsigned rs; long popped_n; unsigned long long *popped; } targ;
static unsigned rnd(unsigned *s) { *s = *s * 1103515245u + 12345u; return (*s >> 16) & 0x7fff; }
static unsigned long long mk(int t, int j) { return ((unsigned long long)(t + 1) << 32) | (unsigned)(j + 1); }

/* one key shared by all threads: every put stores 64 identical bytes, so a torn or freed copy is recognisable */
static void hot_check(const unsigned char *v, size_t sz, int t, int j) {
    if (!v) return;
    if (sz != 64) { fail("hot value size", t, (long)sz); return; }
    for (size_t i = 1; i < sz; i++) if (v[i] != v[0]) { fail("hot value torn", t, j); return; }
}
static void *worker(void *p) {
    targ *a = p; int t = a->t; unsigned rs = a->rs;
    for (int j = 0; j < K && !failed; j++) {
        unsigned long long e = mk(t, j); char key[32]; snprintf(key, sizeof key, "k%d_%d", t, j);
        if (rnd(&rs) % 4 == 0) sched_yield();
        unsigned char hot[64]; memset(hot, (t * 37 + j) & 0xff, sizeof hot);
        if (!strcmp(kind, "tree")) {
            qtreetbl_t *c = cont;
            if (j % 4 == 0) { c->put(c, "hot", hot, sizeof hot); size_t hs = 0; unsigned char *hv = c->get(c, "hot", &hs, true); hot_check(hv, hs, t, j); free(hv); }
            if (!c->put(c, key, &e, sizeof e)) fail("put failed", t, j);
            if (j > 0) { int q = rnd(&rs) % j; char k2[32]; snprintf(k2, sizeof k2, "k%d_%d", t, q); size_t sz = 0;
                unsigned long long *v = c->get(c, k2, &sz, true);
                if (q % 3 == 1) { if (v) fail("removed key found", t, q); }
                else if (!v || sz != sizeof e || *v != mk(t, q)) fail("get wrong", t, q);
                free(v); }
            if (j % 3 == 1) { if (!c->remove(c, key)) fail("remove failed", t, j); }
            if (j % 16 == 5) {   /* a walk under the lock sees one consistent, ascending snapshot */
                qtreetbl_obj_t o; memset(&o, 0, sizeof o); char prev[32] = ""; c->lock(c);
                while (c->getnext(c, &o, false)) { if (strcmp(prev, o.name) >= 0) fail("walk not ascending", t, j); snprintf(prev, sizeof prev, "%s", (char *)o.name); }
                c->unlock(c); }
        } else if (!strcmp(kind, "hash")) {
            qhashtbl_t *c = cont;
            if (j % 4 == 0) { c->put(c, "hot", hot, sizeof hot); size_t hs = 0; unsigned char *hv = c->get(c, "hot", &hs, true); hot_check(hv, hs, t, j); free(hv); }
            if (!c->put(c, key, &e, sizeof e)) fail("put failed", t, j);
            if (j > 0) { int q = rnd(&rs) % j; char k2[32]; snprintf(k2, sizeof k2, "k%d_%d", t, q); size_t sz = 0;
                unsigned long long *v = c->get(c, k2, &sz, true);
                if (q % 3 == 1) { if (v) fail("removed key found", t, q); }
                else if (!v || sz != sizeof e || *v != mk(t, q)) fail("get wrong", t, q);
                free(v); }
            if (j % 3 == 1) { if (!c->remove(c, key)) fail("remove failed", t, j); }
        } else if (!strcmp(kind, "listtbl")) {
            qlisttbl_t *c = cont;
            if (j % 4 == 0) { c->put(c, "hot", hot, sizeof hot); size_t hs = 0; unsigned char *hv = c->get(c, "hot", &hs, true);
                if (!hv) fail("hot key missing although it is never removed", t, j); hot_check(hv, hs, t, j); free(hv); }
            if (!c->put(c, key, &e, sizeof e)) fail("put failed", t, j);
            if (j > 0) { int q = rnd(&rs) % j; char k2[32]; snprintf(k2, sizeof k2, "k%d_%d", t, q); size_t sz = 0;
                unsigned long long *v = c->get(c, k2, &sz, true);
                if (q % 3 == 1) { if (v) fail("removed key found", t, q); }
                else if (!v || sz != sizeof e || *v != mk(t, q)) fail("get wrong", t, q);
                free(v); }
            if (j % 3 == 1) { if (c->remove(c, key) != 1) fail("remove failed", t, j); }
        } else if (!strcmp(kind, "list")) {
            qlist_t *c = cont;
            bool ok = (j & 1) ? c->addlast(c, &e, sizeof e) : c->addfirst(c, &e, sizeof e);
            if (!ok) fail("add failed", t, j);
            if (j % 3 == 2) { size_t sz = 0; unsigned long long *v = (j & 2) ? c->popfirst(c, &sz) : c->poplast(c, &sz);
                if (v) { if (sz != sizeof e) fail("pop size", t, j); a->popped[a->popped_n++] = *v; free(v); } }
            if (j % 16 == 7) { size_t sz = 0; unsigned long long *arr = c->toarray(c, &sz);
                if (arr) { if (sz % sizeof e) fail("toarray size not a multiple of the element size", t, (long)sz);
                    for (size_t i = 0; i < sz / sizeof e; i++) if ((arr[i] >> 32) == 0 || (arr[i] >> 32) > (unsigned)T) fail("toarray garbage element", t, (long)i);
                    free(arr); } }
        } else if (!strcmp(kind, "vector")) {
            qvector_t *c = cont;
            bool ok = (j & 1) ? c->addlast(c, &e) : c->addfirst(c, &e);
            if (!ok) fail("add failed", t, j);
            if (j % 3 == 2) { unsigned long long *v = (j & 2) ? c->popfirst(c) : c->poplast(c);
                if (v) { a->popped[a->popped_n++] = *v; free(v); } }
            if (j % 16 == 7) { size_t n = 0; unsigned long long *arr = c->toarray(c, &n);
                if (arr) { for (size_t i = 0; i < n; i++) if ((arr[i] >> 32) == 0 || (arr[i] >> 32) > (unsigned)T) fail("toarray garbage element", t, (long)i);
                    free(arr); } }
        }
    }
    return NULL;
}
static int cmpull(const void *a, const void *b) { unsigned long long x = *(const unsigned long long *)a, y = *(const unsigned long long *)b; return x < y ? -1 : x > y; }

/* "contend": one thread keeps the container locked for longer than the waiter's retry limit (the waiter then runs the
   "force unlock" branch of Q_MUTEX_ENTER), releases it, and afterwards both the waiter's operation and a third thread's
   operation must complete: an operation that returned must have released the lock. */
static qhashtbl_t *ctbl; static volatile int b_done, c_done;
static void *contend_b(void *p) { ctbl->putstr(ctbl, "b", "1"); b_done = 1; return NULL; }
static void *contend_c(void *p) { char *v = ctbl->getstr(ctbl, "a", true); free(v); c_done = 1; return NULL; }
static int contend(void) {
    ctbl = qhashtbl(0, QHASHTBL_THREADSAFE); ctbl->putstr(ctbl, "a", "0");
    pthread_t b, c;
    ctbl->lock(ctbl);
    pthread_create(&b, NULL, contend_b, NULL);
    struct timespec ts = {2, 500000000}; nanosleep(&ts, NULL);      /* > 5000 trylock attempts with usleep(1) in between */
    ctbl->unlock(ctbl);
    for (int i = 0; i < 100 && !b_done; i++) { struct timespec t = {0, 100000000}; nanosleep(&t, NULL); }
    if (!b_done) { printf("FAIL waiter still blocked 10 s after the lock holder returned\n"); return 1; }
    pthread_create(&c, NULL, contend_c, NULL);
    for (int i = 0; i < 50 && !c_done; i++) { struct timespec t = {0, 100000000}; nanosleep(&t, NULL); }
    if (!c_done) { printf("FAIL a later operation of another thread never completes: some call returned with the lock held\n"); return 1; }
    printf("OK contend\n"); return 0;
}

/* "twotables": every thread works on its OWN private container (no sharing at all), so nothing one thread does may
   influence another thread's table: hidden shared state inside the library (file-scope statics) shows up here. */
static void *private_worker(void *p) {
    targ *a = p; unsigned rs = a->rs; int bad = 0;
    qtreetbl_t *t = qtreetbl(0); qhashtbl_t *h = qhashtbl(7, 0); qlisttbl_t *l = qlisttbl(QLISTTBL_UNIQUE);
    for (int j = 0; j < K && !bad; j++) {
        char key[32]; snprintf(key, sizeof key, "p%d_%04d", a->t, (int)(rnd(&rs) % (K / 2 + 1))); unsigned long long e = mk(a->t, j);
        t->put(t, key, &e, sizeof e); h->put(h, key, &e, sizeof e); l->put(l, key, &e, sizeof e);
        size_t sz = 0; unsigned long long *v = t->get(t, key, &sz, true);
        if (!v || *v != e) bad = 1; free(v);
        v = h->get(h, key, &sz, true); if (!v || *v != e) bad = 2; free(v);
        v = l->get(l, key, &sz, true); if (!v || *v != e) bad = 3; free(v);
        if (j % 3 == 2) { t->remove(t, key); h->remove(h, key); l->remove(l, key); if (t->get(t, key, NULL, false)) bad = 4; }
        if (qtreetbl_check(t) != 0) bad = 5;
        if (t->size(t) != h->size(h) || h->size(h) != l->size(l)) bad = 6;
    }
    /* every key of the tree is ours and in ascending order */
    qtreetbl_obj_t o; memset(&o, 0, sizeof o); char prev[32] = ""; size_t n = 0; char pre[16]; snprintf(pre, sizeof pre, "p%d_", a->t);
    while (!bad && t->getnext(t, &o, false)) { n++; if (strncmp(o.name, pre, strlen(pre)) || strcmp(prev, o.name) >= 0) bad = 7; snprintf(prev, sizeof prev, "%s", (char *)o.name); }
    if (!bad && n != t->size(t)) bad = 8;
    if (bad) fail("private table disturbed, clause", bad, a->t);
    t->free(t); h->free(h); l->free(l);
    return NULL;
}
static int twotables(int T_, int K_, unsigned seed) {
    T = T_; K = K_; pthread_t th[16]; targ a[16];
    for (int t = 0; t < T; t++) { a[t].t = t; a[t].rs = seed * 131 + t; pthread_create(&th[t], NULL, private_worker, &a[t]); }
    for (int t = 0; t < T; t++) pthread_join(th[t], NULL);
    if (failed) { printf("FAIL %s\n", failmsg); return 1; }
    printf("OK twotables\n"); return 0;
}

/* "bounded": a list limited to M elements holds M-1; T threads released together each add one element: exactly one add may
   succeed and the list must end up with exactly M elements - the limit test and the insertion are one atomic step. */
static qlist_t *blist; static pthread_barrier_t bbar; static int brounds; static volatile int bsucc;
static void *bounded_worker(void *p) {
    targ *a = p;
    for (int r = 0; r < brounds; r++) {
        pthread_barrier_wait(&bbar);                                  /* main has prepared M-1 elements */
        unsigned long long e = mk(a->t, r);
        if (blist->addlast(blist, &e, sizeof e)) __sync_fetch_and_add(&bsucc, 1);
        pthread_barrier_wait(&bbar);                                  /* main inspects */
    }
    return NULL;
}
static int bounded(int T_, int R_, int M) {
    T = T_; brounds = R_; pthread_t th[16]; targ a[16];
    blist = qlist(QLIST_THREADSAFE); blist->setsize(blist, M);
    pthread_barrier_init(&bbar, NULL, T + 1);
    for (int t = 0; t < T; t++) { a[t].t = t; pthread_create(&th[t], NULL, bounded_worker, &a[t]); }
    int bad = 0; long badr = 0, badn = 0;
    for (int r = 0; r < brounds; r++) {
        blist->clear(blist); bsucc = 0;
        for (int i = 0; i < M - 1; i++) { unsigned long long e = i; blist->addlast(blist, &e, sizeof e); }
        pthread_barrier_wait(&bbar);
        pthread_barrier_wait(&bbar);
        if (!bad && (bsucc != 1 || blist->size(blist) != (size_t)M)) { bad = 1; badr = bsucc; badn = (long)blist->size(blist); }
    }
    for (int t = 0; t < T; t++) pthread_join(th[t], NULL);
    if (bad) { printf("FAIL bounded list of %d: %ld concurrent adds succeeded with one place free, size %ld\n", M, badr, badn); return 1; }
    printf("OK bounded\n"); return 0;
}

/* "nested": an operation called between the user's lock() and unlock() (the documented way to walk or to update while
   walking) must return with the lock still held by the caller: another thread's trylock on the container's mutex fails. */
static pthread_mutex_t *probe_mx; static int probe_res;
static void *probe_thread(void *p) { probe_res = pthread_mutex_trylock(probe_mx); if (probe_res == 0) pthread_mutex_unlock(probe_mx); return NULL; }
static int still_held(void *qm) {
    probe_mx = &((qmutex_t *)qm)->mutex; pthread_t th; pthread_create(&th, NULL, probe_thread, NULL); pthread_join(th, NULL);
    return probe_res != 0;
}
static int nested(void) {
    unsigned long long e = 7; int bad = 0; const char *who = "";
    qtreetbl_t *t = qtreetbl(QTREETBL_THREADSAFE); qhashtbl_t *h = qhashtbl(0, QHASHTBL_THREADSAFE);
    qlisttbl_t *l = qlisttbl(QLISTTBL_THREADSAFE); qlist_t *s = qlist(QLIST_THREADSAFE);
    qvector_t *v = qvector(2, sizeof e, QVECTOR_THREADSAFE);
    t->lock(t); t->put(t, "a", &e, sizeof e); free(t->get(t, "a", NULL, true)); if (!still_held(t->qmutex)) { bad = 1; who = "tree"; } t->unlock(t);
    h->lock(h); h->put(h, "a", &e, sizeof e); free(h->get(h, "a", NULL, true)); if (!still_held(h->qmutex) && !bad) { bad = 1; who = "hash"; } h->unlock(h);
    l->lock(l); l->put(l, "a", &e, sizeof e); free(l->get(l, "a", NULL, true)); if (!still_held(l->qmutex) && !bad) { bad = 1; who = "listtbl"; } l->unlock(l);
    s->lock(s); s->addlast(s, &e, sizeof e); free(s->getfirst(s, NULL, true)); if (!still_held(s->qmutex) && !bad) { bad = 1; who = "list"; } s->unlock(s);
    v->lock(v); v->addlast(v, &e); free(v->getfirst(v, true)); if (!still_held(v->qmutex) && !bad) { bad = 1; who = "vector"; } v->unlock(v);
    /* and after the outer unlock the lock is free again */
    if (!bad && (still_held(t->qmutex) || still_held(h->qmutex) || still_held(l->qmutex) || still_held(s->qmutex) || still_held(v->qmutex))) { bad = 1; who = "lock still held after the outer unlock"; }
    if (bad) { printf("FAIL nested call on a locked container (%s): the caller's lock was released by the inner operation\n", who); return 1; }
    printf("OK nested\n"); return 0;
}


/* handoff: ONE operation at a time, each made by one of two long-lived threads (chosen at random), on one thread-safe list or
   vector; the same operations are made by the main thread alone on a second container.  Every answer must be the same: no
   schedule is involved, only the fact that consecutive operations come from different threads (state kept per thread or per
   call site instead of in the container shows here).  usage: h_conc handoff <0 list | 1 vector> <ops> <seed> */
static pthread_mutex_t ho_m = PTHREAD_MUTEX_INITIALIZER; static pthread_cond_t ho_c = PTHREAD_COND_INITIALIZER;
static int ho_turn = -1, ho_quit, ho_kind, ho_op; static long ho_arg, ho_val, ho_res; static void *ho_cont;
static long ho_apply(void *c, int kindv, int op, long idx, long val) {
    long r = -7;
    if (kindv == 0) { qlist_t *l = c; long *p;
        switch (op) {
        case 0: r = l->addlast(l, &val, sizeof val); break;
        case 1: r = l->addfirst(l, &val, sizeof val); break;
        case 2: r = l->addat(l, (int)idx, &val, sizeof val); break;
        case 3: p = l->getat(l, (int)idx, NULL, true); r = p ? *p : -1; free(p); break;
        case 4: p = l->popat(l, (int)idx, NULL); r = p ? *p : -1; free(p); break;
        case 5: r = l->removeat(l, (int)idx); break;
        case 6: p = l->popfirst(l, NULL); r = p ? *p : -1; free(p); break;
        case 7: p = l->poplast(l, NULL); r = p ? *p : -1; free(p); break;
        case 8: r = (long)l->size(l); break;
        case 9: l->reverse(l); r = 0; break;
        default: p = l->getat(l, (int)idx, NULL, false); r = p ? *p : -1; break;
        }
    } else { qvector_t *v = c; long *p;
        switch (op) {
        case 0: r = v->addlast(v, &val); break;
        case 1: r = v->addfirst(v, &val); break;
        case 2: r = v->addat(v, (int)idx, &val); break;
        case 3: p = v->getat(v, (int)idx, true); r = p ? *p : -1; free(p); break;
        case 4: p = v->popat(v, (int)idx); r = p ? *p : -1; free(p); break;
        case 5: r = v->removeat(v, (int)idx); break;
        case 6: p = v->popfirst(v); r = p ? *p : -1; free(p); break;
        case 7: p = v->poplast(v); r = p ? *p : -1; free(p); break;
        case 8: r = (long)v->size(v); break;
        case 9: v->reverse(v); r = 0; break;
        default: p = v->getat(v, (int)idx, false); r = p ? *p : -1; break;
        }
    }
    return r;
}
static void *ho_worker(void *p) {
    int me = (int)(long)p;
    pthread_mutex_lock(&ho_m);
    for (;;) {
        while (ho_turn != me && !ho_quit) pthread_cond_wait(&ho_c, &ho_m);
        if (ho_quit) break;
        ho_res = ho_apply(ho_cont, ho_kind, ho_op, ho_arg, ho_val);
        ho_turn = -1; pthread_cond_broadcast(&ho_c);
    }
    pthread_mutex_unlock(&ho_m);
    return NULL;
}
static int handoff(int kindv, int nops, unsigned sd) {
    void *ref; ho_kind = kindv;
    if (kindv == 0) { ho_cont = qlist(QLIST_THREADSAFE); ref = qlist(QLIST_THREADSAFE); }
    else { ho_cont = qvector(2, sizeof(long), QVECTOR_THREADSAFE | QVECTOR_RESIZE_DOUBLE); ref = qvector(2, sizeof(long), QVECTOR_THREADSAFE | QVECTOR_RESIZE_DOUBLE); }
    pthread_t th[2]; for (long w = 0; w < 2; w++) pthread_create(&th[w], NULL, ho_worker, (void *)w);
    unsigned rs = sd * 2654435761u + 17; long n = 0; int bad = 0; char msg[200] = "";
    for (int i = 0; i < nops && !bad; i++) {
        int op = rnd(&rs) % 11; if (n < 6 && rnd(&rs) % 2) op = rnd(&rs) % 3;      /* keep some elements in it */
        long idx = (long)(rnd(&rs) % 9) - 1, val = 1000 + i; int w = rnd(&rs) % 2;
        errno = 0;
        pthread_mutex_lock(&ho_m);
        ho_op = op; ho_arg = idx; ho_val = val; ho_turn = w; pthread_cond_broadcast(&ho_c);
        while (ho_turn != -1) pthread_cond_wait(&ho_c, &ho_m);
        long got = ho_res;
        pthread_mutex_unlock(&ho_m);
        long want = ho_apply(ref, kindv, op, idx, val);
        n = kindv == 0 ? (long)((qlist_t *)ref)->size(ref) : (long)((qvector_t *)ref)->size(ref);
        if (got != want) { bad = 1; snprintf(msg, sizeof msg, "operation %d (op %d index %ld by thread %d) answered %ld, one thread alone gets %ld", i, op, idx, w, got, want); }
    }
    pthread_mutex_lock(&ho_m); ho_quit = 1; pthread_cond_broadcast(&ho_c); pthread_mutex_unlock(&ho_m);
    for (int w = 0; w < 2; w++) pthread_join(th[w], NULL);
    if (bad) { printf("FAIL handoff %s: %s\n", kindv ? "vector" : "list", msg); return 1; }
    printf("OK handoff\n"); return 0;
}

int main(int argc, char **argv) {
    if (argc > 4 && !strcmp(argv[1], "handoff")) return handoff(atoi(argv[2]), atoi(argv[3]), (unsigned)atoi(argv[4]));
    if (argc > 1 && !strcmp(argv[1], "contend")) return contend();
    if (argc > 1 && !strcmp(argv[1], "nested")) return nested();
    if (argc > 4 && !strcmp(argv[1], "bounded")) return bounded(atoi(argv[2]), atoi(argv[3]), atoi(argv[4]));
    if (argc > 4 && !strcmp(argv[1], "twotables")) return twotables(atoi(argv[2]), atoi(argv[3]), (unsigned)atoi(argv[4]));
    kind = argv[1]; T = atoi(argv[2]); K = atoi(argv[3]); seed0 = (unsigned)atoi(argv[4]);
    if (!strcmp(kind, "tree")) cont = qtreetbl(QTREETBL_THREADSAFE);
    else if (!strcmp(kind, "hash")) cont = qhashtbl(7, QHASHTBL_THREADSAFE);
    else if (!strcmp(kind, "listtbl")) cont = qlisttbl(QLISTTBL_THREADSAFE | QLISTTBL_UNIQUE);
    else if (!strcmp(kind, "list")) cont = qlist(QLIST_THREADSAFE);
    else cont = qvector(2, sizeof(unsigned long long), QVECTOR_THREADSAFE | QVECTOR_RESIZE_DOUBLE);
    pthread_t th[16]; targ a[16];
    for (int t = 0; t < T; t++) { a[t].t = t; a[t].rs = seed0 * 31 + t; a[t].popped_n = 0; a[t].popped = calloc(K + 1, sizeof(unsigned long long)); pthread_create(&th[t], NULL, worker, &a[t]); }
    for (int t = 0; t < T; t++) pthread_join(th[t], NULL);
    if (failed) { printf("FAIL %s\n", failmsg); return 1; }
    /* final contents = what any one-at-a-time ordering gives */
    long expect = 0, got = 0;
    if (!strcmp(kind, "tree") || !strcmp(kind, "hash") || !strcmp(kind, "listtbl")) {
        for (int t = 0; t < T; t++) for (int j = 0; j < K; j++) {
            char key[32]; snprintf(key, sizeof key, "k%d_%d", t, j); size_t sz = 0; unsigned long long *v;
            if (!strcmp(kind, "tree")) v = ((qtreetbl_t *)cont)->get(cont, key, &sz, true);
            else if (!strcmp(kind, "hash")) v = ((qhashtbl_t *)cont)->get(cont, key, &sz, true);
            else v = ((qlisttbl_t *)cont)->get(cont, key, &sz, true);
            if (j % 3 == 1) { if (v) { printf("FAIL removed key present %d %d\n", t, j); return 1; } }
            else { expect++; if (!v || *v != mk(t, j)) { printf("FAIL key lost %d %d\n", t, j); return 1; } }
            free(v);
        }
        got = !strcmp(kind, "tree") ? (long)((qtreetbl_t *)cont)->size(cont) : !strcmp(kind, "hash") ? (long)((qhashtbl_t *)cont)->size(cont) : (long)((qlisttbl_t *)cont)->size(cont);
        expect += 1;   /* the hot key: put by every thread, never removed, unique */
        if (got != expect) { printf("FAIL size %ld expected %ld (a replacing put was not atomic, or an update was lost)\n", got, expect); return 1; }
        if (!strcmp(kind, "tree") && qtreetbl_check(cont) != 0) { printf("FAIL tree invariant %d\n", qtreetbl_check(cont)); return 1; }
    } else {
        size_t total = (size_t)T * K; unsigned long long *all = calloc(total + 1, sizeof *all); size_t n = 0;
        for (int t = 0; t < T; t++) for (long i = 0; i < a[t].popped_n; i++) all[n++] = a[t].popped[i];
        if (!strcmp(kind, "list")) { qlist_t *c = cont; size_t sz; unsigned long long *v; while ((v = c->popfirst(c, &sz))) { if (n <= total) all[n] = *v; n++; free(v); } }
        else { qvector_t *c = cont; unsigned long long *v; while ((v = c->popfirst(c))) { if (n <= total) all[n] = *v; n++; free(v); } }
        if (n != total) { printf("FAIL element count %zu expected %zu (lost or duplicated update)\n", n, total); return 1; }
        qsort(all, n, sizeof *all, cmpull);
        size_t i = 0; for (int t = 0; t < T; t++) for (int j = 0; j < K; j++, i++) if (all[i] != mk(t, j)) { printf("FAIL multiset differs at %zu\n", i); return 1; }
    }
    printf("OK %s T=%d K=%d\n", kind, T, K);
    return 0;
}
