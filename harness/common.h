/* shared helpers of the correspondence harnesses */
#ifndef QV_COMMON_H
#define QV_COMMON_H
#include <stdio.h>
#include <stdlib.h>
#include <string.h>
#include <stdint.h>
#include <stdbool.h>
#include <errno.h>
#include <signal.h>
#include <setjmp.h>
#include <unistd.h>
#include <sys/mman.h>

static inline int hexval(int c) { return c <= '9' ? c - '0' : (c | 32) - 'a' + 10; }
/* "-" is the empty string */
static size_t unhex(const char *h, unsigned char *out) {
    if (h[0] == '-') return 0;
    size_t n = strlen(h) / 2;
    for (size_t i = 0; i < n; i++) out[i] = (unsigned char)(hexval(h[2 * i]) * 16 + hexval(h[2 * i + 1]));
    return n;
}
static void puthex(FILE *f, const void *p, size_t n) {
    const unsigned char *b = p;
    if (n == 0) { fputc('-', f); return; }
    for (size_t i = 0; i < n; i++) fprintf(f, "%02x", b[i]);
}

/* A buffer of exactly n bytes whose last byte is followed by an inaccessible page (and preceded by one):
   any read or write one byte past it faults.  lo=1 puts the buffer at the START of the accessible area instead,
   so that an access before its first byte faults. */
typedef struct { unsigned char *base; size_t maplen; unsigned char *p; } guard_t;
static guard_t guard_alloc(size_t n, int lo) {
    guard_t g; size_t pg = 4096; size_t body = ((n + pg - 1) / pg) * pg; if (body == 0) body = pg;
    g.maplen = body + 2 * pg;
    g.base = mmap(NULL, g.maplen, PROT_READ | PROT_WRITE, MAP_PRIVATE | MAP_ANONYMOUS, -1, 0);
    if (g.base == MAP_FAILED) { perror("mmap"); exit(3); }
    memset(g.base, 0xAA, g.maplen);
    mprotect(g.base, pg, PROT_NONE); mprotect(g.base + pg + body, pg, PROT_NONE);
    g.p = lo ? g.base + pg : g.base + pg + body - n;
    return g;
}
static void guard_free(guard_t g) { munmap(g.base, g.maplen); }

static sigjmp_buf qv_jmp; static volatile int qv_armed = 0;
static void qv_segv(int sig) { if (qv_armed) siglongjmp(qv_jmp, sig); _exit(99); }
static void qv_install(void) {
    struct sigaction sa; memset(&sa, 0, sizeof sa); sa.sa_handler = qv_segv; sa.sa_flags = SA_NODEFER;
    sigaction(SIGSEGV, &sa, NULL); sigaction(SIGBUS, &sa, NULL); sigaction(SIGALRM, &sa, NULL);
    sigaction(SIGABRT, &sa, NULL); sigaction(SIGFPE, &sa, NULL);   /* failed assert(), division by zero */
}
/* usage: if (QV_TRY(seconds)) { ...call...; QV_END; } else { crashed or timed out: qv_sig tells which } */
static volatile int qv_sig;
#define QV_TRY(secs) ((qv_sig = sigsetjmp(qv_jmp, 1)) == 0 ? (qv_armed = 1, alarm(secs), 1) : (qv_armed = 0, alarm(0), 0))
#define QV_END do { alarm(0); qv_armed = 0; } while (0)
#endif
