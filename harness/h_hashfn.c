/* C18 harness: qhashfnv1_32/64, qhashmurmur3_32/128, qhashmd5, qhashmd5_file.  One op per line, one observation per line.
     <fn> <data>                 fn in fnv32 fnv64 mm32 mm128 md5
     md5file <data> <off> <n>    the data is written to a temporary file under $TMPDIR first
   <data> is hex, "-" (empty) or R<seed>,<len> (bytes of a fixed LCG, so that large inputs need no large lines).
   Every input is hashed in six placements and the observation is the common result, or UNSTABLE with all six:
     hi   exactly-sized buffer whose last byte is followed by an inaccessible page (a read past the buffer faults)
     lo   buffer starting right after an inaccessible page, 0xAA after it (a read before the buffer faults)
     a1/a1'  at offset 1 from a 16-aligned address, surrounded by 0x00 junk, then by 0xFF junk
     a3/a3'  at offset 3+8 likewise
   so the result is seen not to depend on the address, the alignment or the bytes around the buffer. */
#include "common.h"
#include "qlibc.h"
#include <fcntl.h>

static char *line; static size_t linecap = (1u << 22) + 256;
static unsigned char *data; static size_t datacap = 1u << 21;

static size_t parse_data(const char *a) {
    if (a[0] == 'R') {
        unsigned long seed, len; if (sscanf(a + 1, "%lu,%lu", &seed, &len) != 2 || len > datacap) { fprintf(stderr, "bad data %s\n", a); exit(2); }
        unsigned long x = seed & 0x7fffffffUL;
        for (size_t i = 0; i < len; i++) { x = (x * 1103515245UL + 12345UL) & 0x7fffffffUL; data[i] = (unsigned char)((x >> 16) & 0xff); }
        return len;
    }
    if (strlen(a) / 2 > datacap) { fprintf(stderr, "data too long\n"); exit(2); }
    return unhex(a, data);
}

/* read() as qhashmd5_file sees it (linked with --wrap=read): rd_short > 0: no call returns more than rd_short bytes (a legal short
   read); rd_fail > 0: the rd_fail-th call fails with EINTR once.  Off (both 0) outside the injected ops. */
ssize_t __real_read(int, void *, size_t);
static long rd_short, rd_fail, rd_calls;
ssize_t __wrap_read(int fd, void *buf, size_t cnt) {
    rd_calls++;
    if (rd_fail && rd_calls == rd_fail) { errno = EINTR; return -1; }
    if (rd_short && cnt > (size_t)rd_short) cnt = (size_t)rd_short;
    return __real_read(fd, buf, cnt);
}

/* run fn on the n bytes at p; result rendered into out */
static void run1(const char *op, const unsigned char *p, size_t n, char *out) {
    if (QV_TRY(20)) {
        if (!strcmp(op, "fnv32")) { uint32_t h = qhashfnv1_32(p, n); QV_END; sprintf(out, "%08x", h); }
        else if (!strcmp(op, "fnv64")) { uint64_t h = qhashfnv1_64(p, n); QV_END; sprintf(out, "%016llx", (unsigned long long)h); }
        else if (!strcmp(op, "mm32")) { uint32_t h = qhashmurmur3_32(p, n); QV_END; sprintf(out, "%08x", h); }
        else if (!strcmp(op, "mm128") || !strcmp(op, "md5")) {
            unsigned char d[16 + 8]; memset(d, 0x5c, sizeof d);
            bool ok = op[1] == 'm' ? qhashmurmur3_128(p, n, d) : qhashmd5(p, n, d); QV_END;
            if (!ok) strcpy(out, "FALSE");
            else { for (int i = 0; i < 16; i++) sprintf(out + 2 * i, "%02x", d[i]); for (int i = 16; i < 24; i++) if (d[i] != 0x5c) strcpy(out, "WROTE-PAST-16"); }
        } else { QV_END; strcpy(out, "??"); }
    } else strcpy(out, qv_sig == SIGALRM ? "TIMEOUT" : "CRASH");
}

#include <pthread.h>
static char par_path[2][600]; static unsigned char par_want[2][16]; static volatile int par_bad; static int par_rounds;
static void *par_worker(void *p) {
    int k = (int)(long)p; unsigned char dg[16];
    for (int i = 0; i < par_rounds && !par_bad; i++) { if (!qhashmd5_file(par_path[k], 0, 0, dg) || memcmp(dg, par_want[k], 16)) par_bad = 1; }
    return NULL;
}
int md5par_run(const char *base, int rounds) {
    static unsigned char buf[300000];
    for (int k = 0; k < 2; k++) {
        snprintf(par_path[k], sizeof par_path[k], "%s.par%d", base, k);
        for (size_t i = 0; i < sizeof buf; i++) buf[i] = (unsigned char)(i * (k ? 31 : 17) + (i >> 8) + k);
        int fd = open(par_path[k], O_WRONLY | O_CREAT | O_TRUNC, 0600); if (fd < 0 || write(fd, buf, sizeof buf - k * 777) < 0) return 0; close(fd);
        if (!qhashmd5_file(par_path[k], 0, 0, par_want[k])) return 0;
    }
    par_bad = 0; par_rounds = rounds; pthread_t th[2];
    for (long k = 0; k < 2; k++) pthread_create(&th[k], NULL, par_worker, (void *)k);
    for (int k = 0; k < 2; k++) pthread_join(th[k], NULL);
    unlink(par_path[0]); unlink(par_path[1]);
    return !par_bad;
}

int main(void) {
    qv_install();
    line = malloc(linecap); data = malloc(datacap);
    unsigned char *arena = malloc(datacap + 64);
    char path[512]; const char *td = getenv("TMPDIR"); if (!td || !*td) td = "/tmp";
    snprintf(path, sizeof path, "%s/qv-hashfn-%ld.bin", td, (long)getpid());
    static char a1[64], a2[64], a3[64], op[32];
    while (fgets(line, linecap, stdin)) {
        if (line[0] == '#' || line[0] == '\n') continue;
        char *sp = strchr(line, ' '); if (!sp) { printf("?? %s", line); continue; }
        size_t ol = sp - line; if (ol > 31) ol = 31; memcpy(op, line, ol); op[ol] = 0;
        char *d = sp + 1; char *e = d + strcspn(d, " \n"); char save = *e; *e = 0;
        size_t n = parse_data(d);
        static char a4[64], a5[64];
        a2[0] = a3[0] = a4[0] = a5[0] = 0; if (save == ' ') sscanf(e + 1, "%63s %63s %63s %63s", a2, a3, a4, a5);
        if (!strcmp(op, "twice")) {
            /* twice <data> <data2>: hash a buffer, overwrite it in place with other bytes of the same length, hash the SAME address and
               length again, in one function: the second value is the hash of the new bytes (prints the three integer hashes of both) */
            static unsigned char tb[1 << 16]; size_t n2 = unhex(a2, tb + 32768); if (n > 32768) n = 32768; if (n2 > n) n2 = n;
            memcpy(tb, data, n);
            uint32_t f1 = qhashfnv1_32(tb, n); uint64_t g1 = qhashfnv1_64(tb, n); uint32_t m1 = qhashmurmur3_32(tb, n);
            memcpy(tb, tb + 32768, n2);
            uint32_t f2 = qhashfnv1_32(tb, n); uint64_t g2 = qhashfnv1_64(tb, n); uint32_t m2 = qhashmurmur3_32(tb, n);
            printf("%08x %016llx %08x %08x %016llx %08x\n", f1, (unsigned long long)g1, m1, f2, (unsigned long long)g2, m2); fflush(stdout);
            continue;
        }
        if (!strcmp(op, "md5par")) {
            /* md5par <rounds>: two threads hash two different files at the same time, again and again: every digest equals the one
               computed alone */
            int rounds = atoi(d); extern int md5par_run(const char *, int); printf("%s\n", md5par_run(path, rounds) ? "OK" : "DIFFERS"); fflush(stdout);
            continue;
        }
        if (!strcmp(op, "md5file")) {
            long long off = atoll(a2), nb = atoll(a3);
            int fd = open(path, O_WRONLY | O_CREAT | O_TRUNC, 0600);
            if (fd < 0 || (n && write(fd, data, n) != (ssize_t)n)) { perror("tmpfile"); exit(3); }
            close(fd);
            unsigned char dg[16]; char out[64];
            if (QV_TRY(20)) {
                /* "md5file <data> <off> <nb> s <k>": short reads of at most k bytes; "... e <k>": the k-th read fails with EINTR */
                rd_calls = 0; rd_short = a4[0] == 's' ? atol(a5) : 0; rd_fail = a4[0] == 'e' ? atol(a5) : 0;
                bool ok = qhashmd5_file(path, (off_t)off, (ssize_t)nb, dg); rd_short = rd_fail = 0; QV_END;
                if (!ok) strcpy(out, "FALSE"); else for (int i = 0; i < 16; i++) sprintf(out + 2 * i, "%02x", dg[i]);
            } else { rd_short = rd_fail = 0; strcpy(out, qv_sig == SIGALRM ? "TIMEOUT" : "CRASH"); }
            printf("%s\n", out); fflush(stdout);
            continue;
        }
        char r[6][64];
        guard_t g = guard_alloc(n ? n : 1, 0); unsigned char *p = n ? g.p : g.p + 1; if (n) memcpy(p, data, n);
        run1(op, p, n, r[0]); guard_free(g);
        g = guard_alloc(n ? n : 1, 1); if (n) memcpy(g.p, data, n);
        run1(op, g.p, n, r[1]); guard_free(g);
        unsigned char *al = (unsigned char *)(((uintptr_t)arena + 15) & ~(uintptr_t)15);
        int offs[2] = {1, 11};
        for (int k = 0; k < 2; k++) for (int j = 0; j < 2; j++) {
            memset(al, j ? 0xFF : 0x00, n + 48); memcpy(al + offs[k], data, n);
            run1(op, al + offs[k], n, r[2 + 2 * k + j]);
        }
        /* digests written over the data they were computed from (iterated hashing, `qhashmd5(h, 16, h)`): the input is read completely
           before the result is stored, so the result is the digest of the bytes the buffer held before the call */
        char ov[2][64]; strcpy(ov[0], r[0]); strcpy(ov[1], r[0]);
        if (!strcmp(op, "md5") || !strcmp(op, "mm128")) {
            for (int k = 0; k < 2; k++) {
                memset(al, 0xA5, n + 48); memcpy(al, data, n);
                unsigned char *rb = k == 0 ? al : al + (n >= 16 ? ((n - 16) & ~(size_t)7) : 0);
                if (QV_TRY(20)) {
                    bool ok = op[1] == 'm' ? qhashmurmur3_128(al, n, rb) : qhashmd5(al, n, rb); QV_END;
                    if (!ok) strcpy(ov[k], "FALSE"); else for (int i = 0; i < 16; i++) sprintf(ov[k] + 2 * i, "%02x", rb[i]);
                } else strcpy(ov[k], qv_sig == SIGALRM ? "TIMEOUT" : "CRASH");
            }
        }
        /* the 16-byte result stored at addresses of every alignment, with guard bytes around it */
        char mis[64]; strcpy(mis, r[0]);
        if (!strcmp(op, "md5") || !strcmp(op, "mm128")) {
            static unsigned char rbuf[16 + 16 + 96];
            for (int off = 1; off < 8 && !strcmp(mis, r[0]); off += 2) {
                memset(rbuf, 0x5c, sizeof rbuf);
                unsigned char *rb = rbuf + 16 + off;
                if (QV_TRY(20)) {
                    bool ok = op[1] == 'm' ? qhashmurmur3_128(data, n, rb) : qhashmd5(data, n, rb); QV_END;
                    if (!ok) strcpy(mis, "FALSE"); else for (int i = 0; i < 16; i++) sprintf(mis + 2 * i, "%02x", rb[i]);
                    for (size_t i = 0; i < sizeof rbuf; i++) if ((rbuf + i < rb || rbuf + i >= rb + 16) && rbuf[i] != 0x5c) strcpy(mis, "WROTE-OUTSIDE-RESULT");
                } else strcpy(mis, qv_sig == SIGALRM ? "TIMEOUT" : "CRASH");
            }
        }
        int same = 1; for (int i = 1; i < 6; i++) if (strcmp(r[0], r[i])) same = 0;
        if (same && strcmp(r[0], mis)) printf("UNSTABLE plain=%s result-at-odd-address=%s\n", r[0], mis);
        else if (same && (strcmp(r[0], ov[0]) || strcmp(r[0], ov[1]))) printf("UNSTABLE plain=%s result-over-head-of-data=%s result-over-tail-of-data=%s\n", r[0], ov[0], ov[1]);
        else if (same) printf("%s\n", r[0]);
        else printf("UNSTABLE hi=%s lo=%s a1/00=%s a1/ff=%s a11/00=%s a11/ff=%s\n", r[0], r[1], r[2], r[3], r[4], r[5]);
        fflush(stdout);
    }
    unlink(path);
    return 0;
}
