/* C10 harness: qvector. One op per line; prints "<observation> | num=.. max=.. objsize=.. data=<first num*objsize bytes>".
   Elements are handed in as exact-size heap blocks, scribbled and freed right after each call; reads use newmem=true.
   Bytes of the block beyond num*objsize are indeterminate and never printed.
   Linked with -Wl,--wrap=memcpy: a memcpy with overlapping ranges made inside a library call (undefined behaviour) is
   flagged on the op's line as UB=memcpy-overlap (and carried out as a memmove so that the run can go on). */
#include "common.h"
#include "qlibc.h"

static char line[1 << 16], a1[1 << 15], a2[1 << 15], a3[64];
static unsigned char b1[1 << 14];
static volatile int in_call, ub_overlap;

void *__real_memcpy(void *d, const void *s, size_t n);
void *__wrap_memcpy(void *d, const void *s, size_t n) {
    if (in_call && n > 0) {
        const char *dc = d, *sc = s;
        if (dc < sc + n && sc < dc + n) { ub_overlap = 1; return memmove(d, s, n); }
    }
    return __real_memcpy(d, s, n);
}

static void *dupbuf(const unsigned char *p, size_t n) { unsigned char *q = malloc(n ? n : 1); for (size_t i = 0; i < n; i++) q[i] = p[i]; return q; }
static void scribble_free(void *p, size_t n) { memset(p, 0x5A, n ? n : 1); free(p); }
static const char *ename(int e) { return e == EINVAL ? "EINVAL" : e == ERANGE ? "ERANGE" : e == ENOENT ? "ENOENT" : e == ENOMEM ? "ENOMEM" : e == 0 ? "E0" : "E?"; }
static void *elem_arg(const char *h, size_t *n) { if (!strcmp(h, "NULL")) { *n = 0; return NULL; } *n = unhex(h, b1); return dupbuf(b1, *n); }

static void dump(qvector_t *v) {
    printf(" | num=%zu max=%zu objsize=%zu data=", v->num, v->max, v->objsize);
    /* never read beyond the block: a (wrong) num > max is visible in the num/max fields */
    if (v->data == NULL) printf("%s", v->num == 0 ? "-" : "NULL"); else puthex(stdout, v->data, (v->num <= v->max ? v->num : v->max) * v->objsize);
}

/* thorough tier only: n elements of os bytes (element i = its index, little endian, repeated), removefirst, then every sampled
   element i must be the old element i+1.  Exercises byte counts beyond the range of an int. */
static void pat(unsigned char *e, size_t os, uint64_t i) { for (size_t k = 0; k < os; k++) e[k] = (unsigned char)(i >> (8 * (k % 8))); }
static int bigshift(size_t n, size_t os) {
    qvector_t *v = qvector(0, os, QVECTOR_RESIZE_DOUBLE);
    unsigned char *e = malloc(os), *w = malloc(os);
    if (!v || !e || !w) { printf("skipped ENOMEM\n"); return 0; }
    for (size_t i = 0; i < n; i++) { pat(e, os, i); if (!v->addlast(v, e)) { printf("skipped ENOMEM at %zu\n", i); return 0; } }
    if (QV_TRY(120)) {
        bool r = v->removefirst(v);
        QV_END;
        if (!r || v->num != n - 1) { printf("bad result=%d num=%zu\n", r, v->num); return 0; }
        size_t step = n / 4099 + 1;
        for (size_t i = 0; i < n - 1; i += (i < 8 || i + 9 > n - 1) ? 1 : step) {
            pat(w, os, i + 1);
            if (memcmp((unsigned char *)v->data + i * os, w, os)) { printf("bad element %zu\n", i); return 0; }
            if (i >= 8 && i + step >= n - 9 && i < n - 9) i = n - 10;
        }
        printf("ok\n");
    } else printf("%s\n", qv_sig == SIGALRM ? "timeout" : "crash");
    return 0;
}

int main(int argc, char **argv) {
    qv_install();
    { struct sigaction sa; memset(&sa, 0, sizeof sa); sa.sa_handler = qv_segv; sa.sa_flags = SA_NODEFER; sigaction(SIGABRT, &sa, NULL); }  /* glibc heap-corruption aborts */
    if (argc > 3 && !strcmp(argv[1], "bigshift")) return bigshift((size_t)atol(argv[2]), (size_t)atol(argv[3]));
    qvector_t *v = NULL; int dead = 0;
    while (fgets(line, sizeof line, stdin)) {
        if (line[0] == '#' || line[0] == '\n') continue;
        char op[32]; a1[0] = a2[0] = a3[0] = 0;
        sscanf(line, "%31s %s %s %63s", op, a1, a2, a3);
        if (!strcmp(op, "new")) {
            if (v && !dead) { if (QV_TRY(10)) { v->free(v); QV_END; } }
            dead = 0; errno = 0;
            { static unsigned ntab; v = qvector((size_t)atol(a1), (size_t)atol(a2), atoi(a3) | ((++ntab & 1) ? 0 : QVECTOR_THREADSAFE)); }   /* every other vector with its lock: same answers */
            if (v) { printf("ok"); dump(v); printf("\n"); } else printf("refused %s\n", ename(errno));
            fflush(stdout); continue;
        }
        if (!v) { printf("NOVEC\n"); fflush(stdout); continue; }
        if (dead) { printf("DEAD\n"); fflush(stdout); continue; }
        ub_overlap = 0;
        if (QV_TRY(10)) {
            size_t os = v->objsize;
            if (!strcmp(op, "addat") || !strcmp(op, "addfirst") || !strcmp(op, "addlast") ||
                !strcmp(op, "setat") || !strcmp(op, "setfirst") || !strcmp(op, "setlast")) {
                int at = op[3] == 'a'; size_t n; void *d = elem_arg(at ? a2 : a1, &n); bool r;
                errno = 0; in_call = 1;
                if (op[0] == 'a') r = at ? v->addat(v, atoi(a1), d) : op[3] == 'f' ? v->addfirst(v, d) : v->addlast(v, d);
                else r = at ? v->setat(v, atoi(a1), d) : op[3] == 'f' ? v->setfirst(v, d) : v->setlast(v, d);
                in_call = 0; int e = errno;
                if (d) scribble_free(d, n);
                if (r) printf("true"); else printf("refused %s", ename(e));
            } else if (!strcmp(op, "addself")) {
                /* the new element is one of the vector's own, handed in by the pointer getat(..., newmem=false) returns */
                void *d = v->getat(v, atoi(a2), false);
                if (!d) printf("noself");
                else { errno = 0; in_call = 1; bool r = v->addat(v, atoi(a1), d); in_call = 0; int e = errno;
                       if (r) printf("true"); else printf("refused %s", ename(e)); }
            } else if (!strcmp(op, "getat") || !strcmp(op, "getfirst") || !strcmp(op, "getlast") ||
                       !strcmp(op, "popat") || !strcmp(op, "popfirst") || !strcmp(op, "poplast")) {
                int at = op[3] == 'a'; void *r;
                errno = 0; in_call = 1;
                if (op[0] == 'g') r = at ? v->getat(v, atoi(a1), true) : op[3] == 'f' ? v->getfirst(v, true) : v->getlast(v, true);
                else r = at ? v->popat(v, atoi(a1)) : op[3] == 'f' ? v->popfirst(v) : v->poplast(v);
                in_call = 0; int e = errno;
                if (r) { printf("elem "); puthex(stdout, r, os); scribble_free(r, os); } else printf("refused %s", ename(e));
            } else if (!strcmp(op, "removeat") || !strcmp(op, "removefirst") || !strcmp(op, "removelast")) {
                bool r; errno = 0; in_call = 1;
                r = op[6] == 'a' ? v->removeat(v, atoi(a1)) : op[6] == 'f' ? v->removefirst(v) : v->removelast(v);
                in_call = 0; int e = errno;
                if (r) printf("true"); else printf("refused %s", ename(e));
            } else if (!strcmp(op, "size")) { in_call = 1; size_t n = v->size(v); in_call = 0; printf("%zu", n);
            } else if (!strcmp(op, "resize")) {
                errno = 0; in_call = 1; bool r = v->resize(v, (size_t)atol(a1)); in_call = 0; int e = errno;
                if (r) printf("true"); else printf("refused %s", ename(e));
            } else if (!strcmp(op, "clear")) { in_call = 1; v->clear(v); in_call = 0; printf("ok");
            } else if (!strcmp(op, "reverse")) { in_call = 1; v->reverse(v); in_call = 0; printf("ok");
            } else if (!strcmp(op, "toarray")) {
                size_t n = 12345; errno = 0; in_call = 1; void *r = v->toarray(v, &n); in_call = 0; int e = errno;
                if (r) { printf("array %zu ", n); puthex(stdout, r, v->num * os); scribble_free(r, v->num * os); }   /* the block has num elements whatever *size says */
                else { printf("refused %s", ename(e)); if (n != 0) printf(" size=%zu", n); }
            } else if (!strcmp(op, "walk") || !strcmp(op, "walkip") || !strcmp(op, "walkmix")) {
                /* walk: every step asks for a copy; walkip: every step in place (newmem=false); walkmix: alternating */
                int mode = !strcmp(op, "walk") ? 0 : !strcmp(op, "walkip") ? 1 : 2;
                qvector_obj_t o; memset(&o, 0, sizeof o); o.index = atoi(a1); int n = atoi(a2), ended = 0, first = 1;
                static char buf[1 << 20]; size_t bl = 0; buf[0] = 0;
                for (int i = 0; i < n; i++) {
                    bool copy = mode == 0 || (mode == 2 && (i & 1) == 0);
                    errno = 0; in_call = 1; bool r = v->getnext(v, &o, copy); in_call = 0;
                    if (!r) { ended = 1; if (errno != ENOENT) bl += sprintf(buf + bl, "!%s", ename(errno)); if (o.data != NULL) bl += sprintf(buf + bl, "!data");
                        /* a caller polling once more after the end is still told the walk is over (the cursor stays where it is) */
                        errno = 0; in_call = 1; bool r2 = v->getnext(v, &o, copy); in_call = 0;
                        if (r2) { bl += sprintf(buf + bl, "!again"); if (copy) scribble_free(o.data, os); }
                        else if (errno != ENOENT) bl += sprintf(buf + bl, "!%s2", ename(errno));
                        break; }
                    if (bl + 2 * os + 2 >= sizeof buf) break;
                    if (!first) buf[bl++] = ','; first = 0;
                    if (os == 0) buf[bl++] = '-';
                    for (size_t k = 0; k < os; k++) bl += sprintf(buf + bl, "%02x", ((unsigned char *)o.data)[k]);
                    buf[bl] = 0;
                    if (copy) scribble_free(o.data, os);      /* the caller keeps the dangling pointer in o.data, as a real caller would */
                }
                printf("walk %s %s", ended ? "end" : "more", buf);
            } else printf("?? %s", op);
            QV_END;
            if (ub_overlap) printf(" UB=memcpy-overlap");
            dump(v); printf("\n");
        } else { in_call = 0; printf("%s\n", qv_sig == SIGALRM ? "TIMEOUT" : qv_sig == SIGABRT ? "CRASH abort" : "CRASH"); dead = 1; }
        fflush(stdout);
    }
    return 0;
}
