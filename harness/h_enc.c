/* C16/C17 harness: codecs of qencode.c and qparse_queries, one op per line, one observation per line.
   Inputs live in exactly-sized buffers ending at a guard page, so reading past the terminator faults. */
#include "common.h"
#include "qlibc.h"

static char line[1 << 20];
static unsigned char tmp[1 << 19];
static char a1[1 << 19], a2[1 << 19], a3[1 << 19];

int main(void) {
    qv_install();
    while (fgets(line, sizeof line, stdin)) {
        if (line[0] == '#' || line[0] == '\n') continue;
        char op[32]; a1[0] = a2[0] = a3[0] = 0;
        int nf = sscanf(line, "%31s %s %s %s", op, a1, a2, a3);
        if (!strcmp(op, "urlenc") || !strcmp(op, "b64enc") || !strcmp(op, "hexenc")) {
            size_t n = unhex(a1, tmp);
            guard_t g = guard_alloc(n ? n : 1, 0); if (n) memcpy(g.p, tmp, n);
            if (QV_TRY(5)) {
                char *r = op[0] == 'u' ? qurl_encode(g.p, n) : op[0] == 'b' ? qbase64_encode(g.p, n) : qhex_encode(g.p, n);
                QV_END;
                if (r == NULL) printf("NULL\n"); else { puthex(stdout, r, strlen(r)); printf("\n"); free(r); }
            } else printf("%s\n", qv_sig == SIGALRM ? "TIMEOUT" : "CRASH");
            guard_free(g);
        } else if (!strcmp(op, "urldec") || !strcmp(op, "b64dec") || !strcmp(op, "hexdec")) {
            size_t n = unhex(a1, tmp);
            guard_t g = guard_alloc(n + 1, 0); memcpy(g.p, tmp, n); g.p[n] = 0;
            if (QV_TRY(5)) {
                size_t r = op[0] == 'u' ? qurl_decode((char *)g.p) : op[0] == 'b' ? qbase64_decode((char *)g.p) : qhex_decode((char *)g.p);
                QV_END;
                if (r > n) printf("TOOLONG %zu\n", r);
                else if (g.p[r] != 0) printf("NOTERM\n");
                else { puthex(stdout, g.p, r); printf("\n"); }
            } else printf("%s\n", qv_sig == SIGALRM ? "TIMEOUT" : "CRASH");
            guard_free(g);
        } else if (!strcmp(op, "query")) {
            /* query <eq> <sep> <hex> */
            int eq = atoi(a1), sep = atoi(a2);
            size_t n = unhex(a3, tmp);
            guard_t g = guard_alloc(n + 1, 0); memcpy(g.p, tmp, n); g.p[n] = 0;
            if (QV_TRY(5)) {
                int cnt = -1;
                qlisttbl_t *t = qparse_queries(NULL, (char *)g.p, (char)eq, (char)sep, &cnt);
                QV_END;
                if (!t) printf("NULL\n");
                else {
                    printf("%d", cnt);
                    for (qlisttbl_obj_t *o = t->first; o; o = o->next) {   /* insertion order */
                        printf(" "); puthex(stdout, o->name, strlen(o->name)); printf("=");
                        puthex(stdout, o->data, o->size ? o->size - 1 : 0);
                    }
                    if (t->size(t) == 0) printf(" ");
                    printf("\n"); t->free(t);
                }
            } else printf("%s\n", qv_sig == SIGALRM ? "TIMEOUT" : "CRASH");
            guard_free(g);
        } else printf("?? %s", line);
        fflush(stdout);
    }
    return 0;
}
