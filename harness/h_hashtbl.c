/* C05 harness: qhashtbl. One op per line; prints "<observation> | <structure>".
   Caller buffers (names, values) are exact-size heap blocks, scribbled and freed right after each call, so the table
   cannot keep a caller pointer unnoticed.  Returned blocks (get/getnext with newmem=true) are scribbled and freed too.
   The structure dump reads the public fields num/range/slots and each node's hash/name/data/size/next; node objects
   are numbered in order of first appearance (a node that survives an operation keeps its number), which is how the
   model numbers its node objects. */
#include "common.h"
#include "qlibc.h"
#include <inttypes.h>

static char line[1 << 21], a1[1 << 20], a2[1 << 20];
static unsigned char b1[1 << 19], b2[1 << 19];

static void *dupbuf(const unsigned char *p, size_t n) { unsigned char *q = malloc(n ? n : 1); memcpy(q, p, n); return q; }
/* strings (names above all) are handed in from addresses of varying alignment - offsets 0..3 in turn inside their block: the
   table is a function of the bytes of a name, not of where the caller keeps it */
static struct { void *p, *base; } dreg[16];
static char *dupstr(const unsigned char *p, size_t n) {
    static unsigned ctr; char *b = malloc(n + 1 + 4), *q = b + (ctr++ & 3); memcpy(q, p, n); q[n] = 0;
    for (int i = 0; i < 16; i++) if (!dreg[i].p) { dreg[i].p = q; dreg[i].base = b; return q; }
    memmove(b, q, n + 1); return b;
}
static void scribble_free(void *p, size_t n) {
    memset(p, 0x5A, n);
    for (int i = 0; i < 16; i++) if (p && dreg[i].p == p) { free(dreg[i].base); dreg[i].p = NULL; return; }
    free(p);
}
static const char *ename(int e) { return e == EINVAL ? "EINVAL" : e == ENOENT ? "ENOENT" : e == ENOMEM ? "ENOMEM" : e == 0 ? "E0" : "E?"; }

/* node numbering: pointer -> id.  Two small open-addressing maps: the one built by the previous dump (the nodes alive
   then) and the one being built now; a pointer not alive at the previous dump is a new node object. */
typedef struct { void *p; unsigned id; } ident_t;
static ident_t *prevmap, *curmap; static size_t prevcap, curcap; static unsigned nextid = 1;
static size_t slot_of(void *p, size_t cap) { return (size_t)(((uintptr_t)p >> 4) * 2654435761u) & (cap - 1); }
static unsigned map_get(ident_t *m, size_t cap, void *p) {
    if (!m) return 0;
    for (size_t j = slot_of(p, cap);; j = (j + 1) & (cap - 1)) { if (m[j].p == p) return m[j].id; if (!m[j].p) return 0; }
}
static void map_put(ident_t *m, size_t cap, void *p, unsigned id) {
    for (size_t j = slot_of(p, cap);; j = (j + 1) & (cap - 1)) { if (!m[j].p || m[j].p == p) { m[j].p = p; m[j].id = id; return; } }
}
static void ids_begin(size_t nodes) { curcap = 16; while (curcap < 4 * (nodes + 1)) curcap <<= 1; curmap = calloc(curcap, sizeof *curmap); }
static unsigned node_id(void *p) {
    unsigned id = map_get(curmap, curcap, p);
    if (id) return id;                                  /* same node met twice in one dump (a cycle or shared tail) */
    id = map_get(prevmap, prevcap, p);
    if (!id) id = nextid++;
    map_put(curmap, curcap, p, id); return id;
}
static void ids_end(void) { free(prevmap); prevmap = curmap; prevcap = curcap; curmap = NULL; }
static void reset_ids(void) { free(prevmap); prevmap = NULL; prevcap = 0; nextid = 1; }

static uint32_t fnv; static int dumpmode = 1;
static void outc(char c) { if (dumpmode) putchar(c); else { fnv = (fnv ^ (unsigned char)c) * 16777619u; } }
static void outs(const char *s) { while (*s) outc(*s++); }
static void outhex(const void *p, size_t n) {
    const unsigned char *b = p; static const char hx[] = "0123456789abcdef";
    if (n == 0) { outc('-'); return; }
    for (size_t i = 0; i < n; i++) { outc(hx[b[i] >> 4]); outc(hx[b[i] & 15]); }
}
/* independent check of the invariant on the public fields: 0 fine, else the first violated clause */
static int indep; static unsigned long dumpcount;
static void dump(qhashtbl_t *t) {
    char tmp[64]; size_t count = 0; int first = 1;
    printf(" | num=%zu range=%zu ", t->num, t->range);
    fnv = 0x811c9dc5u; indep = 0; dumpcount++;
    size_t nodes = 0;
    for (size_t i = 0; i < t->range; i++) for (qhashtbl_obj_t *o = t->slots[i]; o && nodes < (1u << 24); o = o->next) nodes++;
    ids_begin(nodes);
    for (size_t i = 0; i < t->range; i++) {
        qhashtbl_obj_t *o = t->slots[i];
        if (!o) continue;
        if (!first) outc(';'); first = 0;
        snprintf(tmp, sizeof tmp, "%zu:", i); outs(tmp);
        int j = 0;
        for (; o; o = o->next, j++) {
            if (j) outc(',');
            snprintf(tmp, sizeof tmp, "%u/%08x/", node_id(o), o->hash); outs(tmp);
            outhex(o->name, strlen(o->name)); outc('='); outhex(o->data, o->size);
            count++;
            if (o->hash != qhashmurmur3_32(o->name, strlen(o->name)) && !indep) indep = 1;
            if (o->hash % t->range != i && !indep) indep = 2;
            if (dumpmode || (dumpcount % 61) == 0)   /* quadratic in the chain length: always on small dumps, sampled on digest dumps */
                for (qhashtbl_obj_t *q = o->next; q; q = q->next) if (!strcmp(q->name, o->name) && !indep) indep = 3;
        }
    }
    if (count != t->num && !indep) indep = 4;
    if (!dumpmode) printf("fnv=%08x", fnv);
    if (indep) printf(" INDEP=%d", indep);
    ids_end();
}

int main(void) {
    qv_install();
    { struct sigaction sa; memset(&sa, 0, sizeof sa); sa.sa_handler = qv_segv; sa.sa_flags = SA_NODEFER; sigaction(SIGFPE, &sa, NULL); }   /* hash % 0 */
    static unsigned ntab;
    qhashtbl_t *t = qhashtbl(0, 0); int dead = 0;
    while (fgets(line, sizeof line, stdin)) {
        if (line[0] == '#' || line[0] == '\n') continue;
        char op[32], a3[32]; a1[0] = a2[0] = a3[0] = 0;
        sscanf(line, "%31s %s %s %31s", op, a1, a2, a3);
        if (!strcmp(op, "new")) {
            if (t && !dead) qhashtbl_free(t);
            t = qhashtbl((size_t)strtoull(a1, NULL, 10), (++ntab & 1) ? 0 : QHASHTBL_THREADSAFE); dead = 0;   /* every other table with its lock */ reset_ids(); continue;
        }
        if (!strcmp(op, "dump")) { dumpmode = atoi(a1); continue; }
        if (!strcmp(op, "hash")) { size_t nk = unhex(a1, b1); void *k = dupbuf(b1, nk); printf("hash %u\n", qhashmurmur3_32(k, nk)); scribble_free(k, nk); continue; }
        if (!strcmp(op, "atoll")) {        /* what atoll says about a NUL-terminated text: ties the model's parser to libc */
            size_t nv = unhex(a1, b1); char *s = dupstr(b1, nv); printf("atoll %lld\n", atoll(s)); scribble_free(s, nv + 1); continue; }
        if (!strcmp(op, "printd")) { char s[64]; snprintf(s, sizeof s, "%" PRId64, (int64_t)strtoll(a1, NULL, 10)); printf("printd "); puthex(stdout, s, strlen(s)); printf("\n"); continue; }
        if (dead) { printf("DEAD\n"); continue; }
        if (QV_TRY(10)) {
            errno = ENOMEM;      /* a stale value from an earlier, unrelated call: must not influence the operation */
            if (!strcmp(op, "put")) {
                size_t nk = unhex(a1, b1), nv = unhex(a2, b2);
                char *k = dupstr(b1, nk); void *v = dupbuf(b2, nv);
                bool r = qhashtbl_put(t, k, v, nv); int e = errno;
                scribble_free(k, nk + 1); scribble_free(v, nv);
                if (r) printf("true"); else printf("fail %s", ename(e));
            } else if (!strcmp(op, "putown")) {
                /* put <key> <value> where the key argument is the table's own copy of that key, as a walk with newmem=false hands it
                   out (updating values while looking at the entries); if the key is not stored, an ordinary put */
                size_t nk = unhex(a1, b1), nv = unhex(a2, b2);
                char *k = dupstr(b1, nk); void *v = dupbuf(b2, nv); const char *own = NULL;
                qhashtbl_obj_t o; memset(&o, 0, sizeof o);
                while (qhashtbl_getnext(t, &o, false)) if (!strcmp(o.name, k)) { own = o.name; break; }
                bool r = qhashtbl_put(t, own ? own : k, v, nv); int e = errno;
                scribble_free(k, nk + 1); scribble_free(v, nv);
                if (r) printf("true"); else printf("fail %s", ename(e));
            } else if (!strcmp(op, "putpre")) {
                /* putpre <key> <value> <n>: put(key, value), then hand the table's own buffer for that key (get with newmem=false)
                   back with a shorter length n: the stored value must then be the first n bytes, with length n */
                size_t nk = unhex(a1, b1), nv = unhex(a2, b2); size_t n = (size_t)atol(a3);
                char *k = dupstr(b1, nk); void *v = dupbuf(b2, nv);
                bool r = qhashtbl_put(t, k, v, nv); int e = errno; scribble_free(v, nv);
                if (r) { size_t sz = 0; void *d = qhashtbl_get(t, k, &sz, false); r = d && qhashtbl_put(t, k, d, n); e = errno; }
                scribble_free(k, nk + 1);
                if (r) printf("true"); else printf("fail %s", ename(e));
            } else if (!strcmp(op, "puthuge")) {
                /* a value whose copy cannot be allocated (SIZE_MAX/2 bytes; the allocation fails before anything is read): the put is
                   refused with ENOMEM and the table - this key's old value, the other keys, the count - is what it was */
                size_t nk = unhex(a1, b1); char *k = dupstr(b1, nk); static char some[16];
                bool r = qhashtbl_put(t, k, some, SIZE_MAX / 2); int e = errno; scribble_free(k, nk + 1);
                if (r) printf("true"); else printf("fail %s", ename(e));
            } else if (!strcmp(op, "putnull")) {
                size_t nk = unhex(a1, b1); char *k = dupstr(b1, nk);
                bool r = qhashtbl_put(t, k, NULL, 3); int e = errno; scribble_free(k, nk + 1);
                if (r) printf("true"); else printf("fail %s", ename(e));
            } else if (!strcmp(op, "putstr")) {
                size_t nk = unhex(a1, b1), nv = unhex(a2, b2);
                char *k = dupstr(b1, nk); char *v = dupstr(b2, nv);
                bool r = qhashtbl_putstr(t, k, v); int e = errno;
                scribble_free(k, nk + 1); scribble_free(v, nv + 1);
                if (r) printf("true"); else printf("fail %s", ename(e));
            } else if (!strcmp(op, "putstrnull")) {
                size_t nk = unhex(a1, b1); char *k = dupstr(b1, nk);
                bool r = qhashtbl_putstr(t, k, NULL); int e = errno; scribble_free(k, nk + 1);
                if (r) printf("true"); else printf("fail %s", ename(e));
            } else if (!strcmp(op, "putint")) {
                size_t nk = unhex(a1, b1); char *k = dupstr(b1, nk);
                bool r = qhashtbl_putint(t, k, (int64_t)strtoll(a2, NULL, 10)); int e = errno; scribble_free(k, nk + 1);
                if (r) printf("true"); else printf("fail %s", ename(e));
            } else if (!strcmp(op, "putnn")) {
                size_t nv = unhex(a1, b2); void *v = dupbuf(b2, nv);
                bool r = qhashtbl_put(t, NULL, v, nv); int e = errno; scribble_free(v, nv);
                if (r) printf("true"); else printf("fail %s", ename(e));
            } else if (!strcmp(op, "get") || !strcmp(op, "getref")) {
                size_t nk = unhex(a1, b1); char *k = dupstr(b1, nk); size_t ds = 123456789; bool nm = !op[3];
                void *d = qhashtbl_get(t, k, &ds, nm); int e = errno; scribble_free(k, nk + 1);
                if (d) { printf("val "); puthex(stdout, d, ds); if (nm) scribble_free(d, ds); } else printf("fail %s", ename(e));
            } else if (!strcmp(op, "getstr")) {
                /* getstr returns the block without its size: learn the size from get(), then read exactly that many bytes */
                size_t nk = unhex(a1, b1); char *k = dupstr(b1, nk); size_t ds = 0;
                void *probe = qhashtbl_get(t, k, &ds, false);
                errno = 0;
                char *d = qhashtbl_getstr(t, k, true); int e = errno; scribble_free(k, nk + 1);
                if (d) { printf("val "); puthex(stdout, d, probe ? ds : 0); scribble_free(d, probe ? ds : 0); } else printf("fail %s", ename(e));
            } else if (!strcmp(op, "getint")) {
                size_t nk = unhex(a1, b1); char *k = dupstr(b1, nk);
                int64_t z = qhashtbl_getint(t, k); int e = errno; scribble_free(k, nk + 1);
                if (e == ENOENT || e == EINVAL) printf("fail %s", ename(e)); else printf("int %" PRId64, z);
            } else if (!strcmp(op, "getnn")) {
                size_t ds = 0; void *d = qhashtbl_get(t, NULL, &ds, true); int e = errno;
                if (d) { printf("val "); puthex(stdout, d, ds); free(d); } else printf("fail %s", ename(e));
            } else if (!strcmp(op, "remove")) {
                size_t nk = unhex(a1, b1); char *k = dupstr(b1, nk);
                bool r = qhashtbl_remove(t, k); int e = errno; scribble_free(k, nk + 1);
                if (r) printf("true"); else printf("fail %s", ename(e));
            } else if (!strcmp(op, "removenn")) {
                bool r = qhashtbl_remove(t, NULL); int e = errno;
                if (r) printf("true"); else printf("fail %s", ename(e));
            } else if (!strcmp(op, "clear")) { qhashtbl_clear(t); printf("ok");
            } else if (!strcmp(op, "size")) { printf("num %zu", qhashtbl_size(t));
            } else if (!strcmp(op, "walk") || !strcmp(op, "walkget")) {
                /* walkget <n> <key>: the same walk with a read of <key> (get with a copy, getstr without) after every step:
                   reads do not modify the table, so the walk must come out exactly the same */
                qhashtbl_obj_t o; memset(&o, 0, sizeof o); int n = atoi(a1), ended = 0, first = 1;
                char *rk = NULL; size_t rkn = 0;
                if (op[4]) { rkn = unhex(a2, b2); rk = dupstr(b2, rkn); }
                static char buf[1 << 22]; size_t bl = 0; buf[0] = 0;
                for (int i = 0; i < n; i++) {
                    errno = ENOMEM;
                    if (!qhashtbl_getnext(t, &o, true)) {
                        ended = errno == ENOENT ? 1 : 2;
                        /* the end is stable: asking again reports the end again and leaves the object alone */
                        if (ended == 1 && qhashtbl_getnext(t, &o, true)) { ended = 3; free(o.name); free(o.data); }
                        break;
                    }
                    FILE *m = fmemopen(buf + bl, sizeof buf - bl, "w");
                    if (!first) fputc(',', m); first = 0;
                    puthex(m, o.name, strlen(o.name)); fputc('=', m); puthex(m, o.data, o.size);
                    bl += ftell(m); fclose(m);
                    scribble_free(o.name, strlen(o.name) + 1); scribble_free(o.data, o.size);
                    /* o.name keeps its (now dangling) non-NULL value: getnext only tests it against NULL */
                    if (rk) { size_t sz = 0; void *d = qhashtbl_get(t, rk, &sz, true); if (d) scribble_free(d, sz); (void)qhashtbl_getstr(t, rk, false); }
                }
                if (rk) scribble_free(rk, rkn + 1);
                printf("walk %s %s", ended == 1 ? "end" : ended == 2 ? "end-without-ENOENT" : ended == 3 ? "end-then-another-entry" : "more", buf);
            } else printf("?? %s", op);
            QV_END;
            if (QV_TRY(20)) { dump(t); QV_END; } else { printf(" DUMP-%s", qv_sig == SIGALRM ? "TIMEOUT" : "CRASH"); dead = 1; }
            printf("\n");
        } else { printf("%s\n", qv_sig == SIGALRM ? "TIMEOUT" : "CRASH"); dead = 1; }
        fflush(stdout);
    }
    if (t && !dead) qhashtbl_free(t);
    free(prevmap);
    return 0;
}
