/* C15 / C11 / C12 harness: every container of qlibc behind one op-per-line protocol, linked with
   --wrap=malloc,calloc,realloc,free,strdup,memcpy,memmove,pthread_mutex_trylock,pthread_mutex_unlock.

   For every container TWO instances are kept: A (subject to fault injection, every allocator/copy/lock call made inside an
   API call on A is recorded) and B (reference, never injected).  An op that A reports as failed *because an injected
   allocation failure fired* is not applied to B; every other op is applied to B too.  After EVERY op
     - a non-allocating dump of A and of B through public struct fields must be equal           (C15 oracle)
     - structural self-checks of A must pass                                                    (C15 "still valid")
     - the set of live blocks A allocated and did not hand out must equal the set reachable from A (C11: no leak, no dangling)
     - copies handed out earlier must still hold the bytes they held when they were returned     (C12 monitor)
   Caller data lives in exact-size heap blocks that are scribbled over and freed right after each call.

   Output, one line per op, fields separated by " | ":
     <op> | r=<result> e=<errno class> inj=<fired> rep=<ok|fail> app=<applied to B> | ev=<events> | cp=<copy events> | own=<reachable ids>
          | lock=<delta> flags=<...> | A=<dump> | B=<same|dump> | chk=<self-check>
   events: a<id>:<size> (successful allocation, ids = 1,2,... in allocation order over A's life), x:<size> (request made to fail),
           f<id>, r<old>><new>:<size> (realloc that moved), f? (free of a block that is not a live tracked block), R<id> (handed to the caller).
   copy events (dst inside a live block of A): c<dst><<src>  with src = block id | C (caller buffer) | S (anything else) */
#include "common.h"
#include "qlibc.h"
#include <pthread.h>
#include <assert.h>
#include <stdarg.h>
#include "qinternal.h"

void *__real_malloc(size_t); void *__real_calloc(size_t, size_t); void *__real_realloc(void *, size_t); void __real_free(void *);
char *__real_strdup(const char *); void *__real_memcpy(void *, const void *, size_t); void *__real_memmove(void *, const void *, size_t);
int __real_pthread_mutex_trylock(pthread_mutex_t *); int __real_pthread_mutex_unlock(pthread_mutex_t *);

enum { M_OFF = 0, M_A = 1, M_B = 2 };
static int mode = M_OFF;
typedef struct { unsigned char *p; size_t size; int owner, id, live, given; } blk_t;
#define NB (1 << 16)
static blk_t tab[NB];
static int ntab;
static int gid[3];
static int nreq, failk, failfrom, fired;
static int lockdelta, ovl, oob, badfree, dblfree, xfree, uaf, givenfree, givenwrite;
static char evb[1 << 18]; static size_t evn;
static char cpb[1 << 20]; static size_t cpn;
static struct { const unsigned char *p; size_t n; } crange[8]; static int ncrange;
static int live_idx[1 << 14]; static int nlive;            /* indexes into tab of live A blocks (for range look-ups) */
static int used_idx[NB / 2 + 8]; static int nused;         /* every slot of tab in use during this history */
static int liveB;

static void ev(const char *fmt, ...) {
    va_list ap; va_start(ap, fmt);
    if (evn + 64 < sizeof evb) { if (evn) evb[evn++] = ','; evn += vsnprintf(evb + evn, sizeof evb - evn, fmt, ap); }
    va_end(ap);
}
static void cpev(const char *fmt, ...) {
    va_list ap; va_start(ap, fmt);
    if (cpn + 64 < sizeof cpb) { if (cpn) cpb[cpn++] = ','; cpn += vsnprintf(cpb + cpn, sizeof cpb - cpn, fmt, ap); }
    va_end(ap);
}
static unsigned hptr(const void *p) { uint64_t x = (uint64_t)(uintptr_t)p; x ^= x >> 17; x *= 0x9E3779B97F4A7C15ull; return (unsigned)(x >> 40) & (NB - 1); }
static blk_t *lookup(const void *p) {
    unsigned h = hptr(p);
    for (int i = 0; i < NB; i++) { blk_t *b = &tab[(h + i) & (NB - 1)]; if (!b->p) return NULL; if (b->p == p) return b; }
    return NULL;
}
static blk_t *reg(void *p, size_t n) {
    unsigned h = hptr(p); blk_t *b = NULL;
    for (int i = 0; i < NB; i++) { b = &tab[(h + i) & (NB - 1)]; if (!b->p) { ntab++; used_idx[nused++] = (int)(b - tab); break; } if (b->p == p) break; }
    if (ntab > NB / 2) { fprintf(stderr, "h_api: block table full\n"); _exit(4); }
    b->p = p; b->size = n; b->owner = mode; b->id = ++gid[mode]; b->live = 1; b->given = 0;
    if (mode == M_A) { if (nlive < (int)(sizeof live_idx / sizeof live_idx[0])) live_idx[nlive++] = (int)(b - tab); }
    else liveB++;
    return b;
}
static void unlive(blk_t *b) {
    b->live = 0;
    if (b->owner == M_A) { for (int i = 0; i < nlive; i++) if (live_idx[i] == (int)(b - tab)) { live_idx[i] = live_idx[--nlive]; break; } }
    else liveB--;
}
static void reset_blocks(void) {
    for (int k = 0; k < nused; k++) { int i = used_idx[k]; if (tab[i].p) {
#ifndef QV_ASAN
        __real_free(tab[i].p);             /* quarantined (freed) blocks and leaked ones alike */
#else
        if (tab[i].live) __real_free(tab[i].p);
#endif
        tab[i].p = NULL;
    } }
    ntab = 0; nlive = 0; nused = 0; liveB = 0; gid[1] = gid[2] = 0;
}
/* `putself`: the caller passes pointers it got from the container (newmem=false) back into put().  While such a call runs the
   aliased ranges count as caller data (event c<dst><C like any put); reading them after their block was freed is a use after free. */
static struct { const unsigned char *p; size_t n; blk_t *b; } alias[2]; static int nalias;
static int should_fail(void) { return (failk && nreq == failk) || (failfrom && nreq >= failfrom); }
static blk_t *range_live(const void *q) {               /* live block of A containing q */
    for (int i = 0; i < nlive; i++) { blk_t *b = &tab[live_idx[i]]; if ((unsigned char *)q >= b->p && (unsigned char *)q < b->p + (b->size ? b->size : 1)) return b; }
    return NULL;
}
static void *trk_alloc(size_t n, int zero) {
    if (mode == M_A) { nreq++; if (should_fail()) { ev("x:%zu", n); fired = 1; errno = ENOMEM; return NULL; } }
    void *p = __real_malloc(n ? n : 1);
    if (!p) { fprintf(stderr, "h_api: out of memory\n"); _exit(4); }
    memset(p, zero ? 0 : 0xCD, n ? n : 1);
    blk_t *b = reg(p, n);
    if (mode == M_A) ev("a%d:%zu", b->id, n);
    return p;
}
void *__wrap_malloc(size_t n) { return mode == M_OFF ? __real_malloc(n) : trk_alloc(n, 0); }
void *__wrap_calloc(size_t a, size_t b) { return mode == M_OFF ? __real_calloc(a, b) : trk_alloc(a * b, 1); }
static void trk_free(blk_t *b) {
    unlive(b);
#ifndef QV_ASAN
    memset(b->p, 0xDD, b->size ? b->size : 1);            /* quarantine: released by reset_blocks() */
#else
    __real_free(b->p);
#endif
}
void __wrap_free(void *p) {
    if (!p) return;
    blk_t *b = lookup(p);
    if (!b) {
        if (mode == M_OFF) { __real_free(p); return; }
        badfree++; if (mode == M_A) ev("f?"); return;       /* a block the library did not allocate (caller memory?) */
    }
    if (!b->live) { dblfree++; if (mode == M_A) ev("f!%d", b->id); return; }
    if (mode != M_OFF) {
        if (b->owner != mode) xfree++;
        if (b->given) givenfree++;
        if (mode == M_A) ev("f%d", b->id);
    }
    trk_free(b);
}
void *__wrap_realloc(void *p, size_t n) {
    if (mode == M_OFF) return __real_realloc(p, n);
    if (!p) return trk_alloc(n, 0);
    blk_t *b = lookup(p);
    if (!b || !b->live) { badfree++; if (mode == M_A) ev("r?"); return NULL; }
    if (mode == M_A) { nreq++; if (should_fail()) { ev("x:%zu", n); fired = 1; errno = ENOMEM; return NULL; } }
    unsigned char *q = __real_malloc(n ? n : 1); memset(q, 0xCD, n ? n : 1);
    __real_memcpy(q, b->p, n < b->size ? n : b->size);
    int oldid = b->id, og = b->given;
    trk_free(b);
    blk_t *nb = reg(q, n); (void)og;
    if (mode == M_A) ev("r%d>%d:%zu", oldid, nb->id, n);
    return q;
}
static void note_copy(void *d, const void *s, size_t n, int is_memcpy) {
    if (mode != M_A || n == 0) return;
    if (is_memcpy && (unsigned char *)d < (const unsigned char *)s + n && (const unsigned char *)s < (unsigned char *)d + n) ovl++;
    blk_t *db = range_live(d);
    if (!db) {                                              /* destination is not a live block of A: a block handed out earlier? */
        for (int k = 0; k < nused; k++) { int i = used_idx[k]; if (tab[i].p && tab[i].owner == M_A && (unsigned char *)d >= tab[i].p && (unsigned char *)d < tab[i].p + tab[i].size) { if (!tab[i].live) uaf++; } }
        return;
    }
    if (db->given) givenwrite++;
    if ((unsigned char *)d + n > db->p + db->size) oob++;
    for (int i = 0; i < nalias; i++) if ((const unsigned char *)s >= alias[i].p && (const unsigned char *)s < alias[i].p + (alias[i].n ? alias[i].n : 1)) {
        if (alias[i].b && !alias[i].b->live) uaf++;
        else if ((const unsigned char *)s + n > alias[i].p + alias[i].n) oob++;
        cpev("c%d<C", db->id); return;
    }
    blk_t *sb = range_live(s);
    if (sb) { if ((const unsigned char *)s + n > sb->p + sb->size) oob++; cpev("c%d<%d", db->id, sb->id); return; }
    for (int i = 0; i < ncrange; i++) if ((const unsigned char *)s >= crange[i].p && (const unsigned char *)s < crange[i].p + (crange[i].n ? crange[i].n : 1)) {
        if ((const unsigned char *)s + n > crange[i].p + crange[i].n) oob++;
        cpev("c%d<C", db->id); return;
    }
    for (int k = 0; k < nused; k++) { int i = used_idx[k]; if (tab[i].p && tab[i].owner == M_A && !tab[i].live && (const unsigned char *)s >= tab[i].p && (const unsigned char *)s < tab[i].p + tab[i].size) uaf++; }
    cpev("c%d<S", db->id);
}
void *__wrap_memcpy(void *d, const void *s, size_t n) { note_copy(d, s, n, 1); return __real_memmove(d, s, n); }
void *__wrap_memmove(void *d, const void *s, size_t n) { note_copy(d, s, n, 0); return __real_memmove(d, s, n); }
char *__wrap_strdup(const char *s) {
    if (mode == M_OFF) return __real_strdup(s);
    size_t n = strlen(s) + 1; char *p = trk_alloc(n, 0);
    if (p) { note_copy(p, s, n, 0); __real_memcpy(p, s, n); }
    return p;
}
int __wrap_pthread_mutex_trylock(pthread_mutex_t *m) { int r = __real_pthread_mutex_trylock(m); if (r == 0 && mode == M_A) lockdelta++; return r; }
int __wrap_pthread_mutex_unlock(pthread_mutex_t *m) { int r = __real_pthread_mutex_unlock(m); if (r == 0 && mode == M_A) lockdelta--; return r; }

/* ------------------------------------------------------------------ containers */
enum { T_NONE, T_TREE, T_HASH, T_LTBL, T_LIST, T_VEC, T_QUEUE, T_STACK, T_GROW, T_HARR };
typedef struct {
    void *c;                                     /* the container */
    qtreetbl_obj_t tcur; qhashtbl_obj_t hcur; qlisttbl_obj_t lcur; qlist_obj_t scur; qvector_obj_t vcur; int acur;
    void *mem; size_t memsize;                   /* harr region */
} inst_t;
static int ctype; static inst_t IA, IB; static int dead;
static size_t vobjsize;

static char line[1 << 20], a1[1 << 19], a2[1 << 19];
static unsigned char b1[1 << 18], b2[1 << 18];

/* caller buffers: exact size, registered as caller ranges while the call runs */
static void *cbuf(const unsigned char *p, size_t n) {
    unsigned char *q = __real_malloc(n ? n : 1); __real_memcpy(q, p, n);
    if (ncrange < 8) { crange[ncrange].p = q; crange[ncrange].n = n; ncrange++; }
    return q;
}
static struct { void *p, *base; } creg[16];
static void *cstr(const unsigned char *p, size_t n) {     /* NUL-terminated; at offsets 0..3 of its block in turn (names of any alignment) */
    static unsigned ctr; unsigned char *base = __real_malloc(n + 1 + 4), *q = base + (ctr++ & 3); __real_memcpy(q, p, n); q[n] = 0;
    int reg = 0; for (int i = 0; i < 16 && !reg; i++) if (!creg[i].p) { creg[i].p = q; creg[i].base = base; reg = 1; }
    if (!reg) { memmove(base, q, n + 1); q = base; }
    if (ncrange < 8) { crange[ncrange].p = q; crange[ncrange].n = n + 1; ncrange++; }
    return q;
}
/* text for the formatted methods: len characters; even len: "%s" with a caller string of that length, odd len: "%0*d" (zero padded 7) */
static char *ftext(size_t len) {
    unsigned char *q = __real_malloc(len + 1);
    for (size_t i = 0; i < len; i++) q[i] = (unsigned char)('a' + i % 26);
    q[len] = 0;
    if (ncrange < 8) { crange[ncrange].p = q; crange[ncrange].n = len + 1; ncrange++; }
    return (char *)q;
}
#define FMTCALL(call_s, call_d) do { if (flen % 2 == 0) { r = call_s; } else { r = call_d; } } while (0)
static void cfree(void *p, size_t n) {
    if (!p) return; memset(p, 0x5A, n ? n : 1);
    for (int i = 0; i < 16; i++) if (creg[i].p == p) { __real_free(creg[i].base); creg[i].p = NULL; return; }
    __real_free(p);
}

/* returned copies that are kept and re-inspected later (C12) */
typedef struct { unsigned char *p; size_t n; unsigned char *snap; } kept_t;
static kept_t kept[512]; static int nkept; static int keptbad;
static void kept_check(void) { for (int i = 0; i < nkept; i++) if (kept[i].n && memcmp(kept[i].p, kept[i].snap, kept[i].n)) keptbad++; }
static void kept_drop(int i) { if (kept[i].n && memcmp(kept[i].p, kept[i].snap, kept[i].n)) keptbad++; free(kept[i].p); __real_free(kept[i].snap); kept[i] = kept[--nkept]; }
/* a block returned by a call on A: mark as handed out, record R event, keep for later inspection */
static void given(void *p) {
    if (!p) return;
    blk_t *b = lookup(p);
    if (!b || !b->live || b->owner != M_A) { ev("R?"); return; }
    b->given = 1; ev("R%d", b->id);
    if (nkept == 512) kept_drop(0);
    kept[nkept].p = p; kept[nkept].n = b->size; kept[nkept].snap = __real_malloc(b->size ? b->size : 1); __real_memcpy(kept[nkept].snap, p, b->size); nkept++;
}
static void bfree(void *p) { if (p) free(p); }             /* copies returned by B are released at once */

/* ---- reachable blocks of A, dumps, self-checks ---- */
static int reach[1 << 14]; static int nreach; static int dangling;
static void R(const void *p) {
    if (!p) return;
    blk_t *b = lookup(p);
    if (!b || !b->live || b->owner != M_A) { dangling++; return; }
    if (nreach < (int)(sizeof reach / sizeof reach[0])) reach[nreach++] = b->id;
}
static void walk_tree(qtreetbl_obj_t *o) { if (!o) return; R(o); R(o->name); R(o->data); walk_tree(o->left); walk_tree(o->right); }
static void walk_list(qlist_t *l) { if (!l) return; R(l); R(l->qmutex); for (qlist_obj_t *o = l->first; o; o = o->next) { R(o); R(o->data); } }
static void walk(inst_t *I) {
    nreach = 0; dangling = 0;
    if (!I->c) return;
    switch (ctype) {
    case T_TREE: { qtreetbl_t *t = I->c; R(t); R(t->qmutex); walk_tree(t->root); break; }
    case T_HASH: { qhashtbl_t *t = I->c; R(t); R(t->qmutex); R(t->slots);
        for (size_t i = 0; i < t->range; i++) for (qhashtbl_obj_t *o = t->slots[i]; o; o = o->next) { R(o); R(o->name); R(o->data); } break; }
    case T_LTBL: { qlisttbl_t *t = I->c; R(t); R(t->qmutex); for (qlisttbl_obj_t *o = t->first; o; o = o->next) { R(o); R(o->name); R(o->data); } break; }
    case T_LIST: walk_list(I->c); break;
    case T_VEC: { qvector_t *v = I->c; R(v); R(v->qmutex); R(v->data); break; }
    case T_QUEUE: { qqueue_t *q = I->c; R(q); walk_list(q->list); break; }
    case T_STACK: { qstack_t *q = I->c; R(q); walk_list(q->list); break; }
    case T_GROW: { qgrow_t *q = I->c; R(q); walk_list(q->list); break; }
    case T_HARR: R(I->c); break;
    }
}
static int cmpint(const void *a, const void *b) { return *(const int *)a - *(const int *)b; }

static void dshape(FILE *f, qtreetbl_obj_t *o) {
    if (!o) { fputc('.', f); return; }
    fprintf(f, "(%c ", o->red ? 'R' : 'B'); if (o->name) puthex(f, o->name, o->namesize); else fputs("NULL", f);
    fputc('=', f); puthex(f, o->data, o->data ? o->datasize : 0);
    fputc(' ', f); dshape(f, o->left); fputc(' ', f); dshape(f, o->right); fputc(')', f);
}
static void dlist(FILE *f, qlist_t *l) {
    fprintf(f, "num=%zu datasum=%zu max=%zu ", l->num, l->datasum, l->max);
    int first = 1; for (qlist_obj_t *o = l->first; o; o = o->next) { if (!first) fputc(',', f); first = 0; puthex(f, o->data, o->size); }
}
static uint32_t fnv(const unsigned char *p, size_t n) { uint32_t h = 2166136261u; for (size_t i = 0; i < n; i++) { h ^= p[i]; h *= 16777619u; } return h; }
static void dump(FILE *f, inst_t *I) {
    if (!I->c) { fputs("none", f); return; }
    switch (ctype) {
    case T_TREE: { qtreetbl_t *t = I->c; fprintf(f, "num=%zu ", t->num); dshape(f, t->root); break; }
    case T_HASH: { qhashtbl_t *t = I->c; fprintf(f, "num=%zu range=%zu ", t->num, t->range);
        for (size_t i = 0; i < t->range; i++) if (t->slots[i]) { fprintf(f, "%zu[", i);
            for (qhashtbl_obj_t *o = t->slots[i]; o; o = o->next) { puthex(f, o->name, o->name ? strlen(o->name) : 0); fputc('=', f); puthex(f, o->data, o->size); if (o->next) fputc(',', f); }
            fputs("]", f); }
        break; }
    case T_LTBL: { qlisttbl_t *t = I->c; fprintf(f, "num=%zu ", t->num);
        for (qlisttbl_obj_t *o = t->first; o; o = o->next) { puthex(f, o->name, o->name ? strlen(o->name) : 0); fputc('=', f); puthex(f, o->data, o->size); if (o->next) fputc(',', f); }
        break; }
    case T_LIST: dlist(f, I->c); break;
    case T_QUEUE: dlist(f, ((qqueue_t *)I->c)->list); break;
    case T_STACK: dlist(f, ((qstack_t *)I->c)->list); break;
    case T_GROW: dlist(f, ((qgrow_t *)I->c)->list); break;
    case T_VEC: { qvector_t *v = I->c; fprintf(f, "num=%zu max=%zu objsize=%zu ", v->num, v->max, v->objsize); puthex(f, v->data, v->num * v->objsize); break; }
    case T_HARR: { qhasharr_t *t = I->c; qhasharr_data_t *d = t->data; fprintf(f, "max=%d used=%d num=%d img=%08x", d->maxslots, d->usedslots, d->num, fnv(I->mem, I->memsize)); break; }
    }
}
static int tcount(qtreetbl_obj_t *o) { return o ? 1 + tcount(o->left) + tcount(o->right) : 0; }
static qtreetbl_obj_t *tprev; static qtreetbl_t *tcur_tbl;
static int tinorder(qtreetbl_obj_t *o) {
    if (!o) return 1;
    if (!tinorder(o->left)) return 0;
    if (!o->name) return 0;
    if (tprev && tcur_tbl->compare(tprev->name, tprev->namesize, o->name, o->namesize) >= 0) return 0;
    tprev = o; return tinorder(o->right);
}
static int chk_list(qlist_t *l) {
    size_t n = 0, sum = 0; qlist_obj_t *p = NULL;
    for (qlist_obj_t *o = l->first; o; p = o, o = o->next) { if (o->prev != p) return 1; if (!o->data || !o->size) return 2; n++; sum += o->size; if (n > l->num + 1) return 3; }
    if (l->last != p) return 4; if (n != l->num) return 5; if (sum != l->datasum) return 6;
    return 0;
}
static int selfcheck(inst_t *I) {
    if (!I->c) return 0;
    switch (ctype) {
    case T_TREE: { qtreetbl_t *t = I->c; int c = qtreetbl_check(t); if (c) return c; if ((size_t)tcount(t->root) != t->num) return 10;
        tprev = NULL; tcur_tbl = t; if (!tinorder(t->root)) return 11; return 0; }
    case T_HASH: { qhashtbl_t *t = I->c; size_t n = 0;
        for (size_t i = 0; i < t->range; i++) for (qhashtbl_obj_t *o = t->slots[i]; o; o = o->next) {
            if (!o->name || !o->data) return 1; if (o->hash % t->range != i) return 2; if (o->hash != qhashmurmur3_32(o->name, strlen(o->name))) return 3; if (++n > t->num + 1) return 4; }
        return n == t->num ? 0 : 5; }
    case T_LTBL: { qlisttbl_t *t = I->c; size_t n = 0; qlisttbl_obj_t *p = NULL;
        for (qlisttbl_obj_t *o = t->first; o; p = o, o = o->next) { if (o->prev != p) return 1; if (!o->name || !o->data) return 2; if (o->hash != qhashmurmur3_32(o->name, strlen(o->name))) return 3; if (++n > t->num + 1) return 4; }
        if (t->last != p) return 5; return n == t->num ? 0 : 6; }
    case T_LIST: return chk_list(I->c);
    case T_QUEUE: return chk_list(((qqueue_t *)I->c)->list);
    case T_STACK: return chk_list(((qstack_t *)I->c)->list);
    case T_GROW: return chk_list(((qgrow_t *)I->c)->list);
    case T_VEC: { qvector_t *v = I->c; if (v->num > v->max) return 1; if ((v->max > 0) != (v->data != NULL)) return 2; if (v->objsize != vobjsize) return 3; return 0; }
    case T_HARR: { qhasharr_t *t = I->c; qhasharr_data_t *d = t->data; if (d->usedslots > d->maxslots || d->num > d->usedslots) return 1; return 0; }
    }
    return 0;
}

/* ---- result formatting ---- */
static char rA[1 << 20], rB[1 << 20];
static FILE *rf;
static void ropen(char *buf) { rf = fmemopen(buf, 1 << 20, "w"); }
static void rclose(void) { fputc(0, rf); fclose(rf); }
static const char *eclass(int e) { return e == 0 ? "0" : e == ENOMEM ? "ENOMEM" : e == ENOENT ? "ENOENT" : e == EINVAL ? "EINVAL" : e == ERANGE ? "ERANGE" : e == ENOBUFS ? "ENOBUFS" : "E?"; }

static void begin_call(void) { nreq = 0; fired = 0; lockdelta = 0; }

/* One API call on instance I (which = M_A or M_B).  Writes the canonical result into rf, returns 1 when the call reports failure.
   *perr receives errno of the call. ret[] receives blocks returned to the caller (A: kept; B: freed). */
static qtreetbl_obj_t *tfind_data(qtreetbl_obj_t *o, const void *d) {
    if (!o) return NULL; if (o->data == d) return o;
    qtreetbl_obj_t *r = tfind_data(o->left, d); return r ? r : tfind_data(o->right, d);
}
static void set_alias(int which, const void *name, size_t namesize, const void *data, size_t datasize) {
    nalias = 0;
    if (which != M_A) return;
    alias[nalias].p = data; alias[nalias].n = datasize; alias[nalias].b = range_live(data); nalias++;
    alias[nalias].p = name; alias[nalias].n = namesize; alias[nalias].b = range_live(name); nalias++;
}
/* "off:len:mode" of putself: value = stored value[off, off+len); mode bit 0: the key pointer is the stored name too; len -1 = to the end */
#define SELFARGS size_t so = 0, sl = 0; long sll = 0; int sm = 0; sscanf(a2, "%zu:%ld:%d", &so, &sll, &sm)
#define SELFLEN(ds) (sl = sll < 0 ? ((ds) >= so ? (ds) - so : 0) : (size_t)sll)
static int nret; static void *ret[128];
static int do_op(int which, inst_t *I, const char *op, int *perr) {
    int failed = 0; nret = 0; ncrange = 0; nalias = 0;
    size_t n1 = unhex(a1, b1), n2 = unhex(a2, b2);
    int idx = atoi(a1);
    #define ENTER do { errno = 0; mode = which; } while (0)
    #define LEAVE do { *perr = errno; mode = M_OFF; } while (0)
    if (!strcmp(op, "new")) {
        /* "new <type> x y z": a1 = type, a2 = rest */
        int x = 0, y = 0, z = 0; sscanf(a2, "%d %d %d", &x, &y, &z);
        void *c = NULL;
        if (ctype == T_HARR) { I->memsize = qhasharr_calculate_memsize(x); I->mem = __real_malloc(I->memsize); memset(I->mem, 0xEE, I->memsize); }
        ENTER;
        switch (ctype) {
        case T_TREE: c = qtreetbl(x); break;
        case T_HASH: c = qhashtbl(x, y); break;
        case T_LTBL: c = qlisttbl(x); break;
        case T_LIST: c = qlist(x); break;
        case T_VEC: c = qvector(x, y, z); vobjsize = y; break;
        case T_QUEUE: c = qqueue(x); break;
        case T_STACK: c = qstack(x); break;
        case T_GROW: c = qgrow(x); break;
        case T_HARR: c = qhasharr(I->mem, I->memsize); break;
        }
        LEAVE;
        I->c = c; failed = (c == NULL); fprintf(rf, "%s", c ? "obj" : "NULL");
        if (!c && I->mem) { __real_free(I->mem); I->mem = NULL; }
        memset(&I->tcur, 0, sizeof I->tcur); memset(&I->hcur, 0, sizeof I->hcur); memset(&I->lcur, 0, sizeof I->lcur); memset(&I->scur, 0, sizeof I->scur);
        memset(&I->vcur, 0, sizeof I->vcur); I->acur = 0;
        return failed;
    }
    if (!I->c) { fprintf(rf, "NOCONT"); *perr = 0; return 0; }
    if (!strcmp(op, "free")) {
        ENTER;
        switch (ctype) {
        case T_TREE: qtreetbl_free(I->c); break; case T_HASH: qhashtbl_free(I->c); break; case T_LTBL: qlisttbl_free(I->c); break;
        case T_LIST: qlist_free(I->c); break; case T_VEC: qvector_free(I->c); break; case T_QUEUE: qqueue_free(I->c); break;
        case T_STACK: qstack_free(I->c); break; case T_GROW: qgrow_free(I->c); break; case T_HARR: qhasharr_free(I->c); break;
        }
        LEAVE; I->c = NULL; fprintf(rf, "freed");
        if (I->mem) { __real_free(I->mem); I->mem = NULL; }
        return 0;
    }
    if (!strcmp(op, "first")) {                    /* reset the walk cursor (no API call) */
        memset(&I->tcur, 0, sizeof I->tcur); memset(&I->hcur, 0, sizeof I->hcur); memset(&I->lcur, 0, sizeof I->lcur); memset(&I->scur, 0, sizeof I->scur);
        memset(&I->vcur, 0, sizeof I->vcur); I->acur = 0; fprintf(rf, "ok"); *perr = 0; return 0;
    }
    #define BOOLRES(r) do { fprintf(rf, "%s", (r) ? "true" : "false"); failed = !(r); } while (0)
    #define PTRRES(p, n) do { if (p) { puthex(rf, (p), (n)); ret[nret++] = (p); } else { fprintf(rf, "NULL"); failed = 1; } } while (0)
    switch (ctype) {
    case T_TREE: { qtreetbl_t *t = I->c;
        if (!strcmp(op, "put")) { void *k = cbuf(b1, n1), *v = n2 ? cbuf(b2, n2) : NULL; ENTER; bool r = qtreetbl_putobj(t, k, n1, v, n2); LEAVE; cfree(k, n1); cfree(v, n2); BOOLRES(r); }
        else if (!strcmp(op, "putstrf")) { char *k = cstr(b1, n1); size_t flen = (size_t)atol(a2); char *tx = ftext(flen); bool r; ENTER;
            FMTCALL(qtreetbl_putstrf(t, k, "%s", tx), qtreetbl_putstrf(t, k, "%0*d", (int)flen, 7)); LEAVE; cfree(k, n1 + 1); cfree(tx, flen + 1); BOOLRES(r); }
        else if (!strcmp(op, "putself")) { void *k = cbuf(b1, n1); SELFARGS; size_t ds = 0; void *d = qtreetbl_getobj(t, k, n1, &ds, false);
            qtreetbl_obj_t *o = d ? tfind_data(t->root, d) : NULL;
            if (!o || so + SELFLEN(ds) > ds || !sl) { cfree(k, n1); fprintf(rf, "noself"); *perr = 0; }
            else { set_alias(which, o->name, o->namesize, d, ds); ENTER; bool r = qtreetbl_putobj(t, (sm & 1) ? o->name : k, n1, (char *)d + so, sl); LEAVE; nalias = 0; cfree(k, n1); BOOLRES(r); } }
        else if (!strcmp(op, "removeself")) { void *k = cbuf(b1, n1); size_t ds = 0; void *d = qtreetbl_getobj(t, k, n1, &ds, false);
            qtreetbl_obj_t *o = d ? tfind_data(t->root, d) : NULL;
            if (!o) { cfree(k, n1); fprintf(rf, "noself"); *perr = 0; }
            else { set_alias(which, o->name, o->namesize, d, ds); ENTER; bool r = qtreetbl_removeobj(t, o->name, n1); LEAVE; nalias = 0; cfree(k, n1); BOOLRES(r); } }
        else if (!strcmp(op, "get")) { void *k = cbuf(b1, n1); size_t ds = 0; ENTER; void *d = qtreetbl_getobj(t, k, n1, &ds, true); LEAVE; cfree(k, n1); PTRRES(d, ds); }
        else if (!strcmp(op, "remove")) { void *k = cbuf(b1, n1); ENTER; bool r = qtreetbl_removeobj(t, k, n1); LEAVE; cfree(k, n1); BOOLRES(r); }
        else if (!strcmp(op, "min") || !strcmp(op, "max")) { size_t ns = 0; ENTER; void *n = op[1] == 'i' ? qtreetbl_find_min(t, &ns) : qtreetbl_find_max(t, &ns); LEAVE; PTRRES(n, ns); }
        else if (!strcmp(op, "next")) { ENTER; bool r = qtreetbl_getnext(t, &I->tcur, true); LEAVE;
            if (r) { if (I->tcur.name) puthex(rf, I->tcur.name, I->tcur.namesize); else fputs("NULL", rf); fputc('=', rf);
                     if (I->tcur.data) puthex(rf, I->tcur.data, I->tcur.datasize); else fputs(I->tcur.datasize ? "NULL" : "-", rf);
                     ret[nret++] = I->tcur.name; ret[nret++] = I->tcur.data; }
            else { fprintf(rf, "false"); failed = 1; } }
        else if (!strcmp(op, "near")) { void *k = cbuf(b1, n1); ENTER; qtreetbl_obj_t o = qtreetbl_find_nearest(t, k, n1, true); LEAVE; cfree(k, n1);
            if (o.name) { puthex(rf, o.name, o.namesize); fputc('=', rf); if (o.data) puthex(rf, o.data, o.datasize); else fputs(o.datasize ? "NULL" : "-", rf); ret[nret++] = o.name; ret[nret++] = o.data; I->tcur = o; }
            else { fprintf(rf, "NULL"); failed = 1; } }
        else if (!strcmp(op, "clear")) { ENTER; qtreetbl_clear(t); LEAVE; fprintf(rf, "ok"); }
        else if (!strcmp(op, "size")) { ENTER; size_t n = qtreetbl_size(t); LEAVE; fprintf(rf, "%zu", n); }
        else fprintf(rf, "??");
        break; }
    case T_HASH: { qhashtbl_t *t = I->c;
        if (!strcmp(op, "put")) { char *k = cstr(b1, n1); void *v = cbuf(b2, n2); ENTER; bool r = qhashtbl_put(t, k, v, n2); LEAVE; cfree(k, n1 + 1); cfree(v, n2); BOOLRES(r); }
        else if (!strcmp(op, "putstrf")) { char *k = cstr(b1, n1); size_t flen = (size_t)atol(a2); char *tx = ftext(flen); bool r; ENTER;
            FMTCALL(qhashtbl_putstrf(t, k, "%s", tx), qhashtbl_putstrf(t, k, "%0*d", (int)flen, 7)); LEAVE; cfree(k, n1 + 1); cfree(tx, flen + 1); BOOLRES(r); }
        else if (!strcmp(op, "putself")) { char *k = cstr(b1, n1); SELFARGS; size_t ds = 0; void *d = qhashtbl_get(t, k, &ds, false);
            qhashtbl_obj_t *o = NULL;
            if (d) for (size_t i = 0; i < t->range && !o; i++) for (qhashtbl_obj_t *x = t->slots[i]; x; x = x->next) if (x->data == d) { o = x; break; }
            if (!o || so + SELFLEN(ds) > ds || !sl) { cfree(k, n1 + 1); fprintf(rf, "noself"); *perr = 0; }
            else { set_alias(which, o->name, strlen(o->name) + 1, d, ds); ENTER; bool r = qhashtbl_put(t, (sm & 1) ? o->name : k, (char *)d + so, sl); LEAVE; nalias = 0; cfree(k, n1 + 1); BOOLRES(r); } }
        else if (!strcmp(op, "removeself")) { char *k = cstr(b1, n1); size_t ds = 0; void *d = qhashtbl_get(t, k, &ds, false);
            qhashtbl_obj_t *o = NULL;
            if (d) for (size_t i = 0; i < t->range && !o; i++) for (qhashtbl_obj_t *x = t->slots[i]; x; x = x->next) if (x->data == d) { o = x; break; }
            if (!o) { cfree(k, n1 + 1); fprintf(rf, "noself"); *perr = 0; }
            else { set_alias(which, o->name, strlen(o->name) + 1, d, ds); ENTER; bool r = qhashtbl_remove(t, o->name); LEAVE; nalias = 0; cfree(k, n1 + 1); BOOLRES(r); } }
        else if (!strcmp(op, "get")) { char *k = cstr(b1, n1); size_t ds = 0; ENTER; void *d = qhashtbl_get(t, k, &ds, true); LEAVE; cfree(k, n1 + 1); PTRRES(d, ds); }
        else if (!strcmp(op, "remove")) { char *k = cstr(b1, n1); ENTER; bool r = qhashtbl_remove(t, k); LEAVE; cfree(k, n1 + 1); BOOLRES(r); }
        else if (!strcmp(op, "next")) { ENTER; bool r = qhashtbl_getnext(t, &I->hcur, true); LEAVE;
            if (r) { puthex(rf, I->hcur.name, strlen(I->hcur.name)); fputc('=', rf); puthex(rf, I->hcur.data, I->hcur.size); ret[nret++] = I->hcur.name; ret[nret++] = I->hcur.data; }
            else { fprintf(rf, "false"); failed = 1; } }
        else if (!strcmp(op, "clear")) { ENTER; qhashtbl_clear(t); LEAVE; fprintf(rf, "ok"); }
        else if (!strcmp(op, "size")) { ENTER; size_t n = qhashtbl_size(t); LEAVE; fprintf(rf, "%zu", n); }
        else fprintf(rf, "??");
        break; }
    case T_LTBL: { qlisttbl_t *t = I->c;
        if (!strcmp(op, "put")) { char *k = cstr(b1, n1); void *v = cbuf(b2, n2); ENTER; bool r = qlisttbl_put(t, k, v, n2); LEAVE; cfree(k, n1 + 1); cfree(v, n2); BOOLRES(r); }
        else if (!strcmp(op, "putstrf")) { char *k = cstr(b1, n1); size_t flen = (size_t)atol(a2); char *tx = ftext(flen); bool r; ENTER;
            FMTCALL(qlisttbl_putstrf(t, k, "%s", tx), qlisttbl_putstrf(t, k, "%0*d", (int)flen, 7)); LEAVE; cfree(k, n1 + 1); cfree(tx, flen + 1); BOOLRES(r); }
        else if (!strcmp(op, "putself")) { char *k = cstr(b1, n1); SELFARGS; size_t ds = 0; void *d = qlisttbl_get(t, k, &ds, false);
            qlisttbl_obj_t *o = NULL;
            if (d) for (qlisttbl_obj_t *x = t->first; x; x = x->next) if (x->data == d) { o = x; break; }
            if (!o || so + SELFLEN(ds) > ds || !sl) { cfree(k, n1 + 1); fprintf(rf, "noself"); *perr = 0; }
            else { set_alias(which, o->name, strlen(o->name) + 1, d, ds); ENTER; bool r = qlisttbl_put(t, (sm & 1) ? o->name : k, (char *)d + so, sl); LEAVE; nalias = 0; cfree(k, n1 + 1); BOOLRES(r); } }
        else if (!strcmp(op, "removeself")) { char *k = cstr(b1, n1); size_t ds = 0; void *d = qlisttbl_get(t, k, &ds, false);
            qlisttbl_obj_t *o = NULL;
            if (d) for (qlisttbl_obj_t *x = t->first; x; x = x->next) if (x->data == d) { o = x; break; }
            if (!o) { cfree(k, n1 + 1); fprintf(rf, "noself"); *perr = 0; }
            else { set_alias(which, o->name, strlen(o->name) + 1, d, ds); ENTER; size_t r = qlisttbl_remove(t, o->name); LEAVE; nalias = 0; cfree(k, n1 + 1); fprintf(rf, "%zu", r); } }
        else if (!strcmp(op, "get")) { char *k = cstr(b1, n1); size_t ds = 0; ENTER; void *d = qlisttbl_get(t, k, &ds, true); LEAVE; cfree(k, n1 + 1); PTRRES(d, ds); }
        else if (!strcmp(op, "getmulti")) { char *k = cstr(b1, n1); size_t no = 0; ENTER; qlisttbl_data_t *m = qlisttbl_getmulti(t, k, true, &no); LEAVE; cfree(k, n1 + 1);
            if (m) { fprintf(rf, "n=%zu ", no); ret[nret++] = m; for (size_t i = 0; i < no && m[i].type == 2; i++) { if (i) fputc(',', rf); puthex(rf, m[i].data, m[i].size); if (nret < 127) ret[nret++] = m[i].data; } }
            else { fprintf(rf, "NULL n=%zu", no); failed = 1; } }
        else if (!strcmp(op, "remove")) { char *k = cstr(b1, n1); ENTER; size_t r = qlisttbl_remove(t, k); LEAVE; cfree(k, n1 + 1); fprintf(rf, "%zu", r); }
        else if (!strcmp(op, "next")) { ENTER; bool r = qlisttbl_getnext(t, &I->lcur, NULL, true); LEAVE;
            if (r) { puthex(rf, I->lcur.name, strlen(I->lcur.name)); fputc('=', rf); puthex(rf, I->lcur.data, I->lcur.size); ret[nret++] = I->lcur.name; ret[nret++] = I->lcur.data; }
            else { fprintf(rf, "false"); failed = 1; } }
        else if (!strcmp(op, "clear")) { ENTER; qlisttbl_clear(t); LEAVE; fprintf(rf, "ok"); }
        else if (!strcmp(op, "size")) { ENTER; size_t n = qlisttbl_size(t); LEAVE; fprintf(rf, "%zu", n); }
        else fprintf(rf, "??");
        break; }
    case T_LIST: { qlist_t *l = I->c;
        if (!strcmp(op, "addat")) { void *v = cbuf(b2, n2); ENTER; bool r = qlist_addat(l, idx, v, n2); LEAVE; cfree(v, n2); BOOLRES(r); }
        else if (!strcmp(op, "getat")) { size_t ds = 0; ENTER; void *d = qlist_getat(l, idx, &ds, true); LEAVE; PTRRES(d, ds); }
        else if (!strcmp(op, "popat")) { size_t ds = 0; ENTER; void *d = qlist_popat(l, idx, &ds); LEAVE; PTRRES(d, ds); }
        else if (!strcmp(op, "removeat")) { ENTER; bool r = qlist_removeat(l, idx); LEAVE; BOOLRES(r); }
        else if (!strcmp(op, "toarray")) { size_t ds = 0; ENTER; void *d = qlist_toarray(l, &ds); LEAVE; PTRRES(d, ds); }
        else if (!strcmp(op, "tostring")) { ENTER; char *d = qlist_tostring(l); LEAVE; PTRRES(d, d ? strlen(d) + 1 : 0); }
        else if (!strcmp(op, "reverse")) { ENTER; qlist_reverse(l); LEAVE; fprintf(rf, "ok"); }
        else if (!strcmp(op, "next")) { ENTER; bool r = qlist_getnext(l, &I->scur, true); LEAVE;
            if (r) { puthex(rf, I->scur.data, I->scur.size); ret[nret++] = I->scur.data; } else { fprintf(rf, "false"); failed = 1; } }
        else if (!strcmp(op, "clear")) { ENTER; qlist_clear(l); LEAVE; fprintf(rf, "ok"); }
        else if (!strcmp(op, "size")) { ENTER; size_t n = qlist_size(l); LEAVE; fprintf(rf, "%zu", n); }
        else if (!strcmp(op, "setsize")) { ENTER; size_t n = qlist_setsize(l, idx); LEAVE; fprintf(rf, "%zu", n); }
        else fprintf(rf, "??");
        break; }
    case T_VEC: { qvector_t *v = I->c;
        if (!strcmp(op, "addat")) { void *d = cbuf(b2, n2); ENTER; bool r = qvector_addat(v, idx, d); LEAVE; cfree(d, n2); BOOLRES(r); }
        else if (!strcmp(op, "addself")) { void *d = qvector_getat(v, atoi(a2), false);      /* the vector's own element, handed in by pointer */
            if (!d) { fprintf(rf, "noself"); *perr = 0; }
            else { ENTER; bool r = qvector_addat(v, idx, d); LEAVE; BOOLRES(r); } }
        else if (!strcmp(op, "addlast")) { void *d = cbuf(b1, n1); ENTER; bool r = qvector_addlast(v, d); LEAVE; cfree(d, n1); BOOLRES(r); }
        else if (!strcmp(op, "addfirst")) { void *d = cbuf(b1, n1); ENTER; bool r = qvector_addfirst(v, d); LEAVE; cfree(d, n1); BOOLRES(r); }
        else if (!strcmp(op, "setat")) { void *d = cbuf(b2, n2); ENTER; bool r = qvector_setat(v, idx, d); LEAVE; cfree(d, n2); BOOLRES(r); }
        else if (!strcmp(op, "getat")) { ENTER; void *d = qvector_getat(v, idx, true); LEAVE; PTRRES(d, v->objsize); }
        else if (!strcmp(op, "popat")) { ENTER; void *d = qvector_popat(v, idx); LEAVE; PTRRES(d, v->objsize); }
        else if (!strcmp(op, "removeat")) { ENTER; bool r = qvector_removeat(v, idx); LEAVE; BOOLRES(r); }
        else if (!strcmp(op, "resize")) { ENTER; bool r = qvector_resize(v, idx); LEAVE; BOOLRES(r); }
        else if (!strcmp(op, "reverse")) { ENTER; qvector_reverse(v); LEAVE; fprintf(rf, "ok"); failed = (*perr == ENOMEM); }
        else if (!strcmp(op, "toarray")) { size_t no = 0; ENTER; void *d = qvector_toarray(v, &no); LEAVE; PTRRES(d, no * v->objsize); }
        else if (!strcmp(op, "next")) { ENTER; bool r = qvector_getnext(v, &I->vcur, true); LEAVE;
            if (r) { puthex(rf, I->vcur.data, v->objsize); ret[nret++] = I->vcur.data; } else { fprintf(rf, "false"); failed = 1; } }
        else if (!strcmp(op, "clear")) { ENTER; qvector_clear(v); LEAVE; fprintf(rf, "ok"); }
        else if (!strcmp(op, "size")) { ENTER; size_t n = qvector_size(v); LEAVE; fprintf(rf, "%zu", n); }
        else fprintf(rf, "??");
        break; }
    case T_QUEUE: case T_STACK: {
        qqueue_t *q = I->c; qstack_t *s = I->c; int isq = ctype == T_QUEUE;
        if (!strcmp(op, "push")) { void *v = cbuf(b1, n1); ENTER; bool r = isq ? qqueue_push(q, v, n1) : qstack_push(s, v, n1); LEAVE; cfree(v, n1); BOOLRES(r); }
        else if (!strcmp(op, "pushstr")) { char *v = cstr(b1, n1); ENTER; bool r = isq ? qqueue_pushstr(q, v) : qstack_pushstr(s, v); LEAVE; cfree(v, n1 + 1); BOOLRES(r); }
        else if (!strcmp(op, "pushint")) { ENTER; bool r = isq ? qqueue_pushint(q, atoll(a1)) : qstack_pushint(s, atoll(a1)); LEAVE; BOOLRES(r); }
        else if (!strcmp(op, "pop")) { size_t ds = 0; ENTER; void *d = isq ? qqueue_pop(q, &ds) : qstack_pop(s, &ds); LEAVE; PTRRES(d, ds); }
        else if (!strcmp(op, "popstr")) { ENTER; char *d = isq ? qqueue_popstr(q) : qstack_popstr(s); LEAVE; PTRRES(d, d ? strlen(d) + 1 : 0); }
        else if (!strcmp(op, "popint")) { ENTER; int64_t d = isq ? qqueue_popint(q) : qstack_popint(s); LEAVE; fprintf(rf, "%lld", (long long)d); failed = (*perr == ENOMEM); }
        else if (!strcmp(op, "popat")) { size_t ds = 0; ENTER; void *d = isq ? qqueue_popat(q, idx, &ds) : qstack_popat(s, idx, &ds); LEAVE; PTRRES(d, ds); }
        else if (!strcmp(op, "get")) { size_t ds = 0; ENTER; void *d = isq ? qqueue_get(q, &ds, true) : qstack_get(s, &ds, true); LEAVE; PTRRES(d, ds); }
        else if (!strcmp(op, "getstr")) { ENTER; char *d = isq ? qqueue_getstr(q) : qstack_getstr(s); LEAVE; PTRRES(d, d ? strlen(d) + 1 : 0); }
        else if (!strcmp(op, "getint")) { ENTER; int64_t d = isq ? qqueue_getint(q) : qstack_getint(s); LEAVE; fprintf(rf, "%lld", (long long)d); failed = (*perr == ENOMEM); }
        else if (!strcmp(op, "getat")) { size_t ds = 0; ENTER; void *d = isq ? qqueue_getat(q, idx, &ds, true) : qstack_getat(s, idx, &ds, true); LEAVE; PTRRES(d, ds); }
        else if (!strcmp(op, "clear")) { ENTER; if (isq) qqueue_clear(q); else qstack_clear(s); LEAVE; fprintf(rf, "ok"); }
        else if (!strcmp(op, "size")) { ENTER; size_t n = isq ? qqueue_size(q) : qstack_size(s); LEAVE; fprintf(rf, "%zu", n); }
        else fprintf(rf, "??");
        break; }
    case T_GROW: { qgrow_t *g = I->c;
        if (!strcmp(op, "add")) { void *v = cbuf(b1, n1); ENTER; bool r = qgrow_add(g, v, n1); LEAVE; cfree(v, n1); BOOLRES(r); }
        else if (!strcmp(op, "addstr")) { char *v = cstr(b1, n1); ENTER; bool r = qgrow_addstr(g, v); LEAVE; cfree(v, n1 + 1); BOOLRES(r); }
        else if (!strcmp(op, "addstrf")) { size_t flen = (size_t)atol(a1); char *tx = ftext(flen); bool r; ENTER;
            FMTCALL(qgrow_addstrf(g, "%s", tx), qgrow_addstrf(g, "%0*d", (int)flen, 7)); LEAVE; cfree(tx, flen + 1); BOOLRES(r); }
        else if (!strcmp(op, "toarray")) { size_t ds = 0; ENTER; void *d = qgrow_toarray(g, &ds); LEAVE; PTRRES(d, ds); }
        else if (!strcmp(op, "tostring")) { ENTER; char *d = qgrow_tostring(g); LEAVE; PTRRES(d, d ? strlen(d) + 1 : 0); }
        else if (!strcmp(op, "clear")) { ENTER; qgrow_clear(g); LEAVE; fprintf(rf, "ok"); }
        else if (!strcmp(op, "size")) { ENTER; size_t n = qgrow_size(g); LEAVE; fprintf(rf, "%zu", n); }
        else fprintf(rf, "??");
        break; }
    case T_HARR: { qhasharr_t *t = I->c;
        if (!strcmp(op, "put")) { char *k = cstr(b1, n1); void *v = cbuf(b2, n2); ENTER; bool r = qhasharr_put(t, k, v, n2); LEAVE; cfree(k, n1 + 1); cfree(v, n2); BOOLRES(r); }
        else if (!strcmp(op, "putstrf")) { char *k = cstr(b1, n1); size_t flen = (size_t)atol(a2); char *tx = ftext(flen); bool r; ENTER;
            FMTCALL(qhasharr_putstrf(t, k, "%s", tx), qhasharr_putstrf(t, k, "%0*d", (int)flen, 7)); LEAVE; cfree(k, n1 + 1); cfree(tx, flen + 1); BOOLRES(r); }
        else if (!strcmp(op, "get")) { char *k = cstr(b1, n1); size_t ds = 0; ENTER; void *d = qhasharr_get(t, k, &ds); LEAVE; cfree(k, n1 + 1); PTRRES(d, ds); }
        else if (!strcmp(op, "remove")) { char *k = cstr(b1, n1); ENTER; bool r = qhasharr_remove(t, k); LEAVE; cfree(k, n1 + 1); BOOLRES(r); }
        else if (!strcmp(op, "next")) { qhasharr_obj_t o; memset(&o, 0, sizeof o); ENTER; bool r = qhasharr_getnext(t, &o, &I->acur); LEAVE;
            if (r) { puthex(rf, o.name, o.namesize); fputc('=', rf); puthex(rf, o.data, o.datasize); ret[nret++] = o.name; ret[nret++] = o.data; } else { fprintf(rf, "false"); failed = 1; } }
        else if (!strcmp(op, "clear")) { ENTER; qhasharr_clear(t); LEAVE; fprintf(rf, "ok"); }
        else if (!strcmp(op, "size")) { ENTER; int n = qhasharr_size(t, NULL, NULL); LEAVE; fprintf(rf, "%d", n); }
        else fprintf(rf, "??");
        break; }
    }
    return failed;
}

static int type_of(const char *s) {
    const char *n[] = { "", "tree", "hash", "ltbl", "list", "vec", "queue", "stack", "grow", "harr" };
    for (int i = 1; i < 10; i++) if (!strcmp(s, n[i])) return i;
    return T_NONE;
}
static void print_flags(void) {
    printf("lock=%d flags=", lockdelta);
    int any = 0;
    #define FL(v, name) if (v) { printf("%s%s:%d", any ? "," : "", name, v); any = 1; }
    FL(ovl, "overlap") FL(oob, "oob") FL(badfree, "badfree") FL(dblfree, "doublefree") FL(xfree, "crossfree") FL(uaf, "uaf") FL(givenfree, "freed-returned")
    FL(givenwrite, "wrote-returned") FL(keptbad, "returned-copy-changed") FL(dangling, "dangling")
    if (!any) printf("-");
}

int main(int argc, char **argv) {
    qv_install();
    setvbuf(stdout, NULL, _IOFBF, 1 << 16);
    printf("sizes ptr=%zu tree=%zu tobj=%zu mutex=%zu hash=%zu hobj=%zu ltbl=%zu lobj=%zu ldata=%zu list=%zu sobj=%zu vec=%zu queue=%zu stack=%zu grow=%zu harr=%zu\n",
           sizeof(void *), sizeof(qtreetbl_t), sizeof(qtreetbl_obj_t), sizeof(qmutex_t), sizeof(qhashtbl_t), sizeof(qhashtbl_obj_t), sizeof(qlisttbl_t),
           sizeof(qlisttbl_obj_t), sizeof(qlisttbl_data_t), sizeof(qlist_t), sizeof(qlist_obj_t), sizeof(qvector_t), sizeof(qqueue_t), sizeof(qstack_t), sizeof(qgrow_t), sizeof(qhasharr_t));
    static char dA[1 << 20], dB[1 << 20];
    while (fgets(line, sizeof line, stdin)) {
        if (line[0] == '#' || line[0] == '\n') continue;
        char op[32]; a1[0] = a2[0] = 0;
        int off = 0; sscanf(line, "%31s %n", op, &off);
        if (!strcmp(op, "new")) { sscanf(line + off, "%s %[^\n]", a1, a2); }
        else sscanf(line + off, "%s %s", a1, a2);
        if (!strcmp(op, "fail")) { failk = atoi(a1); failfrom = 0; continue; }
        if (!strcmp(op, "failfrom")) { failfrom = atoi(a1); failk = 0; continue; }
        if (!strcmp(op, "new")) {
            /* start of a history: drop whatever is left of the previous one */
            if (!dead) {
                int e;
                if (IA.c) { ropen(rA); do_op(M_A, &IA, "free", &e); rclose(); }
                if (IB.c) { ropen(rB); do_op(M_B, &IB, "free", &e); rclose(); }
            }
            while (nkept) kept_drop(0);
            memset(&IA, 0, sizeof IA); memset(&IB, 0, sizeof IB);
            reset_blocks(); dead = 0; keptbad = 0;
            ctype = type_of(a1);
            if (ctype == T_NONE) { printf("new | r=?? unknown container %s\n", a1); continue; }
        }
        if (dead) { printf("%s | DEAD\n", op); failk = failfrom = 0; continue; }
        evn = 0; evb[0] = 0; cpn = 0; cpb[0] = 0;
        ovl = oob = badfree = dblfree = xfree = uaf = givenfree = givenwrite = 0;
        int errA = 0, errB = 0, failedA = 0, failedB = 0, applied = 0, firedA = 0, lockA = 0;
        int isfree = !strcmp(op, "free");
        if (QV_TRY(20)) {
            begin_call();
            ropen(rA); failedA = do_op(M_A, &IA, op, &errA); rclose();
            firedA = fired; lockA = lockdelta;
            failk = failfrom = 0;                                     /* injection is armed for one call only */
            for (int i = 0; i < nret; i++) given(ret[i]);
            /* reference instance */
            if (!(firedA && failedA)) { applied = 1; ropen(rB); failedB = do_op(M_B, &IB, op, &errB); rclose(); for (int i = 0; i < nret; i++) bfree(ret[i]); }
            QV_END;
        } else {
            mode = M_OFF; failk = failfrom = 0;
            printf("%s | %s nreq=%d ev=%s\n", op, qv_sig == SIGALRM ? "TIMEOUT" : "CRASH", nreq, evb); dead = 1; fflush(stdout); continue;
        }
        if (isfree) { kept_check(); while (nkept) kept_drop(0); }
        else kept_check();
        /* reachable set vs live set */
        walk(&IA);
        qsort(reach, nreach, sizeof(int), cmpint);
        int leak = 0; char leakb[256]; size_t ln = 0; leakb[0] = 0;
        for (int k = 0; k < nlive; k++) { int i = live_idx[k]; if (tab[i].given) continue;
            int id = tab[i].id; if (!bsearch(&id, reach, nreach, sizeof(int), cmpint)) { leak++; if (ln + 16 < sizeof leakb) ln += snprintf(leakb + ln, sizeof leakb - ln, "%s%d", ln ? "," : "", id); }
        }
        int leakB = isfree ? liveB : 0;
        FILE *f = fmemopen(dA, sizeof dA, "w"); dump(f, &IA); fputc(0, f); fclose(f);
        f = fmemopen(dB, sizeof dB, "w"); dump(f, &IB); fputc(0, f); fclose(f);
        int ck = selfcheck(&IA), ckB = selfcheck(&IB);
        lockdelta = lockA;
        printf("%s | r=%s e=%s inj=%d rep=%s app=%d", op, rA, eclass(errA), firedA, failedA ? "fail" : "ok", applied);
        if (applied && strcmp(rA, rB)) printf(" RESDIFF B=%s", rB);
        printf(" | ev=%s | cp=%s | own=", evb, cpb);
        for (int i = 0; i < nreach; i++) printf("%s%d", i ? "," : "", reach[i]);
        printf(" | "); print_flags();
        if (leak) printf(" leak=%s", leakb);
        if (leakB) printf(" leakB=%d", leakB);
        printf(" | A=%s | B=%s | chk=%d", dA, strcmp(dA, dB) ? dB : "same", ck);
        if (ckB) printf(" chkB=%d", ckB);
        printf("\n");
        fflush(stdout);
    }
    return 0;
}
