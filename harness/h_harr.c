/* C06/C07 harness: qhasharr over a user-supplied region between inaccessible pages.
   Keys are given by "key <i> <hex> <home>" lines; ops name keys by index.  After every op the whole image is dumped
   (header counters and every occupied slot field by field; stale bytes of free slots are not compared).
   "reloc <n>": the region is copied byte for byte to a differently aligned address (n selects the offset), a new handle
   is attached with memsize 0, the old region is poisoned and unmapped; the run continues on the copy. */
#include "common.h"
#include "qlibc.h"

#define MAXK 256
static char line[1 << 20], a1[1 << 19], a2[1 << 19], a3[64];
static unsigned char *keys[MAXK]; static size_t keylen[MAXK]; static unsigned char keymd5[MAXK][16]; static int nkeys;
static unsigned char vbuf[1 << 18];

static qhasharr_t *t; static guard_t region; static size_t memsz; static int cap; static unsigned char *mem;

static void attach_new(int m) {
    if (t) { qhasharr_free(t); guard_free(region); }
    cap = m; memsz = qhasharr_calculate_memsize(m);
    region = guard_alloc(memsz, m & 1);    /* alternately flush against the upper / lower inaccessible page */
    mem = region.p;
    t = qhasharr(mem, memsz);
}
static int keyid(qhasharr_slot_t *s) {
    for (int i = 0; i < MAXK; i++) {
        if (!keys[i] || keylen[i] != s->data.pair.namesize) continue;
        size_t n = keylen[i] < Q_HASHARR_NAMESIZE ? keylen[i] : Q_HASHARR_NAMESIZE;
        if (memcmp(keys[i], s->data.pair.name, n)) continue;
        if (memcmp(keymd5[i], s->data.pair.namemd5, 16)) continue;
        return i;
    }
    return -1;
}
static void image(void) {
    qhasharr_data_t *d = t->data; qhasharr_slot_t *s = (qhasharr_slot_t *)((char *)d + sizeof(qhasharr_data_t));
    printf("u%d n%d ", d->usedslots, d->num);
    for (int i = 0; i < cap; i++) {
        if (s[i].count == 0) { printf("."); continue; }
        printf("[%d,%u,%d,%d,", s[i].count, s[i].hash, s[i].datasize, s[i].link);
        if (s[i].count == -2) printf("x,"); else { int k = keyid(&s[i]); if (k >= 0) printf("%d,", k); else printf("?,"); }
        puthex(stdout, s[i].count == -2 ? s[i].data.ext.data : s[i].data.pair.data, s[i].datasize); printf("]");
    }
}
typedef struct { int k; unsigned char *v; size_t n; } went;
static int wcmp(const void *a, const void *b) { return ((went *)a)->k - ((went *)b)->k; }

/* fill a stretch of the stack below the current frame with a pattern, so that anything the library copies from
   uninitialised automatic storage into the image shows up as a difference between two runs with different patterns */
static void __attribute__((noinline)) paint_stack(int pat) { volatile unsigned char a[24576]; for (size_t i = 0; i < sizeof a; i++) a[i] = (unsigned char)pat; }
static unsigned long long rawsum(void) { unsigned long long h = 1469598103934665603ULL; for (size_t i = 0; i < memsz; i++) { h ^= mem[i]; h *= 1099511628211ULL; } return h; }

int main(void) {
    qv_install(); int dead = 0, refused = 0;
    int paint = getenv("QV_PAINT") ? atoi(getenv("QV_PAINT")) : -1;
    attach_new(2);
    while (fgets(line, sizeof line, stdin)) {
        if (line[0] == '#' || line[0] == '\n') continue;
        char op[32]; a1[0] = a2[0] = a3[0] = 0;
        sscanf(line, "%31s %s %s %63s", op, a1, a2, a3);
        if (!strcmp(op, "cap")) { attach_new(atoi(a1)); for (int i = 0; i < MAXK; i++) { free(keys[i]); keys[i] = NULL; } dead = 0; refused = 0; continue; }
        if (!strcmp(op, "key")) { int i = atoi(a1); free(keys[i]); keys[i] = malloc(1 << 17); keylen[i] = unhex(a2, keys[i]);
            qhashmd5(keys[i], keylen[i], keymd5[i]); continue; }
        if (!strcmp(op, "reloc")) {
            if (dead) continue;
            int off = atoi(a1) % 64;
            guard_t nr = guard_alloc(memsz + 64, 0);
            /* any alignment: the image means the same wherever it is mapped (a region given by the user need not be aligned either) */
            unsigned char *nm = nr.p + (64 - off);
            memcpy(nm, mem, memsz);
            memset(mem, 0xDD, memsz);
            qhasharr_free(t); guard_free(region);
            region = nr; mem = nm; t = qhasharr(mem, 0);
            if (!t) refused = 1;       /* a second handle on a valid image must attach: every later op reports it */
            continue;
        }
        if (!strcmp(op, "tiny")) {          /* constructor on a region of n bytes ending at an inaccessible page */
            size_t n = (size_t)atoi(a1); guard_t g = guard_alloc(n, 0); memset(g.p, 0xAA, n);
            if (QV_TRY(3)) { qhasharr_t *h = qhasharr(g.p, n); QV_END;
                if (h) { printf("ok %d\n", ((qhasharr_data_t *)g.p)->maxslots); qhasharr_free(h); } else printf("null\n"); }
            else printf("%s\n", qv_sig == SIGALRM ? "TIMEOUT" : "CRASH");
            guard_free(g); fflush(stdout); continue;
        }
        if (!strcmp(op, "big")) {
            /* big <slots> <vlen>: a table of that many slots (beyond the range of a short) between inaccessible pages, filled with
               keys k<i> and values of vlen bytes until it refuses; self-checking (no model in lockstep): every stored key reads back
               its bytes, the header counters equal a census of the slots, every link stays inside the table and every chain ends;
               then every other key is deleted, the table refilled, copied to another address and read through a fresh handle. */
            int m = atoi(a1); size_t vl = (size_t)atoi(a2); size_t ms = qhasharr_calculate_memsize(m);
            guard_t g = guard_alloc(ms, 0); const char *bad = NULL; static char what[160]; int stored = 0, nput = 0;
            if (QV_TRY(120)) {
                qhasharr_t *h = qhasharr(g.p, ms); unsigned char *v = malloc(vl + 1); char kb[32]; char *present = calloc((size_t)m + 16, 1);
                #define BIGVAL(i) do { for (size_t j = 0; j < vl; j++) v[j] = (unsigned char)((i) * 131 + j * 7 + ((i) >> 8)); } while (0)
                #define BIGFAIL(...) do { snprintf(what, sizeof what, __VA_ARGS__); bad = what; goto bigdone; } while (0)
                if (!h) BIGFAIL("constructor refused %d slots", m);
                for (int round = 0; round < 2; round++) {
                    for (int i = 0; i < m + 8; i++) {
                        if (round == 1 && (i & 1)) continue;
                        sprintf(kb, "k%d", i); BIGVAL(i);
                        if (!qhasharr_put(h, kb, v, vl)) { if (errno != ENOBUFS) BIGFAIL("put %s: errno %d", kb, errno); present[i] = present[i] ? 2 : 0; break; }   /* a refused put leaves its own key absent or unchanged (2: either) */
                        present[i] = 1; if (i + 1 > nput) nput = i + 1;
                    }
                    /* census */
                    qhasharr_data_t *d = h->data; qhasharr_slot_t *s = (qhasharr_slot_t *)((char *)d + sizeof(qhasharr_data_t));
                    int used = 0, nkeys2 = 0;
                    for (int i = 0; i < m; i++) {
                        if (s[i].count == 0) continue;
                        used++; if (s[i].count > 0 || s[i].count == -1) nkeys2++;
                        if (s[i].link != -1 && (s[i].link < 0 || s[i].link >= m)) BIGFAIL("slot %d links to %d, outside the table of %d slots", i, s[i].link, m);
                        if (s[i].link != -1 && s[s[i].link].count != -2) BIGFAIL("slot %d links to slot %d which is not a continuation block", i, s[i].link);
                    }
                    if (used != d->usedslots || nkeys2 != d->num) BIGFAIL("header says %d slots / %d keys, the slots say %d / %d", d->usedslots, d->num, used, nkeys2);
                    stored = 0;
                    for (int i = 0; i < nput; i++) {
                        sprintf(kb, "k%d", i); BIGVAL(i); size_t ds = 0; void *r = qhasharr_get(h, kb, &ds);
                        if (present[i] == 2) { if (r) { free(r); stored++; } continue; }
                        if (!r) { if (!present[i]) continue; BIGFAIL("key %s not found after the fill", kb); }
                        if (!present[i]) { free(r); BIGFAIL("key %s found although it was removed", kb); }
                        if (ds != vl || memcmp(r, v, vl)) { free(r); BIGFAIL("key %s: value differs from what was put", kb); }
                        free(r); stored++;
                    }
                    if (stored != d->num) BIGFAIL("%d keys read back, header counts %d", stored, d->num);
                    if (round == 0) for (int i = 1; i < nput; i += 2) { sprintf(kb, "k%d", i); if (!qhasharr_remove(h, kb)) BIGFAIL("remove %s failed", kb); present[i] = 0; }
                }
                {   /* the image means the same at another address */
                    guard_t g2 = guard_alloc(ms + 8, 0); unsigned char *nm = g2.p + 3; memcpy(nm, g.p, ms); memset(g.p, 0xDD, ms);
                    qhasharr_t *h2 = qhasharr(nm, 0);
                    if (!h2) { guard_free(g2); BIGFAIL("a second handle does not attach to the copied image"); }
                    for (int i = 0; i < nput; i++) { if (present[i] != 1) continue; sprintf(kb, "k%d", i); BIGVAL(i); size_t ds = 0; void *r = qhasharr_get(h2, kb, &ds);
                        if (!r || ds != vl || memcmp(r, v, vl)) { free(r); guard_free(g2); BIGFAIL("key %s differs when read from the relocated image", kb); } free(r); }
                    qhasharr_free(h2); guard_free(g2);
                }
              bigdone:
                QV_END; free(v); free(present); if (h) qhasharr_free(h);
                if (bad) printf("big FAIL %s\n", bad); else printf("big ok\n");
            } else printf("big %s\n", qv_sig == SIGALRM ? "TIMEOUT" : "CRASH");
            guard_free(g); fflush(stdout); continue;
        }
        if (!strcmp(op, "raw")) { printf("raw %016llx\n", rawsum()); fflush(stdout); continue; }
        if (refused) { printf("ATTACH-REFUSED\n"); fflush(stdout); continue; }
        if (dead) { printf("DEAD\n"); continue; }
        if (paint >= 0) paint_stack(paint);
        if (QV_TRY(10)) {
            if (!strcmp(op, "put")) {
                int k = atoi(a1); size_t nv = unhex(a2, vbuf);
                /* key and value in exact-size buffers ending at inaccessible pages */
                guard_t gk = guard_alloc(keylen[k] ? keylen[k] : 1, 0), gv = guard_alloc(nv ? nv : 1, 0);
                unsigned char *kk = keylen[k] ? gk.p : gk.p + 1, *vv = nv ? gv.p : gv.p + 1; memcpy(kk, keys[k], keylen[k]); memcpy(vv, vbuf, nv);
                bool r = qhasharr_put_by_obj(t, kk, keylen[k], vv, nv);
                guard_free(gk); guard_free(gv);
                printf("%s", r ? "true" : "false");
            } else if (!strcmp(op, "putf")) {
                /* putf <k> <text>: the formatted-string interface on a C-string key; stores the text with its terminator */
                int k = atoi(a1); size_t nv = unhex(a2, vbuf); vbuf[nv] = 0;
                char *kk = malloc(keylen[k] + 1); memcpy(kk, keys[k], keylen[k]); kk[keylen[k]] = 0;
                bool r = qhasharr_putstrf(t, kk, "%s", (char *)vbuf); free(kk);
                printf("%s", r ? "true" : "false");
            } else if (!strcmp(op, "get")) {
                /* the key is presented from buffers of varying alignment (put: malloc'd copy; get/del: offset 0..3 in turn):
                   the table is a function of the key bytes, not of where the caller keeps them */
                static unsigned opno; int k = atoi(a1); size_t ds = 0;
                void *d;
                if (++opno & 4) {            /* every other group of four: an exact-size buffer ending at an inaccessible page */
                    guard_t g = guard_alloc(keylen[k] ? keylen[k] : 1, 0); unsigned char *kk = keylen[k] ? g.p : g.p + 1; memcpy(kk, keys[k], keylen[k]);
                    d = qhasharr_get_by_obj(t, kk, keylen[k], &ds); guard_free(g);
                } else {
                    unsigned char *kb = malloc(keylen[k] + 8), *kk = kb + (opno & 3); memcpy(kk, keys[k], keylen[k]);
                    d = qhasharr_get_by_obj(t, kk, keylen[k], &ds); free(kb);
                }
                if (d) { puthex(stdout, d, ds); free(d); } else printf("none");
            } else if (!strcmp(op, "del")) {
                static unsigned opno2; int k = atoi(a1);
                bool r;
                if (++opno2 & 4) {
                    guard_t g = guard_alloc(keylen[k] ? keylen[k] : 1, 0); unsigned char *kk = keylen[k] ? g.p : g.p + 1; memcpy(kk, keys[k], keylen[k]);
                    r = qhasharr_remove_by_obj(t, (char *)kk, keylen[k]); guard_free(g);
                } else {
                    unsigned char *kb = malloc(keylen[k] + 8), *kk = kb + (opno2 & 3); memcpy(kk, keys[k], keylen[k]);
                    r = qhasharr_remove_by_obj(t, (char *)kk, keylen[k]); free(kb);
                }
                printf("%s", r ? "true" : "false");
            } else if (!strcmp(op, "delidx")) {
                int i = atoi(a1); printf("%s", (i < cap && qhasharr_remove_by_idx(t, i)) ? "true" : "false");
            } else if (!strcmp(op, "clear")) { qhasharr_clear(t); printf("ok");
            } else if (!strcmp(op, "size")) { int mx = -1, us = -1; int n = qhasharr_size(t, &mx, &us); printf("%d %d %d", n, mx, us);
            } else if (!strcmp(op, "walk")) {
                /* walk order = slot order; print as found (compared exactly with the model) */
                qhasharr_obj_t o; int idx = 0, first = 1; printf("walk ");
                qhasharr_slot_t *s = (qhasharr_slot_t *)((char *)t->data + sizeof(qhasharr_data_t));
                while (qhasharr_getnext(t, &o, &idx)) {
                    int k = keyid(&s[idx - 1]);
                    if (!first) printf(","); first = 0;
                    printf("%d=", k); puthex(stdout, o.data, o.datasize);
                    /* the name handed out must be the stored (possibly truncated) key */
                    size_t n = keylen[k < 0 ? 0 : k] < Q_HASHARR_NAMESIZE ? keylen[k < 0 ? 0 : k] : Q_HASHARR_NAMESIZE;
                    if (k >= 0 && (o.namesize != n || memcmp(o.name, keys[k], n))) printf("!badname");
                    free(o.name); free(o.data);
                }
            } else printf("?? %s", op);
            QV_END;
            printf(" | "); image(); printf("\n");
        } else { printf("%s\n", qv_sig == SIGALRM ? "TIMEOUT" : "CRASH"); dead = 1; }
        fflush(stdout);
    }
    return 0;
}
