/* C09 harness: qlist, qqueue, qstack, qgrow.  One op per line; prints "<observation> | <structure>".
   Caller data is copied into exact-size heap blocks, scribbled and freed right after each call.
   After every op the real list is dumped front-to-back through the public first/next pointers together with the
   stored num, datasum, max; the prev pointers are walked backwards and must give the same nodes in reverse. */
#include "common.h"
#include "qlibc.h"

static char line[1 << 20], a1[1 << 19], a2[1 << 19];
static unsigned char b1[1 << 18];

static void *dupbuf(const unsigned char *p, size_t n) { unsigned char *q = malloc(n ? n : 1); memcpy(q, p, n); return q; }
static void scribble_free(void *p, size_t n) { memset(p, 0x5A, n ? n : 1); free(p); }
static const char *ename(int e) {
    switch (e) {
        case EINVAL: return "EINVAL"; case ENOBUFS: return "ENOBUFS"; case ERANGE: return "ERANGE";
        case ENOENT: return "ENOENT"; case EAGAIN: return "EAGAIN"; case ENOMEM: return "ENOMEM"; case 0: return "E0";
        default: return "E?";
    }
}
/* data argument: "null" = NULL pointer (with a non-zero size), "-" = non-NULL pointer with size 0, else hex bytes */
typedef struct { void *p; size_t n; size_t alloc; } arg_t;
static arg_t mkarg(const char *h) {
    arg_t a;
    if (!strcmp(h, "null")) { a.p = NULL; a.n = 3; a.alloc = 0; return a; }
    a.n = unhex(h, b1); a.alloc = a.n; a.p = dupbuf(b1, a.n); return a;
}
/* C string argument: the hex bytes followed by a terminator (bytes may contain NULs: strlen stops there) */
static arg_t mkstr(const char *h) {
    arg_t a;
    if (!strcmp(h, "null")) { a.p = NULL; a.n = 0; a.alloc = 0; return a; }
    a.n = unhex(h, b1); b1[a.n] = 0; a.alloc = a.n + 1; a.p = dupbuf(b1, a.n + 1); return a;
}
static void rmarg(arg_t a) { if (a.p) scribble_free(a.p, a.alloc); }

static void dump(qlist_t *l) {
    printf(" | num=%zu sum=%zu max=%zu [", l->num, l->datasum, l->max);
    size_t cnt = 0; qlist_obj_t *o, *lastseen = NULL; int bad = 0;
    for (o = l->first; o; o = o->next) {
        if (cnt) putchar(',');
        puthex(stdout, o->data, o->size);
        if (o->prev != lastseen) bad = 1;                 /* each node's prev is the node we came from */
        lastseen = o;
        if (++cnt > l->num + 8) { bad = 2; break; }       /* cycle */
    }
    putchar(']');
    if (l->last != lastseen) bad |= 4;                     /* last is the node reached last (NULL when empty) */
    /* walk backwards and count */
    size_t back = 0; qlist_obj_t *firstseen = NULL;
    for (o = l->last; o; o = o->prev) { firstseen = o; if (++back > l->num + 8) { bad |= 8; break; } }
    if (back != cnt || firstseen != l->first) bad |= 16;
    if (bad) printf(" BADLINKS=%d", bad);
}
static void out_data(void *d, size_t sz, int e, size_t sentinel, int freeit) {
    if (d) { printf("data "); puthex(stdout, d, sz); if (freeit) free(d); }
    else { printf("fail %s", ename(e)); if (sz != sentinel) printf(" size-touched=%zu", sz); }
}
/* length of what tostring must have written (terminator excluded), from the public nodes */
static size_t strview_len(qlist_t *l) {
    size_t n = 0;
    for (qlist_obj_t *o = l->first; o; o = o->next) n += o->size - (((char *)o->data)[o->size - 1] == 0 ? 1 : 0);
    return n;
}
static void do_toarray(void *d, size_t sz, int e) {
    if (d) { printf("arr "); puthex(stdout, d, sz); printf(" size=%zu", sz); free(d); }
    else printf("fail %s size=%zu", ename(e), sz);
}
static void do_tostring(char *s, qlist_t *l, int e) {
    if (s) { size_t n = strview_len(l); printf("str "); puthex(stdout, s, n + 1); free(s); }
    else printf("fail %s", ename(e));
}
#define SENT ((size_t)0x1234567)

int main(void) {
    qv_install();
    enum { LIST, QUEUE, STACK, GROW } kind = LIST;
    qlist_t *l = qlist(0); qqueue_t *q = NULL; qstack_t *s = NULL; qgrow_t *g = NULL;
    qlist_obj_t cur; memset(&cur, 0, sizeof cur);
    int dead = 0;
    while (fgets(line, sizeof line, stdin)) {
        if (line[0] == '#' || line[0] == '\n') continue;
        char op[32]; a1[0] = a2[0] = 0;
        sscanf(line, "%31s %s %s", op, a1, a2);
        if (!strcmp(op, "new")) {
            if (!dead) { if (l) l->free(l); if (q) q->free(q); if (s) s->free(s); if (g) g->free(g); }
            l = NULL; q = NULL; s = NULL; g = NULL; dead = 0; memset(&cur, 0, sizeof cur);
            static unsigned ntab; int topt = (++ntab & 1) ? 0 : QLIST_THREADSAFE;      /* every other container with its lock: same answers */
            if (!strcmp(a1, "queue")) { kind = QUEUE; q = qqueue(topt); }
            else if (!strcmp(a1, "stack")) { kind = STACK; s = qstack(topt); }
            else if (!strcmp(a1, "grow")) { kind = GROW; g = qgrow(topt); }
            else { kind = LIST; l = qlist(topt); }
            continue;
        }
        if (dead) { printf("DEAD\n"); continue; }
        qlist_t *under = kind == LIST ? l : kind == QUEUE ? q->list : kind == STACK ? s->list : g->list;
        if (QV_TRY(10)) {
            errno = 0;
            if (kind == LIST) {
                if (!strcmp(op, "addfirst") || !strcmp(op, "addlast") || !strcmp(op, "addat")) {
                    arg_t a = mkarg(op[3] == 'a' ? a2 : a1); bool r;
                    if (op[3] == 'f') r = l->addfirst(l, a.p, a.n);
                    else if (op[3] == 'l') r = l->addlast(l, a.p, a.n);
                    else r = l->addat(l, atoi(a1), a.p, a.n);
                    int e = errno; rmarg(a);
                    if (r) printf("ok"); else printf("fail %s", ename(e));
                } else if (!strcmp(op, "getfirst") || !strcmp(op, "getlast") || !strcmp(op, "getat")) {
                    size_t sz = SENT; void *d; bool nm = atoi(op[3] == 'a' ? a2 : a1) != 0;
                    if (op[3] == 'f') d = l->getfirst(l, &sz, nm);
                    else if (op[3] == 'l') d = l->getlast(l, &sz, nm);
                    else d = l->getat(l, atoi(a1), &sz, nm);
                    out_data(d, sz, errno, SENT, nm);
                } else if (!strcmp(op, "popfirst") || !strcmp(op, "poplast") || !strcmp(op, "popat")) {
                    size_t sz = SENT; void *d;
                    if (op[3] == 'f') d = l->popfirst(l, &sz);
                    else if (op[3] == 'l') d = l->poplast(l, &sz);
                    else d = l->popat(l, atoi(a1), &sz);
                    out_data(d, sz, errno, SENT, 1);
                } else if (!strcmp(op, "removefirst") || !strcmp(op, "removelast") || !strcmp(op, "removeat")) {
                    bool r = op[6] == 'f' ? l->removefirst(l) : op[6] == 'l' ? l->removelast(l) : l->removeat(l, atoi(a1));
                    if (r) printf("ok"); else printf("fail %s", ename(errno));
                } else if (!strcmp(op, "next")) {
                    bool nm = atoi(a1) != 0;
                    bool r = l->getnext(l, &cur, nm);
                    if (r) { printf("data "); puthex(stdout, cur.data, cur.size); if (nm) free(cur.data); cur.data = NULL; }
                    else printf("fail %s", ename(errno));
                } else if (!strcmp(op, "curreset")) { memset(&cur, 0, sizeof cur); printf("ok");
                } else if (!strcmp(op, "reverse")) { l->reverse(l); printf("ok");
                } else if (!strcmp(op, "clear")) { l->clear(l); printf("ok");
                } else if (!strcmp(op, "setsize")) { printf("num %zu", l->setsize(l, (size_t)strtoull(a1, NULL, 10)));
                } else if (!strcmp(op, "size")) { printf("num %zu", l->size(l));
                } else if (!strcmp(op, "datasize")) { printf("num %zu", l->datasize(l));
                } else if (!strcmp(op, "toarray")) { size_t sz = SENT; void *d = l->toarray(l, &sz); do_toarray(d, sz, errno);
                } else if (!strcmp(op, "tostring")) { char *t = l->tostring(l); do_tostring(t, l, errno);
                } else printf("?? %s", op);
            } else if (kind == QUEUE || kind == STACK) {
                int Q = kind == QUEUE;
                if (!strcmp(op, "push")) {
                    arg_t a = mkarg(a1); bool r = Q ? q->push(q, a.p, a.n) : s->push(s, a.p, a.n); int e = errno; rmarg(a);
                    if (r) printf("ok"); else printf("fail %s", ename(e));
                } else if (!strcmp(op, "pushstr")) {
                    arg_t a = mkstr(a1); bool r = Q ? q->pushstr(q, a.p) : s->pushstr(s, a.p); int e = errno; rmarg(a);
                    if (r) printf("ok"); else printf("fail %s", ename(e));
                } else if (!strcmp(op, "pushint")) {
                    int64_t v = strtoll(a1, NULL, 10); bool r = Q ? q->pushint(q, v) : s->pushint(s, v);
                    if (r) printf("ok"); else printf("fail %s", ename(errno));
                } else if (!strcmp(op, "pop")) {
                    size_t sz = SENT; void *d = Q ? q->pop(q, &sz) : s->pop(s, &sz); out_data(d, sz, errno, SENT, 1);
                } else if (!strcmp(op, "popstr") || !strcmp(op, "getstr")) {
                    char *t = op[0] == 'p' ? (Q ? q->popstr(q) : s->popstr(s)) : (Q ? q->getstr(q) : s->getstr(s));
                    if (t) { printf("cstr "); puthex(stdout, t, strlen(t)); free(t); } else printf("cstr null");
                } else if (!strcmp(op, "popint") || !strcmp(op, "getint")) {
                    int64_t v = op[0] == 'p' ? (Q ? q->popint(q) : s->popint(s)) : (Q ? q->getint(q) : s->getint(s));
                    printf("int %lld", (long long)v);
                } else if (!strcmp(op, "popat")) {
                    size_t sz = SENT; void *d = Q ? q->popat(q, atoi(a1), &sz) : s->popat(s, atoi(a1), &sz); out_data(d, sz, errno, SENT, 1);
                } else if (!strcmp(op, "get")) {
                    size_t sz = SENT; bool nm = atoi(a1) != 0; void *d = Q ? q->get(q, &sz, nm) : s->get(s, &sz, nm); out_data(d, sz, errno, SENT, nm);
                } else if (!strcmp(op, "getat")) {
                    size_t sz = SENT; bool nm = atoi(a2) != 0;
                    void *d = Q ? q->getat(q, atoi(a1), &sz, nm) : s->getat(s, atoi(a1), &sz, nm); out_data(d, sz, errno, SENT, nm);
                } else if (!strcmp(op, "size")) { printf("num %zu", Q ? q->size(q) : s->size(s));
                } else if (!strcmp(op, "clear")) { if (Q) q->clear(q); else s->clear(s); printf("ok");
                } else if (!strcmp(op, "setsize")) { size_t m = (size_t)strtoull(a1, NULL, 10); printf("num %zu", Q ? q->setsize(q, m) : s->setsize(s, m));
                } else printf("?? %s", op);
            } else {
                if (!strcmp(op, "add")) {
                    arg_t a = mkarg(a1); bool r = g->add(g, a.p, a.n); int e = errno; rmarg(a);
                    if (r) printf("ok"); else printf("fail %s", ename(e));
                } else if (!strcmp(op, "addstr")) {
                    arg_t a = mkstr(a1); bool r = g->addstr(g, a.p); int e = errno; rmarg(a);
                    if (r) printf("ok"); else printf("fail %s", ename(e));
                } else if (!strcmp(op, "addstrf")) {
                    /* the formatted variant must add exactly the formatted text: "%s" of the text, or "%.*s" of a longer buffer */
                    arg_t a = mkstr(a1); size_t n = strlen(a.p); bool r = (n & 1) ? g->addstrf(g, "%.*s", (int)n, (char *)a.p) : g->addstrf(g, "%s", (char *)a.p); int e = errno; rmarg(a);
                    if (r) printf("ok"); else printf("fail %s", ename(e));
                } else if (!strcmp(op, "size")) { printf("num %zu", g->size(g));
                } else if (!strcmp(op, "datasize")) { printf("num %zu", g->datasize(g));
                } else if (!strcmp(op, "toarray")) { size_t sz = SENT; void *d = g->toarray(g, &sz); do_toarray(d, sz, errno);
                } else if (!strcmp(op, "tostring")) { char *t = g->tostring(g); do_tostring(t, g->list, errno);
                } else if (!strcmp(op, "clear")) { g->clear(g); printf("ok");
                } else printf("?? %s", op);
            }
            dump(under);
            QV_END;
            printf("\n");
        } else { printf("%s\n", qv_sig == SIGALRM ? "TIMEOUT" : "CRASH"); dead = 1; }
        fflush(stdout);
    }
    return 0;
}
