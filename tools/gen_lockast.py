# Lock-structure translator: clang's JSON AST of every function of the lockable containers -> a term of the
# inductive `stmt` of coq/Conc/LockAst.v (control-flow abstraction: lock / unlock / accesses to container state /
# calls / branches / loops / early exits).  Regenerated on every run; the verified checker of Conc/LockCheck.v is then
# evaluated on every function, so a missing unlock or an access moved outside the lock breaks a proof obligation.
import json, subprocess, os, re, sys

# Reviewed exemption (DESIGN 5.13): qlisttbl_removeobj frees the node's name/data after unlock(); the node was
# unlinked while the lock was held, so no other thread can reach it any more.
PRIVATE_AFTER_UNLINK = {('qlisttbl_removeobj', 'this')}
ALLOCATORS = {'malloc', 'calloc', 'realloc', 'strdup', 'qmemdup', 'qstrdupf'}

# The Q_MUTEX_* macros of src/internal/qinternal.h are read by hand (DESIGN 5.14): ENTER returns only after a successful
# trylock and then counts one level up; LEAVE counts one level down and unlocks; the waiting side's "force unlock" cannot
# release a recursive mutex it does not own.  The hand reading is valid for exactly these texts (whitespace-normalised
# SHA-256 prefixes); any edit of a macro makes the obligation `mutex_macros_reviewed = true` fail until it is re-read.
MACRO_FINGERPRINTS = {
    'Q_MUTEX_NEW': '822d182a11c2d920', 'Q_MUTEX_LEAVE': '1f54fb7652122a89', 'Q_MUTEX_ENTER': '80b95c83cab5014b',
    'Q_MUTEX_DESTROY': 'ceb7faa28eb96e7e', 'MAX_MUTEX_LOCK_WAIT': '54a5c973969071a1',
}


def macro_text(src, name):
    i = src.find('#define ' + name)
    if i < 0:
        return None
    lines = []
    for l in src[i:].split('\n'):
        lines.append(l)
        if not l.rstrip().endswith('\\'):
            break
    return re.sub(r'\s+', ' ', ' '.join(x.rstrip('\\').strip() for x in lines))


FILES = ['containers/qtreetbl.c', 'containers/qhashtbl.c', 'containers/qlisttbl.c', 'containers/qlist.c',
         'containers/qvector.c', 'containers/qqueue.c', 'containers/qstack.c', 'containers/qgrow.c', 'extensions/qlog.c']


def load(repo, path):
    cmd = ['clang', '-std=gnu99', '-w', '-I%s/include/qlibc' % repo, '-I%s/include' % repo, '-I%s/src/internal' % repo,
           '-fsyntax-only', '-Xclang', '-ast-dump=json', os.path.join(repo, 'src', path)]
    p = subprocess.run(cmd, capture_output=True, text=True)
    if p.returncode != 0 or not p.stdout:
        raise SystemExit('gen_lockast: clang failed on %s: %s' % (path, p.stderr[:500]))
    return json.loads(p.stdout)


def strip(n):
    while n.get('kind') in ('ImplicitCastExpr', 'ParenExpr', 'CStyleCastExpr') and n.get('inner'):
        n = n['inner'][-1]
    return n


def callee_name(call):
    f = strip(call['inner'][0])
    if f.get('kind') == 'DeclRefExpr':
        return f['referencedDecl']['name'], None
    if f.get('kind') == 'MemberExpr':
        base = f['inner'][0]
        bt = base.get('type', {}).get('qualType', '')
        return '->' + f['name'], bt
    return None, None


def calls_in(n, acc):
    if n.get('kind') == 'CallExpr':
        c, _ = callee_name(n)
        if c:
            acc.add(c)
    for c in n.get('inner', []):
        calls_in(c, acc)
    return acc


def is_macro_stmt(n):
    b = n.get('range', {}).get('begin', {})
    return 'expansionLoc' in b and 'spellingLoc' in b


class Fn:
    def __init__(self, name, params, body, static, file):
        self.name, self.params, self.body, self.static, self.file = name, params, body, static, file
        self.term = None
        self.calls = set()
        self.fresh = set()
        self.tainted = set()


class Translator:
    def __init__(self):
        self.fns = {}          # name -> Fn
        self.methods = {}      # (struct type name, member) -> function name
        self.assigned_outside_ctor = {}   # struct type -> set(member)
        self.struct_of_ctor = {}
        self.statics = {}      # (file, name) -> unique name of a static function
        self.method_targets = set()   # (file, name, structure) of every function stored into a method pointer of a container structure

    # ---- pass 1: collect functions, constructor method tables
    def collect(self, tu, file):
        for d in tu.get('inner', []):
            if d.get('kind') != 'FunctionDecl':
                continue
            body = [c for c in d.get('inner', []) if c.get('kind') == 'CompoundStmt']
            if not body:
                continue
            loc = d.get('loc', {})
            if 'includedFrom' in loc or ('file' in loc and not loc['file'].endswith('.c')):
                continue
            params = [(c.get('name'), c.get('type', {}).get('qualType', '')) for c in d['inner'] if c.get('kind') == 'ParmVarDecl']
            static = d.get('storageClass') == 'static'
            uname = (os.path.basename(file).replace('.c', '') + '__' + d['name']) if static else d['name']
            f = Fn(uname, params, body[0], static, file)
            self.fns[uname] = f
            if static:
                self.statics[(file, d['name'])] = uname
            self.scan_assignments(body[0], f)
            f.fresh = self.fresh_locals(body[0])
            f.tainted = self.tainted_locals(body[0], params[0][0] if params else None, f.fresh)

    def fresh_locals(self, body):
        """local pointer variables every assignment of which is the result of an allocation call (or NULL)"""
        cand, bad = set(), set()
        def rhs_fresh(e):
            e = strip(e)
            if e.get('kind') == 'CallExpr':
                c, _ = callee_name(e)
                return c in ALLOCATORS or c in self.returns_fresh
            if e.get('kind') in ('IntegerLiteral', 'GNUNullExpr', 'CXXNullPtrLiteralExpr'):
                return True
            return False
        def walk(n):
            k = n.get('kind')
            if k == 'VarDecl' and '*' in n.get('type', {}).get('qualType', ''):
                init = [c for c in n.get('inner', []) if c.get('kind')]
                if init:
                    (cand if rhs_fresh(init[-1]) else bad).add(n.get('name'))
                else:
                    cand.add(n.get('name'))
            if k == 'BinaryOperator' and n.get('opcode') == '=':
                lhs = strip(n['inner'][0])
                if lhs.get('kind') == 'DeclRefExpr':
                    nm = lhs['referencedDecl'].get('name')
                    (cand if rhs_fresh(n['inner'][1]) else bad).add(nm)
            for c in n.get('inner', []):
                walk(c)
        walk(body)
        return cand - bad

    def tainted_locals(self, body, param, fresh):
        """local pointer variables that may point into container state: assigned (anywhere in the function) from an
        expression that reads a field of the container or of a node, copies another such pointer, or is the result of an
        internal helper that hands out node/buffer pointers"""
        assigns = []      # (var, rhs)
        def walk(n):
            k = n.get('kind')
            if k == 'VarDecl' and '*' in n.get('type', {}).get('qualType', ''):
                init = [c for c in n.get('inner', []) if c.get('kind')]
                if init:
                    assigns.append((n.get('name'), init[-1]))
            if k == 'BinaryOperator' and n.get('opcode') == '=':
                lhs = strip(n['inner'][0])
                if lhs.get('kind') == 'DeclRefExpr' and '*' in lhs.get('type', {}).get('qualType', ''):
                    assigns.append((lhs['referencedDecl'].get('name'), n['inner'][1]))
            for c in n.get('inner', []):
                walk(c)
        walk(body)
        tainted = set()
        def derives(e):
            k = e.get('kind')
            if k == 'MemberExpr':
                base = strip(e['inner'][0])
                if base.get('kind') == 'DeclRefExpr':
                    nm = base['referencedDecl'].get('name')
                    if nm == param or nm in tainted:
                        return True
                    if nm in fresh:
                        return False
            if k == 'DeclRefExpr' and e.get('referencedDecl', {}).get('name') in tainted:
                return True
            if k == 'CallExpr':
                c, _ = callee_name(e)
                # the result of a call points into the container only for the internal helpers that hand out node or
                # buffer pointers; what a public accessor returns is either a private copy or (newmem=false) the caller's
                # responsibility; the arguments of the call do not matter for where its result points
                if c in ('get_obj', 'find_obj', 'get_at', 'findobj', 'find_min', 'find_max'):
                    return True
                # a public accessor asked NOT to copy (its last argument, `newmem`, is the literal false): the result is the
                # container's own buffer.  (A variable there is the caller's choice, handed through; literal true is a copy.)
                if c and re.search(r'_(get|getstr|getobj|getat|getfirst|getlast)$', c):
                    args = [strip(x) for x in e.get('inner', [])[1:]]
                    if args and args[-1].get('kind') == 'IntegerLiteral' and args[-1].get('value') == '0':
                        return True
                return False
            return any(derives(c) for c in e.get('inner', []))
        changed = True
        while changed:
            changed = False
            for v, rhs in assigns:
                if v not in tainted and v not in fresh and derives(rhs):
                    tainted.add(v); changed = True
        return tainted

    returns_fresh = {'newobj', 'new_obj'}     # static constructors of node objects: every return is a block they allocated

    def scan_assignments(self, n, f):
        if n.get('kind') == 'BinaryOperator' and n.get('opcode') == '=':
            lhs, rhs = strip(n['inner'][0]), strip(n['inner'][1])
            if lhs.get('kind') == 'MemberExpr' and rhs.get('kind') == 'DeclRefExpr' and rhs.get('referencedDecl', {}).get('kind') == 'FunctionDecl':
                bt = lhs['inner'][0].get('type', {}).get('qualType', '')
                self.methods[(self.tyname(bt), lhs['name'])] = rhs['referencedDecl']['name']
                self.method_targets.add((f.file, rhs['referencedDecl']['name'], self.tyname(bt)))
        for c in n.get('inner', []):
            self.scan_assignments(c, f)

    @staticmethod
    def tyname(qt):
        return qt.replace('const', '').replace('struct', '').replace('*', '').strip()

    # ---- pass 2: translate
    def resolve(self, cname, basetype):
        if cname is None:
            return None
        if cname.startswith('->'):
            return self.methods.get((self.tyname(basetype or ''), cname[2:]))
        return cname

    def expr(self, n, fn):
        out = []
        k = n.get('kind')
        if k == 'UnaryOperator' and n.get('opcode') == '*' or k == 'ArraySubscriptExpr':
            b = strip(n['inner'][0])
            if b.get('kind') == 'DeclRefExpr' and b['referencedDecl'].get('name') in fn.tainted \
               and (fn.name, b['referencedDecl'].get('name')) not in PRIVATE_AFTER_UNLINK:
                out.append(('Deref', '*' + b['referencedDecl'].get('name')))
        if k == 'CallExpr':
            for a in n['inner'][1:]:
                out += self.expr(a, fn)
                # a pointer into container state handed to another function (memcpy, strlen, free, ...) is dereferenced there
                def mentions_tainted(e):
                    if e.get('kind') == 'DeclRefExpr':
                        nm = e.get('referencedDecl', {}).get('name')
                        return nm in fn.tainted and (fn.name, nm) not in PRIVATE_AFTER_UNLINK
                    if e.get('kind') in ('ImplicitCastExpr', 'ParenExpr', 'CStyleCastExpr', 'BinaryOperator'):
                        return any(mentions_tainted(c) for c in e.get('inner', []))
                    return False
                if mentions_tainted(a):
                    out.append(('Deref', 'arg'))
            cname, bt = callee_name(n)
            target = self.resolve(cname, bt)
            fnode = strip(n['inner'][0])
            if fnode.get('kind') == 'MemberExpr':
                out += self.expr(fnode['inner'][0], fn)
            if target is not None and (fn.file, target) in self.statics:
                target = self.statics[(fn.file, target)]
            nm = target or cname or '?'
            if nm.endswith('_lock') or nm == '->lock':
                out.append(('Lock',))
            elif nm.endswith('_unlock') or nm == '->unlock':
                out.append(('Unlock',))
            elif target is None and cname and cname.startswith('->'):
                # a function pointer that is not one of the container's own methods: a user callback (e.g. the tree's
                # comparator).  Reading the pointer is an access to that field (already emitted above); the callee is
                # outside the library and is assumed not to re-enter the container.
                out.append(('Call', '<callback>'))
            else:
                fn.calls.add(nm)
                out.append(('Call', nm))
            return out
        if k == 'MemberExpr':
            out += self.expr(n['inner'][0], fn)
            base = strip(n['inner'][0])
            if base.get('kind') == 'DeclRefExpr' and fn.params and base['referencedDecl'].get('name') == fn.params[0][0]:
                out.append(('Acc', n['name'], self.tyname(base.get('type', {}).get('qualType', ''))))
            elif n.get('isArrow'):
                bname = base['referencedDecl'].get('name') if base.get('kind') == 'DeclRefExpr' else None
                if bname is not None and (bname in fn.fresh or (fn.name, bname) in PRIVATE_AFTER_UNLINK
                                          or (not fn.static and bname in [p[0] for p in fn.params[1:]])):
                    pass      # a block this call allocated itself, a node it has already unlinked, or a caller-owned argument
                else:
                    out.append(('Deref', n['name']))
            return out
        if k == 'ConditionalOperator':
            c, a, b = n['inner']
            return self.expr(c, fn) + [('If', self.expr(a, fn), self.expr(b, fn))]
        if k == 'BinaryOperator' and n.get('opcode') in ('&&', '||'):
            a, b = n['inner']
            return self.expr(a, fn) + [('If', self.expr(b, fn), [])]
        if k in ('StmtExpr',):
            for c in n.get('inner', []):
                out += self.stmts(c, fn)
            return out
        for c in n.get('inner', []):
            out += self.expr(c, fn)
        return out

    def stmts(self, n, fn):
        k = n.get('kind')
        if k is None:
            return []
        if k == 'DoStmt' and is_macro_stmt(n):
            cs = calls_in(n, set())
            if 'pthread_mutex_trylock' in cs:
                return [('Lock',)]
            if 'pthread_mutex_destroy' in cs:
                return []
            if 'pthread_mutex_unlock' in cs:
                return [('Unlock',)]
            if 'pthread_mutex_init' in cs:
                return []
        if k == 'CompoundStmt':
            out = []
            for c in n.get('inner', []):
                out += self.stmts(c, fn)
            return out
        if k == 'IfStmt':
            inner = n['inner']
            cond, th = inner[0], inner[1]
            el = inner[2] if len(inner) > 2 else None
            return self.expr(cond, fn) + [('If', self.stmts(th, fn), self.stmts(el, fn) if el else [])]
        if k == 'WhileStmt':
            cond, body = n['inner'][0], n['inner'][-1]
            return [('Loop', self.expr(cond, fn) + self.stmts(body, fn))] + self.expr(cond, fn)
        if k == 'DoStmt':
            body, cond = n['inner'][0], n['inner'][1]
            return [('Loop', self.stmts(body, fn) + self.expr(cond, fn))]
        if k == 'ForStmt':
            init, _, cond, inc, body = n['inner']
            pre = self.stmts(init, fn) if init.get('kind') else []
            c = self.expr(cond, fn) if cond.get('kind') else []
            i = self.expr(inc, fn) if inc.get('kind') else []
            # `continue` jumps to the increment; the abstraction puts the increment first in the next round, which visits
            # the same operations on every path that goes round again
            return pre + [('Loop', c + self.stmts(body, fn) + i)] + c
        if k == 'ReturnStmt':
            e = []
            for c in n.get('inner', []):
                e += self.expr(c, fn)
            return e + [('Return',)]
        if k == 'BreakStmt':
            return [('Break',)]
        if k == 'ContinueStmt':
            return [('Continue',)]
        if k == 'LabelStmt':
            out = []
            for c in n.get('inner', []):
                out += self.stmts(c, fn)
            return out
        if k == 'GotoStmt':
            # forward jump to a label that is a top-level statement of the function body: what runs is the tail of the body
            # from that label on, then the function returns.  Anything else is not understood.
            tail = self.labels.get(n.get('targetLabelDeclId'))
            if tail is None or self.in_goto:
                return [('Unsupported', 'goto')]
            self.in_goto = True
            out = []
            for c in tail:
                out += self.stmts(c, fn)
            self.in_goto = False
            return out + [('Return',)]
        if k in ('SwitchStmt', 'IndirectGotoStmt'):
            return [('Unsupported', k)]
        if k == 'DeclStmt':
            out = []
            for d in n.get('inner', []):
                for c in d.get('inner', []):
                    out += self.expr(c, fn)
            return out
        if k == 'NullStmt':
            return []
        return self.expr(n, fn)


def has(term, kinds):
    for t in term:
        if t[0] in kinds:
            return True
        if t[0] == 'If' and (has(t[1], kinds) or has(t[2], kinds)):
            return True
        if t[0] == 'Loop' and has(t[1], kinds):
            return True
    return False


def generate(repo):
    tr = Translator()
    tus = {}
    for f in FILES:
        tus[f] = load(repo, f)
        tr.collect(tus[f], f)
    raw = {}
    for name, fn in tr.fns.items():
        tr.labels, tr.in_goto = {}, False
        top = fn.body.get('inner', [])
        for i, c in enumerate(top):
            if c.get('kind') == 'LabelStmt':
                tr.labels[c.get('declId')] = top[i:]
        raw[name] = tr.stmts(fn.body, fn)
    # goto only occurs in constructors that take no lock; a function with Unsupported AND lock operations stays Unsupported
    # which functions contain lock operations, transitively
    locky = {n for n, t in raw.items() if has(t, ('Lock', 'Unlock'))}
    changed = True
    while changed:
        changed = False
        for n, fn in tr.fns.items():
            if n not in locky and any(c in locky for c in fn.calls):
                locky.add(n); changed = True
    # fields written outside constructors ("mutable"); constructors = functions whose name equals a struct prefix or that calloc the container
    ctor = {n for n in tr.fns if re.fullmatch(r'q(treetbl|hashtbl|listtbl|list|vector|queue|stack|grow|log)', n)}
    mutable = set()
    def scan_writes(n, fname):
        k = n.get('kind')
        tgt = None
        if k == 'BinaryOperator' and (n.get('opcode') == '=' or n.get('opcode', '').endswith('=') and n.get('opcode') not in ('==', '!=', '<=', '>=')):
            tgt = n['inner'][0]
        if k == 'UnaryOperator' and n.get('opcode') in ('++', '--'):
            tgt = n['inner'][0]
        if k == 'UnaryOperator' and n.get('opcode') == '&':
            tgt = n['inner'][0]        # address taken: may be written through
        if tgt is not None:
            t = strip(tgt)
            while t.get('kind') == 'ArraySubscriptExpr':
                t = strip(t['inner'][0])
            if t.get('kind') == 'MemberExpr':
                base = t['inner'][0]
                mutable.add((Translator.tyname(base.get('type', {}).get('qualType', '')), t['name']))
        for c in n.get('inner', []):
            scan_writes(c, fname)
    for n, fn in tr.fns.items():
        if n not in ctor:
            scan_writes(fn.body, n)
    # does a lock-free function touch mutable container state (directly or through callees)?  Derefs of other pointers count
    touches = {}
    def direct_touch(term):
        for t in term:
            if t[0] == 'Acc' and (t[2], t[1]) in mutable:
                return True
            if t[0] == 'Deref':
                return True
            if t[0] == 'If' and (direct_touch(t[1]) or direct_touch(t[2])):
                return True
            if t[0] == 'Loop' and direct_touch(t[1]):
                return True
        return False
    for n in tr.fns:
        touches[n] = direct_touch(raw[n])
    changed = True
    while changed:
        changed = False
        for n, fn in tr.fns.items():
            if not touches[n] and any(touches.get(c, False) for c in fn.calls):
                touches[n] = True; changed = True
    # emit
    order, seen, stack = [], set(), set()
    unsupported_rec = set()
    def visit(n):
        if n in seen:
            return
        if n in stack:
            unsupported_rec.add(n); return
        stack.add(n)
        for c in sorted(tr.fns[n].calls):
            if c in tr.fns and c in locky:
                visit(c)
        stack.discard(n); seen.add(n); order.append(n)
    for n in sorted(tr.fns):
        visit(n)

    def emit(term, self_name):
        if not term:
            return 'Skip'
        parts = []
        for t in term:
            k = t[0]
            if k == 'Lock': parts.append('SLock')
            elif k == 'Unlock': parts.append('SUnlock')
            elif k == 'Acc': parts.append('Acc %s' % ('true' if (t[2], t[1]) in mutable else 'false'))
            elif k == 'Deref': parts.append('Acc true')
            elif k == 'Call':
                c = t[1]
                if c in tr.fns and c in locky:
                    if c == self_name or c in unsupported_rec:
                        parts.append('Unsupported')
                    else:
                        parts.append('CallInl f_%s' % c)
                elif c in tr.fns:
                    parts.append('CallFree %s' % ('true' if touches[c] else 'false'))
                else:
                    parts.append('CallFree false')
            elif k == 'If': parts.append('If (%s) (%s)' % (emit(t[1], self_name), emit(t[2], self_name)))
            elif k == 'Loop': parts.append('Loop (%s)' % emit(t[1], self_name))
            elif k == 'Return': parts.append('Return')
            elif k == 'Break': parts.append('Break')
            elif k == 'Continue': parts.append('Continue')
            elif k == 'Unsupported':
                # goto/switch in a function that contains no lock operation at all (the two constructors): the lock depth
                # cannot change there whatever the jumps do, so they are ignored; anywhere else the checker must reject
                parts.append('Unsupported' if self_name in locky else 'Skip')
        # drop no-op accesses to immutable fields to keep terms small
        parts = [p for p in parts if p not in ('Acc false', 'CallFree false')] or ['Skip']
        s = parts[-1]
        for p in reversed(parts[:-1]):
            s = 'Seq (%s) (%s)' % (p, s)
        return s

    out = ["(* GENERATED by tools/gen_lockast.py from clang's AST of the lockable containers -- do not edit *)",
           "From Coq Require Import List String.", "From QV.Conc Require Import LockAst.", "Import ListNotations.", "Local Open Scope string_scope.", ""]
    for n in order:
        out.append("Definition f_%s : stmt := %s." % (n, emit(raw[n], n)))
    # ... whose first parameter is that structure (an operation on the container; helpers such as the list table's private
    # namematch(), which take an element and run inside the caller's critical section, are not operations)
    via_pointer = {tr.statics[(f, n)] for (f, n, st) in tr.method_targets if (f, n) in tr.statics
                   and tr.fns[tr.statics[(f, n)]].params and tr.tyname(tr.fns[tr.statics[(f, n)]].params[0][1]) == st}
    pub = [n for n in sorted(tr.fns) if (not tr.fns[n].static or n in via_pointer) and not n.endswith('_lock') and not n.endswith('_unlock')]
    out.append("")
    out.append("(* every non-static function of the lockable containers, and every static one that a constructor stores into a method")
    out.append("   pointer (the operations of qlog), except the lock()/unlock() primitives themselves *)")
    out.append("Definition public_api : list (string * stmt) := [%s]." % '; '.join('("%s", f_%s)' % (n, n) for n in pub))
    skip = re.compile(r'^(q(treetbl|hashtbl|listtbl|list|vector|queue|stack|grow|log)|.*_(free|size|datasize|debug|check|getnext|set_compare|freemulti|setsize|byte_cmp)|node_check_.*|qlog_.*)$')   # qlog_.* also covers the static qlog__<method> names
    c13 = [n for n in pub if not skip.match(n)]
    out.append("(* the operations property C13 speaks about: put/add/push, get, remove/pop, clear, flattening, reverse, sort ... of the")
    out.append("   lockable containers; constructors and free() (exclusive access by contract), size()/debug()/check() (plain reads outside")
    out.append("   the property's operation mix), getnext() (the caller holds the lock during a walk) are not in the list *)")
    out.append("Definition c13_api : list (string * stmt) := [%s]." % '; '.join('("%s", f_%s)' % (n, n) for n in c13))
    import hashlib
    hdr = open(os.path.join(repo, 'src/internal/qinternal.h')).read()
    changed_macros = [n for n, fp in MACRO_FINGERPRINTS.items()
                      if macro_text(hdr, n) is None or hashlib.sha256(macro_text(hdr, n).encode()).hexdigest()[:16] != fp]
    out.append("(* do the Q_MUTEX_* macros still have the text whose meaning was read by hand?  changed: %s *)" % (', '.join(changed_macros) or 'none'))
    out.append("Definition mutex_macros_reviewed : bool := %s." % ('false' if changed_macros else 'true'))
    # every mutex of a lockable container is created recursive: the nested-entry theorem (an operation called between the user's
    # lock() and unlock() returns at depth 1) reads Q_MUTEX_ENTER as "trylock succeeds for the owner", which holds for recursive
    # mutexes only.  (file, recursive?) for each Q_MUTEX_NEW in the sources.
    news = []
    for f in FILES:
        txt = open(os.path.join(repo, 'src', f)).read()
        for m in re.finditer(r'Q_MUTEX_NEW\s*\(\s*[^,]+,\s*([^)]+?)\s*\)', txt):
            news.append((os.path.basename(f), m.group(1).strip() == 'true'))
    out.append("Definition mutex_new_recursive : list (string * bool) := [%s]." % '; '.join('("%s", %s)' % (n, 'true' if r else 'false') for n, r in news))
    # variables with static storage duration defined in the container sources (file scope, function-local static, thread-local),
    # const ones excepted: state that outlives a call and is not part of any container, so no container lock protects it
    statics_found = []
    def scan_static(n, infn, f):
        k = n.get('kind')
        if k == 'FunctionDecl':
            infn = n.get('name')
        if k == 'VarDecl':
            loc = n.get('loc', {}) if isinstance(n.get('loc'), dict) else {}
            inc = 'includedFrom' in loc or 'includedFrom' in loc.get('expansionLoc', {}) or 'includedFrom' in loc.get('spellingLoc', {})
            sc, tls = n.get('storageClass'), n.get('tls')
            qt = n.get('type', {}).get('qualType', '')
            const = qt.startswith('const ') and '*' not in qt or qt.rstrip().endswith('const')
            if not inc and sc != 'extern' and (infn is None or sc == 'static' or tls) and not const:
                statics_found.append((os.path.basename(f), (infn + ':' if infn else '') + n.get('name', '?')))
        for c in n.get('inner', []):
            scan_static(c, infn, f)
    for f in FILES:
        scan_static(tus[f], None, f)
    out.append("Definition static_state : list (string * string) := [%s]." % '; '.join('("%s", "%s")' % x for x in sorted(set(statics_found))))
    out.append("Definition lock_users : list string := [%s]." % '; '.join('"%s"' % n for n in sorted(locky) if n in pub))
    out.append("Definition mutable_fields : list (string * string) := [%s]." % '; '.join('("%s", "%s")' % m for m in sorted(mutable)))
    return {'LockAst.v': '\n'.join(out) + '\n'}


if __name__ == '__main__':
    r = generate(sys.argv[1] if len(sys.argv) > 1 else '/repo')
    print(r['LockAst.v'][:6000])
