#!/usr/bin/env python3
# Translators: regenerate coq/Gen/*.v from the current /repo sources.  A file is replaced only when its
# content changed, so `make` re-checks exactly the proofs that depend on what changed in the source.
import sys, os, re, importlib

def write_if_changed(path, content):
    old = open(path).read() if os.path.exists(path) else None
    if old != content:
        tmp = path + '.tmp'
        open(tmp, 'w').write(content)
        os.replace(tmp, path)
        return True
    return False

def main():
    repo, out = sys.argv[1], sys.argv[2]
    os.makedirs(out, exist_ok=True)
    sys.path.insert(0, os.path.dirname(os.path.abspath(__file__)))
    changed = []
    for modname in ['gen_tables', 'gen_hashconst', 'gen_lockast', 'gen_consts', 'gen_seqwrap', 'gen_treeops']:
        try:
            mod = importlib.import_module(modname)
        except ModuleNotFoundError:
            continue
        for fname, content in mod.generate(repo).items():
            if write_if_changed(os.path.join(out, fname), content):
                changed.append(fname)
    print('regenerated:', ' '.join(changed) if changed else '(nothing changed)')

if __name__ == '__main__':
    main()
