#!/bin/sh
# usage: tools/try_seed_iso.sh <patch.diff> <Cxx> [more Cxx...]
# Like try_seed.sh, but leaves /repo and /verif alone: the seeded change is applied in a scratch worktree of /repo, the
# framework is copied (with its compiled files) next to it and the checks run there with VERIF_REPO pointing at the
# patched copy.  Several of these can run at the same time.  Everything is removed afterwards.
p=$(readlink -f "$1"); shift
w=$(mktemp -d /tmp/ts-XXXXXX)
cleanup() { git -C /repo worktree remove --force "$w/repo" 2>/dev/null; rm -rf "$w"; git -C /repo worktree prune; }
trap cleanup EXIT
git -C /repo worktree add -q --detach "$w/repo" HEAD || exit 2
( cd "$w/repo" && git apply "$p" ) || { echo "patch does not apply to /repo"; exit 2; }
rsync -a --exclude .git --exclude replays --exclude '.lock-*' /verif/ "$w/verif/"
cd "$w/verif" || exit 2
for c in "$@"; do
  out=$(VERIF_REPO="$w/repo" ./check "$c" 2>&1); rc=$?
  echo "== $c exit=$rc: $(echo "$out" | grep -c '^VIOLATION') VIOLATION line(s)"
  echo "$out" | grep '^VIOLATION\|^KNOWN' | head -4 | sed "s#$w/verif#/verif#g"
  for r in $(echo "$out" | grep '^VIOLATION' | sed 's/.*replay=\([^ ]*\).*/\1/' | head -2); do python3 -c "
import json,sys
d=json.load(open('$r')); print('   ', d.get('kind'), '|', (d.get('title') or str(d.get('broken',''))[:200])[:200])"; done
done
