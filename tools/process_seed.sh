#!/bin/sh
# usage: tools/process_seed.sh <Cxx> <N> <srcdir> <check ids...>
# confirm the seeded change independently, run our checks against it, keep it under seeded/<Cxx>-<N>/ with meta.json
pid=$1; n=$2; src=$3; shift 3
out=/verif/seeded/$pid-$n; mkdir -p "$out"
[ "$(readlink -f "$src")" = "$out" ] || cp "$src"/patch.diff "$out"/ ; if [ "$(readlink -f "$src")" != "$out" ]; then for f in "$src"/*; do [ -f "$f" ] && [ "$(basename "$f")" != patch.diff ] && [ "$(stat -c %s "$f")" -lt 400000 ] && cp "$f" "$out"/; done; fi
conf=$(sh /verif/tools/confirm_seed.sh "$out" 2>&1); crc=$?
echo "$conf" | tail -6
res=$(sh /verif/tools/${TRY:-try_seed_iso.sh} "$out/patch.diff" "$@" 2>&1)
echo "$res"
tf=$(mktemp /tmp/ps-XXXXXX); printf '%s' "$conf" > "$tf.conf"; printf '%s' "$res" > "$tf.res"
python3 - "$pid" "$n" "$crc" "$out" "$tf" "$@" <<'PY'
import json,sys,re
pid,n,crc,out,tf=sys.argv[1:6]; checks=sys.argv[6:]
conf=open(tf+'.conf', errors='replace').read()
res=open(tf+'.res', errors='replace').read()
caught={}
for m in re.finditer(r'== (C\d+) exit=(\d+): (\d+) VIOLATION', res):
    caught[m.group(1)]={'exit':int(m.group(2)),'violation_lines':int(m.group(3))}
kinds=re.findall(r'^\s+(\S+) \| (.*)$', res, re.M)
readme=open(out+'/README.md').read() if __import__('os').path.exists(out+'/README.md') else ''
json.dump({'property':pid,'seed':int(n),'confirmed_independently':crc=='0','confirmation_log':conf.splitlines()[-6:],
           'what_it_needs':'see README.md (written by the sub-agent that produced the change)',
           'checks_run':checks,'result':caught,'first_reports':[{'kind':k,'title':t} for k,t in kinds[:6]],
           'ran':'tools/confirm_seed.sh (scratch worktree: demo on unchanged tree, ctest + demo on patched tree) then tools/try_seed.sh (git -C /repo apply; ./check ...; git -C /repo checkout -- .)'},
          open(out+'/meta.json','w'),indent=1)
PY
rm -f "$tf" "$tf.conf" "$tf.res"
