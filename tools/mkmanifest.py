#!/usr/bin/env python3
# Writes MANIFEST.json from the table below (one entry per claimed property) and validates it.
import json, os, sys
V = os.path.dirname(os.path.dirname(os.path.abspath(__file__)))
CHECKS = {}
def claim(pid, text, note, technique, design, category='proof'):
    CHECKS[pid] = dict(text=text, note=note, technique=technique, design=design, category=category)

exec(open(os.path.join(V, 'tools', 'claims.py')).read())

props = [json.loads(l)['id'] for l in open(os.path.join(V, 'properties.jsonl'))]
NA = json.load(open(os.path.join(V, 'tools', 'not_applicable.json')))
checks = []
for pid in props:
    if pid not in CHECKS:
        continue
    c = CHECKS[pid]
    checks.append({
        'property_id': pid,
        'quick_cmd': './check %s --tier quick' % pid,
        'thorough_cmd': './check %s --tier thorough' % pid,
        'evidence_file': 'evidence/%s.json' % pid,
        'replay_cmd_template': './check %s --replay {path}' % pid,
        'engine': 'rocq-proof+correspondence',
        'level_claimed': {'category': c['category'], 'text': c['text'], 'design_ref': c['design']},
        'level_note': c['note'],
        'technique': c['technique'],
    })
na = [{'property_id': p, 'reason': NA.get(p, 'not yet built: no check registered for this property in this revision (see DESIGN.md section 10 for the plan)')}
      for p in props if p not in CHECKS]
m = {
    'version': 1,
    'setup_cmd': 'sh tools/setup.sh',
    'hooks': {'guard': 'QLIBC_VERIF', 'enable': 'harness builds compile /repo/src/*.c directly with -DQLIBC_VERIF (no hook is currently needed: all observations use public struct fields, public functions and link-time --wrap)',
              'baseline_off_cmd': 'cd /repo && cmake -G Ninja -B _build >/dev/null && cmake --build _build >/dev/null && ctest --test-dir _build -j8 --timeout 900',
              'source_commits': [], 'add_only': True},
    'engines': [{'name': 'rocq-proof+correspondence', 'path': 'check', 'serves_properties': [c['property_id'] for c in checks],
                 'kind_free_text': 'Coq 8.16 theorems about Gallina models (coq/), tables/constants/lock structure regenerated from the C source on every run (tools/gen_*.py), models extracted to OCaml and run side by side with the implementation rebuilt from /repo (harness/, ocaml/)'}],
    'checks': checks,
    'not_applicable': na,
    'notes': 'Every check: regenerate coq/Gen from /repo, make Properties_<id>.vo (full .vo build), rebuild harness from /repo working tree, run implementation, extracted model and extracted spec on the same generated inputs. See DESIGN.md.',
}
json.dump(m, open(os.path.join(V, 'MANIFEST.json'), 'w'), indent=1)
try:
    import jsonschema
    jsonschema.validate(m, json.load(open('/root/.vp/MANIFEST.schema.json')))
    print('MANIFEST.json valid;', len(checks), 'checks,', len(na), 'not claimed')
except ImportError:
    print('MANIFEST.json written (jsonschema not available to validate);', len(checks), 'checks')
