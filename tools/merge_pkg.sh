#!/bin/sh
# usage: tools/merge_pkg.sh <branch> <area> <Area_module_prefix>    (run in /verif during a conflicted merge of an agent branch)
# Resolves the mechanical conflicts of shared files: keeps ours and re-applies the package's additions.
set -e
br=$1; area=$2
git rm -q --cached coq/_CoqProject 2>/dev/null || true
rm -f coq/_CoqProject
# claims: union (ours + the claim blocks of theirs that we do not have)
git show "$br":tools/claims.py > /tmp/claims_theirs.py
git show HEAD:tools/claims.py > tools/claims.py
python3 - "$area" <<'PY'
import re,sys
ours=open('tools/claims.py').read()
theirs=open('/tmp/claims_theirs.py').read()
blocks=re.findall(r"^claim\('(C\d+)'.*?^  design='[^']*'\)\n", theirs, re.S|re.M)
for m in re.finditer(r"^claim\('(C\d+)'.*?^  design='[^']*'\)\n", theirs, re.S|re.M):
    if "claim('%s'"%m.group(1) not in ours:
        ours+=m.group(0)
open('tools/claims.py','w').write(ours)
PY
# driver.ml: ours + dispatch line
git show HEAD:ocaml/driver.ml > ocaml/driver.ml
git show "$br":ocaml/driver.ml | grep "D_.*run ()" | while read -r l; do
  grep -qF "$l" ocaml/driver.ml || sed -i "s#  | _ -> prerr_endline#  $l\n  | _ -> prerr_endline#" ocaml/driver.ml
done
# Extract.v: ours; the package's Require line and a separate Extraction command are added by hand below
git show HEAD:coq/Extract.v > coq/Extract.v
echo "now add the Require line and an Extraction \"../ocaml/gen/${area}_model.ml\" command to coq/Extract.v, fix ocaml/d_${area}.ml opens"
