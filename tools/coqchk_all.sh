#!/bin/sh
# Re-check every compiled property file (and everything it depends on) with Coq's independent checker and record the
# axiom report.  Slow (a few minutes per file, run 4 at a time); not part of the per-change checks.
cd "$(dirname "$0")/../coq" || exit 1
mkdir -p ../evidence/coqchk
ls Properties_C*.v | sed 's/\.v$//' | xargs -P 4 -I{} sh -c 'timeout 3000 coqchk -o -silent -Q . QV QV.{} > ../evidence/coqchk/{}.txt 2>&1; echo "{} exit=$?"'
grep -L "Fatal\|Error" ../evidence/coqchk/*.txt | wc -l
