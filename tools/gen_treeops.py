# C -> Gallina translator for the pointer-level LLRB helpers of qtreetbl.c (clang's JSON AST -> coq/Gen/TreeOps.v).
# Every listed function becomes a definition `c_<name>` in the heap monad of coq/Tree/TreeHeap.v, statement by statement:
#   p->f (load)            ld_f p            Crash when p is NULL / not allocated
#   p->f = e (store)       st_f p e
#   x = e, T x = e         let x := e in ... (re-binding; an `if` that assigns locals hands them on as its result)
#   a && b, a || b, ?:     evaluated left to right with short circuit
#   e == NULL, e != NULL   is_null
#   f(e) (listed helper)   c_f e
#   for(;c;step);          fuelled loop c_<name>_loopN (fuel parameter of the enclosing definition)
#   for(init;c;) { body }  init first, then a fuelled loop over the one local the body assigns; a `return e` inside the body ends
#                          the function: the loop yields inr e (returned) or inl local (condition false)
#   tbl->root              an extra parameter `root` of the definition (the table object itself is not in the heap model)
#   a condition over non-node parameters only (name == NULL || namesize == 0)   an extra boolean parameter guardN
#   T *x; (no initialiser)  x := null until assigned
#   f(e) (f itself)        recursion on explicit fuel: Fixpoint c_f (fuel) ..., nofuel when it runs out
#   free(p)                free_node p       Crash when p is NULL / not allocated (double free); afterwards p is not allocated
#   free(p->name|data)     dropped: the payload buffers are not part of this heap model
#   tbl->compare(name, namesize, p->name, p->namesize)   cmp_key kc p : the comparator's answer for the searched key at node p
#                          (Crash when p is NULL / not allocated); the int that receives it may be compared with a literal
#   parameters that are not node pointers (tbl, name, namesize, copydata, datasize) are not modelled: a recursive call must pass
#                          them on unchanged; statements that only touch payload fields (name, data, namesize, datasize) and an
#                          `if` whose branches consist of such statements only are dropped; tbl->num++ / -- are dropped (the element
#                          counter is compared by the lockstep runs)
#   assert(e)              dropped
#   T x = p->name|data|...  dropped (a copy of a payload pointer or size)
#   <counter>++            dropped: only for the global statistics counters named in COUNTERS
#   errno = E              dropped (the helpers' errno is not part of what is proved here)
# Anything else stops the translation with an error naming the construct: a change of the C text that leaves this
# subset is reported by the check as a broken translator, never silently skipped.
import os, re, json, subprocess

FUNCS = ['is_red', 'flip_color', 'rotate_left', 'rotate_right', 'move_red_left', 'move_red_right', 'fix',
         'find_min', 'find_max', 'remove_min', 'put_obj', 'find_obj',
         'node_check_red', 'node_check_llrb', 'remove_obj']
KEYED = ('put_obj', 'find_obj', 'remove_obj')           # translated inside a Section over kc : positive -> Z (the comparator's answer for the searched key at a node)
PAYLOAD_FIELDS = ('name', 'data', 'namesize', 'datasize')
PAYLOAD = ('name', 'data')      # fields of the node object that are not part of the heap model
COUNTERS = re.compile(r'^_q_treetbl_\w+_cnt$')
FIELDS = ('red', 'left', 'right')


class Unsupported(Exception):
    pass


FUELLED = {}      # name -> does the translation of that function take a fuel parameter (filled in as the functions are emitted)


def load(repo):
    cmd = ['clang', '-std=gnu99', '-w', '-I%s/include/qlibc' % repo, '-I%s/include' % repo, '-I%s/src/internal' % repo,
           '-fsyntax-only', '-Xclang', '-ast-dump=json', os.path.join(repo, 'src/containers/qtreetbl.c')]
    p = subprocess.run(cmd, capture_output=True, text=True)
    if p.returncode != 0 or not p.stdout:
        raise SystemExit('gen_treeops: clang failed: %s' % p.stderr[:500])
    return json.loads(p.stdout)


def strip(n):
    while n.get('kind') in ('ImplicitCastExpr', 'ParenExpr', 'CStyleCastExpr') and n.get('inner'):
        n = n['inner'][-1]
    return n


def is_ptr(n):
    return '*' in n.get('type', {}).get('qualType', '')


class Fn:
    def __init__(self, decl):
        self.name = decl['name']
        allp = [c for c in decl.get('inner', []) if c.get('kind') == 'ParmVarDecl']
        self.all_params = [c['name'] for c in allp]
        self.params = [c['name'] for c in allp if 'qtreetbl_obj_t *' in c['type']['qualType']]
        self.opaque = set(self.all_params) - set(self.params)
        self.ints = set()
        self.bools = set()
        self.extra = []        # extra parameters (name, type) introduced by the translation
        self.retfmt = 'ret %s'
        self.body = [c for c in decl['inner'] if c.get('kind') == 'CompoundStmt'][0]
        self.ret_ptr = '*' in decl['type']['qualType'].split('(')[0]
        self.n = 0
        self.loops = []     # text of auxiliary fuelled loop definitions
        self.uses_fuel = False
        self.recursive = False
        self.locals = set(self.params)

    def fresh(self):
        self.n += 1
        return 't%d' % self.n

    # ---- expressions: ('p', text) pure, ('m', text) monadic
    def tr(self, n):
        k = n.get('kind')
        if k in ('ImplicitCastExpr', 'ParenExpr', 'CStyleCastExpr'):
            inner = n['inner'][-1]
            if n.get('castKind') == 'NullToPointer':
                return ('p', 'null')
            if strip(inner).get('kind') == 'IntegerLiteral' and is_ptr(n):
                return ('p', 'null')
            return self.tr(inner)
        if k == 'IntegerLiteral':
            v = int(n['value'])
            if v in (0, 1):
                return ('p', 'true' if v else 'false')
            raise Unsupported('integer literal %d in %s' % (v, self.name))
        if k == 'DeclRefExpr':
            nm = n['referencedDecl']['name']
            if nm in self.locals or nm in self.ints or nm in self.bools:
                return ('p', nm)
            raise Unsupported('reference to %s in %s' % (nm, self.name))
        if k == 'MemberExpr' and n.get('name') == 'root' and strip(n['inner'][0]).get('referencedDecl', {}).get('name') in self.opaque:
            if ('root', 'ptr') not in self.extra:
                self.extra.append(('root', 'ptr'))
            return ('p', 'root')
        if k == 'BinaryOperator' and self.opaque_only(n):
            g = 'guard%d' % (len([e for e in self.extra if e[1] == 'bool']) + 1)
            self.extra.append((g, 'bool'))
            self.guards = getattr(self, 'guards', []) + [g]
            return ('p', g)
        if k == 'MemberExpr':
            if not n.get('isArrow') or n['name'] not in FIELDS:
                raise Unsupported('member %s in %s' % (n.get('name'), self.name))
            return self.bind(self.tr(n['inner'][0]), lambda b: ('m', 'ld_%s %s' % (n['name'], b)))
        if k == 'UnaryOperator' and n.get('opcode') == '!':
            return self.bind(self.tr(n['inner'][0]), lambda b: ('p', '(negb %s)' % b))
        if k == 'BinaryOperator' and n.get('opcode') in ('&&', '||'):
            a, b = n['inner']
            tb = self.tr(b)
            bt = tb[1] if tb[0] == 'm' else 'ret %s' % tb[1]
            if n['opcode'] == '&&':
                return self.bind(self.tr(a), lambda x: ('m', 'if %s then (%s) else ret false' % (x, bt)) if tb[0] == 'm'
                                 else ('p', '(%s && %s)' % (x, tb[1])))
            return self.bind(self.tr(a), lambda x: ('m', 'if %s then ret true else (%s)' % (x, bt)) if tb[0] == 'm'
                             else ('p', '(%s || %s)' % (x, tb[1])))
        if k == 'BinaryOperator' and n.get('opcode') in ('==', '!=', '<', '>', '<=', '>='):
            a0, b0 = strip(n['inner'][0]), strip(n['inner'][1])
            if a0.get('kind') == 'DeclRefExpr' and a0['referencedDecl']['name'] in self.ints and b0.get('kind') == 'IntegerLiteral':
                fn = {'==': 'Z.eqb %s %s', '!=': 'negb (Z.eqb %s %s)', '<': 'Z.ltb %s %s', '>': 'Z.ltb %s %s', '<=': 'Z.leb %s %s', '>=': 'Z.leb %s %s'}[n['opcode']]
                x, y = a0['referencedDecl']['name'], '%s%%Z' % b0['value']
                if n['opcode'] in ('>', '>='):
                    x, y = y, x
                return ('p', '(' + fn % (x, y) + ')')
        if k == 'BinaryOperator' and n.get('opcode') in ('==', '!='):
            a, b = n['inner']
            ta, tb = self.tr(a), self.tr(b)
            if tb == ('p', 'null'):
                e = a
            elif ta == ('p', 'null'):
                e = b
            else:
                raise Unsupported('comparison other than with NULL in %s' % self.name)
            neg = n['opcode'] == '!='
            return self.bind(self.tr(e), lambda x: ('p', '(negb (is_null %s))' % x if neg else '(is_null %s)' % x))
        if k == 'ConditionalOperator':
            c, a, b = n['inner']
            ta, tb = self.tr(a), self.tr(b)
            at = ta[1] if ta[0] == 'm' else 'ret %s' % ta[1]
            bt = tb[1] if tb[0] == 'm' else 'ret %s' % tb[1]
            return self.bind(self.tr(c), lambda x: ('m', 'if %s then (%s) else (%s)' % (x, at, bt)))
        if k == 'CallExpr':
            f = strip(n['inner'][0])
            nm = f.get('referencedDecl', {}).get('name')
            if f.get('kind') == 'MemberExpr' and f.get('name') == 'compare':
                args = [strip(a) for a in n['inner'][1:]]
                ok = (len(args) == 4 and args[0].get('kind') == 'DeclRefExpr' and args[1].get('kind') == 'DeclRefExpr'
                      and args[0]['referencedDecl']['name'] in self.opaque and args[1]['referencedDecl']['name'] in self.opaque
                      and args[2].get('kind') == 'MemberExpr' and args[2].get('name') == 'name'
                      and args[3].get('kind') == 'MemberExpr' and args[3].get('name') == 'namesize'
                      and json.dumps(strip(args[2]['inner'][0]).get('referencedDecl', {}).get('id')) == json.dumps(strip(args[3]['inner'][0]).get('referencedDecl', {}).get('id')))
                if not ok:
                    raise Unsupported('comparator call of an unexpected form in %s' % self.name)
                return self.bind(self.tr(args[2]['inner'][0]), lambda x: ('m', 'cmp_key kc %s' % x))
            if nm == self.name and len(n['inner']) - 1 == len(self.all_params) and len(self.all_params) > 1:
                self.recursive = self.uses_fuel = True
                res = None
                vals = []
                for pn, a in zip(self.all_params, n['inner'][1:]):
                    if pn in self.opaque:
                        a1 = strip(a)
                        if a1.get('kind') != 'DeclRefExpr' or a1['referencedDecl']['name'] != pn:
                            raise Unsupported('recursive call of %s changes the argument %s' % (nm, pn))
                    else:
                        vals.append(a)
                def chain(i, acc):
                    if i == len(vals):
                        return ('m', 'c_%s fuel %s' % (nm, ' '.join(acc)))
                    return self.bind(self.tr(vals[i]), lambda x: chain(i + 1, acc + [x]))
                return chain(0, [])
            if nm == 'free' and len(n['inner']) == 2:
                a = strip(n['inner'][1])
                if a.get('kind') == 'MemberExpr' and a.get('name') in PAYLOAD:
                    return ('p', 'tt')
                return self.bind(self.tr(n['inner'][1]), lambda x: ('m', 'free_node %s' % x))
            if nm not in FUNCS:
                raise Unsupported('call of %s in %s' % (nm, self.name))
            if len(n['inner']) != 2:
                raise Unsupported('call of %s with %d arguments' % (nm, len(n['inner']) - 1))
            if nm == self.name:
                self.recursive = self.uses_fuel = True
                return self.bind(self.tr(n['inner'][1]), lambda x: ('m', 'c_%s fuel %s' % (nm, x)))
            if FUELLED.get(nm):
                self.uses_fuel = True
                return self.bind(self.tr(n['inner'][1]), lambda x: ('m', 'c_%s fuel %s' % (nm, x)))
            return self.bind(self.tr(n['inner'][1]), lambda x: ('m', 'c_%s %s' % (nm, x)))
        raise Unsupported('%s %s in %s' % (k, n.get('opcode', ''), self.name))

    def bind(self, r, k):
        """continue with the value of r; k maps the text of a pure value to a result ('p'|'m', text)"""
        if r[0] == 'p':
            return k(r[1])
        t = self.fresh()
        kr = k(t)
        kt = kr[1] if kr[0] == 'm' else 'ret %s' % kr[1]
        if kr == ('m', 'ld_red %s' % t) or re.fullmatch(r'(ld_\w+|c_\w+) %s' % t, kt):
            return ('m', 'bnd (%s) %s' % (r[1], kt.split(' ')[0]))
        return ('m', 'bnd (%s) (fun %s => %s)' % (r[1], t, kt))

    def mon(self, r):
        return r[1] if r[0] == 'm' else 'ret %s' % r[1]

    # ---- statements
    def flat(self, stmts):
        out = []
        for s in stmts:
            if s.get('kind') == 'CompoundStmt':
                out += self.flat(s.get('inner', []))
            elif s.get('kind') != 'NullStmt':
                out.append(s)
        return out

    def pure_opaque(self, n):
        k = n.get('kind')
        if k == 'DeclRefExpr':
            return n['referencedDecl']['name'] in self.opaque
        if k in ('MemberExpr', 'CallExpr'):
            return False
        return all(self.pure_opaque(c) for c in n.get('inner', []))

    def opaque_only(self, n):
        """an expression built from non-node parameters and literals only (no loads, no calls, no locals)"""
        return self.pure_opaque(n) and self.mentions_opaque(n)

    def mentions_opaque(self, n):
        if n.get('kind') == 'DeclRefExpr':
            return n['referencedDecl']['name'] in self.opaque
        return any(self.mentions_opaque(c) for c in n.get('inner', []))

    def has_call(self, n):
        return n.get('kind') == 'CallExpr' or any(self.has_call(c) for c in n.get('inner', []))

    def payload_only(self, s):
        k = s.get('kind')
        if k == 'CompoundStmt':
            return all(self.payload_only(c) for c in s.get('inner', []))
        if k == 'NullStmt':
            return True
        if k == 'CallExpr':
            f = strip(s['inner'][0]); a = strip(s['inner'][1]) if len(s['inner']) == 2 else {}
            return f.get('referencedDecl', {}).get('name') == 'free' and a.get('kind') == 'MemberExpr' and a.get('name') in PAYLOAD
        if k == 'BinaryOperator' and s.get('opcode') == '=':
            l = strip(s['inner'][0])
            return l.get('kind') == 'MemberExpr' and l.get('name') in PAYLOAD_FIELDS and not self.has_call(s['inner'][1])
        return False

    def always_returns(self, stmts):
        fl = self.flat(stmts)
        if not fl:
            return False
        last = fl[-1]
        if last.get('kind') == 'ReturnStmt':
            return True
        if last.get('kind') == 'IfStmt' and len(last['inner']) > 2:
            return self.always_returns([last['inner'][1]]) and self.always_returns([last['inner'][2]])
        return False

    def used_in(self, stmts):
        acc = set()
        def walk(n):
            if n.get('kind') == 'DeclRefExpr':
                acc.add(n['referencedDecl']['name'])
            for c in n.get('inner', []):
                walk(c)
        for st in stmts:
            walk(st)
        return acc

    def has_return(self, s):
        if s.get('kind') == 'ReturnStmt':
            return True
        return any(self.has_return(c) for c in s.get('inner', []))

    def assigned(self, s, acc):
        if s.get('kind') == 'BinaryOperator' and s.get('opcode') == '=':
            l = strip(s['inner'][0])
            if l.get('kind') == 'DeclRefExpr' and l['referencedDecl']['name'] in (self.locals | self.ints | self.bools):
                acc.add(l['referencedDecl']['name'])
        for c in s.get('inner', []):
            self.assigned(c, acc)
        return acc

    def block(self, stmts, tail):
        """text of type M T for the statement list; tail = text run when control falls off the end"""
        stmts = self.flat(stmts)
        if not stmts:
            if tail is None:
                raise Unsupported('control reaches the end of %s without a return' % self.name)
            return tail
        s, rest = stmts[0], stmts[1:]
        k = s.get('kind')
        if '__assert_fail' in json.dumps(s):
            if k in ('IfStmt', 'ForStmt', 'CompoundStmt', 'ReturnStmt', 'DeclStmt'):
                pass
            else:
                return self.block(rest, tail)      # assert(e): dropped
        if k == 'ReturnStmt':
            if self.retfmt == 'ret %s':
                return self.mon(self.tr(s['inner'][0]))
            return self.mon(self.bind(self.tr(s['inner'][0]), lambda v: ('m', self.retfmt % v)))
        if k == 'DeclStmt':
            txt = None
            decls = s['inner']
            if len(decls) == 1 and decls[0].get('kind') == 'VarDecl' and not decls[0].get('inner') and 'qtreetbl_obj_t *' in decls[0]['type']['qualType']:
                self.locals.add(decls[0]['name'])
                return 'let %s := null in\n  %s' % (decls[0]['name'], self.block(rest, tail))
            if len(decls) != 1 or decls[0].get('kind') != 'VarDecl' or not decls[0].get('inner'):
                raise Unsupported('declaration without initialiser in %s' % self.name)
            v = decls[0]['name']
            i0 = strip(decls[0]['inner'][0])
            if i0.get('kind') == 'MemberExpr' and i0.get('name') in PAYLOAD_FIELDS:
                self.opaque.add(v)            # a copy of a payload pointer / size: not modelled
                return self.block(rest, tail)
            r = self.tr(decls[0]['inner'][0])
            if decls[0]['type']['qualType'] == 'int':
                self.ints.add(v)
            elif decls[0]['type']['qualType'] in ('bool', '_Bool'):
                self.bools.add(v)
            else:
                self.locals.add(v)
            return self.mon(self.bind(r, lambda x: ('m', 'let %s := %s in\n  %s' % (v, x, self.block(rest, tail)))))
        if k == 'BinaryOperator' and s.get('opcode') == '=':
            l = strip(s['inner'][0])
            rhs = s['inner'][1]
            if l.get('kind') == 'DeclRefExpr':
                nm = l['referencedDecl']['name']
                if nm == 'errno':
                    return self.block(rest, tail)
                if nm not in self.locals and nm not in self.ints and nm not in self.bools:
                    raise Unsupported('assignment to %s in %s' % (nm, self.name))
                return self.mon(self.bind(self.tr(rhs), lambda x: ('m', 'let %s := %s in\n  %s' % (nm, x, self.block(rest, tail)))))
            if l.get('kind') == 'MemberExpr' and l.get('name') in PAYLOAD_FIELDS and not self.has_call(rhs):
                return self.block(rest, tail)
            if l.get('kind') == 'MemberExpr' and l.get('isArrow') and l['name'] in FIELDS:
                return self.mon(self.bind(self.tr(l['inner'][0]), lambda b: self.bind(self.tr(rhs), lambda x:
                                ('m', 'bnd (st_%s %s %s) (fun _ =>\n  %s)' % (l['name'], b, x, self.block(rest, tail))))))
            if l.get('kind') == 'UnaryOperator' and l.get('opcode') == '*' and 'errno' in json.dumps(l)[:2000]:
                return self.block(rest, tail)       # errno = E (errno is a macro: *__errno_location())
            raise Unsupported('assignment target %s in %s' % (l.get('kind'), self.name))
        if k == 'UnaryOperator' and s.get('opcode') in ('++', '--'):
            t = strip(s['inner'][0])
            if t.get('kind') == 'DeclRefExpr' and COUNTERS.match(t['referencedDecl']['name']):
                return self.block(rest, tail)
            if t.get('kind') == 'MemberExpr' and t.get('name') == 'num' and strip(t['inner'][0]).get('referencedDecl', {}).get('name') in self.opaque:
                return self.block(rest, tail)
            raise Unsupported('increment of something other than a statistics counter in %s' % self.name)
        if k == 'CallExpr':
            r = self.tr(s)
            if r == ('p', 'tt'):
                return self.block(rest, tail)
            return 'bnd (%s) (fun _ =>\n  %s)' % (self.mon(r), self.block(rest, tail))
        if k == 'IfStmt' and not self.has_call(s['inner'][0]) and all(self.payload_only(b) for b in s['inner'][1:]):
            return self.block(rest, tail)
        if k == 'IfStmt':
            parts = s['inner']
            cond, th = parts[0], [parts[1]]
            el = [parts[2]] if len(parts) > 2 else []
            if self.has_return(s) and rest and not self.always_returns(th) and not self.always_returns(el):
                # both branches may fall through to what follows: what follows becomes ONE local continuation over the
                # locals in scope, instead of a copy in each branch
                self.nk = getattr(self, 'nk', 0) + 1
                kname = 'k_rest%d' % self.nk
                vs = sorted(self.assigned(s, set()) | (self.ints | self.bools | (self.locals - set())) & self.used_in(rest))
                vs = [v for v in vs if v in (self.locals | self.ints | self.bools)]
                tup = vs[0] if len(vs) == 1 else '(' + ', '.join(vs) + ')'
                pat = vs[0] if len(vs) == 1 else "'(" + ', '.join(vs) + ')'
                saved = (set(self.locals), set(self.ints), set(self.bools))
                krest = self.block(rest, tail)
                self.locals, self.ints, self.bools = set(saved[0]), set(saved[1]), set(saved[2])
                a = self.block(th, '%s %s' % (kname, tup))
                self.locals, self.ints, self.bools = set(saved[0]), set(saved[1]), set(saved[2])
                b = self.block(el, '%s %s' % (kname, tup))
                self.locals, self.ints, self.bools = saved
                return 'let %s := (fun %s =>\n  %s) in\n  %s' % (kname, pat, krest,
                        self.mon(self.bind(self.tr(cond), lambda c: ('m', 'if %s then (%s)\n  else (%s)' % (c, a, b)))))
            if self.has_return(s):
                saved = set(self.locals)
                a = self.block(th + rest, tail)
                self.locals = set(saved)
                b = self.block(el + rest, tail)
                self.locals = saved
                return self.mon(self.bind(self.tr(cond), lambda c: ('m', 'if %s then (%s)\n  else (%s)' % (c, a, b))))
            vs = sorted(self.assigned(s, set()))
            tup = 'tt' if not vs else (vs[0] if len(vs) == 1 else '(' + ', '.join(vs) + ')')
            pat = '_' if not vs else (vs[0] if len(vs) == 1 else "'(" + ', '.join(vs) + ')')
            saved = set(self.locals)
            a = self.block(th, 'ret %s' % tup)
            self.locals = set(saved)
            b = self.block(el, 'ret %s' % tup)
            self.locals = saved
            c = self.mon(self.bind(self.tr(cond), lambda c: ('m', 'if %s then (%s) else (%s)' % (c, a, b))))
            return 'bnd (%s) (fun %s =>\n  %s)' % (c, pat, self.block(rest, tail))
        if k == 'ForStmt':
            # for (init; cond; step) body  with empty init and body: a fuelled loop over the assigned locals
            init, _, cond, step, body = (s['inner'] + [None] * 5)[:5]
            if init and init.get('kind'):
                s2 = dict(s); s2['inner'] = [{}] + s['inner'][1:]
                return self.block([init, s2] + rest, tail)
            if body and self.flat([body]):
                if step and step.get('kind'):
                    raise Unsupported('for statement with both a step and a body in %s' % self.name)
                vs = sorted(self.assigned(body, set()) & self.locals)
                if len(vs) != 1:
                    raise Unsupported('loop body assigning %d node locals in %s' % (len(vs), self.name))
                v = vs[0]
                lname = 'c_%s_loop%d' % (self.name, len(self.loops) + 1)
                saved_fmt, saved_locals, saved_ints = self.retfmt, set(self.locals), set(self.ints)
                self.retfmt = 'ret (inr %s)'
                c = self.tr(cond)
                bd = self.block([body], '%s fuel %s' % (lname, v))
                self.retfmt, self.locals, self.ints = saved_fmt, saved_locals, saved_ints
                loop = ('Fixpoint %s (fuel : nat) (%s : ptr) : M (ptr + ptr) :=\n  match fuel with O => nofuel | S fuel =>\n  %s end.\n'
                        % (lname, v, self.mon(self.bind(c, lambda x: ('m', 'if %s then (%s) else ret (inl %s)' % (x, bd, v))))))
                self.loops.append(loop)
                self.uses_fuel = True
                return 'bnd (%s fuel %s) (fun r => match r with inr v => %s | inl %s =>\n  %s end)' % (lname, v, self.retfmt % 'v', v, self.block(rest, tail))
            if (init and init.get('kind')) or (body and body.get('kind') not in ('NullStmt',) and self.flat([body])):
                raise Unsupported('for statement with an initialiser or a body in %s' % self.name)
            vs = sorted(self.assigned(step, set()))
            if len(vs) != 1:
                raise Unsupported('loop step assigning %d locals in %s' % (len(vs), self.name))
            v = vs[0]
            lname = 'c_%s_loop%d' % (self.name, len(self.loops) + 1)
            c = self.tr(cond)
            stp = self.block([step], 'ret %s' % v)
            loop = ('Fixpoint %s (fuel : nat) (%s : ptr) : M ptr :=\n  match fuel with O => nofuel | S fuel =>\n  %s end.\n'
                    % (lname, v, self.mon(self.bind(c, lambda x: ('m', 'if %s then bnd (%s) (%s fuel) else ret %s' % (x, stp, lname, v))))))
            self.loops.append(loop)
            self.uses_fuel = True
            return 'bnd (%s fuel %s) (fun %s =>\n  %s)' % (lname, v, v, self.block(rest, tail))
        raise Unsupported('statement %s %s in %s' % (k, s.get('opcode', ''), self.name))

    def emit(self):
        body = self.block(self.body.get('inner', []), None)
        ps = ' '.join('(%s : ptr)' % p for p in self.params)
        ps = (ps + ' ' + ' '.join('(%s : %s)' % e for e in self.extra)).strip()
        if self.recursive:
            return ''.join(self.loops) + 'Fixpoint c_%s (fuel : nat) %s : M %s :=\n  match fuel with O => nofuel | S fuel =>\n  %s end.\n' % (
                self.name, ps, 'ptr' if self.ret_ptr else 'bool', body)
        fuel = '(fuel : nat) ' if self.uses_fuel else ''
        return ''.join(self.loops) + 'Definition c_%s %s%s : M %s :=\n  %s.\n' % (self.name, fuel, ps, 'ptr' if self.ret_ptr else 'bool', body)


def generate(repo):
    tu = load(repo)
    decls = {}
    for d in tu.get('inner', []):
        if d.get('kind') == 'FunctionDecl' and d.get('name') in FUNCS and any(c.get('kind') == 'CompoundStmt' for c in d.get('inner', [])):
            decls[d['name']] = d
    out = ["(* GENERATED by tools/gen_treeops.py from clang's AST of src/containers/qtreetbl.c -- do not edit *)",
           "From Coq Require Import PArith ZArith Bool.", "From QV.Base Require Import Res.", "From QV.Tree Require Import TreeHeap.", ""]
    for f in FUNCS:
        if f not in decls:
            raise SystemExit('gen_treeops: function %s not found in qtreetbl.c' % f)
        try:
            fn = Fn(decls[f])
            txt = fn.emit()
            FUELLED[f] = fn.uses_fuel
            if f in KEYED:
                txt = 'Section WithKey_%s.\nVariable kc : positive -> Z.\n%sEnd WithKey_%s.\n' % (f, txt, f)
            out.append(txt)
        except Unsupported as e:
            raise SystemExit('gen_treeops: cannot translate: %s' % e)
    return {'TreeOps.v': '\n'.join(out)}


if __name__ == '__main__':
    import sys
    print(generate(sys.argv[1] if len(sys.argv) > 1 else '/repo')['TreeOps.v'])
