#!/bin/sh
# usage: tools/recheck_seed.sh <seeded/Cxx-n> [checks...]   -- run the checks (default: those recorded in meta.json) against an already
# confirmed seeded change again and refresh result/first_reports in its meta.json (the confirmation is not repeated)
d=$(cd "$1" && pwd); shift
checks="$*"; [ -z "$checks" ] && checks=$(python3 -c "import json,sys; print(' '.join(json.load(open('$d/meta.json'))['checks_run']))")
res=$(sh /verif/tools/try_seed_iso.sh "$d/patch.diff" $checks 2>&1)
tf=$(mktemp /tmp/rs-XXXXXX); printf '%s' "$res" > "$tf"
python3 - "$d" "$tf" $checks <<'PY'
import json,sys,re
d,tf=sys.argv[1:3]; checks=sys.argv[3:]
res=open(tf, errors='replace').read()
m=json.load(open(d+'/meta.json'))
caught={}
for x in re.finditer(r'== (C\d+) exit=(\d+): (\d+) VIOLATION', res):
    caught[x.group(1)]={'exit':int(x.group(2)),'violation_lines':int(x.group(3))}
if not caught:
    print('no verdict parsed for', d); sys.exit(1)
kinds=re.findall(r'^\s+(\S+) \| (.*)$', res, re.M)
m['checks_run']=checks; m['result']=caught; m['first_reports']=[{'kind':k,'title':t} for k,t in kinds[:6]]
json.dump(m,open(d+'/meta.json','w'),indent=1)
print(d.split('/')[-1], {k:v['violation_lines'] for k,v in caught.items()})
PY
rm -f "$tf"
