#!/usr/bin/env python3
# Rewrites the table between <!-- SEEDTABLE --> markers of DESIGN.md from seeded/*/meta.json and README.md
import json, glob, os, re
V = os.path.dirname(os.path.dirname(os.path.abspath(__file__)))
rows = []
for d in sorted(glob.glob(os.path.join(V, 'seeded', 'C*'))):
    mp = os.path.join(d, 'meta.json')
    if not os.path.exists(mp):
        continue
    m = json.load(open(mp))
    readme = open(os.path.join(d, 'README.md')).read() if os.path.exists(os.path.join(d, 'README.md')) else ''
    title = next((l.strip('# ').strip() for l in readme.splitlines() if l.strip() and not l.startswith('```')), '')[:110]
    caught = ', '.join('%s: %s' % (c, 'caught' if r['exit'] != 0 and r['violation_lines'] > 0 else 'not caught') for c, r in m.get('result', {}).items())
    how = '; '.join(sorted({x['kind'] + ' — ' + x['title'][:70] for x in m.get('first_reports', [])}))[:260]
    conf = 'yes' if m.get('confirmed_independently') else 'no'
    if m.get('obsolete_since'):      # the change stopped being a defect when /repo was repaired: see the note in its meta.json
        conf, caught, how = 'until ' + m['obsolete_since'], 'obsolete: behaviour-preserving on the repaired tree, check silent (was caught before)', m.get('note', '')[:260]
    rows.append('| %s | %s | %s | %s | %s |' % (os.path.basename(d), title.replace('|', '/'), conf, caught, how.replace('|', '/')))
tab = '| seed | change (from its README) | confirmed | checks run | first reports |\n|---|---|---|---|---|\n' + '\n'.join(rows)
p = os.path.join(V, 'DESIGN.md')
s = open(p).read()
s = re.sub(r'<!-- SEEDTABLE -->.*?<!-- /SEEDTABLE -->', '<!-- SEEDTABLE -->\n' + tab + '\n<!-- /SEEDTABLE -->', s, flags=re.S)
open(p, 'w').write(s)
print(len(rows), 'rows')
