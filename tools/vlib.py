# Common machinery of every check: scratch dirs, building /repo sources, regenerating
# coq/Gen, running make on the Coq development, running harness + extracted model,
# verdict logic (known findings, VIOLATION lines, replay files) and the evidence writer.
import os, sys, json, time, subprocess, tempfile, shutil, atexit, fcntl, hashlib, random, re, glob
from concurrent.futures import ThreadPoolExecutor

VERIF = os.path.dirname(os.path.dirname(os.path.abspath(__file__)))
REPO = os.environ.get('VERIF_REPO', '/repo')
COQ = os.path.join(VERIF, 'coq')
OCAML = os.path.join(VERIF, 'ocaml')
NCPU = os.cpu_count() or 4
GUARD = 'QLIBC_VERIF'

BASE_CFLAGS = ['-std=gnu99', '-g', '-O1', '-fno-builtin', '-Wno-error', '-w', '-D_GNU_SOURCE', '-D' + GUARD,
               '-I' + os.path.join(REPO, 'include/qlibc'), '-I' + os.path.join(REPO, 'include'),
               '-I' + os.path.join(REPO, 'src/internal'), '-I' + os.path.join(VERIF, 'harness')]

TRUSTED_BASE = [
    'Coq 8.16.1 kernel (coqc, full .vo build; vm_compute used for finite sweeps and witnesses; no native_compute)',
    'axioms: none declared; Print Assumptions of every property theorem is recorded in this evidence',
    'extraction: Require Extraction + ExtrOcamlBasic only (Extract Inductive bool/option/unit/prod/list/sumbool/sumor/comparison); no Extract Constant; N/Z/positive/nat stay Coq datatypes',
    'OCaml 4.13.1 compiler and ocaml/*.ml drivers',
    'translators tools/gen_*.py (and clang where they use its AST), gcc, the C harnesses, this Python comparison code',
    'hand-written Gallina models are tied to the C text by correspondence (differential execution) only',
]


def sh(cmd, timeout=None, cwd=None, inp=None, env=None):
    p = subprocess.run(cmd, cwd=cwd, input=inp, stdout=subprocess.PIPE, stderr=subprocess.STDOUT,
                       timeout=timeout, env=env)
    return p.returncode, p.stdout.decode('utf-8', 'replace')


class Lock:
    def __init__(self, name):
        self.path = os.path.join(VERIF, '.lock-' + name)

    def __enter__(self):
        self.f = open(self.path, 'w')
        fcntl.flock(self.f, fcntl.LOCK_EX)

    def __exit__(self, *a):
        fcntl.flock(self.f, fcntl.LOCK_UN)
        self.f.close()


class Ctx:
    def __init__(self, pid, tier, seed, level='proof'):
        self.pid, self.tier, self.seed, self.level = pid, tier, seed, level
        self.t0 = time.time()
        self.rng = random.Random(seed * 1000003 + int(pid[1:]))
        base = os.environ.get('TMPDIR', '/tmp')
        self.scratch = tempfile.mkdtemp(prefix='qv-%s-' % pid, dir=base)
        atexit.register(lambda: shutil.rmtree(self.scratch, ignore_errors=True))
        self.violations = []      # (kind, title)
        self.known_hits = []
        self.broken = []          # obligations / correspondences broken, no concrete input (yet)
        self.cov = {'evaluations': 0, 'samples': [], 'histograms': {}}
        self.distinct = set()
        self.assumptions = []
        self.notes = []
        self.print_assumptions = ''
        self.obligations = 0
        self.discharged = 0
        self.theorems = []
        self.nrep = 0
        kf = os.path.join(VERIF, 'known_findings.json')
        self.known = [k for k in json.load(open(kf)) if k.get('property') == pid] if os.path.exists(kf) else []

    # ------------------------------------------------------------------ building C
    def cc(self, out, repo_srcs, harness_srcs, extra=(), san=None, wrap=(), cov=False, libs=('-lpthread',), cflags=()):
        """Compile /repo sources (relative to REPO/src) + harness files (relative to VERIF/harness) into scratch/out."""
        flags = list(BASE_CFLAGS) + list(cflags)
        ld = []
        cc = 'gcc'
        if san == 'asan':
            cc = 'clang'
            flags += ['-fsanitize=address,undefined', '-fno-sanitize-recover=undefined', '-fno-omit-frame-pointer']
            ld += ['-fsanitize=address,undefined']
        elif san == 'tsan':
            cc = 'clang'
            flags += ['-fsanitize=thread']
            ld += ['-fsanitize=thread']
        if cov:
            flags += ['--coverage']
            ld += ['--coverage']
        objdir = os.path.join(self.scratch, 'obj-' + out)
        os.makedirs(objdir, exist_ok=True)
        jobs = []
        for s in repo_srcs:
            jobs.append((os.path.join(REPO, 'src', s), os.path.join(objdir, 'r_' + s.replace('/', '_') + '.o'), True))
        for s in harness_srcs:
            jobs.append((os.path.join(VERIF, 'harness', s), os.path.join(objdir, 'h_' + s.replace('/', '_') + '.o'), False))

        def one(j):
            src, obj, isrepo = j
            f = flags if isrepo or not cov else [x for x in flags if x != '--coverage']
            return sh([cc] + f + list(extra) + ['-c', src, '-o', obj], timeout=300)
        with ThreadPoolExecutor(NCPU) as ex:
            res = list(ex.map(one, jobs))
        for (rc, o), j in zip(res, jobs):
            if rc != 0:
                return None, 'compile %s failed:\n%s' % (j[0], o[-3000:])
        exe = os.path.join(self.scratch, out)
        wl = ['-Wl,' + ','.join('--wrap=' + w for w in wrap)] if wrap else []
        rc, o = sh([cc] + ld + [j[1] for j in jobs] + wl + list(libs) + ['-o', exe], timeout=300)
        if rc != 0:
            return None, 'link failed:\n' + o[-3000:]
        return exe, ''

    def gcov(self, out, repo_src, funcs):
        """Branch/line figures for functions of one repo source built with cov=True."""
        objdir = os.path.join(self.scratch, 'obj-' + out)
        obj = os.path.join(objdir, 'r_' + repo_src.replace('/', '_') + '.o')
        rc, o = sh(['gcov', '-b', '-f', '-o', obj, os.path.join(REPO, 'src', repo_src)], cwd=objdir, timeout=120)
        res = {}
        cur = None
        for line in o.splitlines():
            m = re.match(r"Function '(.*)'", line)
            if m:
                cur = m.group(1)
                continue
            if cur and (not funcs or cur in funcs):
                m = re.match(r'(Lines executed|Branches executed|Taken at least once):([\d.]+)% of (\d+)', line)
                if m:
                    res.setdefault(cur, {})[m.group(1)] = '%s%% of %s' % (m.group(2), m.group(3))
        return res

    # ------------------------------------------------------------------ Coq
    def regen(self):
        """Run the translators; replace coq/Gen files only when content differs. Returns (ok, message)."""
        with Lock('coq'):
            rc, o = sh([sys.executable, os.path.join(VERIF, 'tools/gen_all.py'), REPO, os.path.join(COQ, 'Gen')], timeout=600)
        return rc == 0, o

    def coq_make(self, targets, timeout=3000):
        """make the given .vo targets (full build of their dependency cone). Returns (ok, log)."""
        with Lock('coq'):
            if not os.path.exists(os.path.join(COQ, 'Makefile')):
                rc, o = sh(['coq_makefile', '-f', '_CoqProject', '-o', 'Makefile'], cwd=COQ, timeout=120)
                if rc != 0:
                    return False, o
            rc, o = sh(['timeout', str(timeout), 'make', '-k', '-j%d' % NCPU] + targets, cwd=COQ, timeout=timeout + 60)
        return rc == 0, o

    def model_build(self):
        """(Re)build the extracted OCaml model + driver if Extract.vo is newer than the driver."""
        with Lock('coq'):
            rc, o = sh(['sh', os.path.join(VERIF, 'tools/build_driver.sh')], timeout=1200)
        return rc == 0, o

    def proofs(self, prop_files, lemma_count_files=None):
        """Regenerate Gen, build Properties files, collect Print Assumptions; record obligations.
        Returns True when every theorem compiled. On failure registers a broken obligation."""
        ok, o = self.regen()
        if not ok:
            self.broken.append(('obligation:translator', 'translator failed on current source:\n' + o[-2000:]))
            return False
        targets = [p + '.vo' for p in prop_files]
        ok, log = self.coq_make(targets)
        self.coq_log = log
        cone = self.cone(prop_files)
        nq = 0
        for f in cone:
            try:
                nq += len(re.findall(r'\b(Qed|Defined)\.', open(os.path.join(COQ, f)).read()))
            except OSError:
                pass
        self.obligations = nq
        self.cone_files = cone
        if not ok:
            # which file failed
            failed = re.findall(r'File "\./([^"]+)", line (\d+)', log)
            errs = re.findall(r'(File "[^\n]*\n(?:.*\n){0,12}?Error:[^\n]*(?:\n[^\n]*){0,6})', log)
            self.broken.append(('obligation:' + (failed[0][0] + ':' + failed[0][1] if failed else 'make'),
                                'Coq proof obligation no longer checks:\n' + ('\n'.join(errs)[:3000] if errs else log[-3000:])))
            # discharged = lemmas in files whose .vo exists and is newer than source
            nd = 0
            for f in cone:
                vo = os.path.join(COQ, f[:-2] + '.vo')
                if os.path.exists(vo) and os.path.getmtime(vo) >= os.path.getmtime(os.path.join(COQ, f)):
                    nd += len(re.findall(r'\b(Qed|Defined)\.', open(os.path.join(COQ, f)).read()))
            self.discharged = nd
            return False
        self.discharged = nq
        # Print Assumptions output was saved by the Makefile rule into <file>.assumptions? no: recompute cheaply
        pa = []
        for p in prop_files:
            af = os.path.join(COQ, p + '.out')
            if not os.path.exists(af) or os.path.getmtime(af) < os.path.getmtime(os.path.join(COQ, p + '.vo')):
                shutil.copy(os.path.join(COQ, p + '.v'), os.path.join(self.scratch, p + '.v'))
                rc, out = sh(['timeout', '600', 'coqc', '-q', '-w', '-all', '-Q', COQ, 'QV', p + '.v'], cwd=self.scratch, timeout=700)
                if rc != 0:
                    self.broken.append(('obligation:print-assumptions', out[-1500:]))
                    return False
                open(af, 'w').write(out)
            pa.append(open(af).read())
            self.theorems += re.findall(r'^Theorem\s+(\w+)', open(os.path.join(COQ, p + '.v')).read(), re.M)
        self.print_assumptions = '\n'.join(pa)
        bad = [l for l in self.print_assumptions.splitlines() if re.match(r'^\s*Axioms:', l)]
        if bad:
            self.broken.append(('obligation:axioms', 'a property theorem depends on axioms:\n' + self.print_assumptions[:2000]))
            return False
        ok2, msg = self.hygiene()
        if not ok2:
            self.broken.append(('obligation:hygiene', msg))
            return False
        return True

    def cone(self, prop_files):
        """Transitive .v dependencies (inside coq/) of the given property files."""
        seen, todo = [], [p + '.v' for p in prop_files]
        while todo:
            f = todo.pop()
            if f in seen or not os.path.exists(os.path.join(COQ, f)):
                continue
            seen.append(f)
            src = open(os.path.join(COQ, f)).read()
            for m in re.finditer(r'From QV(?:\.(\w+))? Require (?:Import|Export) ([^.]*)\.', src):
                sub = m.group(1)
                for mod in m.group(2).split():
                    cands = [mod.replace('.', '/') + '.v'] if not sub else [sub + '/' + mod + '.v']
                    for c in cands:
                        todo.append(c)
        return sorted(seen)

    def hygiene(self):
        rc, o = sh(['grep', '-rnE', r'\b(Admitted|admit|Axiom|Parameter|Conjecture|Unset Guard|bypass_check|Admit Obligations)\b',
                    '--include=*.v', COQ])
        lines = [l for l in o.splitlines() if l.strip()]
        if lines:
            return False, 'forbidden construct in the development:\n' + '\n'.join(lines[:20])
        return True, ''

    # ------------------------------------------------------------------ running
    def run(self, cmd, inp=None, timeout=600, env=None):
        try:
            p = subprocess.run(cmd, input=inp, stdout=subprocess.PIPE, stderr=subprocess.PIPE, timeout=timeout, env=env,
                               cwd=self.scratch)
            return p.returncode, p.stdout, p.stderr
        except subprocess.TimeoutExpired as e:
            return -999, e.stdout or b'', (e.stderr or b'') + b'\nTIMEOUT'

    def driver(self, args, inp=None, timeout=600):
        return self.run([os.path.join(OCAML, 'driver')] + args, inp=inp, timeout=timeout)

    def path(self, name):
        return os.path.join(self.scratch, name)

    # ------------------------------------------------------------------ verdicts
    def count(self, key, k=1):
        h = self.cov['histograms']
        h[key] = h.get(key, 0) + k

    def sample(self, s, limit=6):
        if len(self.cov['samples']) < limit:
            def cut(v):
                if isinstance(v, str) and len(v) > 400:
                    return v[:400] + '...(%d chars)' % len(v)
                if isinstance(v, dict):
                    return {k: cut(x) for k, x in v.items()}
                if isinstance(v, list):
                    return [cut(x) for x in v[:40]]
                return v
            self.cov['samples'].append(cut(s))

    def match_known(self, sig):
        for k in self.known:
            if k.get('status') != 'known':
                continue
            ks = k.get('signature', {})
            if all(sig.get(a) == b for a, b in ks.items()):
                return k
        return None

    def report(self, kind, sig, title, replay):
        """A concrete failing input for the property. sig: dict matched against known_findings signatures."""
        k = self.match_known(sig)
        if k is not None:
            if k['title'] not in [x['title'] for x in self.known_hits]:
                self.known_hits.append(k)
                print('KNOWN-FINDING: property=%s %s' % (self.pid, k['title']), flush=True)
            return False
        key = json.dumps(sig, sort_keys=True)
        self.sig_counts = getattr(self, 'sig_counts', {})
        self.sig_counts[key] = self.sig_counts.get(key, 0) + 1
        if self.sig_counts[key] > 1:        # one replay file per distinct signature; further hits are only counted
            return True
        self.nrep += 1
        rp = os.path.join(VERIF, 'replays', '%s-%d-%d.json' % (self.pid, self.seed, self.nrep))
        os.makedirs(os.path.dirname(rp), exist_ok=True)
        json.dump({'property': self.pid, 'kind': kind, 'signature': sig, 'title': title, 'replay': replay,
                   'rerun': './check %s --replay %s' % (self.pid, rp)}, open(rp, 'w'), indent=1)
        self.violations.append((kind, title, rp))
        return True

    def finish(self, rule, extra_cov=None, level_note=None):
        # broken obligations / correspondences without concrete input
        lines = []
        for kind, title, rp in self.violations:
            lines.append('VIOLATION property=%s replay=%s' % (self.pid, rp))
        if self.broken and not self.violations:
            self.nrep += 1
            rp = os.path.join(VERIF, 'replays', '%s-%d-%d.json' % (self.pid, self.seed, self.nrep))
            os.makedirs(os.path.dirname(rp), exist_ok=True)
            json.dump({'property': self.pid, 'kind': self.broken[0][0], 'no_failing_input_found': True,
                       'broken': [{'what': k, 'detail': d} for k, d in self.broken],
                       'rerun': './check %s --tier %s' % (self.pid, self.tier)}, open(rp, 'w'), indent=1)
            lines.append('VIOLATION property=%s replay=%s no-failing-input-found' % (self.pid, rp))
        elif self.broken:
            # concrete violation found; mention the broken obligations in its replay file
            for kind, title, rp in self.violations[:1]:
                d = json.load(open(rp))
                d['also_broken'] = [{'what': k, 'detail': d2[:1500]} for k, d2 in self.broken]
                json.dump(d, open(rp, 'w'), indent=1)
        cov = dict(self.cov)
        cov['distinct_nontrivial'] = len(self.distinct)
        cov['rule'] = rule
        cov['obligations'] = self.obligations
        cov['discharged'] = self.discharged
        cov['checker_cmd'] = 'cd /verif/coq && coq_makefile -f _CoqProject -o Makefile && make -j16 (full .vo build; Properties_%s.vo re-made by ./check %s)' % (self.pid, self.pid)
        cov['trusted_base'] = TRUSTED_BASE
        cov['theorems'] = self.theorems
        cov['print_assumptions'] = self.print_assumptions[-6000:]
        cov['cone_files'] = getattr(self, 'cone_files', [])
        cov['known_findings_reproduced'] = [k['title'] for k in self.known_hits]
        cov['broken'] = [k for k, _ in self.broken]
        if extra_cov:
            cov.update(extra_cov)
        if not cov['samples']:
            cov['samples'] = ['(no sample recorded)']
        ev = {'property_id': self.pid, 'tier': self.tier, 'seed': self.seed, 'level': self.level, 'coverage': cov,
              'assumptions': self.assumptions, 'wall_s': round(time.time() - self.t0, 2),
              'violations': len(self.violations) + (1 if self.broken and not self.violations else 0)}
        os.makedirs(os.path.join(VERIF, 'evidence'), exist_ok=True)
        json.dump(ev, open(os.path.join(VERIF, 'evidence', self.pid + '.json'), 'w'), indent=1, sort_keys=True)
        for l in lines:
            print(l, flush=True)
        for k, d in self.broken:
            print('BROKEN %s: %s' % (k, d[:1500].replace('\n', '\n    ')), file=sys.stderr)
        if lines:
            sys.exit(1)
        print('OK property=%s tier=%s evaluations=%d distinct=%d theorems=%d obligations=%d wall=%.1fs' % (
            self.pid, self.tier, cov['evaluations'], cov['distinct_nontrivial'], len(self.theorems), self.obligations, time.time() - self.t0))
        sys.exit(0)


def hexs(b):
    return b.hex() if b else '-'


def unhex(s):
    return b'' if s == '-' else bytes.fromhex(s)


CORE_SRCS = ['containers/qtreetbl.c', 'containers/qhashtbl.c', 'containers/qhasharr.c', 'containers/qlisttbl.c',
             'containers/qlist.c', 'containers/qvector.c', 'containers/qqueue.c', 'containers/qstack.c', 'containers/qgrow.c',
             'utilities/qstring.c', 'utilities/qencode.c', 'utilities/qhash.c', 'utilities/qfile.c', 'utilities/qio.c',
             'utilities/qsystem.c', 'utilities/qtime.c', 'utilities/qcount.c', 'internal/qinternal.c', 'internal/md5/md5c.c']


def both(ctx, area, exe, ops, timeout=900, extra_args=()):
    """Run the same op lines through the C harness and the extracted model. Returns (impl_lines, model_lines, err)."""
    data = ('\n'.join(ops) + '\n').encode()
    rc1, o1, e1 = ctx.run([exe] + list(extra_args), inp=data, timeout=timeout)
    rc2, o2, e2 = ctx.driver([area] + list(extra_args), inp=data, timeout=timeout)
    il, ml = o1.decode('latin1').splitlines(), o2.decode('latin1').splitlines()
    err = None
    if rc1 != 0:
        err = 'harness exit %s: %s' % (rc1, e1.decode('latin1')[-500:])
    if rc2 != 0:
        err = (err or '') + ' driver exit %s: %s' % (rc2, e2.decode('latin1')[-500:])
    return il, ml, err


def prepare(ctx, props, exe_name, repo_srcs, harness_srcs, **kw):
    """Common first steps: proofs, model driver, harness build. Returns exe path or None (broken recorded)."""
    ctx.proofs(props)
    ok, o = ctx.coq_make(['Extract.vo'])
    if ok:
        ok, o = ctx.model_build()
    if not ok:
        ctx.broken.append(('obligation:model-build', 'extracted model does not build:\n' + o[-2000:]))
        return None
    exe, msg = ctx.cc(exe_name, repo_srcs, harness_srcs, **kw)
    if exe is None:
        ctx.broken.append(('obligation:build', msg))
    return exe


def replay_ops(ctx, area, exe, path):
    """Generic --replay: re-run the op lines stored in a replay file through implementation and model, print both."""
    d = json.load(open(path))
    r = d.get('replay', {})
    ops = r.get('ops') or ([r['op']] if 'op' in r else [])
    if not ops:
        print('replay file names no ops (obligation-level finding): ' + json.dumps(d.get('broken', d), indent=1)[:2000])
        return [], [], ops
    il, ml, err = both(ctx, area, exe, ops)
    for i, o in enumerate(ops):
        print('op    : %s\nimpl  : %s\nmodel : %s' % (o, il[i] if i < len(il) else 'MISSING', ml[i] if i < len(ml) else 'MISSING'))
    if 'expected' in r:
        print('expected (property): %s' % r['expected'])
    return il, ml, ops
