#!/bin/sh
# setup_cmd: build the whole Coq development (full .vo build), extract, build the OCaml driver.  Offline.
set -e
cd "$(dirname "$0")/.."
python3 tools/gen_all.py "${VERIF_REPO:-/repo}" coq/Gen
sh tools/mkproject.sh
( cd coq && timeout 3000 make -j"$(nproc)" )
sh tools/build_driver.sh
echo "setup ok"
