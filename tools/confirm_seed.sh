#!/bin/sh
# usage: tools/confirm_seed.sh <dir with patch.diff and demo.c|demo.sh> [extra gcc flags]
# Confirms a seeded change independently in a scratch worktree of /repo: (1) demo passes on the unchanged tree,
# (2) with the patch the library's own tests still pass, (3) with the patch the demo fails.  Removes its scratch data.
d=$(cd "$1" && pwd); shift
w=$(mktemp -d /tmp/cs-XXXXXX); b=$w-build
git -C /repo worktree add -q --detach "$w/src" HEAD || exit 2
cleanup() { git -C /repo worktree remove --force "$w/src" 2>/dev/null; rm -rf "$w" "$b"; }
trap cleanup EXIT
S=$w/src
build_demo() {
  if [ -f "$d/demo.sh" ]; then cp "$d/demo.sh" "$w/demo.sh"; return 0; fi
  # a demo that pulls an extension source in with #include "../extensions/x.c" must not get that file a second time
  ext=""; for e in qconfig qaconf qlog; do grep -q "extensions/$e.c\"" "$d/demo.c" 2>/dev/null || ext="$ext $S/src/extensions/$e.c"; done
  gcc -std=gnu99 -w -g -D_GNU_SOURCE -I$S/include/qlibc -I$S/include -I$S/src/internal $(cat "$d/demo.flags" 2>/dev/null) "$@" "$d/demo.c" $S/src/containers/*.c $S/src/utilities/*.c $ext $S/src/internal/*.c $S/src/internal/md5/*.c $S/src/ipc/*.c -lpthread $(cat "$d/demo.libs" 2>/dev/null) -o "$w/demo" 2>"$w/cc.log" || { echo "demo does not compile"; tail -5 "$w/cc.log"; return 1; }
}
run_demo() { if [ -f "$w/demo.sh" ]; then ( cd "$S" && SRC=$S timeout 300 sh "$d/demo.sh" "$S" ) >"$w/demo.out" 2>&1; else ( cd "$w" && timeout 300 ./demo ) >"$w/demo.out" 2>&1; fi; }
build_demo "$@" || exit 2
run_demo; r0=$?
echo "unchanged tree: demo exit $r0"
( cd "$S" && git apply "$d/patch.diff" ) || { echo "patch does not apply"; exit 2; }
( cmake -G Ninja -S "$S" -B "$b" >/dev/null 2>&1 && cmake --build "$b" >/dev/null 2>&1 && ctest --test-dir "$b" -j8 --timeout 900 >"$w/ctest.log" 2>&1 ); rt=$?
echo "patched tree: library tests exit $rt ($(grep -c Passed "$w/ctest.log" 2>/dev/null) passed)"
build_demo "$@" || exit 2
run_demo; r1=$?
echo "patched tree: demo exit $r1"; tail -3 "$w/demo.out"
if [ $r0 -eq 0 ] && [ $rt -eq 0 ] && [ $r1 -ne 0 ]; then echo "CONFIRMED"; exit 0; else echo "NOT CONFIRMED"; exit 1; fi
