#!/bin/sh
# (re)create coq/_CoqProject and coq/Makefile from the .v files present
cd "$(dirname "$0")/../coq" || exit 1
mkdir -p ../ocaml/gen
{ echo "-Q . QV"; echo "-arg -w"; echo "-arg -notation-overridden,-deprecated-hint-without-locality,-deprecated-instance-without-locality"; find . -name '*.v' | sed 's|^\./||' | grep -v '^scratch/' | LC_ALL=C sort; } > _CoqProject.new
if ! cmp -s _CoqProject.new _CoqProject 2>/dev/null || [ ! -f Makefile ]; then
  mv _CoqProject.new _CoqProject
  coq_makefile -f _CoqProject -o Makefile >/dev/null || exit 1
else
  rm -f _CoqProject.new
fi
