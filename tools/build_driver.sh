#!/bin/sh
# Build ocaml/driver from the extracted model (ocaml/gen/model.ml, written by coq/Extract.v) and the hand-written drivers.
set -e
cd "$(dirname "$0")/../ocaml"
[ -f gen/model.ml ] || { echo "ocaml/gen/model.ml missing: build coq/Extract.vo first"; exit 1; }
newest=$(ls -t gen/model.ml gen/model.mli *.ml | head -1)
if [ -x driver ] && [ driver -nt "$newest" ]; then exit 0; fi
mkdir -p _build && cp gen/model.ml gen/model.mli *.ml _build/
cd _build
ocamlfind ocamlopt -w -a -inline 50 model.mli model.ml util.ml $(ls d_*.ml | LC_ALL=C sort) driver.ml -o ../driver.new
mv ../driver.new ../driver
