#!/bin/sh
# Build ocaml/driver from the extracted models (ocaml/gen/*_model.ml, written by coq/Extract.v) and the hand-written drivers.
set -e
cd "$(dirname "$0")/../ocaml"
ls gen/*_model.ml >/dev/null 2>&1 || { echo "ocaml/gen/*_model.ml missing: build coq/Extract.vo first"; exit 1; }
newest=$(ls -t gen/*_model.ml gen/*_model.mli *.ml | head -1)
if [ -x driver ] && [ driver -nt "$newest" ]; then exit 0; fi
rm -rf _build && mkdir -p _build && cp gen/*_model.ml gen/*_model.mli *.ml _build/
cd _build
models=$(ls *_model.ml | LC_ALL=C sort)
# compile the extracted models in parallel (they are independent), then the drivers
for m in $models; do ( ocamlfind ocamlopt -w -a -c "${m%.ml}.mli" && ocamlfind ocamlopt -w -a -inline 50 -c "$m" ) & done
wait
for m in $models; do [ -f "${m%.ml}.cmx" ] || { echo "compiling $m failed"; exit 1; }; done
ocamlfind ocamlopt -w -a -inline 50 $(for m in $models; do echo "${m%.ml}.cmx"; done) util.ml $(ls d_*.ml | LC_ALL=C sort) driver.ml -o ../driver.new
mv ../driver.new ../driver
