claim('C16',
  text='Machine-checked theorems (Coq 8.16, closed under the global context) for all byte strings: decode(encode x) = x for the URL, Base64 and hex codecs; '
       'Base64 output = RFC 4648 written with div/mod on 24-bit groups; hex output = two lowercase digits per byte; literally emitted URL characters are safe, others %hh; '
       'both hex-digit cases and + accepted; query strings of encoded pairs parse back exactly. The lookup tables are regenerated from qencode.c on every run so an edited table breaks a proof; '
       'the algorithms are tied by running the extracted model and the implementation on the same inputs (all strings of length 0..2/3, random to 8 KiB, malformed decoder inputs, random and malformed query strings).',
  note='Trusted: Coq kernel, extraction (ExtrOcamlBasic only), gen_tables.py, gcc, harness/h_enc.c, ocaml/d_enc.ml. char is signed (x86-64). Model tied to code by differential execution, not by a C semantics.',
  technique='Rocq proof by induction + finite table sweeps (vm_compute lifted by forallb_forall); tables translated from source; extracted-model correspondence',
  design='5.16')
