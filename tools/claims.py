claim('C16',
  text='Machine-checked theorems (Coq 8.16, closed under the global context) for all byte strings: decode(encode x) = x for the URL, Base64 and hex codecs; '
       'Base64 output = RFC 4648 written with div/mod on 24-bit groups; hex output = two lowercase digits per byte; literally emitted URL characters are safe, others %hh; '
       'both hex-digit cases and + accepted; query strings of encoded pairs parse back exactly. The lookup tables are regenerated from qencode.c on every run so an edited table breaks a proof; '
       'the algorithms are tied by running the extracted model and the implementation on the same inputs (all strings of length 0..2/3, random to 8 KiB, malformed decoder inputs, random and malformed query strings).',
  note='Trusted: Coq kernel, extraction (ExtrOcamlBasic only), gen_tables.py, gcc, harness/h_enc.c, ocaml/d_enc.ml. char is signed (x86-64). Model tied to code by differential execution, not by a C semantics.',
  technique='Rocq proof by induction + finite table sweeps (vm_compute lifted by forallb_forall); tables translated from source; extracted-model correspondence',
  design='5.16')
claim('C08',
  text='Machine-checked theorems (Coq 8.16, closed under the global context), for every name-hash function, all 16 combinations of UNIQUE/CASEINSENSITIVE/INSERTTOP/LOOKUPFORWARD '
       'and every operation history: the statement-level model of qlisttbl.c (put/putstr/putint, get/getstr/getint, getmulti, remove, getnext walks with and without name filter that '
       'removeobj any subset of the entries handed out, size, sort, clear, save, load) never dereferences a dangling node, and every observation and the entry sequence equal those of an '
       'ideal ordered multimap on lists; the stored counter equals the number of entries (C08_refines). sort (bubble sort with last-exchange shortcut, exchanging payloads) yields a sorted, '
       'stable permutation = the stable insertion sort (C08_sort). save then load into a fresh table reproduces the entries in order and returns their number for names that survive the text '
       'format and arbitrary C-string values (C08_save_load, C08_parse_render); load returns the number of parsed entries and appends at the bottom (C08_load_count). '
       'Two defects of the pinned code were repaired (load returned 0; load reversed the order under INSERTTOP). The model is tied to the code by running the extracted model and spec '
       'against the implementation on the same histories (all 16 option sets, chain dumped forwards and verified backwards after every op, stored hashes and saved file bytes compared).',
  note='Trusted: Coq kernel, extraction (ExtrOcamlBasic only), gcc, harness/h_listtbl.c, ocaml/d_listtbl.ml (incl. a hand-written murmur3_32 used only to print matching hashes), checks/c08.py. '
       'C locale strcasecmp (ASCII folding). Histories use cursors only inside walks (cleared cursor, getnext*, removeobj of the entry just handed out); stale or hand-made cursors are outside the property. '
       'getint / save(encode=false) on values without NUL would over-read: answered "bad" by model and spec and never executed. int n = tbl->num in sort (tables below 2^31 entries).',
  technique='Rocq refinement proof (invariant + walk lemma over a zipper view of the chain, history induction); bubble-sort proof via adjacent-exchange relation and uniqueness of sorted stable rearrangements; '
            'text round trip on the C16 URL codec lemmas; extracted model + extracted spec correspondence with delta-debugging shrinker',
  design='5.8')
