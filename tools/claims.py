claim('C16',
  text='Machine-checked theorems (Coq 8.16, closed under the global context) for all byte strings: decode(encode x) = x for the URL, Base64 and hex codecs; '
       'Base64 output = RFC 4648 written with div/mod on 24-bit groups; hex output = two lowercase digits per byte; literally emitted URL characters are safe, others %hh; '
       'both hex-digit cases and + accepted; query strings of encoded pairs parse back exactly. The lookup tables are regenerated from qencode.c on every run so an edited table breaks a proof; '
       'the algorithms are tied by running the extracted model and the implementation on the same inputs (all strings of length 0..2/3, random to 8 KiB, malformed decoder inputs, random and malformed query strings).',
  note='Trusted: Coq kernel, extraction (ExtrOcamlBasic only), gen_tables.py, gcc, harness/h_enc.c, ocaml/d_enc.ml. char is signed (x86-64). Model tied to code by differential execution, not by a C semantics.',
  technique='Rocq proof by induction + finite table sweeps (vm_compute lifted by forallb_forall); tables translated from source; extracted-model correspondence',
  design='5.16')
claim('C01',
  text='Theorems (Coq 8.16, closed under the global context; premises: the ordering is transitive, antisymmetric and its Eq is a congruence; proved to hold for the default byte-wise ordering): '
       'for every history of put/get/remove/clear/size/find_min/find_max the concrete table model (qtreetbl.c transcribed: LLRB 2-3-4 insertion and deletion on node objects with explicit Crash where the C code dereferences unchecked) '
       'never crashes or exhausts fuel, returns exactly the observations of a strictly sorted association list, and its in-order contents equal that list (C01_refines; per-operation forms C01_put/get/remove/size/min/max). '
       'Tie: extracted model, extracted specification and the implementation are run in lockstep on random histories (3 comparators, string/binary keys, empty values), >256-walk histories, large histories, and every put/remove from every reachable tree shape over 8 (quick) / 10 (thorough) keys; full coloured shape compared after every operation.',
  note='Trusted: Coq kernel, extraction (ExtrOcamlBasic; PositiveMap bodies), gcc, h_tree.c, d_tree.ml, gen_consts.py (LLRB234 switch). Histories containing Walk/Nearest are covered by C03/C04. Model tied to the C text by differential execution.',
  technique='Rocq refinement proof (invariant + induction over histories) over a transcribed LLRB model; lockstep differential execution of extracted model/spec vs implementation incl. bounded-exhaustive shape enumeration',
  design='5.1')
claim('C02',
  text='Theorems: after every operation of every history (failed removals and replacements included) the table is a valid left-leaning red-black search tree: black root, valid red-black structure of one black height, '
       'red right child only beside a red left child, keys strictly ascending (C02_invariant; C02_put_step/C02_remove_step from any valid tree, which also show the unchecked dereferences of flip/rotate never hit NULL); '
       'the transcribed qtreetbl_check() returns 0 exactly on valid structures with a black root (C02_check_agrees); a lookup makes at most 2*log2(n+1) comparisons, stated as 2^cost <= (n+1)^2 (C02_lookup_cost). '
       'The deletion proof needed the search order (shape preservation is key-dependent). Tie as for C01 plus qtreetbl_check(), an independent C invariant checker and a counting comparator after/around every operation.',
  note='Trusted as C01. The independent checker in h_tree.c and qtreetbl_check() are monitors, not the reason the check passes.',
  technique='Rocq inductive invariant proof (LLRB shape classes for put/remove/remove_min) + extracted-model lockstep with shape comparison',
  design='5.2')
