claim('C16',
  text='Machine-checked theorems (Coq 8.16, closed under the global context) for all byte strings: decode(encode x) = x for the URL, Base64 and hex codecs; '
       'Base64 output = RFC 4648 written with div/mod on 24-bit groups; hex output = two lowercase digits per byte; literally emitted URL characters are safe, others %hh; '
       'both hex-digit cases and + accepted; query strings of encoded pairs parse back exactly. The lookup tables are regenerated from qencode.c on every run so an edited table breaks a proof; '
       'the algorithms are tied by running the extracted model and the implementation on the same inputs (all strings of length 0..2/3, random to 8 KiB, malformed decoder inputs, random and malformed query strings).',
  note='Trusted: Coq kernel, extraction (ExtrOcamlBasic only), gen_tables.py, gcc, harness/h_enc.c, ocaml/d_enc.ml. char is signed (x86-64). Model tied to code by differential execution, not by a C semantics.',
  technique='Rocq proof by induction + finite table sweeps (vm_compute lifted by forallb_forall); tables translated from source; extracted-model correspondence',
  design='5.16')
claim('C05',
  text='Machine-checked theorems (Coq 8.16, closed under the global context) for an ARBITRARY hash function, every index range (1 upward; 0 = DEFAULT_INDEX_RANGE, regenerated from qhashtbl.c) and every history of '
       'put/putstr/putint/get/getstr/getint/remove/clear/size/NULL-argument calls and getnext walks: the model of qhashtbl.c (chains per index, lookup by (hash,name), insert at head / replace in place, unlink first match, '
       'clear loop, putint/getint through the decimal text and atoll, getnext with the caller cursor (hash, next pointer) and the (hash mod range)+1 restart rule) refines an association-list map '
       '(C05_refines: same results, stored entries = map entries, size = number of distinct keys); invariant of every reachable table (C05_invariant, C05_chain_exact: chain i holds exactly the entries of index i, '
       'no name twice, num = total); a getnext walk from a zeroed cursor over an unmodified table returns every stored key exactly once, then the end (C05_walk, C05_walk_spec); atoll(printed int64) = the integer '
       '(C05_int_text_roundtrip, C05_int_roundtrip); no Fuel, Crash only where the caller applies getint to a value atoll reads past (C05_no_crash). '
       'Tie: extracted model + extracted specification run in lockstep with the implementation for ranges 1,2,3,7,1000,0 over keys precomputed to collide (same slot, and constructed identical 32-bit murmur values), '
       'comparing results, num and every chain in order with node identity and stored hash after every call; bounded-exhaustive put/remove sequences; walks complete/abandoned/restarted.',
  note='Trusted: Coq kernel, extraction (ExtrOcamlBasic only), tools/gen_consts.py, gcc, harness/h_hashtbl.c, ocaml/d_hashtbl.ml (hand-written MurmurHash3_32, compared with the C function and a Python one on every run). '
       'Spec undefined (excluded) for getint on a stored value without a byte that stops atoll inside the block (caller misuse; the code over-reads the heap copy). malloc(0) != NULL assumed (glibc). '
       'No allocation failure, no concurrency, table not modified during a walk. Model tied to code by differential execution, not by a C semantics.',
  technique='Rocq refinement proof (state relation + invariant, induction over histories), cursor-position invariant for getnext, decimal printer/parser round trip; constant translated from source; extracted-model/spec correspondence',
  design='5.5')
