claim('C16',
  text='Machine-checked theorems (Coq 8.16, closed under the global context) for all byte strings: decode(encode x) = x for the URL, Base64 and hex codecs; '
       'Base64 output = RFC 4648 written with div/mod on 24-bit groups; hex output = two lowercase digits per byte; literally emitted URL characters are safe, others %hh; '
       'both hex-digit cases and + accepted; query strings of encoded pairs parse back exactly. The lookup tables are regenerated from qencode.c on every run so an edited table breaks a proof; '
       'the algorithms are tied by running the extracted model and the implementation on the same inputs (all strings of length 0..2/3, random to 8 KiB, malformed decoder inputs, random and malformed query strings).',
  note='Trusted: Coq kernel, extraction (ExtrOcamlBasic only), gen_tables.py, gcc, harness/h_enc.c, ocaml/d_enc.ml. char is signed (x86-64). Model tied to code by differential execution, not by a C semantics.',
  technique='Rocq proof by induction + finite table sweeps (vm_compute lifted by forallb_forall); tables translated from source; extracted-model correspondence',
  design='5.16')
claim('C10',
  text='Machine-checked refinement (Coq 8.16, closed under the global context): for every operation history, element size >= 1, option word (exact/linear/doubling growth), '
       'initial capacity and int index, with fewer than 2^31 elements, the model of qvector.c (block of byte cells with undefined cells for fresh memory, the memcpy/memmove ranges '
       'as written, int/size_t index arithmetic) never leaves the block or overlaps a memcpy, returns exactly the observations of a list of fixed-size elements '
       '(insert/nth/remove/rev/concat/firstn), keeps the first num elements equal to that list, never returns an undefined byte, leaves the state untouched on refusal, '
       'refuses every out-of-range index, preserves surviving elements on resize to any capacity and behaves like a fresh vector after resize 0. '
       'Three defects of the pinned code were repaired first (resize(0) zeroed objsize; memcpy on overlapping ranges in remove_at; int byte count in remove_at). '
       'Model tied to the code by lockstep execution: bounded-exhaustive (n<=6, index in [-n-2,n+2]) x ops x policies x objsize {1,3,8} x capacity 0..3, all short op sequences, random histories with objsize up to 64.',
  note='Trusted: Coq kernel, extraction (ExtrOcamlBasic only), gcc, harness/h_vec.c (with --wrap=memcpy overlap detection), ocaml/d_vec.ml. Allocation failure not modelled (C15); '
       'size_t products assumed not to wrap (max*objsize representable). Model tied to code by differential execution, not by a C semantics.',
  technique='Rocq refinement proof (representation relation block = cells(list) ++ junk, loop lemmas for the shift and the in-place reversal, lia with div/mod for the int/size_t conversions); extracted-model and extracted-spec correspondence',
  design='5.10')
