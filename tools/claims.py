claim('C16',
  text='Machine-checked theorems (Coq 8.16, closed under the global context) for all byte strings: decode(encode x) = x for the URL, Base64 and hex codecs; '
       'Base64 output = RFC 4648 written with div/mod on 24-bit groups; hex output = two lowercase digits per byte; literally emitted URL characters are safe, others %hh; '
       'both hex-digit cases and + accepted; query strings of encoded pairs parse back exactly. The lookup tables are regenerated from qencode.c on every run so an edited table breaks a proof; '
       'the algorithms are tied by running the extracted model and the implementation on the same inputs (all strings of length 0..2/3, random to 8 KiB, malformed decoder inputs, random and malformed query strings).',
  note='Trusted: Coq kernel, extraction (ExtrOcamlBasic only), gen_tables.py, gcc, harness/h_enc.c, ocaml/d_enc.ml. char is signed (x86-64). Model tied to code by differential execution, not by a C semantics.',
  technique='Rocq proof by induction + finite table sweeps (vm_compute lifted by forallb_forall); tables translated from source; extracted-model correspondence',
  design='5.16')
claim('C19',
  text='Machine-checked theorems (Coq 8.16, closed under the global context), for all strings: buffer-level models of qstrtrim/_head/_tail, qstrunchar, qstrreplace (tn/tr/sn/sr), '
       'qstrcpy, qstrncpy, qstrdup_between, qmemdup, qstrgets, qstrrev, qstrupper, qstrlower, qstrtok, qstrtokenizer (and, as an extra, qstr_comma_number for every int) equal plain reference definitions on lists (drop-while trimming, '
       'flat_map token replace, leftmost non-overlapping string replace which is also shown to be the unique output of a declarative relation, firstn(size-1)++[0] copies, '
       'split-on-delimiters with the documented missing empty last field, line up to LF without CRs within size-1 characters), and every read/write of the model stays inside the '
       'buffer the contract covers (strlen+1 bytes for in-place routines, size bytes for the bounded copies and qstrgets, maxstrlen+1 bytes for the replace output: '
       '|out| <= (len/tok)*word + len%tok proved for all inputs with a non-empty search string). In-place replace is stated with the result length explicit (fits iff |out|+1 <= array). '
       'The models are tied to qstring.c by running the extracted model and the implementation on the same inputs: all strings of length <= 4 (quick) / 5 (thorough) over '
       '{space, tab, CR, LF, a, A, z, comma, quote, 0x80, 0xff}, all sizes 0..n+2 and nbytes 0..n+1 for the copies, all (src, token, word) triples of small length in the four modes, '
       'all offsets, random long inputs; arguments in exact-size guard-page buffers (both before- and after-layout for in-place routines), malloc wrapped to exact-size guard blocks.',
  note='Trusted: Coq kernel, extraction (ExtrOcamlBasic only), gcc, harness/h_str.c (guard pages, --wrap=malloc,free in the harness build only), ocaml/d_str.ml, checks/c19.py. '
       'char is signed (x86-64); lengths below 2^31 (int maxstrlen/len/offset in the C code are unbounded in the model). Contract preconditions in the theorems: non-empty search string in '
       'string mode (empty: division by zero or endless loop, witnessed by C19_replace_sn_empty_token_refuted), size >= 1 for qstrgets, nbytes within the source array for qstrncpy, '
       'offset within the string for qstrtok. Overlapping src/dst of qstrcpy/qstrncpy, qstrdupf, qstrcatf, qstrunique, qstr_conv_encoding, qstrtest, '
       'qstr_is_email, qstr_is_ip4addr are not modelled. Model tied to code by differential execution, not by a C semantics.',
  technique='Rocq proof by induction over buffer-level loop models (indices in Z, out-of-buffer access = Crash) + finite byte sweeps (vm_compute) for the signed-char case maps; extracted-model and extracted-spec correspondence on bounded-exhaustive and random inputs',
  design='5.19')
