claim('C16',
  text='Machine-checked theorems (Coq 8.16, closed under the global context) for all byte strings: decode(encode x) = x for the URL, Base64 and hex codecs; '
       'Base64 output = RFC 4648 written with div/mod on 24-bit groups; hex output = two lowercase digits per byte; literally emitted URL characters are safe, others %hh; '
       'both hex-digit cases and + accepted; query strings of encoded pairs parse back exactly. The lookup tables are regenerated from qencode.c on every run so an edited table breaks a proof; '
       'the algorithms are tied by running the extracted model and the implementation on the same inputs (all strings of length 0..2/3, random to 8 KiB, malformed decoder inputs, random and malformed query strings).',
  note='Trusted: Coq kernel, extraction (ExtrOcamlBasic only), gen_tables.py, gcc, harness/h_enc.c, ocaml/d_enc.ml. char is signed (x86-64). Model tied to code by differential execution, not by a C semantics.',
  technique='Rocq proof by induction + finite table sweeps (vm_compute lifted by forallb_forall); tables translated from source; extracted-model correspondence',
  design='5.16')
claim('C09',
  text='Machine-checked theorems (Coq 8.16, closed under the global context): for every history of list operations with int indexes, fewer than 2^31 elements and no walk continued '
       'with a stale cursor, the qlist model (qlist.c transcribed with its int/size_t conversions, nearest-end walk, node identities, stored num/datasum/max) returns exactly the '
       'observations of an ideal sequence of byte strings (insert at i = firstn i ++ x :: skipn i, access/removal by nth, rev, concat; 0-based from the front, negative from the back with '
       '-1 = last for access and -1 = append for insertion), never crashes, keeps num = length and datasum = total bytes, and a refused operation returns the state unchanged; a fresh walk '
       'after any history yields the current contents in order; queue = FIFO, stack = LIFO, grow = concatenation as corollaries of wrapper refinement theorems. '
       'Which end each queue/stack/grow function addresses is re-read from the source on every run; model and implementation are run side by side on every (n,index) with n<=8 (12 thorough), '
       'limits 0-4 x removals, NUL-shaped elements, and random histories, comparing results, errno class, contents, stored counters and the prev/next chain after every operation.',
  note='Trusted: Coq kernel, extraction (ExtrOcamlBasic only), gen_seqwrap.py, gcc, harness/h_seq.c, ocaml/d_seq.ml. Single-threaded, no allocation failure. The list abstraction of the doubly linked chain '
       '(reverse, unlink, insert as list operations) is tied to the pointer code by differential execution incl. a backward walk of prev pointers, not by a C semantics. '
       'Outside the contract (model: Crash; never run): continuing a walk through a freed node, popint/getint on elements shorter than 8 bytes, qgrow addstr(NULL).',
  technique='Rocq refinement proof (invariant + simulation over histories), explicit two\'s-complement/size_t index arithmetic lemmas, source-derived wrapper table, extracted-model and extracted-spec correspondence',
  design='5.9')
