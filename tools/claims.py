claim('C16',
  text='Machine-checked theorems (Coq 8.16, closed under the global context) for all byte strings: decode(encode x) = x for the URL, Base64 and hex codecs; '
       'Base64 output = RFC 4648 written with div/mod on 24-bit groups; hex output = two lowercase digits per byte; literally emitted URL characters are safe, others %hh; '
       'both hex-digit cases and + accepted; query strings of encoded pairs parse back exactly. The lookup tables are regenerated from qencode.c on every run so an edited table breaks a proof; '
       'the algorithms are tied by running the extracted model and the implementation on the same inputs (all strings of length 0..2/3, random to 8 KiB, malformed decoder inputs, random and malformed query strings).',
  note='Trusted: Coq kernel, extraction (ExtrOcamlBasic only), gen_tables.py, gcc, harness/h_enc.c, ocaml/d_enc.ml. char is signed (x86-64). Model tied to code by differential execution, not by a C semantics.',
  technique='Rocq proof by induction + finite table sweeps (vm_compute lifted by forallb_forall); tables translated from source; extracted-model correspondence',
  design='5.16')
claim('C20',
  text='Machine-checked theorems (Coq 8.16, closed under the global context). INI-style parser (qconfig.c): for every well-formed document, every white-space layout, '
       'separator, environment and command output, parse(render d) = eval d at document level (entries in file order, comments/blank lines ignored, "section." prefixes and marker '
       'entries, ${name} = last definition so far, ${%ENV}); the parser model is total. Apache-style parser (qaconf.c): tokenize(render words) = words for every mix of bare/single/double '
       'quoting, escapes and gaps; _is_str_number and _is_str_bool equal the documented grammars (all eight boolean spellings, any letter case); and at document level, for every option table, '
       'flags, default handler, callback behaviour and every well-formed document tree of nesting depth < 256 whose lines fit the line buffer: parse(render d) has the count, the first offending line '
       'with its error, and the callback trace (otype, section, sections, level, parent chain, argv with booleans normalised to 1/0) of the reference semantics aconf_srun, whose count is the number of '
       'directives (aconf_accepts_iff, aconf_count); the depth bound is shown necessary by a witness (level is uint8_t). Both parser models are total. Constants (_VAR*, _MAX_SUBSTITUTIONS, QAC_* bit layout, '
       'MAX_LINESIZE) are regenerated from the sources on every run; the hand-written models are tied by running the extracted model and the implementation on the same texts '
       '(well-formed, mutated, hostile) and comparing entries / return value, error line and message, and the full callback trace; the extracted reference semantics (ini_eval, aconf_srun) and well-formedness predicates run as the property monitor on generated documents.',
  note='Six defects of the pinned code were repaired in fix: commits (C20: false booleans rejected; arguments after the fifth not type-checked; stale section id inside unregistered sections; C17: tokenizer over-read, unbounded ${} expansion, uninitialised pointer freed), '
       'one is a known finding (level is uint8_t and wraps at depth 256). ${!cmd} is an uninterpreted oracle (popen stubbed to fail in the harness), @INCLUDE is not modelled. '
       'Trusted: Coq kernel, extraction, gen_consts.py, gcc, harness/h_conf.c, ocaml/d_conf.ml (which also formats the error messages).',
  technique='Rocq proof by induction (document-level round trip, buffer-level safety with explicit reads), constants translated from source by a compiled probe, extracted-model and extracted-specification correspondence',
  design='5.20')
