claim('C16',
  text='Machine-checked theorems (Coq 8.16, closed under the global context) for all byte strings: decode(encode x) = x for the URL, Base64 and hex codecs; '
       'Base64 output = RFC 4648 written with div/mod on 24-bit groups; hex output = two lowercase digits per byte; literally emitted URL characters are safe, others %hh; '
       'both hex-digit cases and + accepted; query strings of encoded pairs parse back exactly. The lookup tables are regenerated from qencode.c on every run so an edited table breaks a proof; '
       'the algorithms are tied by running the extracted model and the implementation on the same inputs (all strings of length 0..2/3, random to 8 KiB, malformed decoder inputs, random and malformed query strings).',
  note='Trusted: Coq kernel, extraction (ExtrOcamlBasic only), gen_tables.py, gcc, harness/h_enc.c, ocaml/d_enc.ml. char is signed (x86-64). Model tied to code by differential execution, not by a C semantics.',
  technique='Rocq proof by induction + finite table sweeps (vm_compute lifted by forallb_forall); tables translated from source; extracted-model correspondence',
  design='5.16')
claim('C18',
  text='Machine-checked theorems (Coq 8.16, closed under the global context) about buffer-level models of qhash.c and md5c.c, for every non-empty byte string and every content of the memory after the buffer: '
       'qhashfnv1_32/_64 = FNV-1 (the shift-add sequence read from the source = multiplication by the FNV prime mod 2^w); qhashmurmur3_32/_128 = MurmurHash3 x86_32 / x64_128 with seed 0 for nbytes < 2^31 '
       '(the fall-through tail switch read from the source handled for every tail length by one lemma); the 64 FF/GG/HH/II lines of md5c.c = the RFC 1321 schedule, MD5Transform = the RFC block function, '
       'and every sequence of MD5Update calls followed by MD5Final (hence qhashmd5 for nbytes + 63 < 2^32 and the 32 KiB chunk loop of qhashmd5_file for every offset/length) = RFC 1321 MD5 of the bytes; '
       'no model read goes beyond the nbytes input bytes and the result is independent of what follows them and of the stale MD5 context buffer. The specifications themselves are validated inside Coq by the RFC 1321 test suite, '
       'FNV reference vectors and SMHasher\'s verification values (0xB0F57EE3, 0x6384BA69). Constants, shift lists, rotation amounts, the tail-switch layout, the MD5 step list, PADDING and the literals of MD5Update/MD5Pad '
       'are regenerated from the sources on every run, and hand-modelled macros/statement sequences are compared with the text the model was written from, so a source edit breaks a proof or the translator. '
       'Model and implementation are run side by side on lengths 0..600 x {random, zeros, 0xFF, embedded NULs} x 6 placements (guard pages before/after, misaligned, different surrounding bytes), random sizes to 1 MiB and file offset/length triples; '
       'the monitor is the extracted specification plus independent Python references (hashlib.md5).',
  note='Trusted: Coq kernel, extraction (ExtrOcamlBasic only), gen_hashconst.py, gcc, harness/h_hashfn.c, ocaml/d_hashfn.ml, checks/c18.py. Little-endian x86-64 (word loads through casted pointers and Encode/Decode=memcpy give the little-endian value; '
       'alignment UB of the murmur loads is not expressible in the model). Hypotheses: murmur nbytes < 2^31 (int nblocks and int product), qhashmd5 nbytes + 63 < 2^32 ((unsigned int) cast and the i + 63 < inputLen test; for larger nbytes the theorem C18_md5_any_nbytes says what is computed instead), '
       'regular unchanging file with full reads. The pinned FNV loop condition (`*dp && nbytes > 0`: stops at NUL, reads data[nbytes]) was a genuine defect and is repaired by a fix commit; the gcc (__GNUC__) branch of the FNV multiplication is the one modelled, the #else multiplier is proved equal.',
  technique='Rocq proof: induction over blocks, generic streaming refinement (Init/Update/Final vs one-shot padding), finite computation for the step schedule, mod-2^w arithmetic by lia; constants and step list translated from source; extracted-model correspondence with guard-page harness',
  design='5.18')
