claim('C16',
  text='Machine-checked theorems (Coq 8.16, closed under the global context) for all byte strings: decode(encode x) = x for the URL, Base64 and hex codecs; '
       'Base64 output = RFC 4648 written with div/mod on 24-bit groups; hex output = two lowercase digits per byte; literally emitted URL characters are safe, others %hh; '
       'both hex-digit cases and + accepted; query strings of encoded pairs parse back exactly. The lookup tables are regenerated from qencode.c on every run so an edited table breaks a proof; '
       'the algorithms are tied by running the extracted model and the implementation on the same inputs (all strings of length 0..2/3, random to 8 KiB, malformed decoder inputs, random and malformed query strings).',
  note='Trusted: Coq kernel, extraction (ExtrOcamlBasic only), gen_tables.py, gcc, harness/h_enc.c, ocaml/d_enc.ml. char is signed (x86-64). Model tied to code by differential execution, not by a C semantics.',
  technique='Rocq proof by induction + finite table sweeps (vm_compute lifted by forallb_forall); tables translated from source; extracted-model correspondence',
  design='5.16')
claim('C01',
  text='Theorems (Coq 8.16, closed under the global context; premises: the ordering is transitive, antisymmetric and its Eq is a congruence; proved to hold for the default byte-wise ordering): '
       'for every history of put/get/remove/clear/size/find_min/find_max the concrete table model (qtreetbl.c transcribed: LLRB 2-3-4 insertion and deletion on node objects with explicit Crash where the C code dereferences unchecked) '
       'never crashes or exhausts fuel, returns exactly the observations of a strictly sorted association list, and its in-order contents equal that list (C01_refines; per-operation forms C01_put/get/remove/size/min/max). '
       'Tie: extracted model, extracted specification and the implementation are run in lockstep on random histories (3 comparators, string/binary keys, empty values), >256-walk histories, large histories, and every put/remove from every reachable tree shape over 8 (quick) / 10 (thorough) keys; full coloured shape compared after every operation.',
  note='Trusted: Coq kernel, extraction (ExtrOcamlBasic; PositiveMap bodies), gcc, h_tree.c, d_tree.ml, gen_consts.py (LLRB234 switch). Histories containing Walk/Nearest are covered by C03/C04. Model tied to the C text by differential execution.',
  technique='Rocq refinement proof (invariant + induction over histories) over a transcribed LLRB model; lockstep differential execution of extracted model/spec vs implementation incl. bounded-exhaustive shape enumeration',
  design='5.1')
claim('C02',
  text='Theorems: after every operation of every history (failed removals and replacements included) the table is a valid left-leaning red-black search tree: black root, valid red-black structure of one black height, '
       'red right child only beside a red left child, keys strictly ascending (C02_invariant; C02_put_step/C02_remove_step from any valid tree, which also show the unchecked dereferences of flip/rotate never hit NULL); '
       'the transcribed qtreetbl_check() returns 0 exactly on valid structures with a black root (C02_check_agrees); a lookup makes at most 2*log2(n+1) comparisons, stated as 2^cost <= (n+1)^2 (C02_lookup_cost). '
       'The deletion proof needed the search order (shape preservation is key-dependent). The balancing helpers are tied to the source by translation: tools/gen_treeops.py turns clang\'s AST of is_red, flip_color, rotate_left, rotate_right, move_red_left, move_red_right, fix, find_min, find_max, remove_min, put_obj, remove_obj, find_obj, node_check_red and node_check_llrb into Gallina over a heap of node objects on every run (coq/Gen/TreeOps.v), and C02_c_helpers_refine / C02_c_flip_same_pointer / C02_c_find_min_max / C02_c_remove_min_refines / C02_c_put_obj_refines / C02_c_remove_obj_refines / C02_c_find_obj / C02_c_checkers prove that the translated text does on every heap that represents a tree with distinct node objects what the model\'s flip/rotl/rotr/mrl/mrr/fix_/tmin/tmax /rmin/put do on the tree (same shape, colours and node identities; remove_min releases exactly the least node object; put_obj for every comparator answer function, nothing outside the argument\'s nodes touched, no NULL dereferenced where the model does not Crash). the public wrappers (allocation of the copies, num, errno, locking) are tied as for C01 (lockstep) plus qtreetbl_check(), an independent C invariant checker and a counting comparator after/around every operation.',
  note='Trusted as C01, plus gen_treeops.py and clang\'s parser (the translator stops on any construct outside its subset; it drops increments of the _q_treetbl_*_cnt statistics counters and stores to errno). The independent checker in h_tree.c and qtreetbl_check() are monitors, not the reason the check passes.',
  technique='Rocq inductive invariant proof (LLRB shape classes for put/remove/remove_min) + C-to-Gallina translation of the balancing helpers with refinement proofs by symbolic execution + extracted-model lockstep with shape comparison',
  design='5.2')
claim('C06',
  text='Theorems (closed under the global context; premise: the stored (length, 16-byte prefix, MD5) identifies the key): for every capacity and every history of put/get/remove the image model of qhasharr.c '
       '(header counters + slot records; find_avail, get_idx, multi-slot put_data with roll-back, relocation of a foreign collision/extension block with back-link repair, promotion of a collision key on removal) '
       'returns exactly the results of the ideal bounded map whose put succeeds iff a slot is free and the value fits into the free slots plus those released by the value it replaces, and whose failed put leaves its own key unchanged or absent and every other key untouched (C06_refines); '
       'key count and used-slot count equal the ideal map\'s (C06_accounting); per-operation forms C06_put_new/put_existing/get, remove-by-index = removal of the key in that slot (C06_remove_by_idx), walk = every stored key once (C06_walk), clear. '
       'Slot payload sizes come from a compiled probe of the headers. Tie: lockstep of implementation, extracted image model (every slot field, both counters) and extracted ideal map on random histories (capacities 2..64, forced collisions, key lengths 1..65535 around the 16-byte limit, '
       'value lengths around every slot boundary) and all put/del histories of bounded depth on small tables.',
  note='Trusted: Coq kernel, extraction, gen_consts.py probe, gcc, h_harr.c, d_harr.ml, the Python murmur3_32 used to tell the model each key\'s home slot (a wrong value shows up as a slot mismatch). Assumes no MD5 collision among same-length same-prefix keys of a history. getnext hands out at most the first 16 bytes of a long key (API limit; compared as stored).',
  technique='Rocq refinement proof with a representation invariant over slot layouts (1900 lines) + slot-by-slot lockstep of extracted model vs implementation',
  design='5.6')
claim('C07',
  text='Theorems: after every operation of every history of the full interface (put/get/remove/remove-by-index/clear/size/walk) and for every capacity the image is well formed (C07_wf, C07_wf_step): every occupied slot belongs to exactly one key, '
       'value chains are intact, acyclic, terminated and back-linked, collision counts match, every non-empty home has its leader, keys are distinct, header counters equal the slot census; all occupied indices and links lie inside the table (C07_indices_in_table); '
       'operations are functions of the image alone (C07_relocatable: nothing of the handle or its address enters). Tie: as C06, with the region placed between inaccessible pages, copied byte for byte to other addresses/alignments in mid-history, re-attached with memsize 0 and continued in lockstep with the model; '
       'an independent well-formedness checker runs on every dumped image.',
  note='Partial by nature: that the C code never touches a byte outside the region is observed (guard pages, every run) not proved - the model indexes a total slot function; struct padding and stale bytes of free slots are outside the model. Trusted as C06.',
  technique='Rocq inductive invariant (Rep) over all histories and capacities + lockstep with relocation of the memory region',
  design='5.7')
claim('C03',
  text='Theorems (closed under the global context; comparator laws as premises): the getnext loop is modelled as a small-step machine over per-node stamps and parent links (id-indexed maps, equivalent to the struct fields); '
       'from the root of any subtree it hands out exactly the not-yet-stamped nodes in order, stamps them and climbs back through the saved parent link within 3*size steps (C03_visit_subtree/C03_visit_all); '
       'after ANY history of put/remove/complete and abandoned walks/nearest-key searches - including more than 256 traversal starts, where the 8-bit epoch wraps (repaired in /repo: marks cleared, id 0 skipped) - a walk from a zeroed cursor returns every entry exactly once in ascending order with current values and then reports the end '
       '(C03_fresh_walk_seq, C03_walk: full refinement of all nine operations for every history, invariants Inv/IdInv/Clean). '
       'Tie: lockstep with the implementation on histories mixing hundreds of walks (complete/abandoned at every position) with insertions/removals, histories started just below the epoch wrap, stale-mark histories of 256 resets.',
  note='Trusted as C01. `settid` in the harness presets the public tid field on an empty fresh table only (a state reachable by walks over a removed key). The table must not be modified during a walk (property premise).',
  technique='Rocq proof: structural induction on subtrees for the loop machine + history invariant (node stamp <= table epoch, unique ids) + refinement of every operation; lockstep differential execution',
  design='5.3')
claim('C04',
  text='Theorems: qtreetbl_find_nearest (descent recording parent links, climb while probe < node, fallback to the last node) returns the entry of the ideal floor function - equal key, else greatest smaller, else smallest; not-found iff empty - '
       'for every state reachable by any history, never crashes and the climb terminates with fuel <= size (C04_nearest_floor; needs the repaired root parent link); the answer depends only on the current contents (it is stated through abs s); '
       'when no walk was left unfinished, continuing with getnext from the returned cursor visits min(n,size) distinct entries and all of them, a permutation of the contents, before reporting the end (C04_continue, C04_continue_distinct); in any other stamp state the continuation still terminates inside the tree (C04_continue_total). '
       'Tie: probes of every class (present, between, below minimum, above maximum) after root-changing histories, every continuation length, in lockstep with the implementation under a watchdog.',
  note='Trusted as C01.',
  technique='Rocq proof (BST floor along the search path, induction over ancestor frames for the continuation) + lockstep differential execution',
  design='5.4')
claim('C14',
  text='For every non-static function of qtreetbl/qhashtbl/qlisttbl/qlist/qvector/qqueue/qstack/qgrow/qlog (lock()/unlock() themselves excepted) the control-flow abstraction is regenerated from clang\'s AST on every run and a checker verified in Coq '
       '(chk_sound over a path semantics in which branch conditions, loop counts and allocation outcomes are unconstrained) is evaluated on it: on EVERY path - success, invalid argument, missing key, out-of-range index, empty/full container, allocation failure - '
       'the function ends by return or fall-through with the lock depth it was entered with, both when entered with the lock free and when the caller already holds it (C14_every_path, C14_every_path_nested). A missing unlock breaks the obligation C14_all_balanced. '
       'Four such leaks of the pinned code (qvector setat/popat/reverse, qhashtbl get) were repaired in /repo.',
  note='Trusted: Coq kernel, tools/gen_lockast.py and clang\'s parser (what the translator cannot read becomes Unsupported, which the checker rejects; forward goto to a tail label and gotos in lock-free constructors are handled as described in the translator), '
       'the hand-read meaning of Q_MUTEX_ENTER/LEAVE (enter returns only after a successful trylock with depth+1; leave decrements), pthread recursive-mutex semantics.',
  technique='source-to-Coq translation of lock structure (clang AST) + verified path checker evaluated per function by vm_compute',
  design='5.14')
claim('C19',
  text='Machine-checked theorems (Coq 8.16, closed under the global context), for all strings: buffer-level models of qstrtrim/_head/_tail, qstrunchar, qstrreplace (tn/tr/sn/sr), '
       'qstrcpy, qstrncpy, qstrdup_between, qmemdup, qstrgets, qstrrev, qstrupper, qstrlower, qstrtok, qstrtokenizer (and, as an extra, qstr_comma_number for every int) equal plain reference definitions on lists (drop-while trimming, '
       'flat_map token replace, leftmost non-overlapping string replace which is also shown to be the unique output of a declarative relation, firstn(size-1)++[0] copies, '
       'split-on-delimiters with the documented missing empty last field, line up to LF without CRs within size-1 characters), and every read/write of the model stays inside the '
       'buffer the contract covers (strlen+1 bytes for in-place routines, size bytes for the bounded copies and qstrgets, maxstrlen+1 bytes for the replace output: '
       '|out| <= (len/tok)*word + len%tok proved for all inputs with a non-empty search string). In-place replace is stated with the result length explicit (fits iff |out|+1 <= array). '
       'The models are tied to qstring.c by running the extracted model and the implementation on the same inputs: all strings of length <= 4 (quick) / 5 (thorough) over '
       '{space, tab, CR, LF, a, A, z, comma, quote, 0x80, 0xff}, all sizes 0..n+2 and nbytes 0..n+1 for the copies, all (src, token, word) triples of small length in the four modes, '
       'all offsets, random long inputs; arguments in exact-size guard-page buffers (both before- and after-layout for in-place routines), malloc wrapped to exact-size guard blocks.',
  note='Trusted: Coq kernel, extraction (ExtrOcamlBasic only), gcc, harness/h_str.c (guard pages, --wrap=malloc,free in the harness build only), ocaml/d_str.ml, checks/c19.py. '
       'char is signed (x86-64); lengths below 2^31 (int maxstrlen/len/offset in the C code are unbounded in the model). Contract preconditions in the theorems: non-empty search string in '
       'string mode (empty: division by zero or endless loop, witnessed by C19_replace_sn_empty_token_refuted), size >= 1 for qstrgets, nbytes within the source array for qstrncpy, '
       'offset within the string for qstrtok. Overlapping src/dst of qstrcpy/qstrncpy, qstrdupf, qstrcatf, qstrunique, qstr_conv_encoding, qstrtest, '
       'qstr_is_email, qstr_is_ip4addr are not modelled. Model tied to code by differential execution, not by a C semantics.',
  technique='Rocq proof by induction over buffer-level loop models (indices in Z, out-of-buffer access = Crash) + finite byte sweeps (vm_compute) for the signed-char case maps; extracted-model and extracted-spec correspondence on bounded-exhaustive and random inputs',
  design='5.19')
claim('C18',
  text='Machine-checked theorems (Coq 8.16, closed under the global context) about buffer-level models of qhash.c and md5c.c, for every non-empty byte string and every content of the memory after the buffer: '
       'qhashfnv1_32/_64 = FNV-1 (the shift-add sequence read from the source = multiplication by the FNV prime mod 2^w); qhashmurmur3_32/_128 = MurmurHash3 x86_32 / x64_128 with seed 0 for nbytes < 2^31 '
       '(the fall-through tail switch read from the source handled for every tail length by one lemma); the 64 FF/GG/HH/II lines of md5c.c = the RFC 1321 schedule, MD5Transform = the RFC block function, '
       'and every sequence of MD5Update calls followed by MD5Final (hence qhashmd5 for nbytes + 63 < 2^32 and the 32 KiB chunk loop of qhashmd5_file for every offset/length) = RFC 1321 MD5 of the bytes; '
       'no model read goes beyond the nbytes input bytes and the result is independent of what follows them and of the stale MD5 context buffer. The specifications themselves are validated inside Coq by the RFC 1321 test suite, '
       'FNV reference vectors and SMHasher\'s verification values (0xB0F57EE3, 0x6384BA69). Constants, shift lists, rotation amounts, the tail-switch layout, the MD5 step list, PADDING and the literals of MD5Update/MD5Pad '
       'are regenerated from the sources on every run, and hand-modelled macros/statement sequences are compared with the text the model was written from, so a source edit breaks a proof or the translator. '
       'Model and implementation are run side by side on lengths 0..600 x {random, zeros, 0xFF, embedded NULs} x 6 placements (guard pages before/after, misaligned, different surrounding bytes), random sizes to 1 MiB and file offset/length triples; '
       'the monitor is the extracted specification plus independent Python references (hashlib.md5).',
  note='Trusted: Coq kernel, extraction (ExtrOcamlBasic only), gen_hashconst.py, gcc, harness/h_hashfn.c, ocaml/d_hashfn.ml, checks/c18.py. Little-endian x86-64 (word loads through casted pointers and Encode/Decode=memcpy give the little-endian value; '
       'alignment UB of the murmur loads is not expressible in the model). Hypotheses: murmur nbytes < 2^31 (int nblocks and int product), qhashmd5 nbytes + 63 < 2^32 ((unsigned int) cast and the i + 63 < inputLen test; for larger nbytes the theorem C18_md5_any_nbytes says what is computed instead), '
       'regular unchanging file with full reads. The pinned FNV loop condition (`*dp && nbytes > 0`: stops at NUL, reads data[nbytes]) was a genuine defect and is repaired by a fix commit; the gcc (__GNUC__) branch of the FNV multiplication is the one modelled, the #else multiplier is proved equal.',
  technique='Rocq proof: induction over blocks, generic streaming refinement (Init/Update/Final vs one-shot padding), finite computation for the step schedule, mod-2^w arithmetic by lia; constants and step list translated from source; extracted-model correspondence with guard-page harness',
  design='5.18')
claim('C13',
  text='Three layers. (1) For each of the ~100 operations of the property\'s mix (put/add/push, get, remove/pop, clear, toarray/tostring, reverse, sort, ... of tree table, hash table, list table, list, vector and the queue/stack/grow wrappers) '
       'the control-flow abstraction regenerated from clang\'s AST is accepted by a checker verified in Coq: on EVERY path each access to mutable container state (fields written outside the constructor, and nodes reached through them) happens at lock depth >= 1, '
       'there is a single critical section, and the call ends at depth 0 (C13_discipline). (2) Generic theorem (C13_linearizable): for calls with that discipline, after any interleaving at the granularity of lock operations and single shared accesses the final state and every '
       'call\'s result equal those of the calls run one at a time in order of first lock acquisition - no lost, duplicated or half-applied update; a walk under an outer lock() is one critical section, hence one snapshot. (3) The sequential meaning of the critical sections is C01-C10. '
       'Pre-lock reads of the element count in qvector addat/addlast/toarray and qlist toarray/tostring were repaired in /repo. Search engines for a failing schedule: multiset stress on plain and ThreadSanitizer builds. C13_no_state_outside_containers: the container sources define no variable with static storage duration (file scope, function-local static, thread-local; list regenerated from clang\'s AST) other than the tree table\'s three statistics counters, so no operation keeps state that the container\'s lock does not protect; the handoff scenario (consecutive operations on one list / vector made by different long-lived threads must answer as one thread alone) searches for the concrete failing sequence.',
  note='Partial by nature: lock-level model under sequential consistency; real memory-model effects, pthread internals and timing are outside it. The link between layer 1 and layer 2 is a theorem (C13_bridge, C13_end_to_end) whose explicit hypothesis `realizes` says that every execution path of a call is, up to accesses to immutable fields, a path of its translated abstraction - i.e. that the translator read the C text faithfully; that hypothesis is what the translator and the run-time search engines stand for. '
       'Fresh blocks allocated by the call itself, caller-owned arguments, and the node qlisttbl_removeobj has already unlinked are treated as private (reviewed rules in gen_lockast.py). size()/datasize() read the count without the lock and are outside the operation mix.',
  technique='source-to-Coq translation of lock/access structure + verified path checker + generic Rocq linearizability theorem; TSan/multiset stress as failing-schedule search',
  design='5.13')
claim('C10',
  text='Machine-checked refinement (Coq 8.16, closed under the global context): for every operation history, element size >= 1, option word (exact/linear/doubling growth), '
       'initial capacity and int index, with fewer than 2^31 elements, the model of qvector.c (block of byte cells with undefined cells for fresh memory, the memcpy/memmove ranges '
       'as written, int/size_t index arithmetic) never leaves the block or overlaps a memcpy, returns exactly the observations of a list of fixed-size elements '
       '(insert/nth/remove/rev/concat/firstn), keeps the first num elements equal to that list, never returns an undefined byte, leaves the state untouched on refusal, '
       'refuses every out-of-range index, preserves surviving elements on resize to any capacity and behaves like a fresh vector after resize 0. '
       'C10_addself: an insert whose new element is the pointer getat(j, false) returned (into the block the call reallocates and shifts) inserts a copy of what position j held, with no read of the old block and no overlapping memcpy. '
       'Four defects of the pinned code were repaired first (resize(0) zeroed objsize; memcpy on overlapping ranges in remove_at; int byte count in remove_at; addat read its own element through a stale pointer). '
       'Model tied to the code by lockstep execution: bounded-exhaustive (n<=6, index in [-n-2,n+2]) x ops x policies x objsize {1,3,8} x capacity 0..3, all short op sequences, random histories with objsize up to 64.',
  note='Trusted: Coq kernel, extraction (ExtrOcamlBasic only), gcc, harness/h_vec.c (with --wrap=memcpy overlap detection), ocaml/d_vec.ml. Allocation failure not modelled (C15); '
       'size_t products assumed not to wrap (max*objsize representable). Model tied to code by differential execution, not by a C semantics.',
  technique='Rocq refinement proof (representation relation block = cells(list) ++ junk, loop lemmas for the shift and the in-place reversal, lia with div/mod for the int/size_t conversions); extracted-model and extracted-spec correspondence',
  design='5.10')
claim('C17',
  text='Decoder half: theorems for ALL NUL-terminated inputs - the buffer-level models of qurl_decode/qbase64_decode/qhex_decode (whole buffer incl. terminator, a read outside it = Crash, explicit fuel) return Ok with fuel |s|+1 whatever follows the terminator, equal the string-level decoders and yield at most |s| bytes '
       '(C17_url/hex/b64_decode_safe); truncated %-escapes and odd-length hex, which the pinned code read past, were repaired in /repo. Tie: all strings up to length 5/6 over each format\'s significant alphabet plus random/damaged inputs, in exact-size buffers ending at an inaccessible page, under a watchdog, '
       'compared with the extracted model. Parser half: for every input the INI-style parser model (line split, trim, section rewrite, ${} expansion with the round bound added in /repo) delivers a result - Crash and Fuel unreachable, no hypotheses (C17_ini_parse_safe, C17_ini_expand_safe; C17_ini_expand_unbounded_refuted shows why the bound is needed); the Apache-style tokenizer reads nothing past the terminator and needs at most |line|+1 steps (C17_aconf_tokenize_safe) and the parser is total with fuel |file|+2 (C17_aconf_parse_total). Tie: all strings up to length 4-5 over each format\'s significant alphabet and mutated documents through guard-page, ASan+UBSan and -O0 builds under a watchdog. Known finding (not repaired): unbounded section nesting puts a 4 KiB buffer per level on the stack (crash beyond ~1000 levels).',
  note='Partial by nature: stack depth, file handling and fgets chunking are runtime behaviour outside the models. Trusted as C16.',
  technique='Rocq proof over buffer-level loop models with Crash/Fuel + guard-page differential execution',
  design='5.17')
claim('C09',
  text='Machine-checked theorems (Coq 8.16, closed under the global context): for every history of list operations with int indexes, fewer than 2^31 elements and no walk continued '
       'with a stale cursor, the qlist model (qlist.c transcribed with its int/size_t conversions, nearest-end walk, node identities, stored num/datasum/max) returns exactly the '
       'observations of an ideal sequence of byte strings (insert at i = firstn i ++ x :: skipn i, access/removal by nth, rev, concat; 0-based from the front, negative from the back with '
       '-1 = last for access and -1 = append for insertion), never crashes, keeps num = length and datasum = total bytes, and a refused operation returns the state unchanged; a fresh walk '
       'after any history yields the current contents in order; queue = FIFO, stack = LIFO, grow = concatenation as corollaries of wrapper refinement theorems. '
       'Which end each queue/stack/grow function addresses is re-read from the source on every run; model and implementation are run side by side on every (n,index) with n<=8 (12 thorough), '
       'limits 0-4 x removals, NUL-shaped elements, and random histories, comparing results, errno class, contents, stored counters and the prev/next chain after every operation.',
  note='Trusted: Coq kernel, extraction (ExtrOcamlBasic only), gen_seqwrap.py, gcc, harness/h_seq.c, ocaml/d_seq.ml. Single-threaded, no allocation failure. The list abstraction of the doubly linked chain '
       '(reverse, unlink, insert as list operations) is tied to the pointer code by differential execution incl. a backward walk of prev pointers, not by a C semantics. '
       'Outside the contract (model: Crash; never run): continuing a walk through a freed node, popint/getint on elements shorter than 8 bytes, qgrow addstr(NULL).',
  technique='Rocq refinement proof (invariant + simulation over histories), explicit two\'s-complement/size_t index arithmetic lemmas, source-derived wrapper table, extracted-model and extracted-spec correspondence',
  design='5.9')
claim('C05',
  text='Machine-checked theorems (Coq 8.16, closed under the global context) for an ARBITRARY hash function, every index range (1 upward; 0 = DEFAULT_INDEX_RANGE, regenerated from qhashtbl.c) and every history of '
       'put/putstr/putint/get/getstr/getint/remove/clear/size/NULL-argument calls and getnext walks: the model of qhashtbl.c (chains per index, lookup by (hash,name), insert at head / replace in place, unlink first match, '
       'clear loop, putint/getint through the decimal text and atoll, getnext with the caller cursor (hash, next pointer) and the (hash mod range)+1 restart rule) refines an association-list map '
       '(C05_refines: same results, stored entries = map entries, size = number of distinct keys); invariant of every reachable table (C05_invariant, C05_chain_exact: chain i holds exactly the entries of index i, '
       'no name twice, num = total); a getnext walk from a zeroed cursor over an unmodified table returns every stored key exactly once, then the end (C05_walk, C05_walk_spec); atoll(printed int64) = the integer '
       '(C05_int_text_roundtrip, C05_int_roundtrip); no Fuel, Crash only where the caller applies getint to a value atoll reads past (C05_no_crash). '
       'Tie: extracted model + extracted specification run in lockstep with the implementation for ranges 1,2,3,7,1000,0 over keys precomputed to collide (same slot, and constructed identical 32-bit murmur values), '
       'comparing results, num and every chain in order with node identity and stored hash after every call; bounded-exhaustive put/remove sequences; walks complete/abandoned/restarted.',
  note='Trusted: Coq kernel, extraction (ExtrOcamlBasic only), tools/gen_consts.py, gcc, harness/h_hashtbl.c, ocaml/d_hashtbl.ml (hand-written MurmurHash3_32, compared with the C function and a Python one on every run). '
       'Spec undefined (excluded) for getint on a stored value without a byte that stops atoll inside the block (caller misuse; the code over-reads the heap copy). malloc(0) != NULL assumed (glibc). '
       'No allocation failure, no concurrency, table not modified during a walk. Model tied to code by differential execution, not by a C semantics.',
  technique='Rocq refinement proof (state relation + invariant, induction over histories), cursor-position invariant for getnext, decimal printer/parser round trip; constant translated from source; extracted-model/spec correspondence',
  design='5.5')
claim('C08',
  text='Machine-checked theorems (Coq 8.16, closed under the global context), for every name-hash function, all 16 combinations of UNIQUE/CASEINSENSITIVE/INSERTTOP/LOOKUPFORWARD '
       'and every operation history: the statement-level model of qlisttbl.c (put/putstr/putint, get/getstr/getint, getmulti, remove, getnext walks with and without name filter that '
       'removeobj any subset of the entries handed out, size, sort, clear, save, load) never dereferences a dangling node, and every observation and the entry sequence equal those of an '
       'ideal ordered multimap on lists; the stored counter equals the number of entries (C08_refines). sort (bubble sort with last-exchange shortcut, exchanging payloads) yields a sorted, '
       'stable permutation = the stable insertion sort (C08_sort). save then load into a fresh table reproduces the entries in order and returns their number for names that survive the text '
       'format and arbitrary C-string values (C08_save_load, C08_parse_render); load returns the number of parsed entries and appends at the bottom (C08_load_count). '
       'Two defects of the pinned code were repaired (load returned 0; load reversed the order under INSERTTOP). The model is tied to the code by running the extracted model and spec '
       'against the implementation on the same histories (all 16 option sets, chain dumped forwards and verified backwards after every op, stored hashes and saved file bytes compared).',
  note='Trusted: Coq kernel, extraction (ExtrOcamlBasic only), gcc, harness/h_listtbl.c, ocaml/d_listtbl.ml (incl. a hand-written murmur3_32 used only to print matching hashes), checks/c08.py. '
       'C locale strcasecmp (ASCII folding). Histories use cursors only inside walks (cleared cursor, getnext*, removeobj of the entry just handed out); stale or hand-made cursors are outside the property. '
       'getint / save(encode=false) on values without NUL would over-read: answered "bad" by model and spec and never executed. int n = tbl->num in sort (tables below 2^31 entries).',
  technique='Rocq refinement proof (invariant + walk lemma over a zipper view of the chain, history induction); bubble-sort proof via adjacent-exchange relation and uniqueness of sorted stable rearrangements; '
            'text round trip on the C16 URL codec lemmas; extracted model + extracted spec correspondence with delta-debugging shrinker',
  design='5.8')
claim('C20',
  text='Machine-checked theorems (Coq 8.16, closed under the global context). INI-style parser (qconfig.c): for every well-formed document, every white-space layout, '
       'separator, environment and command output, parse(render d) = eval d at document level (entries in file order, comments/blank lines ignored, "section." prefixes and marker '
       'entries, ${name} = last definition so far, ${%ENV}); the parser model is total. Apache-style parser (qaconf.c): tokenize(render words) = words for every mix of bare/single/double '
       'quoting, escapes and gaps; _is_str_number and _is_str_bool equal the documented grammars (all eight boolean spellings, any letter case); and at document level, for every option table, '
       'flags, default handler, callback behaviour and every well-formed document tree of nesting depth < 256 whose lines fit the line buffer: parse(render d) has the count, the first offending line '
       'with its error, and the callback trace (otype, section, sections, level, parent chain, argv with booleans normalised to 1/0) of the reference semantics aconf_srun, whose count is the number of '
       'directives (aconf_accepts_iff, aconf_count); the depth bound is shown necessary by a witness (level is uint8_t). Both parser models are total. Constants (_VAR*, _MAX_SUBSTITUTIONS, QAC_* bit layout, '
       'MAX_LINESIZE) are regenerated from the sources on every run; the hand-written models are tied by running the extracted model and the implementation on the same texts '
       '(well-formed, mutated, hostile) and comparing entries / return value, error line and message, and the full callback trace; the extracted reference semantics (ini_eval, aconf_srun) and well-formedness predicates run as the property monitor on generated documents.',
  note='Six defects of the pinned code were repaired in fix: commits (C20: false booleans rejected; arguments after the fifth not type-checked; stale section id inside unregistered sections; C17: tokenizer over-read, unbounded ${} expansion, uninitialised pointer freed), '
       'one is a known finding (level is uint8_t and wraps at depth 256). ${!cmd} is an uninterpreted oracle (popen stubbed to fail in the harness), @INCLUDE is not modelled. '
       'Trusted: Coq kernel, extraction, gen_consts.py, gcc, harness/h_conf.c, ocaml/d_conf.ml (which also formats the error messages).',
  technique='Rocq proof by induction (document-level round trip, buffer-level safety with explicit reads), constants translated from source by a compiled probe, extracted-model and extracted-specification correspondence',
  design='5.20')
claim('C15',
  text='Theorems (Coq 8.16, closed under the global context) over allocation scripts that transcribe, allocation by allocation, every constructor and every allocating or releasing operation of '
       'qtreetbl, qhashtbl, qlisttbl (incl. getmulti with its growing result array), qlist, qvector, qqueue/qstack/qgrow and the qhasharr handle/get/getnext: for EVERY oracle saying which allocation '
       'requests of the call fail, every summary state and all arguments - a call that reports an allocation failure has not modified the container (C15_*_atomic) and afterwards exactly the blocks '
       'owned before are owned (nothing allocated by the failed call survives, nothing was released: C15_*_failed_owns_same; failed constructors leave nothing: C15_*_failed_leaves_nothing); in every case the events are legal '
       '(no double free, no free of foreign or handed-out memory) and the owned live blocks are exactly those reachable from the container (C15_*_valid); a call that does not report failure did exactly what the fault-free run does (C15_*_ok). '
       'Eight defects of the pinned code were found by the injection sweep and repaired in /repo first (Q_MUTEX_NEW NULL dereference in all thread-safe constructors; qvector constructor leak; qtreetbl put modifying the tree before allocating; '
       'remove not checking the successor copies; getnext and find_nearest returning half-copied objects; qlisttbl getmulti leaking / truncating; qhashtbl getnext corrupting the cursor). '
       'Tie: harness/h_api.c linked with --wrap=malloc,calloc,realloc,free,strdup,memcpy,memmove,pthread_mutex_trylock,pthread_mutex_unlock keeps two instances of every container, A with the k-th request (or all from the k-th on) '
       'made to fail and B never injected; after EVERY op the public-field dumps of A and B must agree (failure => unchanged, success => correct), self-checks, reachable-set = live-set, lock depth delta 0, plain Python reference of contents; '
       'sweep = every allocating op x corpus of prefix states (0,1,2,3,7,20 elements, colour variety, chains, full vectors, 12 duplicates for getmulti) x every request position, plus retried walks; '
       'the recorded allocator/copy events of every call must equal the extracted script for the same oracle (0 mismatches).',
  note='Trusted: Coq kernel, extraction (ExtrOcamlBasic), gcc/clang, ld --wrap, harness/h_api.c, ocaml/d_alloc.ml, checks/alloccommon.py (incl. its reference models and murmur3). The scripts are tied to the C text by the event correspondence only. '
       'Which object struct a two-child tree removal releases (own or successor) depends on the LLRB shape (C02): both scripts are proved, the tie takes the branch from the trace. void reverse() of qvector reports failure through errno only. '
       'Walk order of the static hash table is taken from the trace (C06). putstrf of tree/hash/listtbl/hasharr and qgrow addstrf are modelled (DYNAMIC_VSPRINTF doubling loop + put/add fed from the temporary + its release) and swept with formatted lengths 10..5000 at every request position; allocation failure inside qlisttbl save/load/sort, debug printers, qstrdupf/qstrcatf: not modelled.',
  technique='Rocq proofs about allocation scripts for all oracles (count-function ledger invariant, one-step rules, linear arithmetic) + fault-injection A/B differential sweep + extracted-script event correspondence',
  design='5.15')
claim('C11',
  text='The part a theorem can carry - the allocation ledger (blocks identified by allocation sequence number; owned / handed-out sets; never re-used ids): for every container, every constructor outcome, EVERY history of operations with any '
       'pattern of failing allocations, and the destructor, every free names a live block the container owns (never twice, never caller memory, never a block handed out), every copy writes into and reads from live owned blocks or the caller buffer, '
       'what a container owns after a call and did not own before was allocated in that call, and after the destructor nothing is owned (C11_*_safe, C11_*_no_leak via the invariant "owned = blocks of the summary", C11_dead_stays_dead, C11_*_owns_only_own_allocations). '
       'Tie: event correspondence as for C15 on corpus + random histories of all nine containers (with and without failed calls); wrapped-allocator monitors per call (free of non-live/foreign/returned block, copy outside a live block, overlapping memcpy, '
       'reachable = live, census after free); thorough tier: the same histories under ASan+UBSan+LSan (clang) as failing-input search.',
  note='Partial by nature: byte ranges/index arithmetic of copies, uninitialised reads, alignment and signed overflow are outside the ledger - searched by the sanitizer build, never the verdict. Static hash table region: C07 (guard pages). '
       'Hash functions reading exactly nbytes: C18. Walks are restarted after every modification (a cursor into a modified container is not valid API use). Trusted as C15.',
  technique='Rocq invariant proof over histories of allocation scripts + wrapped-allocator differential monitors + sanitizer search',
  design='5.11')
claim('C12',
  text='Ownership facts on the ledger, for all states, arguments, oracles and histories: after put/add/push every key and value block of every element either was already stored or was allocated by this call and filled by a copy from the caller '
       '(caller memory has no block identity in the ledger, so it can never be linked: C12_*_fresh_copies); a block handed to the caller by a copying get/pop/find_min/find_max/getnext/find_nearest/getmulti/toarray/tostring/static-table get is never '
       'freed, written, read or re-used by any later call of any history nor by the destructor (C12_*_returned_independent, C12_given_untouched). Byte-exact contents for any value (embedded/trailing NUL, zero-filled, 0xff, long) are the refinement '
       'theorems C01-C10. Tie: in harness/h_api.c every caller buffer is an exact-size heap block overwritten with 0x5A and freed right after the call, every returned copy is snapshotted and re-inspected after every later op and after the '
       'container is released (plain build with 0xDD-filled quarantine; ASan build in the thorough tier), contents and results are compared byte for byte with a plain reference model, and the recorded events (who allocated, copied from where, '
       'what was handed out) equal the extracted scripts.',
  note='Partial by nature: aliasing is a run-time fact observed by the scribble-and-free discipline, not derivable from a value-based model. Trusted as C15.',
  technique='Rocq ownership theorems on an allocation ledger + scribble/free/re-inspect monitor + reference comparison + event correspondence',
  design='5.12')
