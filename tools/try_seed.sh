#!/bin/sh
# usage: tools/try_seed.sh <patch.diff> <Cxx> [more Cxx...]   -- apply a seeded change to /repo, run the checks, undo it.
p=$1; shift
cd /verif
git -C /repo diff --quiet || { echo "/repo has local changes; refusing"; exit 2; }
git -C /repo apply "$p" || { echo "patch does not apply to /repo"; exit 2; }
for c in "$@"; do
  # the evidence file describes the unchanged tree: keep it aside while the check runs on the seeded tree
  cp evidence/$c.json evidence/.$c.json.keep 2>/dev/null
  out=$(./check "$c" 2>&1); rc=$?
  [ -f evidence/.$c.json.keep ] && mv evidence/.$c.json.keep evidence/$c.json
  echo "== $c exit=$rc: $(echo "$out" | grep -c '^VIOLATION') VIOLATION line(s)"
  echo "$out" | grep '^VIOLATION\|^KNOWN' | head -4
  for r in $(echo "$out" | grep '^VIOLATION' | sed 's/.*replay=\([^ ]*\).*/\1/' | head -2); do python3 -c "
import json,sys
d=json.load(open('$r')); print('   ', d.get('kind'), '|', (d.get('title') or str(d.get('broken',''))[:200])[:200])"; done
done
git -C /repo checkout -- .
git -C /repo status --short | grep -v '^??' | head -3
