# qhash.c / md5c.c -> coq/Gen/HashConst.v
# Everything mechanical about the hash functions is read from the source text on every run: FNV offset bases, the
# shift lists of the shift-add multiplication (the branch gcc compiles) and the multiplier of the #else branch, the
# form of the FNV loop condition, murmur constants / rotation amounts / finaliser / tail-switch layout, the 64 MD5
# step lines with their shift amounts resolved through the `#define Sxy n` lines, the MD5 initial state, PADDING,
# the literal numbers of MD5Update/MD5Pad, and the chunk size of qhashmd5_file.
# Whatever is modelled by hand (the F/G/H/I and FF..II macros, the shape of the murmur bodies and finalisers) is
# compared with the text the model was written from; any pattern that no longer matches is a hard failure
# (non-zero exit => the check records a broken obligation), never a silent pass.
import re, os, subprocess

class Unreadable(SystemExit):
    pass

def die(msg):
    raise SystemExit('gen_hashconst: ' + msg)

def strip_comments(s):
    s = re.sub(r'/\*.*?\*/', ' ', s, flags=re.S)
    s = re.sub(r'//[^\n]*', ' ', s)
    return s

def norm(s):
    return re.sub(r'\s+', '', s)

def num(t):
    t = t.strip()
    t = re.sub(r'(?i)(ull|ul|u|ll|l)$', '', t)
    if re.fullmatch(r'0[xX][0-9a-fA-F]+', t):
        return int(t, 16)
    if re.fullmatch(r'\d+', t):
        return int(t, 10)
    die('cannot read number %r' % t)

def arith(t):
    """tiny constant expressions such as `32 - 15`, `32 * 1024`"""
    t = t.strip()
    if not re.fullmatch(r'[0-9xXa-fA-FuUlL\s\-\+\*\(\)]+', t):
        die('cannot read constant expression %r' % t)
    t2 = re.sub(r'(?<=[0-9a-fA-F])(?:[uU]?[lL]{0,2})\b', '', t)
    try:
        return int(eval(t2, {'__builtins__': {}}, {}))
    except Exception:
        die('cannot evaluate constant expression %r' % t)

def func_body(src, header_re, what):
    m = re.search(header_re, src)
    if not m:
        die('function %s not found' % what)
    i = src.index('{', m.end() - 1)
    depth, j = 0, i
    while j < len(src):
        if src[j] == '{':
            depth += 1
        elif src[j] == '}':
            depth -= 1
            if depth == 0:
                return src[i + 1:j]
        j += 1
    die('unbalanced braces in %s' % what)

def must(pat, s, what, flags=re.S):
    m = re.search(pat, s, flags)
    if not m:
        die('pattern for %s not found (the source changed in a way the translator cannot read)' % what)
    return m

def expect_norm(body, pieces, what):
    """body (whitespace removed) must equal the concatenation of pieces; a piece is a literal string or a (name, regex) capture."""
    pat = ''
    for p in pieces:
        if isinstance(p, tuple):
            pat += '(?P<%s>%s)' % p
        else:
            pat += re.escape(norm(p))
    m = re.fullmatch(pat, norm(body))
    if not m:
        die('%s does not have the statement sequence the model was written from' % what)
    return m

NUM = r'0[xX][0-9a-fA-F]+(?:[uU]?[lL]{0,2})|\d+(?:[uU]?[lL]{0,2})'

# ---------------------------------------------------------------- FNV
def fnv(src, name, width):
    body = func_body(src, r'uint%d_t\s+%s\s*\(\s*const\s+void\s*\*\s*data\s*,\s*size_t\s+nbytes\s*\)\s*\{' % (width, name), name)
    m = expect_norm(body, [
        'if (data == NULL || nbytes == 0) return 0;',
        'unsigned char *dp; uint%d_t h = ' % width, ('basis', NUM), ';',
        'for (dp = (unsigned char *) data;', ('cond', r'[^;]+'), '; dp++, nbytes--) {',
        '#ifdef __GNUC__', 'h += ', ('sum', r'[^;]+'), ';',
        '#else', 'h *= ', ('prime', NUM), ';', '#endif',
        'h ^= *dp; }', 'return h;'], name)
    cond = m.group('cond')
    if cond == norm('*dp && nbytes > 0'):
        reads_dp = True
    elif cond == norm('nbytes > 0'):
        reads_dp = False
    else:
        die('%s: loop condition %r is neither `*dp && nbytes > 0` nor `nbytes > 0`' % (name, cond))
    shifts = []
    for term in m.group('sum').split('+'):
        t = re.fullmatch(r'\(h<<(\d+)\)', term)
        if not t:
            die('%s: shift-add term %r not of the form (h << k)' % (name, term))
        shifts.append(int(t.group(1)))
    return num(m.group('basis')), shifts, num(m.group('prime')), reads_dp

# ---------------------------------------------------------------- murmur 32
def murmur32(src):
    body = func_body(src, r'uint32_t\s+qhashmurmur3_32\s*\(\s*const\s+void\s*\*\s*data\s*,\s*size_t\s+nbytes\s*\)\s*\{', 'qhashmurmur3_32')
    R = lambda n: (n, r'\d+')
    E = lambda n: (n, r'\(32-\d+\)')
    m = expect_norm(body, [
        'if (data == NULL || nbytes == 0) return 0;',
        'const uint32_t c1 = ', ('c1', NUM), '; const uint32_t c2 = ', ('c2', NUM), ';',
        'const int nblocks = nbytes / ', ('bs', r'\d+'), ';',
        'const uint8_t *blocks = (const uint8_t *) (data);',          # the words are loaded with memcpy: the key may start at any address
        'const uint8_t *tail = (const uint8_t *) (data + (nblocks * ', ('bs2', r'\d+'), '));',
        'uint32_t h = 0; int i; uint32_t k;',
        'for (i = 0; i < nblocks; i++) { memcpy(&k, blocks + i * 4, sizeof(k));',
        'k *= c1; k = (k << ', R('r1'), ') | (k >> ', E('r1c'), '); k *= c2;',
        'h ^= k; h = (h << ', R('r2'), ') | (h >> ', E('r2c'), '); h = (h * ', R('m'), ') + ', ('n', NUM), '; }',
        'k = 0; switch (nbytes & ', ('mask', r'\d+'), ') {',
        'case 3: k ^= tail[2] << ', R('t2'), ';',
        'case 2: k ^= tail[1] << ', R('t1'), ';',
        'case 1: k ^= tail[0]; k *= c1; k = (k << ', R('r1b'), ') | (k >> ', E('r1bc'), '); k *= c2; h ^= k; };',
        'h ^= nbytes;',
        'h ^= h >> ', R('f1'), '; h *= ', ('fm1', NUM), '; h ^= h >> ', R('f2'), '; h *= ', ('fm2', NUM), '; h ^= h >> ', R('f3'), ';',
        'return h;'], 'qhashmurmur3_32')
    g = m.groupdict()
    if g['bs'] != '4' or g['bs2'] != '4' or g['mask'] != '3':
        die('qhashmurmur3_32: block size / tail mask are not 4 / 3')
    if g['r1'] != g['r1b'] or g['r1c'] != g['r1bc']:
        die('qhashmurmur3_32: tail rotation differs from block rotation')
    ev = lambda s: arith(s)
    return dict(c1=num(g['c1']), c2=num(g['c2']), r1=(int(g['r1']), ev(g['r1c'])), r2=(int(g['r2']), ev(g['r2c'])),
                m=int(g['m']), n=num(g['n']), tail=[(3, 2, int(g['t2'])), (2, 1, int(g['t1'])), (1, 0, 0)],
                fmix=(int(g['f1']), num(g['fm1']), int(g['f2']), num(g['fm2']), int(g['f3'])))

# ---------------------------------------------------------------- murmur 128
def murmur128(src):
    body = func_body(src, r'bool\s+qhashmurmur3_128\s*\(\s*const\s+void\s*\*\s*data\s*,\s*size_t\s+nbytes\s*,\s*void\s*\*\s*retbuf\s*\)\s*\{', 'qhashmurmur3_128')
    nb = norm(body)
    sw = nb.find('switch(nbytes&15){')
    if sw < 0:
        die('qhashmurmur3_128: `switch (nbytes & 15)` not found')
    end = nb.find('};', sw)
    head, switch, fin = nb[:sw], nb[sw + len('switch(nbytes&15){'):end], nb[end + 2:]
    R = lambda n: (n, r'\d+')
    E = lambda n: (n, r'\(64-\d+\)')
    m = expect_norm(head, [
        'if (data == NULL || nbytes == 0) return false;',
        'const uint64_t c1 = ', ('c1', NUM), '; const uint64_t c2 = ', ('c2', NUM), ';',
        'const int nblocks = nbytes / 16; const uint8_t *blocks = (const uint8_t *) (data);',
        'const uint8_t *tail = (const uint8_t *) (data + (nblocks * 16));',
        'uint64_t h1 = 0; uint64_t h2 = 0; int i; uint64_t k1, k2;',
        'for (i = 0; i < nblocks; i++) { memcpy(&k1, blocks + i * 16, sizeof(k1)); memcpy(&k2, blocks + i * 16 + 8, sizeof(k2));',
        'k1 *= c1; k1 = (k1 << ', R('ka'), ') | (k1 >> ', E('kac'), '); k1 *= c2; h1 ^= k1;',
        'h1 = (h1 << ', R('ha'), ') | (h1 >> ', E('hac'), '); h1 += h2; h1 = h1 * ', R('m1'), ' + ', ('n1', NUM), ';',
        'k2 *= c2; k2 = (k2 << ', R('kb'), ') | (k2 >> ', E('kbc'), '); k2 *= c1; h2 ^= k2;',
        'h2 = (h2 << ', R('hb'), ') | (h2 >> ', E('hbc'), '); h2 += h1; h2 = h2 * ', R('m2'), ' + ', ('n2', NUM), '; }',
        'k1 = k2 = 0;'], 'qhashmurmur3_128 (block loop)')
    g = m.groupdict()
    # the switch: case labels 15..1 in descending order, fall-through everywhere, the two mixing sequences after case 9 and case 1
    pieces = []
    tail2, tail1 = [], []
    pos = 0
    for case in range(15, 0, -1):
        lane = 'k2' if case >= 9 else 'k1'
        mm = re.match(r'case%d:%s\^=\(uint64_t\)\(tail\[(\d+)\]\)<<(\d+);' % (case, lane), switch[pos:])
        if not mm:
            die('qhashmurmur3_128: `case %d: %s ^= (uint64_t)(tail[i]) << s;` not found at its place (fall-through order changed?)' % (case, lane))
        (tail2 if case >= 9 else tail1).append((case, int(mm.group(1)), int(mm.group(2))))
        pos += mm.end()
        if case == 9:
            mm = re.match(re.escape(norm('k2 *= c2; k2 = (k2 << ')) + r'(\d+)' + re.escape(norm(') | (k2 >> ')) + r'(\(64-\d+\))' +
                          re.escape(norm('); k2 *= c1; h2 ^= k2;')), switch[pos:])
            if not mm or (mm.group(1), mm.group(2)) != (g['kb'], g['kbc']):
                die('qhashmurmur3_128: k2 tail mixing after case 9 not found or differs from the block loop')
            pos += mm.end()
        if case == 1:
            mm = re.match(re.escape(norm('k1 *= c1; k1 = (k1 << ')) + r'(\d+)' + re.escape(norm(') | (k1 >> ')) + r'(\(64-\d+\))' +
                          re.escape(norm('); k1 *= c2; h1 ^= k1;')), switch[pos:])
            if not mm or (mm.group(1), mm.group(2)) != (g['ka'], g['kac']):
                die('qhashmurmur3_128: k1 tail mixing after case 1 not found or differs from the block loop')
            pos += mm.end()
    if pos != len(switch):
        die('qhashmurmur3_128: unexpected text in the tail switch: %r' % switch[pos:pos + 60])
    f = expect_norm(fin, [
        'h1 ^= nbytes; h2 ^= nbytes; h1 += h2; h2 += h1;',
        'h1 ^= h1 >> ', R('a1'), '; h1 *= ', ('am1', NUM), '; h1 ^= h1 >> ', R('a2'), '; h1 *= ', ('am2', NUM), '; h1 ^= h1 >> ', R('a3'), ';',
        'h2 ^= h2 >> ', R('b1'), '; h2 *= ', ('bm1', NUM), '; h2 ^= h2 >> ', R('b2'), '; h2 *= ', ('bm2', NUM), '; h2 ^= h2 >> ', R('b3'), ';',
        'h1 += h2; h2 += h1; memcpy(retbuf, &h1, sizeof(h1)); memcpy((uint8_t *) retbuf + 8, &h2, sizeof(h2)); return true;'], 'qhashmurmur3_128 (finalisation)').groupdict()
    if (f['a1'], f['am1'], f['a2'], f['am2'], f['a3']) != (f['b1'], f['bm1'], f['b2'], f['bm2'], f['b3']):
        die('qhashmurmur3_128: the two lanes use different finalisers')
    ev = arith
    return dict(c1=num(g['c1']), c2=num(g['c2']), k1rot=(int(g['ka']), ev(g['kac'])), k2rot=(int(g['kb']), ev(g['kbc'])),
                h1rot=(int(g['ha']), ev(g['hac'])), h2rot=(int(g['hb']), ev(g['hbc'])), m1=int(g['m1']), n1=num(g['n1']),
                m2=int(g['m2']), n2=num(g['n2']), tail2=tail2, tail1=tail1,
                fmix=(int(f['a1']), num(f['am1']), int(f['a2']), num(f['am2']), int(f['a3'])))

# ---------------------------------------------------------------- MD5
MACROS = {
    'F': ('(x, y, z)', '(((x) & (y)) | ((~x) & (z)))'),
    'G': ('(x, y, z)', '(((x) & (z)) | ((y) & (~z)))'),
    'H': ('(x, y, z)', '((x) ^ (y) ^ (z))'),
    'I': ('(x, y, z)', '((y) ^ ((x) | (~z)))'),
    'ROTATE_LEFT': ('(x, n)', '(((x) << (n)) | ((x) >> (32-(n))))'),
}

def md5(raw):
    src = strip_comments(raw)
    joined = src.replace('\\\n', ' ')
    for name, (args, body) in MACROS.items():
        m = re.search(r'#define\s+%s\s*%s\s*(.*)' % (name, re.escape(args).replace(r'\ ', r'\s*')), joined)
        if not m or norm(m.group(1)) != norm(body):
            die('md5c.c: macro %s is not `%s` any more (the hand-written model follows that text)' % (name, body))
    for fn, f in (('FF', 'F'), ('GG', 'G'), ('HH', 'H'), ('II', 'I')):
        m = re.search(r'#define\s+%s\s*\(a,\s*b,\s*c,\s*d,\s*x,\s*s,\s*ac\)\s*(.*)' % fn, joined)
        want = '{ (a) += %s ((b), (c), (d)) + (x) + (u_int32_t)(ac); (a) = ROTATE_LEFT ((a), (s)); (a) += (b); }' % f
        if not m or norm(m.group(1)) != norm(want):
            die('md5c.c: macro %s is not the add / rotate / add sequence the model was written from' % fn)
    if not re.search(r'#if\s*\(BYTE_ORDER\s*==\s*LITTLE_ENDIAN\)\s*#define\s+Encode\s+memcpy\s*#define\s+Decode\s+memcpy', src):
        die('md5c.c: Encode/Decode are not memcpy on little-endian targets any more')
    sdef = {m.group(1): int(m.group(2)) for m in re.finditer(r'#define\s+(S[1-4][1-4])\s+(\d+)', src)}
    body = func_body(src, r'static\s+void\s+MD5Transform\s*\(\s*u_int32_t\s+state\[4\]\s*,\s*const\s+unsigned\s+char\s+block\[64\]\s*\)\s*\{', 'MD5Transform')
    body_nodef = re.sub(r'#define[^\n]*', '', body)
    steps = []
    rest = norm(body_nodef)
    pre = norm('u_int32_t a = state[0], b = state[1], c = state[2], d = state[3], x[16]; Decode (x, block, 64);')
    if not rest.startswith(pre):
        die('MD5Transform: prologue changed')
    rest = rest[len(pre):]
    rounds = {'FF': 0, 'GG': 1, 'HH': 2, 'II': 3}
    regs = {'a': 0, 'b': 1, 'c': 2, 'd': 3}
    while True:
        m = re.match(r'(FF|GG|HH|II)\(([abcd]),([abcd]),([abcd]),([abcd]),x\[(\d+)\],(S\d\d|\d+),(' + NUM + r')\);', rest)
        if not m:
            break
        s = m.group(7)
        if s in sdef:
            sv = sdef[s]
        elif s.isdigit():
            sv = int(s)
        else:
            die('MD5Transform: shift name %s has no #define' % s)
        steps.append((rounds[m.group(1)], tuple(regs[m.group(i)] for i in (2, 3, 4, 5)), int(m.group(6)), sv, num(m.group(8))))
        rest = rest[m.end():]
    post = norm('state[0] += a; state[1] += b; state[2] += c; state[3] += d; memset ((void *) x, 0, sizeof (x));')
    if rest != post:
        die('MD5Transform: text after the %d recognised step lines is not the state update the model was written from: %r' % (len(steps), rest[:80]))
    if len(steps) == 0:
        die('MD5Transform: no step lines found')
    ib = func_body(src, r'void\s+MD5Init\s*\(\s*MD5_CTX\s*\*\s*context\s*\)\s*\{', 'MD5Init')
    m = expect_norm(ib, ['context->count[0] = context->count[1] = 0;', 'context->state[0] = ', ('s0', NUM), '; context->state[1] = ', ('s1', NUM),
                         '; context->state[2] = ', ('s2', NUM), '; context->state[3] = ', ('s3', NUM), ';'], 'MD5Init')
    init = [num(m.group(k)) for k in ('s0', 's1', 's2', 's3')]
    m = must(r'static\s+unsigned\s+char\s+PADDING\s*\[\s*64\s*\]\s*=\s*\{([^}]*)\}\s*;', src, 'PADDING')
    pad = [num(t) for t in m.group(1).split(',') if t.strip()]
    if len(pad) > 64:
        die('PADDING has more than 64 initialisers')
    pad += [0] * (64 - len(pad))
    # MD5Update / MD5Pad / MD5Final follow fixed text; the literals are captured
    ub = func_body(src, r'void\s+MD5Update\s*\(\s*MD5_CTX\s*\*\s*context\s*,\s*const\s+unsigned\s+char\s*\*\s*input\s*,\s*unsigned\s+int\s+inputLen\s*\)\s*\{', 'MD5Update')
    u = expect_norm(ub, [
        'unsigned int i, idx, partLen;',
        'idx = (unsigned int) ((context->count[0] >> ', ('sh', r'\d+'), ') & ', ('mask', NUM), ');',
        'if ((context->count[0] += ((u_int32_t) inputLen << ', ('sh2', r'\d+'), ')) < ((u_int32_t) inputLen << ', ('sh3', r'\d+'), ')) context->count[1]++;',
        'context->count[1] += ((u_int32_t) inputLen >> ', ('hi', r'\d+'), ');',
        'partLen = ', ('blk', r'\d+'), ' - idx;',
        'if (inputLen >= partLen) { memcpy ((void *) &context->buffer[idx], (const void *) input, partLen);',
        'MD5Transform (context->state, context->buffer);',
        'for (i = partLen; i + ', ('lim', r'\d+'), ' < inputLen; i += ', ('inc', r'\d+'), ') MD5Transform (context->state, &input[i]);',
        'idx = 0; } else i = 0;',
        'memcpy ((void *) &context->buffer[idx], (const void *) &input[i], inputLen - i);'], 'MD5Update').groupdict()
    if not (u['sh'] == u['sh2'] == u['sh3']):
        die('MD5Update: inconsistent bit shifts')
    pb = func_body(src, r'static\s+void\s+MD5Pad\s*\(\s*MD5_CTX\s*\*\s*context\s*\)\s*\{', 'MD5Pad')
    p = expect_norm(pb, [
        'unsigned char bits[8]; unsigned int idx, padLen;', 'Encode (bits, context->count, 8);',
        'idx = (unsigned int) ((context->count[0] >> ', ('sh', r'\d+'), ') & ', ('mask', NUM), ');',
        'padLen = (idx < ', ('a', r'\d+'), ') ? (', ('b', r'\d+'), ' - idx) : (', ('c', r'\d+'), ' - idx);',
        'MD5Update (context, PADDING, padLen);', 'MD5Update (context, bits, 8);'], 'MD5Pad').groupdict()
    if (p['sh'], num(p['mask'])) != (u['sh'], num(u['mask'])):
        die('MD5Pad: index computation differs from MD5Update')
    fb = func_body(src, r'void\s+MD5Final\s*\(\s*unsigned\s+char\s+digest\[16\]\s*,\s*MD5_CTX\s*\*\s*context\s*\)\s*\{', 'MD5Final')
    expect_norm(fb, ['MD5Pad (context);', 'Encode (digest, context->state, 16);', 'memset ((void *) context, 0, sizeof (*context));'], 'MD5Final')
    return dict(steps=steps, init=init, pad=pad, cnt_shift=int(u['sh']), idx_mask=num(u['mask']), hi_shift=int(u['hi']), block=int(u['blk']),
                lim=int(u['lim']), inc=int(u['inc']), pad_a=int(p['a']), pad_b=int(p['b']), pad_c=int(p['c']))

def md5_wrappers(src):
    b = func_body(src, r'bool\s+qhashmd5\s*\(\s*const\s+void\s*\*\s*data\s*,\s*size_t\s+nbytes\s*,\s*void\s*\*\s*retbuf\s*\)\s*\{', 'qhashmd5')
    expect_norm(b, ['if (data == NULL || retbuf == NULL) { errno = EINVAL; return false; }',
                    'MD5_CTX context; MD5Init(&context); MD5Update(&context, (unsigned char *) data, (unsigned int) nbytes); MD5Final(retbuf, &context);',
                    'return true;'], 'qhashmd5')
    b = func_body(src, r'bool\s+qhashmd5_file\s*\(\s*const\s+char\s*\*\s*filepath\s*,\s*off_t\s+offset\s*,\s*ssize_t\s+nbytes\s*,\s*void\s*\*\s*retbuf\s*\)\s*\{', 'qhashmd5_file')
    m = expect_norm(b, [
        'if (filepath == NULL || offset < 0 || nbytes < 0 || retbuf == NULL) { errno = EINVAL; return false; }',
        'int fd = open(filepath, O_RDONLY, 0); if (fd < 0) return false;',
        'struct stat st; if (fstat(fd, &st) < 0) return false; size_t size = st.st_size;',
        'if (size < offset + nbytes) { errno = EINVAL; close(fd); return false; }',
        'if (nbytes == 0) { nbytes = size - offset; }',
        'if (offset > 0) { if (lseek(fd, offset, SEEK_SET) != offset) { close(fd); return false; } }',
        'MD5_CTX context; MD5Init(&context); ssize_t toread, nread; unsigned char buf[', ('bufsz', r'[^\]]+'), '];',
        'for (toread = nbytes; toread > 0; toread -= nread) {',
        'if (toread > sizeof(buf)) nread = read(fd, buf, sizeof(buf)); else nread = read(fd, buf, toread);',
        'if (nread < 0) break; MD5Update(&context, buf, nread); }',
        'close(fd); if (toread != 0) return false; MD5Final(retbuf, &context); return true;'], 'qhashmd5_file')
    return arith(m.group('bufsz').replace('*', ' * '))

# ---------------------------------------------------------------- output
def nlist(xs):
    return '[' + '; '.join(str(x) for x in xs) + ']'

def generate(repo):
    qh = strip_comments(open(os.path.join(repo, 'src/utilities/qhash.c')).read())
    mc = open(os.path.join(repo, 'src/internal/md5/md5c.c')).read()
    mh = strip_comments(open(os.path.join(repo, 'src/internal/md5/md5.h')).read())
    must(r'u_int32_t\s+state\[4\]\s*;\s*u_int32_t\s+count\[2\]\s*;\s*unsigned\s+char\s+buffer\[64\]\s*;', mh, 'MD5_CTX layout in md5.h')
    b32, s32, p32, rd32 = fnv(qh, 'qhashfnv1_32', 32)
    b64, s64, p64, rd64 = fnv(qh, 'qhashfnv1_64', 64)
    m32 = murmur32(qh)
    m128 = murmur128(qh)
    md = md5(mc)
    bufsz = md5_wrappers(qh)
    o = ['(* GENERATED by tools/gen_hashconst.py from src/utilities/qhash.c, src/internal/md5/md5c.c, md5.h -- do not edit *)',
         'From Coq Require Import NArith List.', 'Import ListNotations.', 'Local Open Scope N_scope.', '']
    D = lambda n, t, v: o.append('Definition %s : %s := %s.' % (n, t, v))
    B = lambda b: 'true' if b else 'false'
    o.append('(* qhashfnv1_32 / qhashfnv1_64: offset basis, the (h << k) terms of the __GNUC__ branch, the multiplier of the #else branch,')
    o.append('   and whether the loop condition dereferences dp (`*dp && nbytes > 0`) *)')
    D('fnv32_basis', 'N', b32); D('fnv32_shifts', 'list N', nlist(s32)); D('fnv32_prime', 'N', p32); D('fnv32_cond_reads_dp', 'bool', B(rd32))
    D('fnv64_basis', 'N', b64); D('fnv64_shifts', 'list N', nlist(s64)); D('fnv64_prime', 'N', p64); D('fnv64_cond_reads_dp', 'bool', B(rd64))
    o.append('(* qhashmurmur3_32: rotations are (left shift, right shift) as written: (k << 15) | (k >> (32 - 15)) *)')
    D('m32_c1', 'N', m32['c1']); D('m32_c2', 'N', m32['c2'])
    D('m32_krot', 'N * N', '(%d, %d)' % m32['r1']); D('m32_hrot', 'N * N', '(%d, %d)' % m32['r2'])
    D('m32_hmul', 'N', m32['m']); D('m32_hadd', 'N', m32['n'])
    o.append('(* tail switch: (case label, tail index, shift), in source order, all falling through *)')
    D('m32_tail', 'list (N * N * N)', '[' + '; '.join('(%d, %d, %d)' % t for t in m32['tail']) + ']')
    D('m32_fmix', 'N * N * N * N * N', '(%d, %d, %d, %d, %d)' % m32['fmix'])
    o.append('(* qhashmurmur3_128 *)')
    D('m128_c1', 'N', m128['c1']); D('m128_c2', 'N', m128['c2'])
    for k in ('k1rot', 'k2rot', 'h1rot', 'h2rot'):
        D('m128_' + k, 'N * N', '(%d, %d)' % m128[k])
    D('m128_h1mul', 'N', m128['m1']); D('m128_h1add', 'N', m128['n1']); D('m128_h2mul', 'N', m128['m2']); D('m128_h2add', 'N', m128['n2'])
    D('m128_tail2', 'list (N * N * N)', '[' + '; '.join('(%d, %d, %d)' % t for t in m128['tail2']) + ']')
    D('m128_tail1', 'list (N * N * N)', '[' + '; '.join('(%d, %d, %d)' % t for t in m128['tail1']) + ']')
    D('m128_fmix', 'N * N * N * N * N', '(%d, %d, %d, %d, %d)' % m128['fmix'])
    o.append('(* md5c.c: one record per FF/GG/HH/II line of MD5Transform: round (0=FF 1=GG 2=HH 3=II), the registers in argument order')
    o.append('   (0=a 1=b 2=c 3=d), k of x[k], the shift amount (Sxy resolved through its #define), the additive constant *)')
    o.append('Record md5step := mkstep { s_round : N; s_ra : N; s_rb : N; s_rc : N; s_rd : N; s_k : N; s_shift : N; s_ac : N }.')
    o.append('Definition md5_steps : list md5step := [')
    o.append(';\n'.join('  mkstep %d %d %d %d %d %d %d %d' % (r, q[0], q[1], q[2], q[3], k, s, ac) for (r, q, k, s, ac) in md['steps']))
    o.append('].')
    D('md5_init_state', 'list N', nlist(md['init'])); D('md5_padding', 'list N', nlist(md['pad']))
    o.append('(* literals of MD5Update / MD5Pad: count[0] >> 3 & 0x3F, inputLen >> 29, 64 - idx, i + 63 < inputLen, i += 64, idx < 56 ? 56 - idx : 120 - idx *)')
    D('md5_cnt_shift', 'N', md['cnt_shift']); D('md5_idx_mask', 'N', md['idx_mask']); D('md5_hi_shift', 'N', md['hi_shift'])
    D('md5_block', 'N', md['block']); D('md5_loop_lim', 'N', md['lim']); D('md5_loop_inc', 'N', md['inc'])
    D('md5_pad_lt', 'N', md['pad_a']); D('md5_pad_short', 'N', md['pad_b']); D('md5_pad_long', 'N', md['pad_c'])
    o.append('(* qhashmd5_file: sizeof(buf) *)')
    D('md5_file_bufsize', 'N', bufsz)
    return {'HashConst.v': '\n'.join(o) + '\n'}

if __name__ == '__main__':
    import sys
    print(generate(sys.argv[1] if len(sys.argv) > 1 else os.environ.get('VERIF_REPO', '/repo'))['HashConst.v'])
