#!/usr/bin/env python3
# usage: tools/merge_fin.py <branch> <area> "<Require line>" "<extraction function list>"
# finishes what merge_pkg.sh leaves: Extract.v additions, driver opens, known_findings union
import sys, json, subprocess, re
br, area, req, funs = sys.argv[1:5]
p = '/verif/coq/Extract.v'
s = open(p).read()
if req not in s:
    s = s.replace("Extraction Blacklist List String Int.\n", req + "\nExtraction Blacklist List String Int.\n")
if '%s_model.ml' % area not in s:
    s += 'Extraction "../ocaml/gen/%s_model.ml" Res.num_anchor\n   %s.\n' % (area, funs)
open(p, 'w').write(s)
q = '/verif/ocaml/d_%s.ml' % area
t = open(q).read()
mod = area.capitalize() + '_model'
t = t.replace("open Model\nopen Util\n", "open %s\nmodule U = Util.Make(%s)\nopen U\nlet res_str f r = match r with Ok x -> f x | Crash -> \"CRASH\" | Fuel -> \"FUEL\"\n" % (mod, mod))
open(q, 'w').write(t)
ours = json.loads(subprocess.check_output(['git', 'show', 'HEAD:known_findings.json']))
theirs = json.loads(subprocess.check_output(['git', 'show', br + ':known_findings.json']))
titles = {k['title'] for k in ours}
for k in theirs:
    if k['title'] not in titles:
        ours.append(k)
json.dump(ours, open('/verif/known_findings.json', 'w'), indent=1)
print('done')
