# Shared machinery of the static-hash-table checks C06/C07.
from vlib import *


def murmur3_32(data, seed=0):
    c1, c2 = 0xcc9e2d51, 0x1b873593
    h = seed
    n = len(data)
    for i in range(0, n - n % 4, 4):
        k = int.from_bytes(data[i:i + 4], 'little')
        k = (k * c1) & 0xffffffff; k = ((k << 15) | (k >> 17)) & 0xffffffff; k = (k * c2) & 0xffffffff
        h ^= k; h = ((h << 13) | (h >> 19)) & 0xffffffff; h = (h * 5 + 0xe6546b64) & 0xffffffff
    k = 0
    t = data[n - n % 4:]
    if len(t) >= 3: k ^= t[2] << 16
    if len(t) >= 2: k ^= t[1] << 8
    if len(t) >= 1:
        k ^= t[0]
        k = (k * c1) & 0xffffffff; k = ((k << 15) | (k >> 17)) & 0xffffffff; k = (k * c2) & 0xffffffff
        h ^= k
    h ^= n
    h ^= h >> 16; h = (h * 0x85ebca6b) & 0xffffffff; h ^= h >> 13; h = (h * 0xc2b2ae35) & 0xffffffff; h ^= h >> 16
    return h


def key_pool(rng, cap, nkeys, long_keys=True):
    """keys forced into few home slots so that collisions, foreign-block relocation and promotion occur"""
    keys = []
    targets = [rng.randrange(cap) for _ in range(max(1, min(3, cap)))]
    tries = 0
    while len(keys) < nkeys and tries < 200000:
        tries += 1
        r = rng.random()
        if long_keys and r < 0.15:
            ln = rng.choice([15, 16, 17, 18, 40, 300])
        elif long_keys and r < 0.18:
            ln = 65535
        else:
            ln = rng.choice([1, 2, 3, 5, 8])
        if ln == 65535 and any(len(x) > 20000 for x in keys):
            # a second long key that shares its first 60000 bytes (and length) with an earlier one and lands in the same home slot:
            # only the digest of the WHOLE key tells them apart
            base = next(x for x in keys if len(x) > 20000)
            k = None
            for _ in range(4 * cap):
                cand = base[:60000] + bytes(rng.randrange(256) for _ in range(len(base) - 60000))
                if cand != base and murmur3_32(cand) % cap == murmur3_32(base) % cap:
                    k = cand
                    break
            if k is None:
                continue
        elif ln == 17 and rng.random() < 0.5 and keys:
            # same 16-byte prefix as an earlier long key: only length/digest distinguish them
            base = next((k for k in keys if len(k) >= 17), None)
            k = (base[:16] if base else bytes(rng.randrange(1, 256) for _ in range(16))) + bytes([rng.randrange(256)])
        else:
            k = bytes(rng.randrange(256) for _ in range(ln))
        if rng.random() < 0.2:
            # keys of the same length that are identical up to an embedded zero byte and differ after it (memcmp vs strncmp)
            zs = [b for b in keys if b'\0' in b[1:-1] and len(b) <= 16]
            if zs and rng.random() < 0.7:
                b = rng.choice(zs)
                cut = b.index(b'\0', 1)
                k = b[:cut + 1] + bytes(rng.randrange(1, 256) for _ in range(len(b) - cut - 1))
            else:
                ln2 = rng.choice([3, 4, 6, 9, 16])
                cut = rng.randrange(1, ln2 - 1)
                k = bytes(rng.randrange(1, 256) for _ in range(cut)) + b'\0' + bytes(rng.randrange(1, 256) for _ in range(ln2 - cut - 1))
        if rng.random() < 0.15:
            # a C-string key (terminator included, as the string interface stores it): reachable through putstrf() as well
            k = bytes(rng.randrange(1, 256) for _ in range(rng.choice([1, 3, 8, 15, 16, 20]))) + b'\0'
        if k in keys:
            continue
        h = murmur3_32(k) % cap
        if h in targets or rng.random() < 0.25:
            keys.append(k)
    return keys


def rand_value(rng):
    r = rng.random()
    sizes = [1, 2, 31, 32, 33, 32 + 65, 32 + 66, 32 + 67, 32 + 2 * 66, 32 + 2 * 66 + 1, 200, 400]
    n = rng.choice(sizes) if r < 0.7 else rng.randrange(1, 500)
    return bytes(rng.randrange(256) for _ in range(n))


def gen_history(rng, cap, nops, nkeys, reloc=0.05):
    keys = key_pool(rng, cap, nkeys)
    hdr = ['cap %d' % cap] + ['key %d %s %d' % (i, hexs(k), murmur3_32(k) % cap) for i, k in enumerate(keys)]
    ops = []
    lastval = {}                       # what the generator last put under a key (it may have been refused or deleted since: only a hint)
    for _ in range(nops):
        r = rng.random()
        ki = rng.randrange(len(keys))
        if r < reloc:
            ops.append('reloc %d' % rng.choice([4 * rng.randrange(16), rng.randrange(64), 1, 2, 3]))
        elif r < 0.45:
            v = rand_value(rng)
            if ki in lastval and rng.random() < 0.25:
                # a value related to the one stored: a prefix cut at a slot boundary, the same bytes, one byte changed at the end
                old = lastval[ki]
                v = rng.choice([old[:31], old[:32], old[:33], old[:32 + 66], old, old[:-1] + bytes([old[-1] ^ 1]), old + b'\x00']) or old
            lastval[ki] = v
            kb = keys[ki]
            if kb.endswith(b'\0') and b'\0' not in kb[:-1] and rng.random() < 0.5:
                # the formatted-string interface: putstrf(key, "%s", text) stores the text with its terminator, whatever its length
                n = rng.choice([1, 7, 31, 32, 33, 100, 255, 256, 1022, 1023, 1024, 1025, 1500])
                txt = bytes(rng.randrange(1, 256) for _ in range(n))
                lastval[ki] = txt + b'\0'
                ops.append('putf %d %s' % (ki, hexs(txt)))
                continue
            ops.append('put %d %s' % (ki, hexs(v)))
        elif r < 0.60:
            ops.append('get %d' % ki)
        elif r < 0.78:
            ops.append('del %d' % ki)
        elif r < 0.84:
            ops.append('delidx %d' % rng.randrange(cap))
        elif r < 0.90:
            ops.append('walk')
        elif r < 0.97:
            ops.append('size')
        elif r < 0.975:
            ops.append('clear')
        else:
            ops.append('put %d -' % ki)      # empty value: EINVAL
    return hdr, ops


def wf_image(img, cap):
    """Independent well-formedness check of a dumped image (C07's structural clause), on the implementation's dump."""
    m = re.match(r'u(-?\d+) n(-?\d+) (.*)$', img)
    if not m:
        return 'unparsable'
    used, num, body = int(m.group(1)), int(m.group(2)), m.group(3)
    slots = re.findall(r'\.|\[[^\]]*\]', body)
    if len(slots) != cap:
        return 'slot-count'
    S = []
    for s in slots:
        if s == '.':
            S.append(None)
        else:
            c, h, d, l, k, dat = s[1:-1].split(',')
            S.append((int(c), int(h), int(d), int(l), k, dat))
    occ = [i for i, s in enumerate(S) if s]
    if used != len(occ):
        return 'usedslots!=census'
    keyslots = [i for i in occ if S[i][0] > 0 or S[i][0] == -1]
    if num != len(keyslots):
        return 'num!=census'
    owner = {}
    for i in keyslots:
        c, h, d, l, k, dat = S[i]
        if k in ('?', 'x'):
            return 'unknown-key'
        if c > 0 and h != i:
            return 'leader-not-at-home'
        seen = [i]
        j, prev = l, i
        while j != -1:
            if j < 0 or j >= cap or S[j] is None or S[j][0] != -2 or S[j][1] != prev or j in owner or j in seen:
                return 'broken-chain'
            seen.append(j); prev = j; j = S[j][3]
        for x in seen:
            owner[x] = i
    if sorted(owner) != occ:
        return 'orphan-slot'
    names = [S[i][4] for i in keyslots]
    if len(set(names)) != len(names):
        return 'duplicate-key'
    for i in keyslots:
        c, h = S[i][0], S[i][1]
        if c > 0:
            n = sum(1 for j in keyslots if S[j][1] == h)
            if n != c:
                return 'collision-count'
        else:
            if S[h] is None or S[h][0] < 2 or S[h][1] != h:
                return 'collision-without-leader'
    return None


def monitor(opline, impl, spec, cap):
    kind = opline.split()[0]
    for w in ('CRASH', 'TIMEOUT'):
        if impl.endswith(w):
            impl = w
    if impl in ('CRASH', 'TIMEOUT'):
        return {'op': kind, 'observed': impl.lower()}
    if impl == 'ATTACH-REFUSED':
        return {'op': 'attach', 'observed': 'second-handle-refused-on-valid-image'}
    if impl in ('DEAD', 'MISSING') or ' | ' not in impl:
        return None
    iobs, img = impl.split(' | ', 1)
    sobs = spec[2:] if spec.startswith('S ') else spec
    w = wf_image(img, cap)
    if w:
        return {'op': kind, 'observed': 'image-' + w}
    if kind == 'walk':
        il = sorted(x for x in iobs[5:].split(',') if x)
        sl = sorted(x for x in sobs[5:].split(',') if x)
        if il != sl:
            return {'op': 'walk', 'observed': 'wrong-entries'}
        return None
    if iobs != sobs:
        return {'op': kind, 'observed': 'wrong-result' if kind != 'size' else 'wrong-counters'}
    return None


def run_histories(ctx, exe, histories, label):
    lines, index = [], []
    for hi, (hdr, ops) in enumerate(histories):
        lines += hdr
        for oi, o in enumerate(ops):
            lines.append(o)
            if not o.startswith('reloc'):
                index.append((hi, oi))
    data = ('\n'.join(lines) + '\n').encode()
    rc1, o1, e1 = ctx.run([exe], inp=data, timeout=1800)
    rc2, o2, e2 = ctx.driver(['harr'], inp=data, timeout=1800)
    il = o1.decode('latin1').splitlines()
    dl = o2.decode('latin1').splitlines()
    ml, sl = dl[0::2], dl[1::2]
    if rc1 != 0:
        ctx.broken.append(('correspondence:%s-harness' % label, 'harness exit %s: %s' % (rc1, e1.decode('latin1')[-400:])))
    if rc2 != 0:
        ctx.broken.append(('correspondence:%s-driver' % label, 'driver exit %s: %s' % (rc2, e2.decode('latin1')[-400:])))
    nbad = 0
    failed, diverged = set(), set()
    for n, (hi, oi) in enumerate(index):
        hdr, ops = histories[hi]
        cap = int(hdr[0].split()[1])
        a = il[n] if n < len(il) else 'MISSING'
        m = ml[n][2:] if n < len(ml) else 'MISSING'
        s = sl[n] if n < len(sl) else 'MISSING'
        ctx.cov['evaluations'] += 1
        ctx.count(label + ':' + ops[oi].split()[0])
        if hi in failed:
            continue
        if ' | ' in a and hi not in diverged:
            ctx.distinct.add((cap, a.split(' | ', 1)[1]))
        sig = monitor(ops[oi], a, s, cap)
        if sig is not None:
            failed.add(hi)
            ctx.report('impl-vs-spec', sig, 'static hash table: %s %s' % (sig['op'], sig['observed']),
                       {'ops': hdr + ops[:oi + 1], 'failing_op': ops[oi], 'impl': a[:800], 'spec': s[:800], 'model': m[:800]})
            continue
        if a != m and hi not in diverged:
            nbad += 1
            diverged.add(hi)
            if nbad <= 3:
                ctx.broken.append(('correspondence:%s' % label, 'history %d op %d `%s`:\n impl : %s\n model: %s\n(prefix: %s)' % (
                    hi, oi, ops[oi][:80], a[:600], m[:600], ' ; '.join(x[:40] for x in (hdr + ops[:oi])[-10:]))))
    if histories:
        hdr, ops = histories[len(histories) // 2]
        ctx.sample({'history': label, 'ops': [x[:100] for x in (hdr + ops)[:14]], 'impl_last_line': il[-1][:300] if il else ''})
    return nbad


def exhaustive(ctx, cap, nkeys, sizes, depth):
    """all histories of put/del of length <= depth over nkeys keys x value sizes on a table of cap slots"""
    rng = ctx.rng
    keys = key_pool(rng, cap, nkeys, long_keys=False)
    hdr = ['cap %d' % cap] + ['key %d %s %d' % (i, hexs(k), murmur3_32(k) % cap) for i, k in enumerate(keys)]
    alphabet = []
    for i in range(len(keys)):
        for sz in sizes:
            alphabet.append('put %d %s' % (i, hexs(bytes((i * 37 + j * 11 + sz) & 255 for j in range(sz)))))
        alphabet.append('del %d' % i)
    hists = []
    def rec(prefix, d):
        if d == 0:
            return
        for a in alphabet:
            p = prefix + [a]
            hists.append((['cap %d' % cap] + hdr[1:], p + ['walk', 'size']))
            rec(p, d - 1)
    # enumerate leaves only (each history is a full path; prefixes are covered as their own steps are compared op by op)
    leaves = []
    def rec2(prefix, d):
        if d == 0:
            leaves.append((hdr, prefix + ['walk', 'size']))
            return
        for a in alphabet:
            rec2(prefix + [a], d - 1)
    rec2([], depth)
    return leaves


def harr_check(ctx, props, focus, replay=None):
    exe = prepare(ctx, props, 'h_harr', CORE_SRCS, ['h_harr.c'])
    if exe is None:
        ctx.finish('build failed')
    rng = ctx.rng
    quick = ctx.tier == 'quick'
    if replay:
        d = json.load(open(replay))
        ops = d.get('replay', {}).get('ops')
        if not ops:
            print(json.dumps(d, indent=1)[:3000])
            print('VIOLATION property=%s replay=%s no-failing-input-found' % (ctx.pid, replay))
            sys.exit(1)
        hdr = [o for o in ops if o.split()[0] in ('cap', 'key')]
        body = [o for o in ops if o.split()[0] not in ('cap', 'key')]
        run_histories(ctx, exe, [(hdr, body)], 'replay')
        for _, _, rp in ctx.violations:
            print('VIOLATION property=%s replay=%s' % (ctx.pid, rp))
        for k, dd in ctx.broken:
            print('BROKEN', k, dd)
        if not (ctx.violations or ctx.broken):
            print('replay: implementation agrees with model and specification on this history')
        sys.exit(1 if (ctx.violations or ctx.broken) else 0)
    hists = []
    nh = 120 if quick else 1200
    for i in range(nh):
        cap = rng.choice([2, 3, 4, 5, 6, 7, 8, 9, 9, 12, 64])
        reloc = 0.15 if focus == 'C07' else 0.04
        hists.append(gen_history(rng, cap, 120 if quick else 250, rng.choice([3, 5, 8, 14]), reloc))
    nb = run_histories(ctx, exe, hists, 'random')
    # bounded-exhaustive: every history of put/del up to a depth on a small table
    if quick:
        ex = exhaustive(ctx, 4, 3, [1, 40], 4)
    else:
        ex = exhaustive(ctx, 5, 4, [1, 40, 100], 4) + exhaustive(ctx, 3, 3, [1, 40, 100], 5)
    nb += run_histories(ctx, exe, ex, 'exhaustive')
    if focus == 'C07':
        harr_tiny_ctor(ctx, exe, 'impl-vs-spec', False)
        # tables with more slots than a short can index (the link and index fields are ints): self-checking fill / census / read-back /
        # delete / refill / relocate inside the harness, no model in lockstep (the theorems are for every capacity; this is a search input)
        bigs = ['big 33000 150', 'big 40000 150'] + ([] if quick else ['big 40000 33', 'big 70000 300', 'big 66000 1'])
        rc, o, e = ctx.run([exe], inp=('\n'.join(bigs) + '\n').encode(), timeout=1500)
        bl = o.decode('latin1').splitlines()
        for k, b in enumerate(bigs):
            line = bl[k] if k < len(bl) else 'big CRASH (process died)'
            ctx.cov['evaluations'] += 1
            ctx.count('large-table')
            if line != 'big ok':
                ctx.report('impl-vs-spec', {'op': 'large-table', 'observed': 'crash' if ('CRASH' in line or 'TIMEOUT' in line) else 'image-or-contents-wrong'},
                           'static hash table with %s slots: %s' % (b.split()[1], line[4:200]), {'ops': [b], 'impl': line})
        # (b) the image must be a function of the operation history alone: same history, two different stack paintings
        sub = [(hdr, [x for o2 in ops for x in ((o2, 'raw') if o2.split()[0] in ('put', 'del', 'delidx', 'clear') else (o2,))]) for hdr, ops in hists[:30 if quick else 200]]
        lines = []
        for hdr, ops in sub:
            lines += hdr + ops
        data = ('\n'.join(lines) + '\n').encode()
        outs = []
        for pat in ('17', '119'):
            rc, o, e = ctx.run([exe], inp=data, timeout=900, env=dict(os.environ, QV_PAINT=pat))
            outs.append([l for l in o.decode('latin1').splitlines() if l.startswith('raw ')])
        ctx.cov['evaluations'] += len(outs[0])
        ctx.count('raw-image-determinism', len(outs[0]))
        if outs[0] != outs[1]:
            k = next((i for i, (a, b) in enumerate(zip(outs[0], outs[1])) if a != b), 0)
            ctx.report('impl-vs-spec', {'op': 'put', 'observed': 'image-depends-on-stack-contents'},
                       'the bytes of the region differ between two runs of the same history with differently painted stacks (uninitialised automatic storage, possibly process addresses, is copied into the image)',
                       {'ops': lines[:60], 'first_differing_raw_index': k, 'runs': [outs[0][k] if k < len(outs[0]) else '', outs[1][k] if k < len(outs[1]) else '']})
    ctx.cov['exhaustive_note'] = 'all put/del histories of bounded depth on small tables (%d histories), in addition to random histories on capacities 2..64' % len(ex)
    ctx.cov['correspondence_mismatches'] = nb
    ctx.cov['traces_validated_against_impl'] = len(hists) + len(ex)
    ctx.assumptions += ['home slot = murmur3_32(key) mod capacity computed by the check (Python) and passed to the model; a wrong value would show as a slot mismatch',
                        'no two keys of a history with equal length and 16-byte prefix have the same MD5',
                        'region placed between inaccessible pages; relocation copies it to another address/alignment and attaches a fresh handle with memsize 0']
    ctx.finish('random histories of put/get/del/delidx/walk/size/clear (+relocation of the region) on capacities 2..64 with keys forced to collide, key lengths around the 16-byte limit up to 65535, '
               'value lengths around every slot boundary; plus all put/del histories of bounded depth on small tables; every op: implementation vs extracted ideal bounded map (monitor, incl. an independent '
               'well-formedness check of the dumped image) and vs extracted image model slot by slot; distinct_nontrivial = distinct (capacity, image) pairs')


def harr_tiny_ctor(ctx, exe, kind, crash_only):
    """constructor on regions too small for the header and one slot (exact size, inaccessible page behind): it must refuse and
    write nothing past the region.  crash_only: report only accesses outside the region (C11), not a wrongly accepted size (C07)."""
    hdr_slot = 12 + 84
    try:
        cs = open(os.path.join(COQ, 'Gen', 'Consts.v')).read()
        hdr_slot = int(re.search(r'HARR_HDRSZ : nat := (\d+)', cs).group(1)) + int(re.search(r'HARR_SLOTSZ : nat := (\d+)', cs).group(1))
    except Exception:
        pass
    tops = ['tiny %d' % n for n in range(1, hdr_slot + 40)]
    rc, o, e = ctx.run([exe], inp=('\n'.join(tops) + '\n').encode(), timeout=120)
    tl = o.decode('latin1').splitlines()
    for n, line in zip(range(1, hdr_slot + 40), tl):
        ctx.cov['evaluations'] += 1
        ctx.count('ctor-tiny')
        if line in ('CRASH', 'TIMEOUT') or (not crash_only and n < hdr_slot and line != 'null'):
            sig = {'op': 'ctor', 'observed': 'accepts-or-overruns-too-small-region'}
            if crash_only:
                sig = {'container': 'harr', 'op': 'ctor', 'observed': 'crash-outside-region'}
            ctx.report(kind, sig, 'qhasharr() on a %d-byte region (< header + one slot = %d): %s' % (n, hdr_slot, line), {'ops': ['tiny %d' % n], 'impl': line})
            break


def harr_region_engine(ctx, nh, kinds, why):
    """Extra search engine for other properties (C11: the static table never touches a byte outside the user's region;
    C12: values come back byte for byte with their exact length): random histories on the guard-paged region, reporting
    only monitor failures whose `observed` starts with one of `kinds`."""
    exe, msg = ctx.cc('h_harr', CORE_SRCS, ['h_harr.c'])
    if exe is None:
        ctx.broken.append(('obligation:build-h_harr', msg))
        return
    rng = ctx.rng
    if 'crash' in kinds:
        harr_tiny_ctor(ctx, exe, 'impl-vs-property', True)
    hists = [gen_history(rng, rng.choice([2, 3, 4, 5, 8, 9, 12]), 100, rng.choice([3, 5, 8, 14]), 0.05) for _ in range(nh)]
    lines, index = [], []
    for hi, (hdr, ops) in enumerate(hists):
        lines += hdr
        for oi, o in enumerate(ops):
            lines.append(o)
            if not o.startswith('reloc'):
                index.append((hi, oi))
    data = ('\n'.join(lines) + '\n').encode()
    rc1, o1, e1 = ctx.run([exe], inp=data, timeout=900)
    rc2, o2, e2 = ctx.driver(['harr'], inp=data, timeout=900)
    il = o1.decode('latin1').splitlines()
    sl = o2.decode('latin1').splitlines()[1::2]
    failed = set()
    for n, (hi, oi) in enumerate(index):
        hdr, ops = hists[hi]
        cap = int(hdr[0].split()[1])
        a = il[n] if n < len(il) else 'MISSING'
        sp = sl[n] if n < len(sl) else 'MISSING'
        ctx.cov['evaluations'] += 1
        ctx.count('harr-region:' + ops[oi].split()[0])
        if hi in failed:
            continue
        sig = monitor(ops[oi], a, sp, cap)
        if sig is not None and any(sig['observed'].startswith(k) for k in kinds):
            failed.add(hi)
            sig = dict(sig, container='harr')
            ctx.report('impl-vs-property', sig, 'static hash table (%s): %s %s' % (why, sig['op'], sig['observed']),
                       {'ops': hdr + ops[:oi + 1], 'failing_op': ops[oi], 'impl': a[:600], 'spec': sp[:600]})
