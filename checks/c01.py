from treecommon import tree_check
import os
def run(ctx, replay=None):
    props = ['Properties_C01'] if os.path.exists(os.path.join(os.path.dirname(os.path.abspath(__file__)), '..', 'coq', 'Properties_C01.v')) else []
    tree_check(ctx, props, 'C01', replay)
