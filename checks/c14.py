# C14 - every public operation returns with the container lock released.
from vlib import *

def run(ctx, replay=None):
    ok = ctx.proofs(['Properties_C14'])
    # which functions does the checker reject on the current source?  (search for the concrete function/path)
    names, rejected = [], []
    probe = ctx.path('probe.v')
    open(probe, 'w').write('From Coq Require Import List String.\nFrom QV.Conc Require Import LockAst LockCheck.\nFrom QV.Gen Require Import LockAst.\nLocal Open Scope string_scope.\n'
                           'Eval vm_compute in String.concat "," (map fst public_api).\n'
                           'Eval vm_compute in String.concat "," ("#" :: map fst (filter (fun p => negb (lock_balanced (snd p) && balanced_at false (1, true) (snd p))) public_api)).\n')
    ctx.coq_make(['Gen/LockAst.vo', 'Conc/LockCheck.vo'])
    rc, out = sh(['timeout', '300', 'coqc', '-q', '-Q', COQ, 'QV', 'probe.v'], cwd=ctx.scratch, timeout=320)
    strs = re.findall(r'=\s*"([^"]*)"', out.replace('\n', ''))
    strs = [re.sub(r'\s+', '', x) for x in strs]
    if rc == 0 and len(strs) >= 2:
        names = [x for x in strs[0].split(',') if x]
        rejected = [x for x in strs[1].split(',') if x and x != '#']
    else:
        ctx.broken.append(('obligation:probe', 'could not evaluate the checker on the translated functions:\n' + out[-1500:]))
    ctx.cov['evaluations'] = len(names)
    for n in names:
        ctx.distinct.add(n)
    for fn in rejected:
        # concrete finding: the function and the source lines of its returns
        ctx.report('obligation-with-witness', {'function': fn, 'observed': 'lock-depth-differs-at-exit'},
                   'the lock-structure checker rejects %s: some path returns with a different lock depth (or the translator cannot read it)' % fn,
                   {'function': fn, 'how': 'coq/Gen/LockAst.v f_%s; evaluate lock_balanced on it; inspect early returns between lock and unlock in the source' % fn})
    # run-time witness search: lock holder outlasts the waiter's retry limit, then everybody must get through
    exe, msg = ctx.cc('h_conc', CORE_SRCS, ['h_conc.c'])
    if exe is None:
        ctx.broken.append(('obligation:build', msg))
    else:
        rc, o, er = ctx.run([exe, 'contend'], timeout=60)
        ctx.cov['evaluations'] += 1
        line = (o.decode('latin1').strip().splitlines() or ['(no output, exit %s)' % rc])[-1]
        ctx.cov['contention_scenario'] = line
        if rc != 0:
            ctx.report('schedule', {'scenario': 'contend', 'observed': 'lock-never-released'}, 'contention scenario: ' + line[:200],
                       {'cmd': 'h_conc contend', 'output': (o + er).decode('latin1')[-1500:]})
        rc, o, er = ctx.run([exe, 'nested'], timeout=120)
        ctx.cov['evaluations'] += 1
        line = (o.decode('latin1').strip().splitlines() or ['(no output, exit %s)' % rc])[-1]
        ctx.cov['nested_scenario'] = line
        if rc != 0:
            ctx.report('schedule', {'scenario': 'nested', 'observed': 'caller-lock-released-by-inner-operation'}, 'nested-use scenario: ' + line[:200],
                       {'cmd': 'h_conc nested', 'output': (o + er).decode('latin1')[-1500:]})
    ctx.sample({'functions_checked': names[:12]})
    ctx.cov['functions'] = len(names)
    ctx.cov['rejected'] = rejected
    ctx.assumptions += ['Q_MUTEX_ENTER returns only after a successful trylock (depth+1), Q_MUTEX_LEAVE decrements; recursive pthread mutex',
                        'the translator reads every construct it meets or emits Unsupported, which the checker rejects']
    ctx.finish('one obligation per public function of the lockable containers: verified checker evaluated on the control-flow abstraction regenerated from clang\'s AST; '
               'evaluations = functions checked; a rejected function is reported with its name as the replay')
