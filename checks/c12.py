# C12 - containers own private copies; returned copies are independent.
#   obligations    : Properties_C12.v (put/add/push keep only blocks allocated in the call and filled from the caller; returned blocks are never touched again)
#   monitor        : harness/h_api.c: every caller buffer is an exact-size heap block, overwritten and freed right after the call; every returned copy is kept and
#                    re-inspected after each later op and after the container is released; contents and results compared byte for byte with a plain reference model
#                    (values with embedded / trailing NULs, zero-filled, 0xff, long)
#   correspondence : recorded events (who allocated, copied from where, what was handed out) vs extracted scripts
from alloccommon import *


def run(ctx, replay=None):
    quick = ctx.tier == 'quick'
    exe = prepare(ctx, ['Properties_C12'], 'h_api', CORE_SRCS, ['h_api.c'], wrap=WRAP, cov=True)
    if exe is None:
        ctx.finish('private copies / independent returned copies')
    if replay:
        globals()['replay_fn'](ctx, exe, replay, 'C12')
        ctx.finish('replay')
    rng = ctx.rng
    H = all_hists(rng, quick) + random_hists(rng, 700 if quick else 5000, 80 if quick else 250)
    good, sizes = evaluate(ctx, exe, H, 'C12')
    nret = sum(1 for h, recs in good for d in recs if 'ev' in d for e in d['ev'] if e.startswith('R'))
    ncp = sum(1 for h, recs in good for d in recs if 'cp' in d for e in d['cp'] if e.endswith('<C'))
    ctx.count('returned-copies-kept-and-reinspected', nret)
    ctx.count('copies-from-caller-buffers-observed', ncp)
    for h, recs in good[:: max(1, len(good) // 4)]:
        sample_hist(ctx, h, recs)
    if not quick:
        exa, msg = ctx.cc('h_api_asan', CORE_SRCS, ['h_api.c'], wrap=WRAP, san='asan', cflags=('-DQV_ASAN',))
        if exa is None:
            ctx.broken.append(('obligation:build-asan', msg))
        else:
            res, found = run_asan(ctx, exa, H, 'C12')
            ctx.count('asan-histories', len(res))
            for h, kind, err, _ in found:
                ctx.report('impl-vs-property', {'container': h.typ, 'observed': 'sanitizer', 'kind': kind.split(':')[-1].strip()}, 'sanitizer report: ' + kind, {'ops': h.lines(), 'stderr': err})
            for h, recs in res:
                for pids, sg, title, i in monitor(h, recs):
                    if 'C12' in pids:
                        ctx.report('impl-vs-property', {k: v for k, v in sg.items() if k not in ('alloc', 'expected')}, title + ' (asan build)', {'ops': h.lines(), 'failing_line': i})
    import harrcommon
    harrcommon.harr_region_engine(ctx, 40 if quick else 300, ('wrong-result', 'wrong-entries'), 'values byte for byte with exact length')
    ctx.finish('private copies and independent returned copies: ownership theorems on the ledger; tie = caller buffers scribbled and freed after every call, returned copies '
               're-inspected after later mutations and after release, byte-exact reference comparison, event correspondence with the extracted scripts',
               extra_cov={'gcov_anchor_functions': gcov_report(ctx, 'h_api'),
                          'not_exhibited_by_the_model': 'aliasing is a run-time fact: observed by the scribble-and-free discipline (plain build: quarantined freed blocks are '
                                                        'filled with 0xDD; ASan build in the thorough tier), not derivable from a value-based model'})


replay_fn = replay
