# C17, parser half: the INI-style parser (qconfig.c) and the Apache-style parser (qaconf.c) terminate, stay inside their
# buffers and deliver a result or an error on arbitrary input.
#
#   run_conf(ctx, exe=None)   called from checks/c17.py after  prepare(ctx, [..., 'Properties_C17_conf'], ...).
#
# It builds its own harness (h_conf.c; `exe` is accepted for symmetry and used when it is an h_conf build), runs
#   * all strings up to length 4 (quick) / 5 (thorough) over the significant alphabet of each format, alone and behind a
#     prologue that defines self-referential values, plus hostile hand-written inputs and mutated valid documents,
#   through the guard-page/watchdog build AND the extracted model (correspondence: same answer, never CRASH/TIMEOUT/FUEL),
#   * the same inputs through an ASan+UBSan build and a -O0 build (failing-input search engines: any sanitizer report,
#     crash or timeout is a concrete C17 violation).
# Replay files written from here carry 'area': 'conf' (harness h_conf / driver area conf) next to 'ops'; replay_conf(ctx, path)
# re-runs them.
# Standalone:  python3 checks/c17_conf.py [quick|thorough]   (builds proofs for Properties_C17_conf only).
import sys, os
sys.path.insert(0, os.path.join(os.path.dirname(os.path.abspath(__file__)), '..', 'tools'))
from confcommon import *

INI_PROLOGUE = b'a=${a}\n1=x${1}{\n'


def gen_inputs(ctx):
    quick = ctx.tier == 'quick'
    rng = ctx.rng
    ini, ac = [], []
    n = 4 if quick else 5
    for k in range(0, n + 1):
        for p in itertools.product(sorted(set(INI_SIG)), repeat=k):
            s = bytes(p)
            if k == n and rng.random() < (.75 if quick else .6):
                continue
            ini.append(s)
            if k <= n - 1:
                ini.append(INI_PROLOGUE + s)
    for k in range(0, n + 1):
        for p in itertools.product(sorted(set(AC_SIG)), repeat=k):
            s = bytes(p)
            if k == n and rng.random() < (.75 if quick else .5):
                continue
            ac.append(s)
    # grammar-aware mutation of valid documents (arbitrary length)
    docs = [gen_ini_doc(rng, [b'HOME', b'QV_UNSET']) for _ in range(150 if quick else 1500)]
    sl, _ = run_model(ctx, [enc_ini_doc(*d) for d in docs])
    for l in sl:
        w = l.split(' ')
        if len(w) >= 2:
            t = unhex(w[1])
            for _ in range(3):
                ini.append(mutate(rng, t, INI_SIG))
    ini += INI_HOSTILE
    cases = []
    for _ in range(150 if quick else 1500):
        table = gen_table(rng)
        flags = rng.choice([0, 1, 2, 3])
        cases.append((flags, 0, table, gen_aconf_doc(rng, table, flags)))
    sl, _ = run_model(ctx, [enc_aconf_doc(*c) for c in cases])
    acm = []
    for c, l in zip(cases, sl):
        t = unhex(l.split(' ')[1])
        for _ in range(3):
            acm.append((c[0], c[2], mutate(rng, t, AC_SIG)))
    return ini, ac, acm


def setup_for(ops, k):
    """the ops an op depends on: the environment line and the latest include-file definition before it"""
    inc = [o for o in ops[:k] if o.startswith('incfile ')]
    return [ops[0]] + inc[-1:]


def run_conf(ctx, exe=None):
    quick = ctx.tier == 'quick'
    if exe is None or 'h_conf' not in os.path.basename(exe):
        exe, msg = build(ctx, 'h_conf17')
        if exe is None:
            ctx.broken.append(('obligation:build-h_conf', msg))
            return
    ini, ac, acm = gen_inputs(ctx)
    ops = ['env %s %s' % (hx(b'HOME'), hx(b'/h'))]
    ops += ['ini 61 ' + hx(s) for s in ini]
    # the file entry point: qconfig_parse_file scans the whole text for the include directive first; an occurrence that is
    # not at the start of a line is ordinary text (in a comment, in a value, indented), with and without a final newline
    mid = [b'a=1\n# see @INCLUDE other.conf', b'a=1\n# see @INCLUDE other.conf\n', b'v=x @INCLUDE y', b'v=x @INCLUDE y\n', b'  @INCLUDE inc.conf',
           b'  @INCLUDE inc.conf\n', b'a=1\n\t@INCLUDE ', b'k=@INCLUDE @INCLUDE ', b'[s]\nn=1 @INCLUDE z\nm=2', b'x @INCLUDE', b'@INCLUDEx=1', b'a=b\n @INCLUDE \n']
    ops += ['inif 61 ' + hx(s) for s in mid] + ['inif 61 ' + hx(s) for s in ini[:: max(1, len(ini) // 150)] if b'@INCLUDE ' not in s]
    # include lines that resolve to an existing file, padded with blanks up to and beyond the size of the path buffer (PATH_MAX):
    # the directive text is copied back into that buffer for the replacement.  The model gets the text with the file inlined.
    inc = b'inc=1\n'
    ops.append('incfile ' + hx(inc))
    for pad in [0, 1, 7] + list(range(4060, 4100)) + [4200, 9000]:
        for padc, tail in ((b' ', b'\nafter=2\n'), (b'\t', b'')):
            line = b'@INCLUDE qvinc.conf' + padc * pad
            doc = b'before=0\n' + line + tail
            inl = doc.replace(line, inc) if len(line) < 4096 else None
            # lines too long for the path buffer are refused (NULL): nothing to inline, the model is given the refusal's equivalent
            ops.append('inif 61 ' + hx(doc) + ('\tinif 61 ' + hx(inl) if inl is not None else '\tnullres'))
    # the directive text also occurs earlier in the file where it is NOT a directive (in a comment, in a value): the replacement is
    # global, so those copies are rewritten too and the text in front of the directive changes length (short include file: it shrinks)
    for pad in (0, 3, 40, 400):
        line = b'@INCLUDE qvinc.conf' + b' ' * pad
        for doc in (b'# ' + line + b'\n' + line + b'\nz=9\n',
                    b'v=see ' + line + b'\n# x ' + line + b'\n' + line + b'\n' + line + b'\nlast=1',
                    b'a=1\n;' + line + b'\n' + line):
            ops.append('inif 61 ' + hx(doc) + '\tinif 61 ' + hx(doc.replace(line, inc)))
    # a file that includes itself (directly, or in a cycle of length one through the included file): must end with a refusal
    ops.append('incfile ' + hx(b'x=1\n@INCLUDE qvinc.conf\n'))
    ops.append('inif 61 ' + hx(b'a=0\n@INCLUDE qvinc.conf\nb=2\n') + '\tnullres')
    ops.append('incfile ' + hx(inc))
    tbl = enc_table(AC_C17_TABLE)
    for s in ac:
        ops.append('ac 0 0 %s %s' % (tbl, hx(s)))
        ops.append('ac 3 0 %s %s' % (tbl, hx(s)))
    for t in AC_HOSTILE:
        for f, d in ((0, 0), (3, 0), (2, 1)):
            ops.append('ac %d %d %s %s' % (f, d, tbl, hx(t)))
    ops += ['ac %d 0 %s %s' % (f, enc_table(t), hx(x)) for f, t, x in acm]
    # ---- correspondence: guard-page build vs model
    il, ml, err = both_conf(ctx, exe, ops, env={'QV_WATCHDOG': '5'})
    if err and 'driver exit' in err:
        ctx.broken.append(('correspondence:conf17-model-run', err))
    nbad = 0
    for k, op in enumerate(ops):
        a = il[k] if k < len(il) else 'MISSING'
        m = ml[k] if k < len(ml) else 'MISSING'
        ctx.cov['evaluations'] += 1
        kind = op.split(' ')[0]
        ctx.count('conf-' + kind)
        if k % 97 == 0:
            ctx.distinct.add(op)
        if a in ('CRASH', 'TIMEOUT', 'DIED'):
            obs = 'timeout' if a == 'TIMEOUT' else 'crash'
            ctx.report('impl-vs-spec', {'op': kind, 'observed': obs}, '%s parser: %s on arbitrary input' % ('INI-style' if kind in ('ini', 'inif') else 'Apache-style', obs),
                       {'area': 'conf', 'ops': setup_for(ops, k) + [op], 'actual': a})
        elif a != m:
            nbad += 1
            if nbad <= 6:
                ctx.broken.append(('correspondence:conf17-' + kind, '%s: impl=%s model=%s' % (op[:300], a[:200], m[:200])))
        if m in ('CRASH', 'FUEL'):
            ctx.broken.append(('obligation:conf17-model', 'the model itself reports %s on %s (contradicts the safety theorems)' % (m, op[:200])))
    ctx.sample({'conf-op': ops[len(ops) // 3][:200], 'impl': il[len(ops) // 3][:200] if len(il) > len(ops) // 3 else ''})
    # ---- failing-input search: sanitizer build and unoptimised build
    san_ops = ops if not quick else ops[:1] + [o for i, o in enumerate(ops[1:]) if i % 6 == 0 or len(o) > 200]
    o0_ops = san_ops if quick else san_ops[:1] + [o for i, o in enumerate(san_ops[1:]) if i % 3 == 0 or len(o) > 200]
    for name, kw, envx in (('h_conf_asan', {'san': 'asan'}, {'ASAN_OPTIONS': 'detect_leaks=0:abort_on_error=0:allocator_may_return_null=1', 'QV_WATCHDOG': '20'}),
                           ('h_conf_O0', {'cflags': ['-O0']}, {'QV_WATCHDOG': '5'})):
        x, msg = build(ctx, name, **kw)
        if x is None:
            ctx.broken.append(('obligation:build-' + name, msg))
            continue
        xops = san_ops if name == 'h_conf_asan' else o0_ops
        sl, deaths = run_ops(ctx, x, xops, env=envx)
        ctx.cov['evaluations'] += len(xops)
        ctx.count(name + '-ops', len(xops))
        for idx, tail in deaths:
            op = xops[idx]
            kind = op.split(' ')[0]
            obs = 'overread' if 'buffer-overflow' in tail and 'READ' in tail else 'crash'
            m = re.search(r'(ERROR: AddressSanitizer: [^\n]*|runtime error: [^\n]*|SUMMARY: [^\n]*)', tail)
            ctx.report('impl-vs-spec', {'op': kind, 'observed': obs},
                       '%s parser: %s under %s' % ('INI-style' if kind in ('ini', 'inif') else 'Apache-style', m.group(1) if m else 'process died', name),
                       {'area': 'conf', 'ops': setup_for(xops, idx) + [op], 'build': name, 'stderr': tail[-800:]})
        for k, l in enumerate(sl):
            if l in ('CRASH', 'TIMEOUT'):
                op = xops[k]
                kind = op.split(' ')[0]
                ctx.report('impl-vs-spec', {'op': kind, 'observed': 'timeout' if l == 'TIMEOUT' else 'crash'},
                           '%s parser: %s under %s' % ('INI-style' if kind in ('ini', 'inif') else 'Apache-style', l, name), {'area': 'conf', 'ops': setup_for(xops, k) + [op], 'build': name})
    # ---- directed: deeply nested sections (stack use of the recursion: 4 KiB line buffer per level)
    deep = []
    for depth in (200, 1500, 2500, 6000):
        deep.append('ac 2 0 - ' + hx(b'<a>\n' * depth))
    dl, deaths = run_ops(ctx, exe, deep, env={'QV_WATCHDOG': '10'})
    for k, op in enumerate(deep):
        a = dl[k] if k < len(dl) else 'MISSING'
        ctx.cov['evaluations'] += 1
        if a in ('CRASH', 'DIED', 'TIMEOUT'):
            depth = (200, 1500, 2500, 6000)[k]
            sig = {'op': 'ac', 'observed': 'crash' if a != 'TIMEOUT' else 'timeout'}
            if depth > 1000 and a != 'TIMEOUT':
                sig['when'] = 'nesting-depth>1000'
            ctx.report('impl-vs-spec', sig, 'Apache-style parser: %s on %d nested sections' % (a, depth), {'ops': [op[:60] + '... (<a>\\n x %d)' % depth], 'depth': depth})
    ctx.assumptions += ['parser inputs are NUL-free byte strings; INI input in an exactly-sized buffer before an inaccessible page, Apache-style input in a temporary file',
                        'heap over-reads inside the parsers\' own copies are searched for with the ASan+UBSan build; the uninitialised-pointer class with a -O0 build']


def replay_conf(ctx, path):
    """--replay for a file produced by run_conf: returns True when the implementation now behaves (no crash/timeout, equals the model)."""
    exe, msg = build(ctx, 'h_conf17')
    if exe is None:
        print(msg)
        return False
    d = json.load(open(path)).get('replay', {})
    ops = d.get('ops', [])
    good = True
    builds = [(exe, {'QV_WATCHDOG': '5'})]
    if d.get('build') == 'h_conf_asan':
        x, _ = build(ctx, 'h_conf_asan', san='asan')
        builds.append((x, {'ASAN_OPTIONS': 'detect_leaks=0', 'QV_WATCHDOG': '20'}))
    if d.get('build') == 'h_conf_O0':
        x, _ = build(ctx, 'h_conf_O0', cflags=['-O0'])
        builds.append((x, {'QV_WATCHDOG': '5'}))
    ml, _ = run_model(ctx, ops)
    for x, envx in builds:
        il, deaths = run_ops(ctx, x, ops, env=envx)
        for i, o in enumerate(ops):
            a = il[i] if i < len(il) else 'MISSING'
            m = ml[i] if i < len(ml) else 'MISSING'
            print('op    : %s\nimpl  : %s\nmodel : %s' % (o[:200], a[:200], m[:200]))
            if a in ('CRASH', 'TIMEOUT', 'DIED', 'MISSING') or a != m:
                good = False
    return good


if __name__ == '__main__':
    import vlib
    tier = sys.argv[1] if len(sys.argv) > 1 else 'quick'
    ctx = vlib.Ctx('C17', tier, int(os.environ.get('VERIF_SEED', '1') or 1))
    ctx.proofs(['Properties_C17_conf'])
    ok, o = ctx.coq_make(['Extract.vo'])
    if ok:
        ok, o = ctx.model_build()
    if not ok:
        ctx.broken.append(('obligation:model-build', o[-1500:]))
    run_conf(ctx)
    ctx.finish('parser half of C17 only (standalone run of checks/c17_conf.py)')
