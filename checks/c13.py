# C13 - the thread-safe option makes concurrent use linearizable.
from vlib import *

def run(ctx, replay=None):
    ok = ctx.proofs(['Properties_C13'])
    # which operations does the discipline checker reject on the current source?
    probe = ctx.path('probe.v')
    open(probe, 'w').write('From Coq Require Import List String.\nFrom QV.Conc Require Import LockAst LockCheck.\nFrom QV.Gen Require Import LockAst.\nLocal Open Scope string_scope.\n'
                           'Eval vm_compute in String.concat "," (map fst c13_api).\n'
                           'Eval vm_compute in String.concat "," ("#" :: map fst (filter (fun p => negb (well_locked (snd p))) c13_api)).\n')
    ctx.coq_make(['Gen/LockAst.vo', 'Conc/LockCheck.vo'])
    rc, out = sh(['timeout', '300', 'coqc', '-q', '-Q', COQ, 'QV', 'probe.v'], cwd=ctx.scratch, timeout=320)
    strs = [re.sub(r'\s+', '', x) for x in re.findall(r'=\s*"([^"]*)"', out.replace('\n', ''))]
    names, rejected = [], []
    if rc == 0 and len(strs) >= 2:
        names = [x for x in strs[0].split(',') if x]
        rejected = [x for x in strs[1].split(',') if x and x != '#']
    else:
        ctx.broken.append(('obligation:probe', 'could not evaluate the checker:\n' + out[-1500:]))
    for n in names:
        ctx.distinct.add(n)
    ctx.cov['evaluations'] = len(names)
    ctx.cov['operations_checked'] = len(names)
    ctx.cov['rejected'] = rejected
    # failing-schedule / data-race search: multiset stress on a plain build and on a ThreadSanitizer build
    quick = ctx.tier == 'quick'
    exe, msg = ctx.cc('h_conc', CORE_SRCS, ['h_conc.c'])
    exet, msgt = ctx.cc('h_conc_tsan', CORE_SRCS, ['h_conc.c'], san='tsan')
    if exe is None or exet is None:
        ctx.broken.append(('obligation:build', msg or msgt))
        ctx.finish('build failed')
    env = dict(os.environ, TSAN_OPTIONS='halt_on_error=0 exitcode=66 report_signal_unsafe=0')
    concrete = {}
    runs = 0
    for kind in ['handoff', 'twotables', 'bounded', 'vector', 'list', 'tree', 'hash', 'listtbl']:
        for rep in range(3 if quick else 20):
            T, K = (3, 120) if rep % 2 == 0 else (4, 60)
            sd = ctx.seed * 100 + rep
            for which, e in (('plain', exe), ('tsan', exet)):
                if which == 'tsan' and rep >= (2 if quick else 6):
                    continue
                args = [kind, str(T), str(K), str(sd)]
                if kind == 'handoff':             # list / vector in turn, operations, seed: consecutive operations from different threads
                    args = [kind, str(rep % 2), str(3000 if quick else 40000), str(sd)]
                if kind == 'bounded':             # T threads, rounds, limit: one place free, all threads add at once
                    args = [kind, '4', str(400 if quick else 3000), str(2 + rep % 3)]
                rc, o, er = ctx.run([e] + args, timeout=300, env=env)
                runs += 1
                ctx.cov['evaluations'] += 1
                ctx.count('%s:%s' % (which, kind))
                txt = o.decode('latin1') + er.decode('latin1')
                # the tree's global statistics counters (_q_treetbl_flip_color_cnt, _q_treetbl_rotate_left_cnt, ...) are bumped by
                # every table without synchronisation: a race on debugging statistics, not on container state - reports whose
                # location is one of those globals are set aside (and counted)
                blocks = [b for b in txt.split('==================') if 'ThreadSanitizer: data race' in b]
                benign = [b for b in blocks if re.search(r"Location is global '_q_treetbl_\w+_cnt'", b)]
                if benign:
                    ctx.count('tsan-reports-on-statistics-counters-set-aside', len(benign))
                txt_real = '=================='.join(b for b in blocks if b not in benign)
                if 'ThreadSanitizer: data race' in txt_real:
                    txt = txt_real
                    m = re.search(r'data race.*?\n(?:.*\n){0,12}?\s+#0 (\S+)', txt)
                    fn = re.findall(r'#\d+ (q\w+) ', txt)
                    sig = {'container': kind, 'observed': 'data-race', 'function': (fn[0] if fn else '?')}
                    if ctx.report('race', sig, 'data race on %s state in %s' % (kind, sig['function']),
                                  {'cmd': '%s %s %d %d %d (ThreadSanitizer build)' % ('h_conc', kind, T, K, sd), 'report': txt[:3000]}):
                        concrete[kind] = True
                elif rc != 0 and not (rc == 66 and benign and o.decode('latin1').strip().endswith(tuple(['OK %s' % kind, 'OK %s T=%d K=%d' % (kind, T, K), 'OK handoff']))):
                    line = (o.decode('latin1').strip().splitlines() or ['(no output, exit %d)' % rc])[-1]
                    sig = {'container': kind, 'observed': 'not-linearizable' if line.startswith('FAIL') else 'crash'}
                    if ctx.report('schedule', sig, 'concurrent run on %s: %s' % (kind, line[:200]),
                                  {'cmd': 'h_conc %s %d %d %d (%s build)' % (kind, T, K, sd, which), 'output': txt[-2000:]}):
                        concrete[kind] = True
    for fn in rejected:
        ctx.report('obligation-with-witness', {'function': fn, 'observed': 'access-outside-lock-or-second-section'},
                   'the lock-discipline checker rejects %s: some path accesses mutable container state at lock depth 0 (or locks twice)' % fn,
                   {'function': fn, 'how': 'coq/Gen/LockAst.v f_%s; evaluate well_locked on it' % fn})
    ctx.sample({'operations_checked': names[:10], 'stress_runs': runs})
    ctx.assumptions += ['sequentially consistent memory for data-race-free programs; recursive pthread mutex semantics (trylock succeeds iff free or owned)',
                        'interleaving granularity of the theorem: lock operations and individual shared accesses',
                        'stress runs depend on the OS scheduler: a failure found there is a concrete witness, absence of one is not the reason the check passes']
    ctx.finish('one obligation per operation of the property\'s mix (verified discipline checker on the regenerated control-flow abstraction) + generic linearizability theorem; '
               'search engines for a failing schedule: multi-threaded multiset stress on plain and ThreadSanitizer builds (3-4 threads, all five containers)')
